#!/usr/bin/env python3
"""Writes MANIFEST.json from the table below (single source of truth for what is claimed)."""
import json
import os

HERE = os.path.dirname(os.path.abspath(__file__))
VERIF = os.path.dirname(HERE)

NOTE_COMMON = ("Trusted: Lean kernel; axioms limited to propext/Classical.choice/Quot.sound (audited per run); the hand-written model, tied to "
               "/repo by the correspondence run (sampled) and the translator (constants/orders regenerated every run); harness + verif hooks.")

CLAIMED = {
    "C05": dict(
        text="Proof (Lean 4) that the model's run is a function of (machines, fractions, start, oracle, history) only, that a clone continues identically, "
             "of the unfolding equations that are the documented semantics, and that a call takes nothing from the previous call beyond runtime and accounting "
             "(stale action slots, stale once-per-call flags and the previous clock value are irrelevant; a prefix of the history returns a prefix of the results); the implementation is tied to that model by a correspondence on actions, "
             "full internal snapshot and internal log after every call, plus a harness-side double run and mid-history clone.",
        ref="5 (C05)",
        technique="Lean 4 theorems on a hand-written executable model + differential correspondence (snapshot/log/actions) against the Rust framework",
    ),
}

CLAIMED["C04"] = dict(
    text="Proof (Lean 4), for every machine set, every oracle (all seeds and every value a sampler can return, NaN/inf included) and every history "
         "with arbitrary batches: returned machine ids strictly increasing and existing (so distinct, at most one per machine, none without machines), "
         "each action is the projection (kind, bypass, replace, timer) of an action of a state of the machine it names, all timeouts/durations <= 24 h, "
         "END is absorbing across calls. The same decidable predicates run as a monitor on the implementation's traces; correspondence on actions. Monitor tied to the model (Proofs/MonitorAcceptA.lean): C04_monitor_accepts_model - C04.monitor returns none on the model's own trace (LL.modelTrace) for every machine set, configuration, oracle and history (validated or not), so both rules (per-call output contract, no action for a machine the previous snapshot shows in END) hold of the model in the monitor's vocabulary and the monitor cannot raise a false alarm on an implementation that agrees with the model.",
    ref="5 (C04)",
    technique="Lean 4 invariant proof over primitive steps of the framework model (Step/Reach/Run engine) + differential correspondence + spec monitor on implementation traces",
)

CLAIMED["C02"] = dict(
    text="Proof (Lean 4), for every machine set, fractions, oracle, every prior history (single events or batches) and every single-event call: a returned "
         "SendPadding for machine m implies, with packet counts recomputed from the event history alone, budget not exhausted or both the machine's and the "
         "framework's padding fraction below their limits (fraction over zero packets counts as below). Rests on a proved refinement: the model's accounting "
         "fields are a pure function of the reported events. The exact-rational form of the same predicate runs as a monitor on the implementation's traces. Monitor tied to the model (Proofs/MonitorAcceptC.lean): C02_monitor_accepts_model - C02.monitor returns none on the model's own trace (LL.modelTrace) for every machine set, configuration, oracle and history (batches, unknown ids, faulting calls) with fewer than 2^53 reported packets, so it cannot raise a false alarm on an implementation that agrees with the model; the bound is exact: C02_monitor_rejects_beyond_2p53 is a kernel-checked model trace with 2^53+2 packets that the exact-fraction monitor rejects (the u64 to f64 conversion of the counts rounds).",
    ref="5 (C02)",
    technique="Lean 4: gate invariant over primitive steps + accounting refinement theorem; differential correspondence; exact-rational spec monitor on implementation traces",
)

CLAIMED["C03"] = dict(
    text="Proof (Lean 4), for every machine set, fractions, oracle, every prior history with arbitrary (also backwards) clock values and every single-event call: "
         "a returned BlockOutgoing for machine m implies replace-while-active, or blocked time (recomputed from the BlockingBegin/End reports and timestamps alone, "
         "ongoing block counted to now, negative spans as 0) below allowed_blocked_microsec, or the blocked share below both the machine's and the framework's fraction. "
         "Rests on the proved accounting refinement. The share is the double the code computes; C03_share_exact / C03_share_band relate it to the exact rational share (below in doubles implies exact share < limit (1 + 2^-49); the two tests agree outside the band limit (1 +- 2^-50)) for durations below 2^53 s. "
         "The same decidable predicate runs as a monitor on the implementation's traces under a virtual clock. Monitor tied to the model (Proofs/MonitorAcceptC.lean): C03_monitor_accepts_model - C03.monitor returns none on the model's own trace (LL.modelTrace) for every machine set, configuration, oracle and history (batches, arbitrary and backward clocks, faulting calls) with no hypothesis: its recount of blocked time is the model's accounting and blockOK is the gate's predicate.",
    ref="5 (C03)",
    technique="Lean 4: gate invariant over primitive steps + accounting refinement theorem; differential correspondence under a virtual clock; spec monitor on implementation traces",
)

CLAIMED["C20"] = dict(
    text="Proof (Lean 4) on a byte-level model of the C API whose struct layouts are regenerated from maybenot.h and lib.rs on every run: decode(encode(convert a)) = view a field for field "
         "(kind, machine, bypass, replace, timer, seconds/nanoseconds split), the written count equals the number of framework actions and is <= num_machines (discharged from C04), nothing beyond "
         "index count is written, event conversion is exact and injective, null pointers / bad arguments give the specified result codes; header/Rust layout consistency is a proof obligation. "
         "The five extern \"C\" functions are driven through the rlib with canaries around the output buffer and compared byte-wise with the model and with the Rust framework.",
    ref="7 (C20)",
    technique="Lean 4 theorems on a header-derived C layout model + translator (maybenot.h, lib.rs) + differential correspondence on raw output bytes with canaries",
    note="Trusted in addition: x86-64 SysV layout rules as modelled in Ffi.lean; real memory safety of the unsafe writes beyond the byte-level contract, OS RNG and Instant::now() are outside the model; machines are deterministic so the API's OS-seeded RNG cannot matter.",
)

CLAIMED["C01"] = dict(
    text="Proof (Lean 4), for every validated machine set, fractions, oracle and history with arbitrary batches, unknown/huge ids and arbitrary (also backwards) clocks: "
         "no index is ever out of range, the transition recursion needs at most 6 of its 8 fuel units (CounterZero guard), every reached state is valid; the only fault the "
         "model can raise is the checked Duration addition of the blocking accounting, shown reachable by a kernel-evaluated witness that panics the real code too (known finding F6), "
         "and excluded (C01_total: no fault of any kind) whenever all clock values lie in a window of width B with (calls+1)*B <= Duration::MAX, by a potential argument (blocked + ongoing grows by at most B per call). "
         "The oracle abstracts the rand_distr samplers: a panic inside a sampler is outside the model and is caught by the monitor (known finding F12). "
         "The work bound is a theorem on the model's ghost log (at most 3(events+1)(machines+1) transition invocations per call, any machines/oracle/batch); the monitor checks the implementation's hooked log against the bound and for panics. Monitor tied to the model (Proofs/MonitorAcceptA.lean): C01_monitor_work - the work-bound rule never fires on the model's own trace (LL.modelTrace) for every machine set, configuration, oracle and history; C01_monitor_model_iff - the monitor returns none exactly when neither Framework::new nor any call reports a fault; C01_monitor_accepts_model under the hypotheses of C01_total, both shown necessary by kernel-checked witnesses (C01_monitor_rejects_overflow = finding F6, C01_monitor_rejects_unvalidated).",
    ref="5 (C01)",
    technique="Lean 4: safety induction over the mutually recursive transition/update_counter with a fuel measure + bounded call-level walker; differential correspondence incl. panic class; monitor for the work bound",
)

CLAIMED["C11"] = dict(
    text="Proof (Lean 4): bincode round trip dec(enc m ++ r) = (m, r) for every representable machine (floats as raw bits, NaN payloads survive), base64 round trip, "
         "fromStr(serialize m) = m and identical re-serialisation (hence name) for every valid machine whose encoding fits 1 MiB under the stated zlib contract (a hypothesis, checked "
         "against the real flate2 path on every run), fromStr never panics and only yields validated machines for every string and every zlib behaviour, the legacy v1 parser never "
         "indexes out of bounds. Correspondence on valid, hostile, v1 and bomb streams; peak allocation of from_str is measured with a counting allocator on every hostile and bomb string and compared with a bound built from the model (read buffer, copies of the input, serde's cautious preallocation, and the number of states the model's decoder can complete from the bytes read): exceeding it is a monitor failure. The memory half has a model-level theorem too (Proofs/CodecSize.lean): C11_decode_no_amplification - decodeMachine b = some m implies m.cells <= |b| with exact wire weights (19 header bytes, 16 per state, 25 per Dist, 1 per present vector, 5 per transition entry; attained on a 35-byte machine), C11_length_prefix_checked - a Vec length prefix exceeding the remaining bytes fails without iterating, and C11_fromStr_memory_model - for every zlib behaviour whose bounded read returns at most MAX bytes everything from_str builds is bounded (base64 output <= 3/4 |s|, decompressed <= MAX, cells + 19 <= MAX, 16 x states + 19 <= MAX, total <= |s| + 2 MAX) independent of how far the stream would expand; this counts cells, so type sizes, Vec growth and allocator overhead remain constant factors outside the model.",
    ref="6 (C11)",
    technique="Lean 4 structural round-trip proofs over a bincode/base64/v1-parser model with zlib as a parameter + differential correspondence (valid, mutated, bomb strings)",
    note="Trusted in addition: zlib (flate2/miniz_oxide) is a parameter with a stated contract, validated on every run; heap use is outside the model (measured only); bincode/serde derive output is modelled and validated on every generated machine.",
)

CLAIMED["C07"] = dict(
    text="Proof (Lean 4) of the limit logic of the model for all machines/oracles: no action of a limitable kind passes the limit predicates unless the state limit is > 0 (every path, incl. the zero-packet and replace paths), "
         "every such action ever put in a slot was gated at a positive limit, the limit is resampled exactly on a change of state index, a completion decrements by one and at 0 with a limited action withdraws the pending action and "
         "delivers LimitReached at once, other machines never touch the limit; and over whole calls and histories (C07_exhausted, C07_exhausted_history; any machines, any oracle): once the limit is 0 every later call returns at most a Cancel for the machine and leaves the limit at 0 "
         "until a resampling is logged, which happens only on a change of state index. The exact count is a theorem too (C07_completion_step, C07_countdown, C07_countdown_fire and the TimerBegin/BlockingBegin analogues): in a state without a transition on the completion event, "
         "k < L completions of the machine leave the state and set the limit to L - k with nothing in the slot and no LimitReached, and the L-th completion of a limited action logs the decrement to 0 and delivers LimitReached to the machine in that very call (L = 0 included); "
         "completions for other machines or unknown ids never change the machine's limit or state (C07_other_machine_completion), and over any history the number of decrements of a machine's limit is at most the number of its completions (C07_decrements_le_completions). "
         "The monitor is tied to the model by theorems as well (Proofs/LimitLog.lean, LimitStep.lean, LimitMonitor.lean, WalkExt.lean): C07_log_accepted (with C07_log_resample_exact / C07_log_decrement_exact) - for any machines, oracle, batch and state, "
         "the ghost log of every fault-free call passes C07.checkLog started from the snapshot before the call: a change of state index is directly followed by the limit assignment, a self-transition never is, every decrement logs the tracked limit minus one, and "
         "LimitReached follows directly exactly at 0 in a state whose action carries a limit; C07_log_own_completions, C07_log_single_completion, C07_log_no_limited_action (with the slot invariant of C07_slot_invariant) prove the monitor's other rules; "
         "C07_monitor_accepts_model: C07.monitor returns none on the model's own trace for every machine set, configuration, oracle and history, so the monitor can raise no false alarm on an implementation that agrees with the model, and the model satisfies C07 "
         "in the monitor's own vocabulary. The monitor on the implementation's hooked limit log and the correspondence tie the code to this.",
    ref="5 (C07)",
    technique="Lean 4 theorems on the limit predicates and the decrement/enter functions of the model + hooked limit log: spec monitor and differential correspondence on the implementation",
)
CLAIMED["C08"] = dict(
    text="Proof (Lean 4) of the counter logic of the model: updates saturate within u64, the operand is 1 / the saturating cast of the sample / the other counter's pre-transition value, an update reports zero exactly on non-zero -> zero with the "
         "machine's own guard flag unset (flags per machine, cleared every call), CounterZero is delivered to the same machine at once iff an update reported zero and its action takes precedence. "
         "Over a whole call a machine is delivered CounterZero at most twice, once per counter (C08_at_most_twice_per_call, potential argument on the ghost log), and the model's log of every call satisfies the monitor's own rules (C08_log_adjacent: checkLog and strayCZ accept it; C08_log_exact: "
         "a counter update is followed at once by the CounterZero delivery exactly when it takes a counter of that machine from non-zero to zero for the first time in the call; C08_log_cz_preceded; counters of every reachable state are u64: C08_counters_u64_run). "
         "Whole-history behaviour is tied to the code by the correspondence on counter values and the hooked counter log, and by the monitor from the property text. Monitor tied to the model (Proofs/MonitorAcceptB.lean): C08_call_values (every logged update equals the specified saturating operation on the specified operand) and C08_monitor_accepts_model - C08.monitor returns none on the model's own trace (LL.modelTrace) for every machine set, configuration, oracle and history, no hypothesis.",
    ref="5 (C08)",
    technique="Lean 4 theorems on the counter update functions of the model + hooked counter log: spec monitor and differential correspondence on the implementation",
)
CLAIMED["C09"] = dict(
    text="Proof (Lean 4): the pending-signal slot after any sequence of signalling transitions excludes x exactly when all came from x (however many) and is All once two distinct machines signalled; the delivery round visits every machine "
         "except a lone signaller exactly once in index order and the lone signaller once afterwards iff the round raised a new signal; counted on the model's ghost copy of the hook log, no machine receives more than one Signal per call "
         "and processing reported events delivers none. Exactness over a whole call (C09_call_delivers, C09_call_delivers_log, C09_call_deliveries; any machines, oracle, batch): with the signalling transitions read off the ghost log, "
         "no signaller: nobody receives a Signal; two distinct signallers: every machine exactly one; a lone signaller x: every other machine exactly one and x one iff the round's deliveries were answered by a signal, else none - also in the monitor's own "
         "vocabulary (deliveries to machines that have not ended). The implementation is tied to this by the correspondence of the internal log and by the monitor from the property text. Monitor tied to the model (Proofs/MonitorAcceptB.lean): C09_call_accepted, C09_events_sample_no_signal_event, C09_round_parts and C09_monitor_accepts_model - C09.monitor returns none on the model's own trace (LL.modelTrace) for every machine set, configuration, oracle and history, no hypothesis, including the hand-over of a deferred second-round signal between calls.",
    ref="5 (C09)",
    technique="Lean 4 theorems on the signal slot algebra, the unfolding of the delivery round and exact counting of deliveries on the ghost log over whole calls + spec monitor on the implementation's internal log + differential correspondence",
)
CLAIMED["C10"] = dict(
    text="Proof (Lean 4), full statement by simulation: for ANY two machine sets holding the same machine m at positions i and k (the solo run is the special case [m], 0), any history and the same history with ids renamed (i to k, neighbours to other or unknown ids), "
         "all times, all fractions: if m has no transition on Signal and the two random sources agree on what m can observe (e.g. m has deterministic sampling and draws lie in [0,1) - proved sufficient - or the sources are state-independent), then after every history "
         "the two frameworks agree on m's whole runtime and on the actions returned for m up to the machine id (C10_noninterference, C10_actions, C10_solo, C10_deterministic). Built from the frame half (a neighbour's steps leave m's component alone) and the locality half "
         "(m's own steps are a function of its component, the globals and the draws). The implementation is tied to the model by the correspondence on every framework case and by differential combined-vs-solo runs (harness ni cases).",
    ref="5 (C10)",
    technique="Lean 4 simulation theorem (frame + locality of every model function, lifted over folds, calls, histories and construction) + differential combined-vs-solo runs on the implementation + correspondence",
)

CLAIMED["C06"] = dict(
    text="Proof (Lean 4) over ALL 2^23 outcomes of the uniform draw, symbolically (a counting lemma, no enumeration): for every validated probability vector the number of outcomes selecting target i is exactly "
         "ceil(c_i 2^23) - ceil(c_{i-1} 2^23) for the f32 running sums c_i the code computes (monotone, proved via rne_mono), the remainder selects nothing, each share is within 2^-23 + 2^-24 of p_i, probability 1 is always taken, "
         "no vector never moves the machine; the w >> 9 bit model of rand's f32 draw is proved and validated exhaustively. Correspondence: State::sample_state under a counting RNG, boundary words in the quick tier, all 2^23 words for sets of vectors in both tiers. Framework level (Spec/C06.lean fwMonitor, Proofs/MonitorAcceptA.lean): C06_log_fresh_draws - for every machine set, oracle and history every log of the model's trace passes checkDraws: each transition lookup with a declared list, including nested CounterZero/LimitReached/Signal lookups, is directly followed by a draw of its own and by the sampling entry exactly when the declared probabilities assign a target to that draw; C06_monitor_accepts_model for oracles whose draws are among the 2^23 values k/2^23 (C06_drawInRange_iff; necessary by C06_monitor_rejects_bad_draw, true of the code by C06_draw01). The same monitor runs on the implementation's hooked log of framework cases (generators general, c08, c07).",
    ref="5 (C06)",
    technique="Lean 4 counting theorem over the whole draw space on the Rat-based IEEE model + exhaustive differential enumeration of all 2^23 draw outcomes against the closed form",
)
CLAIMED["C12"] = dict(
    text="Proof (Lean 4): Validate.machine m = true implies an independently written well-formedness predicate WF m (fractions real in [0,1], 0 < states <= STATE_MAX, targets existing or pseudo and distinct, probabilities real in (0,1] with f32 sum <= 1, "
         "every distribution's parameters valid per family), for the model of today's code (NaN-rejecting comparisons since fix 65165a2; for the previous comparisons the negation is proved with replayable NaN witnesses); from_str and Framework::new factor through the same "
         "judgement and Framework construction from accepted machines does not fault. Correspondence on adversarial machines through validate / Machine::new / from_str / Framework::new; monitor WF on whatever the implementation accepts.",
    ref="6 (C12)",
    technique="Lean 4 soundness proof of the validation model against an independent WF predicate + differential correspondence on adversarial numbers and crafted encodings + WF monitor",
)
CLAIMED["C13"] = dict(
    text="Proof (Lean 4), for every raw sampler output, start and max (NaN and infinities included): the clamped sample is never NaN, >= 0 and <= max when set; timeouts/durations <= 24 h, limits and counter operands < 2^64; every rand_distr constructor call made by "
         "dist_sample succeeds for validated parameters (none of the 11 unwraps nor the gen_range assertions can fire); rand's f64 uniform retry loop is modelled exactly, its result is < high, and promptness is a theorem: for every validated non-constant range every RNG word whose 52-bit unit value is <= 1/4 ends the loop at once (C13_uniform_quarter_terminates; all three IEEE roundings, subnormal, mixed-sign and full-width ranges), so at least 2^50+1 of the 2^52 equally likely mantissa values end each iteration whatever the discarded low bits are (C13_uniform_prompt): under a fair stream each iteration ends with probability > 1/4; the constant is sharp (C13_uniform_quarter_sharp: 1/4 + 2^-52 is rejected for adjacent doubles near the subnormal range). Termination inside rand_distr's samplers is "
         "outside the model: supervised runs (watchdog) on all families at validated corners under scripted prefixes are supporting evidence only.",
    ref="6 (C13)",
    technique="Lean 4 theorems on the clamp/cast model for arbitrary sampler outputs + exact model of rand's uniform f64/f32 conversion + differential correspondence with watchdog-supervised sampling",
    note="Trusted in addition: rand_distr sampler internals (ziggurat, BTPE, rejection loops) are a parameter (raw value) of the model; their termination is watchdog evidence, not a theorem.",
)

SIM_NOTE = ("Trusted in addition: the hand-written simulator model (lean/MbVerif/Sim: BinaryHeap in array layout, event order, network bottleneck, pick_next with explicit fuel, main loop) "
            "tied to lib.rs/network.rs/queue*.rs by exact-trace comparison of every generated run (8 runs per case: main, repeat, unfiltered, three filters, capped, sim()); the framework model supplies the machines' actions "
            "and the hook log of the run is the random oracle; Instant/Duration arithmetic is modelled as checked integers; integration delays are outside the properties and not modelled.")
CLAIMED["C14"] = dict(
    text="Proof (Lean 4) on the simulator model, composed statement (C14_identity, C14_identity_raw for raw traces with all direction tokens, C14_identity_sim for sim()): for every parsed trace whose s times and r times are in time order, every network delay, "
         "every filter combination and caps, no explicit packets-per-second limit, every oracle: if the run ended because all normal packets were processed (the caps did not bind), the returned trace satisfies C14.holds - the predicate the monitor evaluates on the "
         "implementation's output: only plain packet events, the client's TunnelSent at exactly every s time and TunnelRecv at exactly every r time, the server's mirror image shifted by the delay, ordered by time. Built from: the window-covering lemma (the trace-derived limit is never exceeded by the "
         "1 s sliding count, so the bottleneck adds nothing), the heap-order invariant of the bit-faithful BinaryHeap model (the served event is a minimum of all eight heaps, so nothing is served late or moved), exact per-iteration successors, and the per-hop lemmas. "
         "Progress is proved too (C14_progress, C14_identity_total, _raw_total, _sim_total; Proofs/SimProgress.lean): for every non-empty time-ordered trace strictly within Duration::MAX, limit fractions in [0,1], continue_after_all_normal off, max_sim_iterations and max_trace_length each 0 or at least 4 x |trace| (and model loop fuel of that size), the machine-less run never faults, ends because all normal packets were processed after exactly 4|trace| - k iterations (k = NormalRecv events still queued, 1 <= k <= |trace|; the weight 4#NormalSent + 3#TunnelSent + 2#TunnelRecv + #NormalRecv drops by one per iteration) and returns a trace satisfying C14.holds, so the total theorems carry no hypothesis about the run; the caps are tight and the strict time bound is necessary (kernel-checked witnesses, C14_strict_bound_needed: a packet exactly Duration::MAX after the first is never served). Runs with continue_after_all_normal on or an explicit packets-per-second limit are covered by the conditional C14_identity and the monitor. The monitor evaluates the same predicate on every generated run of the implementation through sim and sim_advanced under every filter combination, and the exact-trace correspondence ties the model to the code. Monitor tied to the model (Proofs/SimMonitorAccept.lean): C14_monitor_accepts_model - under the trace, fraction, stop-setting and budget hypotheses of C14_identity_total and for EVERY setting of the two caps, every filter and both APIs, C14.monitor returns no failure on the model's own observation of a run; C14_monitor_hypotheses_needed gives for each input hypothesis a kernel-checked model observation the monitor rejects without it (packet exactly Duration::MAX away, no normal line, invalid fraction, trace not time-ordered, model budget).",
    ref="7 (C14), 12.8",
    technique="Lean 4 lemmas on the simulator model (per-hop) + spec monitor of the composed statement on the implementation's traces + exact-trace differential correspondence",
    note=SIM_NOTE,
)
CLAIMED["C15"] = dict(
    text="Proof (Lean 4) on the simulator model for every machine set, trace (also raw traces with sn/rn/sp/rp lines: padding lines are ignored), network, fractions, stop setting and oracle: each side processes at most as many normal TunnelSent events as its share of the input and exactly that many when the run "
         "stops because all normal packets were processed (counting invariant over the bit-faithful heap), also stated on the returned trace; recorded times are monotone and the final sort is the identity; causality over the whole trace (C15_causality_matching: the monitor's own matching predicate holds of the model's "
         "unfiltered non-faulting trace - every TunnelRecv has a distinct earlier TunnelSent of the same kind on the other side at least one delay before, via a Hall-to-matching lemma on ascending lists); the PaddingSent arm never creates or duplicates a normal packet. Monitor tied to the model (Proofs/SimMonitorAccept.lean): C15_monitor_accepts_model_partial - for every case, run, oracle and budget the monitor (order, causality matching, conservation with its own completeness flag) accepts the model's observation provided a run that ended because pick_next returned None left no normal packet queued; C15_monitor_accepts_model derives that guard from the input bounds of C19_total; C15_monitor_rejects_unreachable_packet shows it is needed (a packet Duration::MAX after the clock, outside the u64 nanosecond range of trace files).",
    ref="7 (C15), 12.8",
    technique="Lean 4 counting invariant over the heap model + per-arm theorems + causality/conservation monitor on the implementation's traces + exact-trace differential correspondence",
    note=SIM_NOTE,
)
CLAIMED["C16"] = dict(
    text="Proof (Lean 4) on the simulator model: the expiry computed for a BlockOutgoing is the contract's (replace: t+dur, else the longer) away from duration 0; the fail-closed argument (C16_no_leak: whenever the queue branch pops a TunnelSent of a side with "
         "active blocking, the packet has the bypass flag and the side's blocking is bypassable), under a queue-routing invariant proved to hold initially and after every iteration; BlockingBegin carries the due time, BlockingEnd is emitted once at the expiry. "
         "Where the code is NOT the property it is stated as a theorem about the model and reported by the monitor on the implementation: bypass flag overwritten by the latest updating action (F7), duration 0 (F11/F11b), actions executed at selection time (S1) - "
         "three open known findings with replays.",
    ref="7 (C16), 12.8",
    technique="Lean 4 theorems on the blocking update and the queue selection of the simulator model (+ deviation theorems) + property monitor with diagnosis tags on the implementation's traces + exact-trace differential correspondence",
    note=SIM_NOTE,
)
CLAIMED["C17"] = dict(
    text="Proof (Lean 4) on the simulator model: storing a returned action is exactly the contract's slot update (newer action overwrites, Cancel Action/All clears, other slots untouched); executing a scheduled action picks a slot whose due time is the target, "
         "emits its event with the action's flags stamped with that due time and empties the slot (fires once); trace level: simulated time never passes a pending action timer or internal timer (C17_pending_never_in_past: loop invariant kept by every main-loop iteration), the next served event is never after a pending action; "
         "C17_executed_when_strictly_earliest is the exact description of what the code does instead of the property (S1): an action is executed at selection time exactly when it is strictly earlier than every timer, expiry, aggregate delay and queue offset, stamped with its due time. "
         "The monitor checks the property itself on the implementation and reports S1 (open known finding, with replays).",
    ref="7 (C17), 12.8",
    technique="Lean 4 theorems on slot update / firing / selection offsets of the simulator model + property monitor on the implementation's traces (actions recovered through the framework model) + exact-trace differential correspondence",
    note=SIM_NOTE,
)
CLAIMED["C18"] = dict(
    text="Proof (Lean 4) on the simulator model: the UpdateTimer arm equals the contract function written from the property text for every current timer, time, duration (0 included, since fix 68d125b) and replace flag; TimerBegin is queued only by an UpdateTimer at the clock; "
         "TimerEnd fires once, stamped with the expiry, and clears the timer; Cancel Internal/All clears it; simulated time never passes a running timer (C18_running_timer_never_in_past). Trace level against the property: monitor on the implementation; the early-execution finding S1 also affects superseded timers (open, with replays).",
    ref="7 (C18), 12.8",
    technique="Lean 4 equality of the timer update with the contract function + firing/selection theorems on the simulator model + property monitor + exact-trace differential correspondence",
    note=SIM_NOTE,
)
CLAIMED["C19"] = dict(
    text="Proof (Lean 4) on the simulator model for every machine set, queue, arguments and oracle: every filter setting returns exactly the unfiltered trace filtered by the observation-level predicate when the length cap does not bind, and a prefix of it when it does; "
         "the run is a function of (machines, queue, arguments, oracle); pick_next always terminates within pickMeasure+1 recursive calls; the returned event is never before the clock; a run never ends in one of the five BUG assertions, in backwards time, exhausted fuel or divergence, "
         "and for packets-per-second limits >= 1 not in a division by zero (fix 4ed778e; exactly the limit 0 still divides by zero); iteration and length bounds are respected. Reproducibility of the real code (same seed twice, all filter combinations) and agreement with the model are checked on every generated run. Totality with machines is a theorem too (C19_total, _queue, _raw, _returns; Proofs/SimNoFault*.lean): for validated machines on both sides, fractions in [0,1], a non-empty trace with times <= T, network delay d, a packets-per-second limit absent or >= 1, a cap of N >= 1 iterations (max_sim_iterations = N, or max_trace_length = N with both filters off) and the explicit guard (N+2) * span(N,T,d) <= Duration::MAX with span = T + 5d + 2N(N 48h + N 1s) + N(96h + d + N 1s) (satisfied e.g. up to N = 37650 for a 1 s trace), the run ends in NONE of the model's fault classes - checked-duration overflow, unwrap on None, a fault inside either framework (composes C01's potential argument and C04's slot invariant), machine id out of range, empty queue, invalid construction, BUG assertions, backwards time, fuel, divergence - for every oracle, stopping within N iterations; the key invariant is that a queued TunnelSent is at most k x 48 h old after k iterations, which bounds every aggregate delay and the clock polynomially; C19_total_guard_needed shows that some bound on the delay is necessary (5e27 ns overflows the 4 x delay multiple). Monitor tied to the model (Proofs/SimMonitorAccept.lean): C19_monitor_accepts_model - on every list of runs whose observations are the model's, with runs of the same base (seed) sharing the oracle, C19.monitor reports exactly its panic entries and no bounds, determinism or projection failure; an observation is a panic iff the model run ends in a fault (C19_monitor_panics_exact), and under the guard of C19_total the result is empty (C19_monitor_accepts_model_total); both hypotheses on the run list are shown necessary.",
    ref="7 (C19), 12.8",
    technique="Lean 4 projection/prefix/totality theorems on the simulator model + repeat-run and filter differential on the implementation + exact-trace differential correspondence",
    note=SIM_NOTE,
)

PENDING = {}

ALL = [f"C{i:02d}" for i in range(1, 21)]


def main():
    checks = []
    for pid in ALL:
        if pid not in CLAIMED:
            continue
        c = CLAIMED[pid]
        checks.append({
            "property_id": pid,
            "quick_cmd": f"python3 tools/check.py {pid} --tier quick",
            "thorough_cmd": f"python3 tools/check.py {pid} --tier thorough",
            "evidence_file": f"/verif/evidence/{pid}.json",
            "replay_cmd_template": f"python3 tools/check.py {pid} --replay {{path}}",
            "engine": "lean-model+correspondence",
            "level_claimed": {"category": "proof", "text": c["text"], "design_ref": c["ref"]},
            "level_note": c.get("note", NOTE_COMMON),
            "technique": c["technique"],
        })
    na = [{"property_id": pid, "reason": PENDING.get(pid, "not claimed yet: the Lean model/theorems and correspondence for this property are still being built (see DESIGN.md section 10); the technique applies")}
          for pid in ALL if pid not in CLAIMED]
    m = {
        "version": 1,
        "setup_cmd": "sh tools/setup.sh",
        "hooks": {
            "guard": "cargo feature `verif` (crates maybenot and maybenot-simulator)",
            "enable": "the harness crate /verif/harness depends on /repo/crates/* by path with features = [\"verif\"]",
            "baseline_off_cmd": "cd /repo && cargo test --workspace --no-fail-fast --offline",
            "source_commits": ["343f4ea", "2c3354f", "843a1e5", "db681a3", "e66c91b"],
            "add_only": True,
        },
        "engines": [
            {"name": "lean-model+correspondence", "path": "/verif/lean, /verif/harness, /verif/tools/check.py",
             "serves_properties": sorted(CLAIMED.keys()),
             "kind_free_text": "Lean 4 theorems about a hand-written executable model; Rust harness runs the real code and the compiled model on the same inputs and diffs; translator regenerates constants from source"}
        ],
        "checks": checks,
        "not_applicable": na,
        "notes": "See DESIGN.md. Every check rebuilds the harness against /repo's working tree, regenerates lean/MbVerif/Generated from source and rebuilds the theorem module before running.",
    }
    with open(os.path.join(VERIF, "MANIFEST.json"), "w") as f:
        json.dump(m, f, indent=1)
    print(f"MANIFEST.json: {len(checks)} checks, {len(na)} not claimed")


if __name__ == "__main__":
    main()
