#!/usr/bin/env python3
"""Writes MANIFEST.json from the table below (single source of truth for what is claimed)."""
import json
import os

HERE = os.path.dirname(os.path.abspath(__file__))
VERIF = os.path.dirname(HERE)

NOTE_COMMON = ("Trusted: Lean kernel; axioms limited to propext/Classical.choice/Quot.sound (audited per run); the hand-written model, tied to "
               "/repo by the correspondence run (sampled) and the translator (constants/orders regenerated every run); harness + verif hooks.")

CLAIMED = {
    "C05": dict(
        text="Proof (Lean 4) that the model's run is a function of (machines, fractions, start, oracle, history) only, that a clone continues identically, "
             "and of the unfolding equations that are the documented semantics; the implementation is tied to that model by a correspondence on actions, "
             "full internal snapshot and internal log after every call, plus a harness-side double run and mid-history clone.",
        ref="5 (C05)",
        technique="Lean 4 theorems on a hand-written executable model + differential correspondence (snapshot/log/actions) against the Rust framework",
    ),
}

CLAIMED["C04"] = dict(
    text="Proof (Lean 4), for every machine set, every oracle (all seeds and every value a sampler can return, NaN/inf included) and every history "
         "with arbitrary batches: returned machine ids strictly increasing and existing (so distinct, at most one per machine, none without machines), "
         "each action is the projection (kind, bypass, replace, timer) of an action of a state of the machine it names, all timeouts/durations <= 24 h, "
         "END is absorbing across calls. The same decidable predicates run as a monitor on the implementation's traces; correspondence on actions.",
    ref="5 (C04)",
    technique="Lean 4 invariant proof over primitive steps of the framework model (Step/Reach/Run engine) + differential correspondence + spec monitor on implementation traces",
)

PENDING = {}

ALL = [f"C{i:02d}" for i in range(1, 21)]


def main():
    checks = []
    for pid in ALL:
        if pid not in CLAIMED:
            continue
        c = CLAIMED[pid]
        checks.append({
            "property_id": pid,
            "quick_cmd": f"python3 tools/check.py {pid} --tier quick",
            "thorough_cmd": f"python3 tools/check.py {pid} --tier thorough",
            "evidence_file": f"/verif/evidence/{pid}.json",
            "replay_cmd_template": f"python3 tools/check.py {pid} --replay {{path}}",
            "engine": "lean-model+correspondence",
            "level_claimed": {"category": "proof", "text": c["text"], "design_ref": c["ref"]},
            "level_note": c.get("note", NOTE_COMMON),
            "technique": c["technique"],
        })
    na = [{"property_id": pid, "reason": PENDING.get(pid, "not claimed yet: the Lean model/theorems and correspondence for this property are still being built (see DESIGN.md section 10); the technique applies")}
          for pid in ALL if pid not in CLAIMED]
    m = {
        "version": 1,
        "setup_cmd": "sh tools/setup.sh",
        "hooks": {
            "guard": "cargo feature `verif` (crates maybenot and maybenot-simulator)",
            "enable": "the harness crate /verif/harness depends on /repo/crates/* by path with features = [\"verif\"]",
            "baseline_off_cmd": "cd /repo && cargo test --workspace --no-fail-fast --offline",
            "source_commits": ["343f4ea", "2c3354f", "843a1e5"],
            "add_only": True,
        },
        "engines": [
            {"name": "lean-model+correspondence", "path": "/verif/lean, /verif/harness, /verif/tools/check.py",
             "serves_properties": sorted(CLAIMED.keys()),
             "kind_free_text": "Lean 4 theorems about a hand-written executable model; Rust harness runs the real code and the compiled model on the same inputs and diffs; translator regenerates constants from source"}
        ],
        "checks": checks,
        "not_applicable": na,
        "notes": "See DESIGN.md. Every check rebuilds the harness against /repo's working tree, regenerates lean/MbVerif/Generated from source and rebuilds the theorem module before running.",
    }
    with open(os.path.join(VERIF, "MANIFEST.json"), "w") as f:
        json.dump(m, f, indent=1)
    print(f"MANIFEST.json: {len(checks)} checks, {len(na)} not claimed")


if __name__ == "__main__":
    main()
