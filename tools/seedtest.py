#!/usr/bin/env python3
"""Run registered checks against a seeded change.

  tools/seedtest.py <patch.diff> [--props C01,C02,...] [--tier quick]

Applies the patch to /repo's working tree (git apply), runs the quick checks of the given
properties (default: all claimed in MANIFEST.json), prints which raised a VIOLATION, and undoes
the patch (git checkout -- . ; untracked files created by the patch are removed). Evidence files
written during the run are restored afterwards so that committed evidence always comes from the
unchanged tree.
"""
import argparse
import json
import os
import shutil
import subprocess
import sys
import tempfile

VERIF = os.path.dirname(os.path.dirname(os.path.abspath(__file__)))
REPO = os.environ.get("VERIF_REPO", "/repo")


def sh(cmd, cwd=None):
    p = subprocess.run(cmd, cwd=cwd, stdout=subprocess.PIPE, stderr=subprocess.STDOUT)
    return p.returncode, p.stdout.decode("utf-8", "replace")


def main():
    ap = argparse.ArgumentParser()
    ap.add_argument("patch")
    ap.add_argument("--props", default="")
    ap.add_argument("--tier", default="quick")
    a = ap.parse_args()
    man = json.load(open(os.path.join(VERIF, "MANIFEST.json")))
    props = [p for p in a.props.split(",") if p] or [c["property_id"] for c in man["checks"]]
    rc, out = sh(["git", "status", "--porcelain"], cwd=REPO)
    if out.strip():
        print("refusing: /repo working tree is not clean:\n" + out)
        return 2
    rc, out = sh(["git", "apply", "--check", os.path.abspath(a.patch)], cwd=REPO)
    if rc != 0:
        print("patch does not apply:\n" + out)
        return 2
    ev_backup = tempfile.mkdtemp(prefix="evbak_", dir=os.path.join(VERIF, ".build"))
    evdir = os.path.join(VERIF, "evidence")
    if os.path.isdir(evdir):
        shutil.copytree(evdir, os.path.join(ev_backup, "evidence"))
    sh(["git", "apply", os.path.abspath(a.patch)], cwd=REPO)
    results = {}
    try:
        for pid in props:
            rc, out = sh([sys.executable, os.path.join(VERIF, "tools", "check.py"), pid, "--tier", a.tier], cwd=VERIF)
            viol = [l for l in out.split("\n") if l.startswith("VIOLATION")]
            results[pid] = {"exit": rc, "violations": viol, "summary": out.strip().split("\n")[-1]}
            flag = "CAUGHT" if viol else "quiet"
            print(f"{pid}: {flag}  {viol[0] if viol else ''}")
            sys.stdout.flush()
    finally:
        sh(["git", "checkout", "--", "."], cwd=REPO)
        sh(["git", "clean", "-fdq", "--", "crates"], cwd=REPO)
        if os.path.isdir(os.path.join(ev_backup, "evidence")):
            shutil.rmtree(evdir, ignore_errors=True)
            shutil.copytree(os.path.join(ev_backup, "evidence"), evdir)
        shutil.rmtree(ev_backup, ignore_errors=True)
    print(json.dumps({"patch": a.patch, "caught_by": [p for p, r in results.items() if r["violations"]], "results": results}, indent=1))
    return 0


if __name__ == "__main__":
    sys.exit(main())
