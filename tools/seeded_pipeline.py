#!/usr/bin/env python3
"""Confirm a seeded change produced by an independent sub-agent and run the checks against it.

  tools/seeded_pipeline.py <mutant_worktree> <a|b> <PID> [--props C01,C05] [--demo-crate maybenot]

1. confirm (in the sub-agent's own scratch worktree, never in /repo): the patch applies to a clean
   tree, the whole existing test suite passes with it, the demonstration fails with it and passes
   without it;
2. run the registered quick checks against the change (in $VERIF_REPO, default /repo; applied with
   git apply and undone straight afterwards);
3. store patch, demonstration and meta.json under seeded/<PID>-<letter>/.
"""
import argparse
import json
import os
import shutil
import subprocess
import sys
import time

VERIF = os.path.dirname(os.path.dirname(os.path.abspath(__file__)))
OUTROOT = os.environ.get("SEEDED_OUT", os.path.join(VERIF, "seeded"))


def sh(cmd, cwd=None, timeout=3600):
    p = subprocess.run(cmd, cwd=cwd, stdout=subprocess.PIPE, stderr=subprocess.STDOUT, timeout=timeout)
    return p.returncode, p.stdout.decode("utf-8", "replace")


def main():
    ap = argparse.ArgumentParser()
    ap.add_argument("wt")
    ap.add_argument("letter")
    ap.add_argument("pid")
    ap.add_argument("--props", default="")
    ap.add_argument("--demo-crate", default="maybenot")
    a = ap.parse_args()
    wt, L, pid = a.wt, a.letter, a.pid
    patch = os.path.join(wt, "mutants", f"{L}.diff")
    demo = os.path.join(wt, "mutants", f"demo_{L}.rs")
    name = f"demo_{pid.lower()}_{L}"
    tests_dir = os.path.join(wt, "crates", a.demo_crate, "tests")
    ran = []
    meta = {"id": f"{pid}-{L}", "breaks": pid, "source": "independent sub-agent given only the property text and a scratch worktree"}
    # --- confirm ---
    sh(["git", "checkout", "--", "."], cwd=wt)
    sh(["git", "clean", "-fdq", "--", "crates"], cwd=wt)
    rc, out = sh(["git", "apply", "--check", patch], cwd=wt)
    meta["applies"] = rc == 0
    if rc != 0:
        meta["confirmed"] = False
        meta["why"] = "patch does not apply: " + out[-300:]
    else:
        sh(["git", "apply", patch], cwd=wt)
        rc, out = sh(["cargo", "test", "--workspace", "--offline"], cwd=wt)
        suite_ok = rc == 0
        ran.append("with change: cargo test --workspace --offline -> " + ("pass" if suite_ok else "FAIL"))
        os.makedirs(tests_dir, exist_ok=True)
        shutil.copy(demo, os.path.join(tests_dir, name + ".rs"))
        rc1, out1 = sh(["cargo", "test", "-p", "maybenot" if a.demo_crate == "maybenot" else a.demo_crate, "--test", name, "--offline"], cwd=wt)
        ran.append(f"with change: cargo test --test {name} -> " + ("pass" if rc1 == 0 else "fail"))
        sh(["git", "checkout", "--", "."], cwd=wt)
        rc2, out2 = sh(["cargo", "test", "-p", "maybenot" if a.demo_crate == "maybenot" else a.demo_crate, "--test", name, "--offline"], cwd=wt)
        ran.append(f"without change: cargo test --test {name} -> " + ("pass" if rc2 == 0 else "fail"))
        os.remove(os.path.join(tests_dir, name + ".rs"))
        sh(["git", "clean", "-fdq", "--", "crates"], cwd=wt)
        meta["confirmed"] = bool(suite_ok and rc1 != 0 and rc2 == 0)
        meta["suite_passes_with_change"] = suite_ok
        meta["demo_fails_with_change"] = rc1 != 0
        meta["demo_passes_without_change"] = rc2 == 0
    # --- needs (from the agent's notes) ---
    notes = ""
    try:
        notes = open(os.path.join(wt, "mutants", "notes.md")).read()
    except OSError:
        pass
    meta["notes_excerpt"] = notes[:3000]
    # --- run the checks ---
    caught = []
    results = {}
    if meta.get("confirmed"):
        props = a.props or pid
        rc, out = sh([sys.executable, os.path.join(VERIF, "tools", "seedtest.py"), patch, "--props", props], cwd=VERIF, timeout=7200)
        ran.append(f"tools/seedtest.py {os.path.basename(patch)} --props {props}")
        try:
            j = json.loads(out[out.index("{\n"):])
            caught = j["caught_by"]
            results = {k: v["violations"] for k, v in j["results"].items()}
        except Exception:  # noqa
            results = {"error": out[-1500:]}
    meta["checks_run"] = results
    meta["caught_by"] = caught
    meta["what_was_run"] = ran
    out_dir = os.path.join(OUTROOT, f"{pid}-{L}")
    os.makedirs(out_dir, exist_ok=True)
    shutil.copy(patch, os.path.join(out_dir, "patch.diff"))
    if os.path.exists(demo):
        shutil.copy(demo, os.path.join(out_dir, name + ".rs"))
    with open(os.path.join(out_dir, "meta.json"), "w") as f:
        json.dump(meta, f, indent=1)
    print(f"{pid}-{L}: confirmed={meta.get('confirmed')} caught_by={caught}")


if __name__ == "__main__":
    main()
