"""Per-property configuration: generators, projections (relevant diff tags), monitors, budgets."""
import glob
import os
import re
from tiers import pick

TRUSTED_BASE = [
    "Lean 4.33 kernel (leanchecker re-check in the thorough tier)",
    "axioms allowed in #print axioms: propext, Classical.choice, Quot.sound (anything else fails the check)",
    "hand-written Lean model of the code; its agreement with /repo is checked by the correspondence run (differential, sampled)",
    "tools/extract.py (constants, enum orders, struct layouts regenerated from source before every build)",
    "Rust harness (mbharness), its canonicalisation, and the read-only `verif` hooks in /repo",
    "IEEE-754 behaviour of the host FPU is modelled by MbVerif/Fp.lean (rational arithmetic, one rounding per operation)",
]

FW_FILES = ["crates/maybenot/src/framework.rs", "crates/maybenot/src/state.rs", "crates/maybenot/src/action.rs",
            "crates/maybenot/src/counter.rs", "crates/maybenot/src/dist.rs", "crates/maybenot/src/time.rs",
            "crates/maybenot/src/constants.rs", "crates/maybenot/src/machine.rs"]

ALL_FW_TAGS = {"res", "A", "AT", "RS", "RC", "RP", "RB", "G", "GS", "L", "len", "oracle"}


def split_cases(text):
    """protocol text -> {case id: block text}"""
    out = {}
    cur, cid = [], None
    for line in text.split("\n"):
        if line.startswith("case "):
            cur = [line]
            cid = line.split()[1]
        elif cid is not None:
            cur.append(line)
            if line.strip() == "end":
                out[cid] = "\n".join(cur) + "\n"
                cid = None
    return out


def inputs_only(block):
    return "\n".join(l for l in block.split("\n") if not l.startswith("o ") and not l.startswith("orc ") and not l.startswith("det ")) + "\n"


def run_fw(pid, tier, seed, replay, ctx, gens, tags, mech=None, budget=None):
    """Framework-level check: corpus + generated cases, impl vs model, monitors on impl traces.

    gens: list of (kind, quick_cases, thorough_cases)
    tags: projection of the correspondence relevant for pid
    mech: coverage features that make a case non-trivial for pid (any of)
    """
    sh = ctx["sh"]
    texts = []
    crashed = []
    if replay:
        rc, out = sh([ctx["HBIN"], "fw-replay", "--seed", str(seed)], input_bytes=open(replay, "rb").read())
        texts.append(("replay", out))
    else:
        corpus = sorted(glob.glob(os.path.join(ctx["VERIF"], "corpus", pid, "*.txt")))
        for c in corpus:
            rc, out = sh([ctx["HBIN"], "fw-replay", "--seed", str(seed)], input_bytes=open(c, "rb").read())
            texts.append(("corpus:" + os.path.basename(c), out))
        for kind, nq, nt in gens:
            n = pick(tier, nq, nt)
            if kind.startswith("exh"):
                # bounded-exhaustive family: exh:<depth>:<quick stride>:<thorough stride>
                _, depth, sq, st = kind.split(":")
                stride = st if tier == "thorough" else sq
                rc, out = sh([ctx["HBIN"], "fw-exh", "--depth", depth, "--stride", stride, "--start", str(seed % int(stride)),
                              "--seed", str(seed), "--cases", str(n)], timeout=7200)
                out = "\n".join(l for l in out.split("\n") if not l.startswith("exh depth="))
            else:
                rc, out = sh([ctx["HBIN"], "fw-gen", "--kind", kind, "--seed", str(seed), "--cases", str(n)], timeout=3600)
            if rc != 0 and not kind.startswith("exh"):
                # the harness process died (stack overflow, abort, ...): the crashing case is the one after
                # the last complete block; fetch its inputs with a dry run and report it as a failure of the
                # implementation on that input
                done = out.count("\nend\n") + (1 if out.startswith("end\n") else 0)
                rc2, dry = sh([ctx["HBIN"], "fw-gen", "--kind", kind, "--seed", str(seed), "--cases", str(n), "--only", str(done), "--dry"], timeout=600)
                crashed.append((f"{pid}:process crashed (exit {rc}) kind={kind}",
                                f"the harness process running the real framework died (exit status {rc}, e.g. stack overflow / abort) on this case:\n" + dry))
                # keep what completed before the crash
                out = out[: out.rfind("\nend\n") + 5] if "\nend\n" in out else ""
            elif rc != 0:
                return {"evaluations": 0, "model_disagreements": [f"harness failed for kind {kind}: {out[-500:]}"]}
            texts.append((kind, out))
    evaluations = 0
    dis, mons = [], []
    sigs = set()
    nontrivial = set()
    samples = []
    dist = {}
    for name, text in texts:
        blocks = split_cases(text)
        rc, out = sh([ctx["DBIN"], "fw"], input_bytes=text.encode(), timeout=3600)
        if rc != 0:
            dis.append(f"driver failed on {name}: {out[-500:]}")
            continue
        seen_cases = 0
        for line in out.split("\n"):
            ws = line.split()
            if not ws:
                continue
            if ws[0] == "case":
                seen_cases += 1
                evaluations += 1
                cid, status = ws[1], ws[3]
                if status == "ok":
                    continue
                if status == "DIFF":
                    t = set(re.sub("tags=", "", ws[4]).split(","))
                    if t & set(tags):
                        dis.append(f"{cid} tags={','.join(sorted(t))} {ws[5] if len(ws) > 5 else ''}\n" + inputs_only(blocks.get(cid, "")))
                else:
                    dis.append(f"{cid} {' '.join(ws[3:])}")
            elif ws[0] == "sig":
                feats = ws[2].split(",") if len(ws) > 2 else []
                sigs.add(ws[2] if len(ws) > 2 else "")
                for f in feats:
                    dist[f] = dist.get(f, 0) + 1
                if mech is None or set(feats) & set(mech):
                    nontrivial.add(ws[2] if len(ws) > 2 else "")
                if len(samples) < 2 and (mech is None or set(feats) & set(mech)):
                    samples.append(inputs_only(blocks.get(ws[1], ""))[:1500])
            elif ws[0] == "mon" and ws[1] == pid and ws[2] == "FAIL":
                cid = ws[3]
                msg = " ".join(ws[4:])
                # one key per kind of failure: numbers (call index, machine ids, values) are abstracted
                key = f"{pid}:{re.sub(r'[0-9]+', 'N', msg)}"
                mons.append((key, f"monitor {pid} failed on the implementation's trace: {msg}\n" + blocks.get(cid, "")))
            elif ws[0] == "badblocks":
                dis.append("driver could not parse " + ws[1] + " case blocks of " + name)
        if seen_cases != len(blocks):
            dis.append(f"driver reported {seen_cases} cases of {len(blocks)} for {name}")
    # keep one replay per distinct monitor key
    uniq = {}
    for k, t in mons + crashed:
        uniq.setdefault(k, t)
    return {
        "evaluations": evaluations,
        "distinct_nontrivial": len(nontrivial),
        "rule": "cases generated from VERIF_SEED by the harness generators " + ", ".join(g[0] for g in gens) +
                "; distinct = distinct coverage signature (set of mechanisms exercised on the implementation's trace: LimitReached, "
                "CounterZero, Signal, END, action kinds, batches, blocking, counters, zero limits, machine count); non-trivial = signature touches "
                + (", ".join(mech) if mech else "any mechanism"),
        "samples": samples or ["(no non-trivial sample)"],
        "traces_validated_against_impl": evaluations,
        "model_disagreements": dis,
        "monitor_failures": list(uniq.items()),
        "extra": {"feature_distribution": dist, "projection_tags": sorted(tags)},
    }


FW_ASSUMPTIONS = [
    "the theorems are about the hand-written Lean model; its agreement with the Rust code is established by sampling (differential correspondence on actions, internal snapshot and hooked internal log), not proved",
    "u64 packet counters are unbounded naturals in the model (overflow needs 2^64 reported events)",
    "IEEE-754 arithmetic is the Rat-based model MbVerif/Fp.lean (one correctly rounded step per operation)",
    "randomness is an arbitrary oracle in the theorems and the hook log of the compared run in the correspondence",
]


def fw(gens, tags, mech=None, **kw):
    def run(pid, tier, seed, replay, ctx):
        return run_fw(pid, tier, seed, replay, ctx, gens, tags, mech)
    d = {"run": run, "files": FW_FILES}
    d.update(kw)
    d["assumptions"] = FW_ASSUMPTIONS + kw.get("assumptions", [])
    return d


def fw_monitor_stage(pid, tier, seed, ctx, gens, tags=()):
    """run framework generators through harness and driver and return (cases, [(key, replay text)], [disagreements])
    for the monitor lines of `pid` and the correspondence tags in `tags`: used by checks whose main stream is
    not fw-gen"""
    sh = ctx["sh"]
    total, mons, dis = 0, [], []
    for kind, nq, nt in gens:
        n = pick(tier, nq, nt)
        rc, text = sh([ctx["HBIN"], "fw-gen", "--kind", kind, "--seed", str(seed), "--cases", str(n)], timeout=7200)
        if rc != 0:
            text = text[: text.rfind("\nend\n") + 5] if "\nend\n" in text else ""
        rc, out = sh([ctx["DBIN"], "fw"], input_bytes=text.encode(), timeout=7200)
        if rc != 0:
            continue
        blocks = None
        for line in out.split("\n"):
            ws = line.split()
            if ws[:1] == ["case"]:
                total += 1
                if len(ws) > 4 and ws[3] == "DIFF" and set(ws[4].replace("tags=", "").split(",")) & set(tags):
                    if blocks is None:
                        blocks = split_cases(text)
                    dis.append(f"{ws[1]} {ws[4]}\n" + inputs_only(blocks.get(ws[1], "")))
            elif len(ws) > 3 and ws[0] == "mon" and ws[1] == pid and ws[2] == "FAIL":
                if blocks is None:
                    blocks = split_cases(text)
                msg = " ".join(ws[4:])
                key = f"{pid}:{re.sub(r'[0-9]+', 'N', msg)}"
                mons.append((key, f"monitor {pid} failed on the implementation's trace: {msg}\n" + blocks.get(ws[3], "")))
    uniq = {}
    for k, t in mons:
        uniq.setdefault(k, t)
    return total, list(uniq.items()), dis


def c01_run(gens, tags, mech):
    """C01 = the framework cases plus: every machine of the adversarial validation stream (C12 generator) that
    the implementation accepts is driven through a scripted history by the harness; a panic or hang there is a
    totality violation of a framework 'created from machines that pass validation'."""
    def run(pid, tier, seed, replay, ctx):
        res = run_fw(pid, tier, seed, replay, ctx, gens, tags, mech)
        if replay:
            return res
        sh = ctx["sh"]
        n = pick(tier, 2500, 60000)
        rc, text = sh([ctx["HBIN"], "val-gen", "--seed", str(seed), "--cases", str(n)], timeout=7200)
        if rc != 0:
            res["model_disagreements"].append(f"harness val-gen failed: {text[-300:]}")
            return res
        rc, out = sh([ctx["DBIN"], "val", "c12"], input_bytes=text.encode(), timeout=7200)
        if rc != 0:
            res["model_disagreements"].append(f"driver val c12 failed: {out[-300:]}")
            return res
        blocks = None
        ran = text.count("\no run ")
        for line in out.split("\n"):
            ws = line.split()
            if len(ws) > 3 and ws[0] == "mon" and ws[1] == pid and ws[2] == "FAIL":
                if blocks is None:
                    blocks = split_cases(text)
                msg = " ".join(ws[4:])
                key = f"{pid}:{msg}"
                if key not in {k for k, _ in res["monitor_failures"]}:
                    res["monitor_failures"].append((key, f"monitor {pid} failed on the implementation: {msg}\n" + blocks.get(ws[3], "")))
        res["evaluations"] += ran
        res["traces_validated_against_impl"] += ran
        res.setdefault("extra", {})["accepted_adversarial_machines_run"] = ran
        res["rule"] += "; plus the accepted machines of the adversarial validation stream (val-gen), each run through a scripted history"
        return res
    d = {"run": run, "files": FW_FILES}
    return d


PROPS = {
    "C05": fw([("general", 1500, 40000), ("wide", 12, 300), ("alias", 60, 1500), ("longhist", 6, 150), ("c02frac", 300, 5000), ("exh:2:677:1", 2000, 1400000), ("exh:3:9497:97", 2000, 200000)], ALL_FW_TAGS,
              assumptions=["the correspondence samples histories; the bounded-exhaustive family of the property's quantifier (8 machine sets of 1-3 small machines, full event alphabet "
                           "with known/unknown ids, 4 clock patterns incl. backwards, 6^3 scripted draw words around the dyadic thresholds) is enumerated completely at depth 2 in the thorough "
                           "tier and strided at depth 3; quick tier strides both"]),
    "C01": dict(c01_run([("general", 2500, 60000), ("czcycle", 1500, 40000), ("extsample", 600, 20000), ("wide", 8, 200), ("alias", 50, 1000), ("longhist", 4, 100)], {"res", "len", "L"}, ["LR", "CZ", "SIG", "END", "batch"]),
              assumptions=FW_ASSUMPTIONS + ["u64 packet counters are modelled as unbounded naturals (overflow needs 2^64 reported events)",
                           "machines have the shape of the Rust types (13 transition slots); proved for everything the bincode decoder accepts (C11)"]),
    "C02": fw([("general", 2500, 40000), ("c02frac", 600, 10000), ("wide", 8, 200), ("alias", 60, 1500)], {"A", "RP", "G", "res", "len"}, mech=["aP"],
              assumptions=["packet counts below 2^53 (u64 -> f64 conversion exact); u64 counter overflow needs 2^64 events and is not modelled"]),
    "C03": fw([("general", 2500, 40000), ("wide", 6, 150), ("alias", 60, 1500)], {"A", "RB", "G", "res", "len"}, mech=["aB"],
              assumptions=["the blocked share is the IEEE double the code computes (as_secs_f64 of both durations, one division); the exact-arithmetic reading holds up to that rounding"]),
    "C07": fw([("c07", 2000, 40000), ("general", 1000, 20000), ("wide", 8, 200), ("alias", 60, 1500)], {"A", "RS", "L", "res", "len"}, mech=["LR", "lim0"]),
    "C08": fw([("c08", 2000, 40000), ("general", 1000, 20000), ("wide", 8, 200), ("alias", 60, 1500), ("longhist", 6, 150)], {"RC", "RZ", "L", "A", "res", "len"}, mech=["CZ", "ctr"]),
    "C09": fw([("c09", 2000, 40000), ("general", 1000, 20000), ("wide", 8, 200), ("alias", 40, 1000)], {"GS", "L", "A", "res", "len"}, mech=["SIG", "SGN"]),
    "C10": fw([("ni", 2000, 40000)], {"A", "AT", "res", "len"}, mech=["aP", "aB", "aT", "aC"],
              assumptions=["the probe machine is draw-independent (probability-1 transitions, constant distributions) and neither signals nor is signalled; framework fractions are 0"]),
    "C04": fw([("general", 1500, 30000), ("wide", 8, 200), ("alias", 60, 1500)], {"A", "AT", "res", "len"}, mech=["aP", "aB", "aT", "aC"]),
}

# property tables contributed by other modules (props_<area>.py define PROPS dicts)
for _m in ("props_sim", "props_codec", "props_val", "props_ffi", "props_fw"):
    try:
        _mod = __import__(_m)
        PROPS.update(_mod.PROPS)
    except ImportError:
        pass
