#!/usr/bin/env python3
"""Descriptions of the seeded changes of rounds 4 and 5 (letters g-j), merged into seeded/<id>/meta.json and
printed as the markdown rows of DESIGN.md 12.7.   tools/seeded_notes.py [--write] [--table]"""
import glob
import json
import os
import sys

VERIF = os.path.dirname(os.path.dirname(os.path.abspath(__file__)))

# id: (round, change, needs)
NOTES = {
 "C01-g": (4, "machine-id bounds check moved into a helper testing `>` instead of `>=`", "an event naming a machine id exactly equal to the number of machines"),
 "C01-h": (4, "state-index validation rewritten as a range test (wrong on 64-bit: STATE_END is u32::MAX)", "a 64-bit target and a transition to an index above STATE_END that is actually sampled"),
 "C02-g": (4, "cached 'any padding limit configured' flag overwritten in the constructor loop", "two or more machines, a machine fraction on a machine that is not last, framework fraction 0"),
 "C02-h": (4, "machine fraction computed over the framework-wide packet total", "a machine with its own fraction next to foreign PaddingSent reports"),
 "C03-g": (4, "`blocking_active = false` moved inside the non-zero-duration branch of BlockingEnd", "a zero-length block followed by an over-budget replace=true BlockOutgoing"),
 "C03-h": (4, "'fraction is set' test against f64::EPSILON instead of 0", "a blocking fraction in (0, f64::EPSILON]"),
 "C04-g": (4, "24 h cap applied before adding the distribution's start", "a timeout/duration dist with start > 0 and a base sample near 24 h"),
 "C04-h": (4, "pending-actions counter skips the per-call reset of the action slots", "two machines; one schedules, later in the same batch the other's limit reaches 0 with an empty slot"),
 "C05-g": (4, "thread-local cache of the last Gamma sampler keyed with swapped parameters", "two Gamma distributions with swapped parameters sampled on one thread"),
 "C05-h": (4, "BlockingBegin for an unknown originator id dropped entirely", "a BlockingBegin whose originator is not a running machine"),
 "C06-g": (4, "CounterZero lookup resolved against the outer transition's draw", "a probabilistic transition into a state that zeroes a counter and whose CounterZero list is probabilistic too"),
 "C06-h": (4, "a fresh draw for every list entry inspected (loop rewritten as iterator)", "three or more targets, or two with a sum below 1"),
 "C07-g": (4, "initial limits zipped against the machines that have a start action", "a machine without a start action placed before a limited one"),
 "C07-h": (4, "UpdateTimer no longer subject to the state limit", "a limited UpdateTimer state re-entered by a self-transition after the limit is used up, or a sampled limit of 0"),
 "C08-g": (4, "overshooting decrement (checked_sub) clamps to 0 without reporting the zero crossing", "a decrement by a sampled/copied value strictly larger than a non-zero counter"),
 "C08-h": (4, "an update that leaves a counter at 0 consumes the once-per-call CounterZero allowance", "in one call: update at 0, raise, then take the same counter to 0"),
 "C09-g": (4, "pending signal not taken when nobody was excluded (stale slot)", "a call with two signallers and an answering machine, then a later lone signaller"),
 "C09-h": (4, "the same machine signalling twice counts as two signallers", "one machine reaching SIGNAL twice in a call while nobody else signals"),
 "C10-g": (4, "machine fraction divided by the framework-wide total", "own fraction at its limit, budget used up, a neighbour that completed padding"),
 "C10-h": (4, "used prefix of the actions vector tracked with `=` instead of max", "several events in one call, a lower-index neighbour scheduling after the target"),
 "C11-g": (4, "read loop stops at the first short read", "a valid machine whose compressed form exceeds the decoder's 32 KiB input buffer"),
 "C11-h": (4, "v1 error message computes remaining / num_states (division by zero)", "a v1 string announcing zero states followed by at least one byte"),
 "C12-g": (4, "state-count checks moved from validate() into Machine::new", "a machine with zero states through from_str or Framework::new"),
 "C12-h": (4, "Geometric probability check factored into a helper whose comparisons accept NaN", "Geometric with a NaN probability"),
 "C13-g": (4, "constant-Uniform fast path tested with total_cmp", "Uniform bounds that are zeros of opposite sign (gen_range panics on an empty range)"),
 "C13-h": (4, "lower clamp seeded with start instead of 0", "a negative start and a raw sample below -start"),
 "C14-g": (4, "loop break on the capacity hint when max_trace_length is 0", "max_trace_length = 0 with only_network_activity = false"),
 "C14-h": (4, "sim() sets max_sim_iterations = max_trace_length", "sim() with network-only output and a length cap between 2N and 4N-2"),
 "C15-g": (4, "queued normal packet cloned instead of popped in the replace+bypass branch", "non-bypassable blocking, a queued normal packet, two or more bypass+replace paddings"),
 "C15-h": (4, "no_normal_packets looks at the head of the blocking queue only", "a queued padding ahead of a queued normal packet when everything else is drained"),
 "C16-g": (4, "replace path tests the side's bypassable flag instead of the padding's bypass flag", "bypassable blocking, a replace padding without bypass, a queued normal packet"),
 "C16-h": (4, "helper clears every slot due at the target time and executes only the last", "two machines on one side with actions due at the same instant"),
 "C17-g": (4, "scheduled-action counter decremented by an idle machine's Cancel", "two machines on a side: one with a pending action, the other cancelling with nothing pending"),
 "C17-h": (4, "`return` instead of `continue` in the UpdateTimer arm drops the later machines' actions", "machine i issuing an ignored UpdateTimer while machine j > i returns an action for the same event"),
 "C18-g": (4, "pick_next's termination check ignores a lone pending internal timer", "an armed internal timer as the only pending thing, continue_after_all_normal set"),
 "C18-h": (4, "later expiry written to a local copy of the timer slot", "a running timer pushed back by UpdateTimer{replace: false}"),
 "C19-g": (4, "TimerBegin not queued when only_network_activity is set", "the filter together with a machine that transitions on TimerBegin"),
 "C19-h": (4, "manual Clone of SimQueue forgets the trace-derived max_pps", "one run on the parsed queue, the other on a clone, and the derived limit binding"),
 "C20-g": (4, "Instant::now() only read for batches with blocking events", "a blocking-fraction limit, real time passing, then a batch without blocking events"),
 "C20-h": (4, "batch fed to the framework in buffer-sized slices", "a batch with more events than machines in which a machine acts in an early slice only"),
 "C01-i": (5, "CounterZero guard flags packed into u64 masks via checked_shl (mask 0 from index 64: unbounded recursion)", "more than 64 machines and a CounterZero cycle on a machine with index >= 64"),
 "C01-j": (5, "hand-written clone_from that keeps the per-call scratch vectors of the destination", "clone_from into a framework created with fewer machines (index out of bounds)"),
 "C02-i": (5, "hand-written clone_from that forgets the framework-wide padding counter", "clone_from into an instance that saw fewer PaddingSent, framework padding fraction deciding"),
 "C02-j": (5, "'budget left' bit set in a u64 (machines mi and mi+64 share a bit)", "65 or more machines, aliasing indices with and without budget, a fraction limit that is hit"),
 "C03-i": (5, "hand-written clone_from that forgets the framework-wide blocking duration", "clone_from into an instance that blocked less, framework blocking fraction deciding"),
 "C03-j": (5, "saturating_duration_since normalised with subsec_micros (durations taken modulo 1 s)", "a block or a connection lasting one second or more, std::time::Instant only"),
 "C04-i": (5, "actions handed out by walking a bitmap without the word offset", "more than 64 machines: machine 64k+b is replaced by a second copy of slot b"),
 "C04-j": (5, "dirty list for the per-call slot reset whose Clone copies capacity only", "a framework cloned right after a call that returned actions, then END"),
 "C05-i": (5, "CounterZero guard flags packed into u64 masks (wrapping_shl: machines k and k+64 share a bit)", "more than 64 machines, aliasing machines zeroing the same counter in one call"),
 "C05-j": (5, "hand-written clone_from that forgets framework_start", "clone_from into an instance created at another time, framework blocking fraction set"),
 "C06-i": (5, "lists longer than 8 entries stepped through in blocks whose total is folded into the running sum", "a transition list with more than 8 entries"),
 "C06-j": (5, "per-machine mask of 'live' events refreshed from the intermediate state after a CounterZero chain", "a CounterZero chain, then a broadcast event the final state declares and the intermediate one does not"),
 "C07-i": (5, "remaining limit narrowed from u64 to u32", "a sampled limit of 2^32 or more"),
 "C07-j": (5, "memoised limit check not dropped by a TimerBegin completion", "one batch [packet event, TimerBegin as the L-th completion, packet event]"),
 "C08-i": (5, "CounterZero guard flags packed into u64 masks (rotate_left: machines k and k+64 share a bit)", "more than 64 machines, aliasing machines zeroing the same counter in one call"),
 "C08-j": (5, "counter B's zero check skipped when A already hit zero in the same update (guard not set)", "one update zeroing both counters, then B re-armed and zeroed again in the same call"),
 "C09-i": (5, "SignalTarget::AllExcept narrowed to u8", "more than 256 machines and a signaller at index 256 or above"),
 "C09-j": (5, "per-machine 'signalled once' flags reset lazily", "a machine that answers a delivered signal and later originates one"),
 "C10-i": (5, "framework-level 'action pending' flag replaces the per-machine slot test in update_counter", "two machines; the watched one zeroes a counter while entering a state, another one scheduled earlier in the call"),
 "C10-j": (5, "CounterZero guard flags packed two bits per machine into one u64 (indices 32 apart alias)", "more than 32 machines, aliasing machines zeroing the same counter in one call"),
 "C11-i": (5, "reused thread-local decompression buffer not cleared on the error path", "a corrupt zlib stream, then a valid string parsed on the same thread"),
 "C11-j": (5, "duplicate-target detection with a u64 bitmap for machines of up to 64 states (pseudo-states collide with states 62/63)", "a machine with exactly 63 or 64 states and a list containing {63, END} or {62, SIGNAL}"),
 "C12-i": (5, "thread-local cache of the last validated machine slice (address and length)", "Framework::new on a slice at the same address with different content"),
 "C12-j": (5, "Binomial trial count truncated to u32 before the comparison", "trials >= 2^32 with low 32 bits <= 1e9"),
 "C13-i": (5, "thread-local sampler cache hit on the DistType only (stale start/max)", "two non-constant distributions with the same DistType and a different max, sampled in turn"),
 "C13-j": (5, "Binomial trial count truncated to u32 before the comparison", "trials >= 2^32 with low 32 bits <= 1e9 (rand_distr panics)"),
 "C14-i": (5, "trace time column parsed as f64", "a timestamp above 2^53 ns"),
 "C14-j": (5, "hand-written clone_from of SimQueue forgets max_pps", "a working queue refreshed with clone_from after it held a sparser trace"),
 "C15-i": (5, "final sort by a cached u32 key of microseconds since start", "a simulated span above 2^32 microseconds (71.6 minutes)"),
 "C15-j": (5, "hand-written clone_from of the queues copies the side heaps only when non-empty", "clone_from into a queue that has been through a capped run"),
 "C16-i": (5, "helper call passes (bypass, bypass) for the server side", "server-side BlockOutgoing with bypass != replace while blocking is active"),
 "C16-j": (5, "pending-actions bit set per side (machine % 64)", "more than 64 machines on a side, aliasing machines with pending actions"),
 "C17-i": (5, "returned actions copied into a 32-slot stack array", "more than 32 machines on a side acting on one event"),
 "C17-j": (5, "all actions due at one instant executed in one loop", "two machines due at the same nanosecond and a same-instant cancel / re-schedule"),
 "C18-i": (5, "armed-timer bitmap per side (machine % 64)", "65 or more machines on a side, aliasing machines with armed timers"),
 "C18-j": (5, "internal timer expiry includes the integration's trigger delay", "an Integration with a non-zero trigger delay (outside what the simulator checks model, see 12.12)"),
 "C19-i": (5, "scheduled-action bit set `1 << machine` (shift overflow from index 64)", "64 or more machines on a side"),
 "C19-j": (5, "internal timers kept in a HashMap (iteration order decides ties)", "two machines on a side with timers expiring at the same instant"),
 "C20-i": (5, "second action for a 'seen' machine dropped, seen-set in a u64 (machine % 64)", "65 or more machines, machines k and k+64 acting in one call"),
 "C20-j": (5, "machines of a running instance reused through a static cache keyed by length and first 256 bytes", "a second maybenot_start while another instance lives, strings equally long sharing the first 256 bytes"),
 "C01-k": (6, "action-limit check evaluated lazily after update_counter (below_limit_blocking still indexes the current state)", "entering a BlockOutgoing state whose counter update zeroes a counter with CounterZero -> END"),
 "C01-l": (6, "the two counter checks of State::validate merged into one match (only counter A validated when both are set)", "a state with both counters and an invalid distribution on B"),
 "C02-k": (6, "per-call slot reset skipped when a scheduled-actions counter reads 0 (decremented for an empty slot)", "two machines; A schedules, B's limit runs out with an empty slot, next call exhausts A's budget"),
 "C02-l": (6, "PaddingSent for a machine in END returns before the framework-wide count", "a machine schedules padding, ends, then its PaddingSent is reported; framework fraction deciding later"),
 "C03-k": (6, "a blocking fraction of exactly 1.0 treated as no limit", "fraction 1.0, allowance used up, blocked share >= 1"),
 "C03-l": (6, "the stored current time only ever moves forward", "a call with an earlier timestamp than a previous call"),
 "C04-k": (6, "24 h cap applied by an integer comparison in whole seconds", "a sampled timeout or duration strictly between 24 h and 24 h + 1 s"),
 "C04-l": (6, "slot reset up to a u16 high-water mark", "more than 65535 machines"),
 "C05-k": (6, "padding fraction compared by multiplication instead of division", "a share exactly on a limit where frac*total rounds up (0.07 at 7/100, 0.28 at 7/25)"),
 "C05-l": (6, "answered-signal edge flattened into a match that drops the All case", "a lone signaller and two or more machines answering"),
 "C06-k": (6, "BlockingBegin returns early for an unknown originator id", "a BlockingBegin whose id is out of range for this instance"),
 "C06-l": (6, "per-machine cache (OnceLock) of the events any state reacts to, never refreshed", "a machine edited through its public states field after it (or its clone) processed an event"),
 "C07-k": (6, "at the limit a pending Cancel is not withdrawn", "one batch entering a Cancel state, then a limited state, then the completion that exhausts the limit"),
 "C07-l": (6, "replace-while-active special case ignores the state limit", "replace=true, exhausted or zero limit, self-transitions while blocking is active"),
 "C08-k": (6, "CounterZero guard as 16-bit call stamps", "the 65535th call on an instance, or a zeroing 65536 calls after the previous one"),
 "C08-l": (6, "copy operand routed through f64", "a copied counter value not representable in f64 (2^53+1, u64::MAX-1)"),
 "C09-k": (6, "signal delivery stops scanning once every running machine is served (live counter)", "three machines, a receiver that ends on the Signal, a running receiver with a higher index"),
 "C09-l": (6, "answered-signal edge only checked if some receiver reported no state change", "every receiver changes state and one answers through CounterZero -> SIGNAL"),
 "C10-k": (6, "blocking clock started at the originating machine inside the per-machine loop", "a machine before the blocker whose BlockingBegin transition leads to a replace block while over budget"),
 "C10-l": (6, "returned iterator cut at an incrementally kept action count (decremented for an empty slot)", "a batch scheduling for M, then a completion taking a neighbour's limit to 0 with an empty slot"),
 "C11-k": (6, "growing decompression buffer whose stop test assumes whole chunks", "a bomb whose stream consumes more than 32 KiB of input before 1 MiB of output"),
 "C11-l": (6, "`write` instead of `write_all` on the zlib encoder", "a large, poorly compressible valid machine"),
 "C12-k": (6, "targets sorted; only the largest is bounds-checked", "a list with a pseudo-state and a missing real state"),
 "C12-l": (6, "shared scratch vector for duplicate detection grown and never shrunk", "Framework::new with a big machine before a small one whose target lies between the two sizes"),
 "C13-k": (6, "Uniform accepts low above high by about one ulp", "bounds such as 0.1+0.2 vs 0.3 (gen_range panics)"),
 "C13-l": (6, "maximum applied when `max != 0.0`", "a negative max"),
 "C14-k": (6, "WindowCount fast path after an idle window does not record the packet", "bursts that all follow pauses of more than 100 ms"),
 "C14-l": (6, "trace lines read with take_while(non-empty)", "a trace with an empty line before further records"),
 "C15-k": (6, "blocked replace padding pops a normal packet queued behind it when sent", "non-bypass blocking, replace padding with nothing to replace, a normal packet queued before the block ends"),
 "C15-l": (6, "trace lines read with map_while (stops at the first short line)", "a trace with an empty or short line before further records"),
 "C16-k": (6, "expiry branch clears every side whose blocking is due", "client and server blocking expiring at exactly the same instant"),
 "C16-l": (6, "bypass flag only assigned on replace or when no blocking is active", "bypassable blocking extended by a non-bypass non-replace block, then a bypass padding"),
 "C17-k": (6, "a non-replace BlockOutgoing does not overwrite a pending one that would end later", "the same machine re-issuing a non-replace block while its previous action timer runs"),
 "C17-l": (6, "due test at microsecond resolution with subsec_micros (whole seconds ignored)", "two pending action timers a whole number of seconds apart and a Cancel or newer action in between"),
 "C18-k": (6, "all timers due at an instant fired in one batch", "two same-side timers expiring at the same instant, the first TimerEnd making the other machine cancel or replace"),
 "C18-l": (6, "`return` in the UpdateTimer guard clause leaves the loop over the returned actions", "two machines on a side, the lower one returning an ignored UpdateTimer"),
 "C19-k": (6, "pop_blocking always pops the blocking heap during non-bypassable blocking", "a non-bypassable block, one held normal packet, two bypass+replace paddings (unwrap panic)"),
 "C19-l": (6, "end-of-loop debug! line unwraps the last recorded event", "debug logging enabled, a filter set, an output trace still empty after an iteration"),
 "C20-k": (6, "C API drops events no machine has a transition for, including TimerBegin", "no TimerBegin transition anywhere and a limited state counting TimerBegin completions"),
 "C20-l": (6, "start time taken from a process-wide OnceLock", "a second instance started well after the first, blocking fraction deciding"),
}

# id: history of what the checks did (only where the first run was not a plain catch by the property's own check)
HISTORY = {
 "C01-h": ("first run: caught by C12 only (validation hole); after the accepted-machine run stage: C01 and C12", ["C01", "C12"]),
 "C03-h": ("first run: missed (no fraction in (0, EPSILON] in the pools); after the minuscule fractions: C03 monitor, C05", ["C03", "C05"]),
 "C06-g": ("first run: C05 only; after the framework-level draw monitor: C06", ["C06", "C05"]),
 "C11-h": ("the pipeline could not confirm it (the demonstration needs --features parsing); confirmed by hand; C11 monitor: parse_v1_machine panicked", ["C11"]),
 "C13-g": ("first run: missed; after Uniform over zeros of opposite sign: C13 and C01 (panic)", ["C13", "C01"]),
 "C19-h": ("first run: missed (every run parsed its own queue); after the repeat run went through clone_from/clone: C19", ["C19"]),
 "C20-g": ("first run: missed (the byte-level model cannot see the wall clock); after the wall-clock lockstep scenarios: C20", ["C20"]),
 "C01-j": ("first run: C05 only; after copies in the observed run / copy-panicked: C01", ["C01", "C05"]),
 "C02-i": ("first run: C05 only; after copies in the observed run: C02 monitor", ["C02", "C05"]),
 "C02-j": ("first run: missed; after the alias generator: C02 monitor, C05", ["C02", "C05"]),
 "C03-j": ("first run: missed (std::time impl not exercised by the virtual clock); after the default-clock run: C03, C05", ["C03", "C05"]),
 "C04-j": ("first run: C05 only; after copies in the observed run: C04 monitor", ["C04", "C05"]),
 "C06-i": ("first run: missed (lists of at most 6 entries); after long lists: C06, C05", ["C06", "C05"]),
 "C08-i": ("first run: C05 only; after wide/alias in C08: C08 monitor", ["C08", "C05"]),
 "C09-i": ("first run: missed (at most 257 machines, no high-index signaller); after the high-index signaller: C09 monitor, C05", ["C09", "C05"]),
 "C03-i": ("first run: C05 only; after copies in the observed run: C03 monitor", ["C03", "C05"]),
 "C05-j": ("C05 (determinism check, then monitor after copies in the observed run), C03 by correspondence", ["C05", "C03"]),
 "C06-j": ("first run: C05 only; after the C06 framework stage compared the hooked log: C06 (correspondence)", ["C06", "C05"]),
 "C10-j": ("first run: C05 only; after many-neighbour ni cases with aliasing twins: C10 monitor", ["C10", "C05"]),
 "C12-i": ("first run: missed (every case on a fresh thread); after Framework::new on a re-used slice of a persistent worker: C12 monitor", ["C12"]),
 "C14-j": ("C14, C19 (first run already; re-run after the clone_from target became a used queue: C14 monitor)", ["C14", "C19"]),
 "C17-i": ("first run: missed (at most 3 machines on a side); big generator alone not enough (quiet again); after the crowd generator: C17 monitor", ["C17"]),
 "C18-i": ("first run: missed; after the big/crowd generators: C18 monitor", ["C18"]),
 "C19-i": ("first run: missed (at most 3 machines on a side); after the big generator: C19 monitor (panic)", ["C19"]),
 "C20-i": ("first run: missed (at most 5 machines); after sessions with 65..130 machines: C20 monitor", ["C20"]),
 "C18-j": ("not caught: needs an Integration with a non-zero trigger delay (outside the simulator model, DESIGN 12.12)", []),
 "C14-i": ("first run: missed (trace times started near 0); after traces with absolute timestamps beyond 2^53 ns: C14 monitor", ["C14"]),
 "C15-i": ("first run: missed; a generous gap was not enough (wrapped keys still sorted after the first part); after gaps landing just past 2^32 microseconds: C15 monitor (order)", ["C15"]),
 "C04-l": ("not caught: needs more than 65535 machines (the generators stop at 300)", []),
 "C08-k": ("not caught: needs the 65535th call on one instance (the generators stop at 700 calls)", []),
 "C05-k": ("first run: C02 monitor only (exact fraction); after c02frac cases in C05: C05 (correspondence)", ["C02", "C05"]),
 "C11-k": ("first run: missed (the allocation bound allowed for 65536 states whatever was decoded); after the bound used the number of states the model's decoder can complete and the bomb with an incompressible head: C11 monitor (allocation)", ["C11"]),
 "C12-l": ("first run: missed (Framework::new was only called with one machine); after Framework::new next to a valid neighbour: C12 monitor", ["C12"]),
 "C13-k": ("first run: missed; after Uniform inverted by one ulp: C13 and C12 monitors", ["C13", "C12"]),
 "C14-l": ("first run: missed (generated trace files had no non-record lines); after empty / blank / one-word lines: C14 and C15 monitors", ["C14", "C15"]),
 "C18-k": ("first run: missed; after the tie-plus-Signal scenario: C18 by correspondence (the monitor's own failure carries the S1 tag of the open finding)", ["C18"]),
}


def main():
    write = "--write" in sys.argv
    rows = []
    for sid, (rnd, change, needs) in sorted(NOTES.items()):
        p = os.path.join(VERIF, "seeded", sid, "meta.json")
        if not os.path.exists(p):
            rows.append(f"| {sid} | {change} | {needs} | (not run) |")
            continue
        m = json.load(open(p))
        m["round"], m["change"], m["needs"], m["property"] = rnd, change, needs, sid[:3]
        if sid in HISTORY:
            m["history"] = HISTORY[sid][0]
            m["caught_by"] = HISTORY[sid][1]
            m["confirmed"] = True
        if write:
            json.dump(m, open(p, "w"), indent=1)
        cb = ", ".join(m.get("caught_by") or []) or "MISSED"
        if m.get("history"):
            cb += " (see history in meta.json)"
        rows.append(f"| {sid} | {change} | {needs} | {cb} |")
    if "--table" in sys.argv:
        print("\n".join(rows))


if __name__ == "__main__":
    main()
