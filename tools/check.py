#!/usr/bin/env python3
"""Orchestrator for one property check.

  tools/check.py Cxx --tier quick|thorough [--replay FILE]

Steps (DESIGN.md 2.6): translator -> lake build of the property's theorem
module + axiom audit + forbidden-token grep -> cargo build of the harness
against /repo's working tree -> corpus + generated cases through the
implementation (harness) and the model (mbdriver) -> verdict + evidence.
"""
import argparse
import fcntl
import hashlib
import json
import os
import re
import subprocess
import sys
import time

HERE = os.path.dirname(os.path.abspath(__file__))
VERIF = os.path.dirname(HERE)
LEAN = os.path.join(VERIF, "lean")
HARNESS = os.path.join(VERIF, "harness")
BUILD = os.path.join(VERIF, ".build")
WORK = os.path.join(BUILD, "work")
REPO = os.environ.get("VERIF_REPO", "/repo")
HBIN = os.path.join(BUILD, "harness-target", "debug", "mbharness")
DBIN = os.path.join(LEAN, ".lake", "build", "bin", "mbdriver")
ALLOWED_AXIOMS = {"propext", "Classical.choice", "Quot.sound"}
FORBIDDEN = re.compile(r"\b(sorry|admit|native_decide|bv_decide|implemented_by|unsafe)\b|^\s*axiom\s|maxHeartbeats\s+0")

# generated model files beyond Consts.lean (used by every model) that a property's model depends on
GENERATED_FOR = {**{f"C{n}": ("SimConsts.lean",) for n in range(14, 20)}, "C20": ("Ffi.lean",)}

# properties whose theorems reason about floating point through MbVerif/Fp.lean
FP_PIDS = {"C02", "C03", "C06", "C12", "C13"}

sys.path.insert(0, HERE)
import props  # noqa: E402


# quick / medium runs: no single harness or driver invocation may take longer than this (an implementation
# that never returns on a path the harness does not supervise must not stall the check for hours)
TIMEOUT_CAP = {"s": None}


def sh(cmd, cwd=None, timeout=None, env=None, input_bytes=None):
    e = dict(os.environ)
    e["CARGO_NET_OFFLINE"] = "true"
    if env:
        e.update(env)
    cap = TIMEOUT_CAP["s"]
    if cap is not None and cmd and os.path.basename(str(cmd[0])) in ("mbharness", "mbdriver"):
        timeout = cap if timeout is None else min(timeout, cap)
    try:
        p = subprocess.run(cmd, cwd=cwd, stdout=subprocess.PIPE, stderr=subprocess.STDOUT, timeout=timeout, env=e, input=input_bytes)
    except subprocess.TimeoutExpired as ex:
        out = (ex.stdout or b"").decode("utf-8", "replace")
        return 124, out + f"\n[{os.path.basename(str(cmd[0]))} did not finish within {timeout} s and was stopped]\n"
    return p.returncode, p.stdout.decode("utf-8", "replace")


class Lock:
    def __init__(self, name):
        os.makedirs(BUILD, exist_ok=True)
        self.path = os.path.join(BUILD, name)

    def __enter__(self):
        self.f = open(self.path, "w")
        fcntl.flock(self.f, fcntl.LOCK_EX)
        return self

    def __exit__(self, *a):
        fcntl.flock(self.f, fcntl.LOCK_UN)
        self.f.close()


def strip_lean_comments(src):
    # nested block comments and line comments
    out, i, depth = [], 0, 0
    while i < len(src):
        if src.startswith("/-", i):
            depth += 1
            i += 2
        elif src.startswith("-/", i) and depth > 0:
            depth -= 1
            i += 2
        elif depth > 0:
            if src[i] == "\n":
                out.append("\n")
            i += 1
        elif src.startswith("--", i):
            while i < len(src) and src[i] != "\n":
                i += 1
        else:
            out.append(src[i])
            i += 1
    return "".join(out)


def forbidden_tokens():
    hits = []
    for root, _, files in os.walk(LEAN):
        if ".lake" in root:
            continue
        for fn in files:
            if fn.endswith(".lean"):
                p = os.path.join(root, fn)
                src = strip_lean_comments(open(p).read())
                for n, line in enumerate(src.split("\n"), 1):
                    if FORBIDDEN.search(line):
                        hits.append(f"{os.path.relpath(p, VERIF)}:{n}: {line.strip()}")
    return hits


def theorem_names(module_file):
    src = strip_lean_comments(open(module_file).read())
    ns = None
    names = []
    for line in src.split("\n"):
        m = re.match(r"\s*namespace\s+(\S+)", line)
        if m:
            ns = m.group(1)
        m = re.match(r"\s*theorem\s+([A-Za-z0-9_.']+)", line)
        if m:
            names.append((ns + "." if ns else "") + m.group(1))
    return names


def proof_side(pid, ev):
    """translator, lake build, axiom audit. Returns (ok, reason, detail)."""
    t0 = time.time()
    rc, out = sh([sys.executable, os.path.join(HERE, "extract.py")])
    ev["coverage"]["translator"] = out.strip()
    if rc != 0:
        # the tie is broken for this property only if a generated file its model uses could not be regenerated
        broken = set(re.findall(r"TIE BROKEN \[([^\]]+)\]", out))
        mine = set(GENERATED_FOR.get(pid, ())) | {"Consts.lean", "*"}
        if not broken or "*" in broken:
            return False, "translator", out
        if broken & mine:
            # The translator cannot re-read some constants from the source text (re-spelled, moved, renamed).
            # That alone says nothing about behaviour: fall back to the last generated values (the committed
            # Generated/*.lean, i.e. constants as part of the hand-written model) and let the correspondence,
            # escalated to the larger budget, decide whether model and code still agree (DESIGN 12.11).
            missing = [f for f in broken & mine if not os.path.exists(os.path.join(LEAN, "MbVerif", "Generated", f))]
            if missing:
                return False, "translator", out
            ev["coverage"]["translator_fallback"] = {
                "files_not_regenerated": sorted(broken & mine),
                "reason": [l for l in out.split("\n") if "TIE BROKEN" in l],
                "effect": "last generated constants kept; tie for them rests on the (escalated) correspondence of this run"}
        else:
            ev["coverage"]["translator_other"] = "generators of other properties failed: " + ", ".join(sorted(broken))
    mod = f"MbVerif.Props.{pid}"
    modfile = os.path.join(LEAN, "MbVerif", "Props", f"{pid}.lean")
    if not os.path.exists(modfile):
        return False, "missing-theorem-module", modfile
    rc, out = sh(["lake", "build", mod, "mbdriver"], cwd=LEAN, timeout=3600)
    if rc != 0:
        return False, "lake-build", out[-6000:]
    hits = forbidden_tokens()
    if hits:
        return False, "forbidden-token", "\n".join(hits)
    names = theorem_names(modfile)
    if not names:
        return False, "no-theorems", modfile
    os.makedirs(WORK, exist_ok=True)
    audit = os.path.join(WORK, f"audit_{pid}.lean")
    with open(audit, "w") as f:
        f.write(f"import {mod}\n")
        for n in names:
            f.write(f"#print axioms {n}\n")
    rc, out = sh(["lake", "env", "lean", audit], cwd=LEAN, timeout=1800)
    if rc != 0:
        return False, "axiom-audit", out[-4000:]
    axioms = {}
    for m in re.finditer(r"'([^']+)' depends on axioms: \[([^\]]*)\]", out.replace("\n", " ")):
        axioms[m.group(1)] = [a.strip() for a in m.group(2).split(",") if a.strip()]
    for m in re.finditer(r"'([^']+)' does not depend on any axioms", out):
        axioms[m.group(1)] = []
    missing = [n for n in names if n not in axioms]
    if missing:
        return False, "axiom-audit", "no axiom report for " + ", ".join(missing) + "\n" + out[-2000:]
    bad = {n: [a for a in ax if a not in ALLOWED_AXIOMS] for n, ax in axioms.items()}
    bad = {n: a for n, a in bad.items() if a}
    if bad:
        return False, "axiom-audit", json.dumps(bad)
    ev["coverage"]["obligations"] = len(names)
    ev["coverage"]["discharged"] = len(names)
    ev["coverage"]["theorems"] = names
    ev["coverage"]["axioms_seen"] = sorted({a for ax in axioms.values() for a in ax})
    ev["coverage"]["proof_wall_s"] = round(time.time() - t0, 1)
    return True, "", ""


def thorough_recheck(pid):
    mod = f"MbVerif.Props.{pid}"
    rc, out = sh(["lake", "env", "leanchecker", mod], cwd=LEAN, timeout=3600)
    return rc == 0, out[-2000:]


def build_harness():
    lock_src = os.path.join(REPO, "Cargo.lock")
    lock_dst = os.path.join(HARNESS, "Cargo.lock")
    if os.path.exists(lock_src):
        a = open(lock_src, "rb").read()
        if not os.path.exists(lock_dst):
            # seed from the repository's lock so that only cached crate versions are selected
            open(lock_dst, "wb").write(a)
    rc, out = sh(["cargo", "build", "--offline"], cwd=HARNESS, timeout=3600)
    if rc != 0 and os.path.exists(lock_src):
        open(lock_dst, "wb").write(open(lock_src, "rb").read())
        rc, out = sh(["cargo", "build", "--offline"], cwd=HARNESS, timeout=3600)
    return rc == 0, out[-6000:]


def source_digests(files):
    d = {}
    for rel in files:
        p = os.path.join(REPO, rel)
        try:
            src = open(p).read()
        except OSError:
            d[rel] = "missing"
            continue
        src = re.sub(r"//[^\n]*", "", src)
        src = re.sub(r"\s+", " ", src)
        d[rel] = hashlib.sha256(src.encode()).hexdigest()[:16]
    return d


BASELINE = os.path.join(HERE, "baseline_digests.json")


def changed_sources(files):
    """anchored source files whose normalised text (comments and white space removed) differs from the
    digests recorded for the tree the evidence was last committed for (tools/baseline_digests.json)"""
    try:
        base = json.load(open(BASELINE))
    except (OSError, ValueError):
        return ["(no baseline digests)"]
    cur = source_digests(files)
    return sorted(f for f in files if base.get(f) != cur.get(f))


def merge_results(a, b):
    """second (escalated) pass merged into the first"""
    out = dict(a)
    for k in ("evaluations", "distinct_nontrivial", "traces_validated_against_impl"):
        if isinstance(a.get(k), int) and isinstance(b.get(k), int):
            out[k] = a[k] + b[k]
    out["model_disagreements"] = list(a.get("model_disagreements", [])) + list(b.get("model_disagreements", []))
    seen = {k for k, _ in a.get("monitor_failures", [])}
    out["monitor_failures"] = list(a.get("monitor_failures", [])) + [(k, t) for k, t in b.get("monitor_failures", []) if k not in seen]
    return out


def known_findings(pid):
    p = os.path.join(VERIF, "KNOWN_FINDINGS.json")
    try:
        k = json.load(open(p))
    except OSError:
        return []
    return [f for f in k.get("findings", []) if f.get("property") == pid and f.get("status") == "open"]


def write_replay(pid, name, content):
    d = os.path.join(VERIF, "replays")
    os.makedirs(d, exist_ok=True)
    p = os.path.join(d, f"{pid}_{name}.txt")
    with open(p, "w") as f:
        f.write(content)
    return p


def main():
    ap = argparse.ArgumentParser()
    ap.add_argument("pid")
    ap.add_argument("--tier", default=os.environ.get("VERIF_TIER", "quick"))
    ap.add_argument("--replay")
    a = ap.parse_args()
    pid = a.pid
    tier = a.tier if a.tier in ("quick", "thorough") else "quick"
    if tier == "quick":
        TIMEOUT_CAP["s"] = int(os.environ.get("VERIF_STEP_TIMEOUT_S", "900") or 900)
    seed = int(os.environ.get("VERIF_SEED", "20260929") or 20260929)
    spec = props.PROPS[pid]
    t0 = time.time()
    ev = {
        "property_id": pid,
        "tier": tier,
        "seed": seed,
        "level": "proof",
        "coverage": {
            "checker_cmd": f"lake build MbVerif.Props.{pid} && lake env lean <#print axioms of every theorem in Props/{pid}.lean>",
            "trusted_base": props.TRUSTED_BASE + spec.get("trusted_extra", []),
        },
        "assumptions": spec.get("assumptions", []),
        "violations": 0,
    }
    violations = []   # (replay_path, suffix)
    known_lines = []

    with Lock("check.lock"):
        ok, reason, detail = proof_side(pid, ev)
        proof_broken = None
        if not ok:
            proof_broken = (reason, detail)
        if ok and tier == "thorough" and not a.replay:
            okc, outc = thorough_recheck(pid)
            ev["coverage"]["leanchecker"] = "ok" if okc else "FAILED"
            if not okc:
                proof_broken = ("leanchecker", outc)
        okh, outh = build_harness()
    if not okh:
        # the harness does not build against the working tree: nothing can be observed
        p = write_replay(pid, "harness_build", outh)
        print(f"harness build failed, see {p}")
        violations.append((p, " no-failing-input-found"))
        result = {"evaluations": 0}
    else:
        os.makedirs(WORK, exist_ok=True)
        ctx = dict(HBIN=HBIN, DBIN=DBIN, WORK=WORK, VERIF=VERIF, LEAN=LEAN, sh=sh)
        result = spec["run"](pid, tier, seed, a.replay, ctx)
        # result: dict(evaluations, distinct_nontrivial, rule, samples, traces_validated_against_impl,
        #              model_disagreements:[...], monitor_failures:[(key, replay_text)], extra:{})
        kf = known_findings(pid)
        # Escalation (DESIGN 2.5/2.6): when the anchored source differs from the recorded digests, or the tie
        # (proof, translator, correspondence) is broken, and the quick pass has not produced a failing input of
        # its own, a second pass with the `medium` budget and another seed searches for one.
        if tier == "quick" and not a.replay and os.environ.get("VERIF_NO_ESCALATE") != "1":
            changed = changed_sources(spec.get("files", []))
            unknown = [k for k, _ in result.get("monitor_failures", [])
                       if not any(f.get("match") and re.search(f["match"], k) for f in kf)]
            why = []
            if changed:
                why.append("anchored source changed: " + ", ".join(changed))
            if ev["coverage"].get("translator_fallback"):
                why.append("translator fallback: " + ", ".join(ev["coverage"]["translator_fallback"]["files_not_regenerated"]))
            if os.environ.get("VERIF_FORCE_ESCALATE") == "1":
                why.append("forced (VERIF_FORCE_ESCALATE=1, used to time the second pass)")
            if proof_broken:
                why.append("proof side broken: " + proof_broken[0])
            if result.get("model_disagreements"):
                why.append("correspondence disagreements in the quick pass")
            if why and not unknown:
                t1 = time.time()
                second = spec["run"](pid, "medium", seed + 7919, None, ctx)
                result = merge_results(result, second)
                result.setdefault("extra", {})["escalated"] = {"why": why, "budget": "medium (4 x quick, capped by thorough), seed + 7919",
                                                               "wall_s": round(time.time() - t1, 1)}
        for key, text in result.get("monitor_failures", []):
            hit = [f for f in kf if f.get("match") and re.search(f["match"], key)]
            if hit:
                known_lines.append(f"KNOWN-FINDING: property={pid} {hit[0]['what']} [{key}]")
            else:
                p = write_replay(pid, "monitor_" + hashlib.sha256(key.encode()).hexdigest()[:10], text)
                violations.append((p, ""))
        if pid in FP_PIDS and not a.replay:
            # the rational float model against the host's IEEE arithmetic (Lean's native Float / Float32)
            rcf, outf = sh([DBIN, "fpcheck", "20000" if tier == "quick" else "400000", str(seed % 1000003 + 1)], timeout=1800)
            m = re.search(r"fpcheck operations=(\d+) mismatches=(\d+) skipped_div_by_negative_zero=(\d+)", outf)
            result.setdefault("extra", {})["fp_model_vs_host_floats"] = (
                {"operations": int(m.group(1)), "mismatches": int(m.group(2)), "skipped_div_by_negative_zero": int(m.group(3))}
                if m else {"error": outf[-300:]})
            if rcf != 0 or not m or int(m.group(2)) != 0:
                result.setdefault("model_disagreements", []).append(
                    "MbVerif/Fp.lean disagrees with the host's floating point (mbdriver fpcheck):\n" + outf[-1500:])
        dis = result.get("model_disagreements", [])
        if dis and not violations:
            p = write_replay(pid, "correspondence", "correspondence (model vs implementation) no longer checks for "
                             f"{pid}; first disagreeing cases:\n" + "\n".join(dis[:10]))
            violations.append((p, " no-failing-input-found"))
        if proof_broken and not violations:
            p = write_replay(pid, "proof", f"proof obligation no longer checks ({proof_broken[0]}):\n{proof_broken[1]}")
            violations.append((p, " no-failing-input-found"))
        cov = ev["coverage"]
        for k in ("evaluations", "distinct_nontrivial", "rule", "samples", "traces_validated_against_impl"):
            if k in result:
                cov[k] = result[k]
        cov["model_disagreements"] = len(dis)
        cov["monitor_failures_impl"] = len(result.get("monitor_failures", []))
        cov.update(result.get("extra", {}))
        cov["source_digests"] = source_digests(spec.get("files", []))
    if proof_broken:
        ev["coverage"]["proof_status"] = f"BROKEN: {proof_broken[0]}"
        ev["coverage"].pop("discharged", None)
        ev["coverage"].pop("obligations", None)
    else:
        ev["coverage"]["proof_status"] = "all theorems checked by the kernel; axioms within the allowed set"
    ev["violations"] = len(violations)
    ev["wall_s"] = round(time.time() - t0, 2)
    os.makedirs(os.path.join(VERIF, "evidence"), exist_ok=True)
    with open(os.path.join(VERIF, "evidence", f"{pid}.json"), "w") as f:
        json.dump(ev, f, indent=1)
    for line in sorted(set(known_lines)):
        print(line)
    for p, suffix in violations:
        print(f"VIOLATION property={pid} replay={p}{suffix}")
    print(f"{pid} {tier}: theorems={ev['coverage'].get('discharged')}/{ev['coverage'].get('obligations')} "
          f"evaluations={ev['coverage'].get('evaluations')} disagreements={ev['coverage'].get('model_disagreements')} "
          f"monitor_failures={ev['coverage'].get('monitor_failures_impl')} wall={ev['wall_s']}s")
    return 1 if violations else 0


if __name__ == "__main__":
    sys.exit(main())
