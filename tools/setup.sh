#!/bin/sh
# Build everything from files on disk, offline: translator, Lean project (all theorem modules + driver), harness.
set -e
cd "$(dirname "$0")/.."
export CARGO_NET_OFFLINE=true
python3 tools/extract.py
( cd lean && lake build MbVerif mbdriver )
[ -f harness/Cargo.lock ] || cp /repo/Cargo.lock harness/Cargo.lock
( cd harness && cargo build --offline )
echo "setup ok"
