"""Budget tiers shared by the property tables."""


def pick(tier, q, t):
    """number of generated cases per tier; `medium` (used when the anchored source changed or the tie is
    broken, see check.py) is eight times the quick budget, capped by the thorough one"""
    if tier == "quick":
        return q
    if tier == "medium":
        return max(q, min(t, 8 * q))
    return t
