"""Budget tiers shared by the property tables."""
import os

MEDIUM_FACTOR = int(os.environ.get("VERIF_MEDIUM_FACTOR", "4") or 4)


def pick(tier, q, t):
    """number of generated cases per tier; `medium` (used when the anchored source changed or the tie is
    broken, see check.py) is MEDIUM_FACTOR (4) times the quick budget, capped by the thorough one"""
    if tier == "quick":
        return q
    if tier == "medium":
        return max(q, min(t, MEDIUM_FACTOR * q))
    return t
