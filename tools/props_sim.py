"""Simulator properties C14-C19: generators, budgets and the runner used by tools/check.py.

Every case is a set of runs of the real `sim_advanced` / `sim` (main, same-seed re-run, the
unfiltered uncapped reference run, the three filter settings, a capped run, and `sim`), each
replayed through the Lean model with the logged random oracle (exact event-list comparison)
and checked by the property monitors on the implementation's traces.
"""
import glob
import os
import re
from tiers import pick

SIM_FILES = ["crates/maybenot-simulator/src/lib.rs", "crates/maybenot-simulator/src/network.rs",
             "crates/maybenot-simulator/src/queue.rs", "crates/maybenot-simulator/src/queue_event.rs",
             "crates/maybenot-simulator/src/queue_peek.rs", "crates/maybenot-simulator/src/delay.rs"]


def split_cases(text):
    out = {}
    cur, cid = [], None
    for line in text.split("\n"):
        if line.startswith("case "):
            cur = [line]
            cid = line.split()[1]
        elif cid is not None:
            cur.append(line)
            if line.strip() == "end":
                out[cid] = "\n".join(cur) + "\n"
                cid = None
    return out


def inputs_only(block):
    return "\n".join(l for l in block.split("\n") if not l.startswith("o ") and not l.startswith("orc ")) + "\n"


def norm_msg(msg):
    """key of a monitor failure: the diagnosis tag and the core message; run names, sides, numbers
    and the details after ' | ' are abstracted away"""
    msg = re.sub(r"^run [a-z0-9]+: ", "", msg)
    msg = msg.split(" | ")[0]
    msg = re.sub(r"\b(client|server)\b", "SIDE", msg)
    msg = re.sub(r"runs [a-z0-9]+ and [a-z0-9]+", "runs A and B", msg)
    msg = re.sub(r"run [a-z0-9]+", "run R", msg)
    m = re.match(r"^(\[[^\]]*\] )?(.*)$", msg)
    return (m.group(1) or "") + re.sub(r"-?\d+", "N", m.group(2))


def run_sim(pid, tier, seed, replay, ctx, gens, mech):
    """gens: list of (kind, quick_cases, thorough_cases); mech: features that make a case non-trivial for pid"""
    sh = ctx["sh"]
    texts = []
    if replay:
        rc, out = sh([ctx["HBIN"], "sim-replay", "--seed", str(seed)], input_bytes=open(replay, "rb").read(), timeout=3600)
        texts.append(("replay", out))
    else:
        for c in sorted(glob.glob(os.path.join(ctx["VERIF"], "corpus", pid, "*.txt"))):
            rc, out = sh([ctx["HBIN"], "sim-replay", "--seed", str(seed)], input_bytes=open(c, "rb").read(), timeout=3600)
            texts.append(("corpus:" + os.path.basename(c), out))
        for kind, nq, nt in gens:
            n = pick(tier, nq, nt)
            rc, out = sh([ctx["HBIN"], "sim-gen", "--kind", kind, "--seed", str(seed), "--cases", str(n)], timeout=7200)
            if rc != 0:
                return {"evaluations": 0, "model_disagreements": [f"harness failed for sim kind {kind}: {out[-500:]}"]}
            texts.append((kind, out))
    evaluations = 0
    sims = 0
    dis, mons = [], []
    nontrivial = set()
    samples = []
    dist = {}
    for name, text in texts:
        blocks = split_cases(text)
        rc, out = sh([ctx["DBIN"], "sim"], input_bytes=text.encode(), timeout=7200)
        if rc != 0:
            dis.append(f"driver failed on {name}: {out[-500:]}")
            continue
        seen = 0
        for line in out.split("\n"):
            ws = line.split()
            if not ws:
                continue
            if ws[0] == "case":
                seen += 1
                evaluations += 1
                cid, status = ws[1], ws[3]
                sims += blocks.get(cid, "").count("\nrun ")
                if status == "ok":
                    continue
                if status == "DIFF":
                    proj = set(ws[4].replace("proj=", "").split(",")) if len(ws) > 4 else set()
                    if pid in proj:
                        dis.append(f"{cid} {' '.join(ws[4:])}\n" + inputs_only(blocks.get(cid, "")))
                else:
                    dis.append(f"{cid} {' '.join(ws[3:])}")
            elif ws[0] == "sig":
                feats = ws[2].split(",") if len(ws) > 2 else []
                for f in feats:
                    dist[f] = dist.get(f, 0) + 1
                if mech is None or set(feats) & set(mech):
                    nontrivial.add(ws[2] if len(ws) > 2 else "")
                    if len(samples) < 2:
                        samples.append(inputs_only(blocks.get(ws[1], ""))[:1500])
            elif ws[0] == "mon" and ws[2] == "FAIL":
                cid = ws[3]
                msg = " ".join(ws[4:])
                if ws[1] == pid:
                    key = f"{pid}:{norm_msg(msg)}"
                    mons.append((key, f"monitor {pid} failed on the implementation's trace: {msg}\n" + inputs_only(blocks.get(cid, ""))))
                elif ws[1] == "REPLAY" and pid in ("C16", "C17", "C18"):
                    dis.append(f"{cid} action recovery: {msg}\n" + inputs_only(blocks.get(cid, "")))
            elif ws[0] == "badblocks":
                dis.append("driver could not parse " + ws[1] + " case blocks of " + name)
        if seen != len(blocks):
            dis.append(f"driver reported {seen} cases of {len(blocks)} for {name}")
    uniq = {}
    for k, t in mons:
        uniq.setdefault(k, t)
    return {
        "evaluations": evaluations,
        "distinct_nontrivial": len(nontrivial),
        "rule": "simulator cases generated from VERIF_SEED by the harness generators " + ", ".join(g[0] for g in gens) +
                " (sorted traces of 1-60 packets with bursts / equal timestamps / gaps up to seconds, delays 0..250ms, optional pps, "
                "0-3 machines per side from templates, all stop and filter settings); every case is 8 runs of the real simulator; "
                "distinct = distinct coverage signature (set of mechanisms the runs exercised: padding, blocking, bypass, replace, timers, "
                "cancels, aggregate delay, pps limit, each stop condition, filters, machine counts, and the shape of the input trace: length class, bursts, equal timestamps in both directions, gaps, delay); non-trivial = signature touches "
                + (", ".join(mech) if mech else "any mechanism"),
        "samples": samples or ["(no non-trivial sample)"],
        "traces_validated_against_impl": sims,
        "model_disagreements": dis,
        "monitor_failures": list(uniq.items()),
        "extra": {"feature_distribution": dist, "simulations": sims},
    }


def simp(gens, mech=None, **kw):
    def run(pid, tier, seed, replay, ctx):
        return run_sim(pid, tier, seed, replay, ctx, gens, mech)
    d = {"run": run, "files": SIM_FILES}
    d.update(kw)
    return d


SIM_ASSUME = ["no integration delays (the harness never passes an Integration)",
              "the random oracle of the model is the hook log of the run (every transition draw and raw distribution sample of both frameworks, in order)"]

PROPS = {
    "C14": simp([("nomachines", 300, 6000), ("general", 60, 600), ("big", 3, 15)], mech=["c0s0"],
                assumptions=SIM_ASSUME + ["time-ordered input trace; trace-derived packets-per-second limit (no explicit pps)"]),
    "C15": simp([("general", 200, 2500), ("blocking", 100, 1200), ("timers", 50, 500), ("scenario", 40, 400), ("big", 4, 24), ("crowd", 4, 60)],
                mech=["pad", "blk", "replace", "repl-hit", "repl-bypass-hit", "agg", "pps", "moved"], assumptions=SIM_ASSUME),
    "C16": simp([("blocking", 250, 3000), ("general", 100, 1200), ("scenario", 60, 600), ("big", 4, 24), ("crowd", 4, 60)], mech=["blk", "blkend", "bypass", "blkB", "blkR", "blk0"],
                assumptions=SIM_ASSUME),
    "C17": simp([("timers", 120, 1500), ("blocking", 120, 1500), ("general", 100, 1200), ("scenario", 60, 600), ("big", 4, 24), ("crowd", 4, 60)], mech=["pad", "blk", "cancelA", "cancelL"],
                assumptions=SIM_ASSUME),
    "C18": simp([("timers", 250, 3000), ("general", 100, 1200), ("scenario", 60, 600), ("big", 4, 24), ("crowd", 4, 60)], mech=["timer", "timerend", "timerR", "timer0", "cancelI", "cancelL"],
                assumptions=SIM_ASSUME),
    "C19": simp([("general", 250, 3000), ("blocking", 60, 600), ("timers", 60, 600), ("nomachines", 30, 300), ("scenario", 40, 400), ("big", 4, 24), ("crowd", 4, 60)],
                assumptions=SIM_ASSUME + ["packets-per-second limits with pps mod 2^32 = 0 are excluded from the totality theorem and replayed on the implementation"]),
}
