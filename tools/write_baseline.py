#!/usr/bin/env python3
"""Record the digests of the anchored source files of /repo's committed tree (tools/baseline_digests.json).

Run after every commit to /repo (hooks, fix: commits).  check.py compares the working tree with these
digests; a difference does not change any verdict, it only makes the quick tier add a second, larger
search pass (see DESIGN 12.10).  Refuses to run on a dirty /repo so that a seeded change can never be
recorded as the baseline.
"""
import json
import os
import subprocess
import sys

HERE = os.path.dirname(os.path.abspath(__file__))
sys.path.insert(0, HERE)
import check  # noqa: E402
import props  # noqa: E402

out = subprocess.run(["git", "status", "--porcelain", "--untracked-files=no"], cwd=check.REPO, stdout=subprocess.PIPE).stdout.decode()
if out.strip():
    print("refusing: working tree of", check.REPO, "is not clean:\n" + out)
    sys.exit(2)
files = sorted({f for p in props.PROPS.values() for f in p.get("files", [])})
d = check.source_digests(files)
json.dump(d, open(check.BASELINE, "w"), indent=1, sort_keys=True)
print("recorded", len(d), "digests")
