"""C11 — machine strings round-trip exactly and hostile strings are rejected safely.

Runner for tools/check.py: corpus + generated `codec-*` cases through the implementation
(mbharness) and the model (mbdriver codec); monitors on the implementation's behaviour.
"""
import glob
import os
import re
from tiers import pick

CODEC_FILES = ["crates/maybenot/src/machine.rs", "crates/maybenot/src/parsing.rs",
               "crates/maybenot/src/constants.rs", "crates/maybenot/src/state.rs",
               "crates/maybenot/src/dist.rs", "crates/maybenot/src/action.rs", "crates/maybenot/src/counter.rs"]

MAX = 1 << 20

# (kind, quick cases, thorough cases, extra args quick, extra args thorough)
GENS = [
    ("valid", 110, 700, ["--max-states", "1200"], ["--max-states", "4000"]),
    ("hostile", 3000, 100000, [], []),
    ("v1", 2000, 30000, [], []),
    ("bomb", 11, 22, [], ["--big", "1"]),
    # machines at the documented size limit: encodings of exactly MAX, MAX-1, MAX-2, MAX-4096
    # bytes (must round-trip), MAX+1 (serialize panics; model predicts it), largest whole multiple
    ("limit", 7, 14, [], []),
]


def split_cases(text):
    out = {}
    cur, cid = [], None
    for line in text.split("\n"):
        if line.startswith("case "):
            cur = [line]
            cid = line.split()[1]
        elif cid is not None:
            cur.append(line)
            if line.strip() == "end":
                out[cid] = cur
                cid = None
    return out


def inputs_only(lines):
    """the part of a case block that `codec-replay` needs"""
    keep = [l for l in lines if l.startswith("case ") or l.startswith("m ") or l.startswith("s ") or l == "s" or l.strip() == "end"]
    return "\n".join(keep) + "\n"


def mon_key(pid, msg):
    if msg.startswith("roundtrip"):
        m = re.search(r"single read returned (\d+) of (\d+) bytes", msg)
        if m and int(m.group(1)) < int(m.group(2)):
            return f"{pid}:roundtrip:short-read"
        return f"{pid}:roundtrip:other"
    if "panicked" in msg:
        return f"{pid}:panic:" + ("v1" if "parse_v1" in msg else "from_str")
    if "fails validation" in msg:
        return f"{pid}:accepted-invalid"
    if "does not round-trip in the current format" in msg:
        return f"{pid}:v1-accepted-not-v2"
    if msg.startswith("allocation"):
        return f"{pid}:allocation"
    return f"{pid}:{msg[:40]}"


def alloc_bound_tight(input_len, sizeof_state, states):
    """peak heap of from_str on a string of `input_len` bytes whose decompressed prefix lets a streaming decoder
    complete `states` states: the 1 MiB read buffer, copies of the input (base64 + compressed), serde's cautious
    preallocation (at most 1 MiB), the states actually built with Vec doubling (old + new buffer during a
    reallocation: 3x), and slack for the inner vectors of those states"""
    return MAX + 4 * input_len + (1 << 20) + 3 * (states + 2) * sizeof_state + 64 * states + (1 << 19)


def alloc_bound(input_len, sizeof_state):
    # 1 MiB read buffer + base64/compressed copies of the input + the state vector bincode can
    # build from at most MAX bytes (>= 16 bytes per state; Vec doubling, old+new buffer live
    # during a reallocation) + slack
    return MAX + 3 * input_len + 3 * (MAX // 16) * sizeof_state + (1 << 20)


def run(pid, tier, seed, replay, ctx):
    sh = ctx["sh"]
    texts = []
    if replay:
        rc, out = sh([ctx["HBIN"], "codec-replay"], input_bytes=open(replay, "rb").read(), timeout=3600)
        texts.append(("replay", out))
    else:
        for c in sorted(glob.glob(os.path.join(ctx["VERIF"], "corpus", pid, "*.txt"))):
            rc, out = sh([ctx["HBIN"], "codec-replay"], input_bytes=open(c, "rb").read(), timeout=3600)
            texts.append(("corpus:" + os.path.basename(c), out))
        for kind, nq, nt, aq, at in GENS:
            n, extra = (pick(tier, nq, nt), at if tier == "thorough" else aq)
            # large runs in slices so that no single protocol text gets huge
            step = 20000 if kind in ("hostile", "v1") else (100 if kind == "valid" else n)
            done = 0
            part = 0
            while done < n:
                k = min(step, n - done)
                rc, out = sh([ctx["HBIN"], "codec-gen", "--kind", kind, "--seed", str(seed + part), "--cases", str(k)] + extra, timeout=7200)
                if rc != 0:
                    return {"evaluations": 0, "model_disagreements": [f"harness failed for kind {kind}: {out[-500:]}"]}
                texts.append((f"{kind}#{part}", out))
                done += k
                part += 1
    evaluations = 0
    dis, mons = [], []
    sigs, nontrivial = set(), set()
    dist = {}
    samples = []
    peaks = []          # (peak, input_len, case id)
    contract_ok = contract_broken = 0
    accepted = rejected = 0
    for name, text in texts:
        blocks = split_cases(text)
        rc, out = sh([ctx["DBIN"], "codec"], input_bytes=text.encode(), timeout=7200)
        if rc != 0:
            dis.append(f"driver failed on {name}: {out[-500:]}")
            continue
        states_of = {}
        for line in out.split("\n"):
            ws = line.split()
            if len(ws) == 3 and ws[0] == "states":
                states_of[ws[1]] = int(ws[2])
        # peak allocation during from_str (measured by the harness with a counting allocator)
        sizeof_state = 1024
        for cid, lines in blocks.items():
            for l in lines:
                if l.startswith("peak "):
                    ws = l.split()
                    peaks.append((int(ws[1]), int(ws[2]), cid))
                    if len(ws) > 3:
                        sizeof_state = int(ws[3])
                    # the driver tells how many states a streaming decoder can complete from what was read
                    # (`states <case> <k>` lines); without that line the coarse bound applies
                    k = states_of.get(cid)
                    bound = alloc_bound(int(ws[2]), sizeof_state) if k is None else alloc_bound_tight(int(ws[2]), sizeof_state, k)
                    if int(ws[1]) > bound:
                        msg = (f"allocation: from_str peak {ws[1]} bytes for a {ws[2]}-byte string exceeds {bound}"
                               + ("" if k is None else f" (a decoder can complete {k} states from the bytes read)"))
                        mons.append((mon_key(pid, re.sub(r"[0-9]+", "N", msg)), f"monitor {pid} failed on the implementation: {msg}\n" + inputs_only(lines)))
        seen = 0
        for line in out.split("\n"):
            ws = line.split()
            if not ws:
                continue
            if ws[0] == "case":
                seen += 1
                evaluations += 1
                cid, status = ws[1], ws[3] if len(ws) > 3 else "?"
                if status == "ok":
                    continue
                dis.append(f"{cid} {' '.join(ws[3:])}\n" + inputs_only(blocks.get(cid, []))[:4000])
            elif ws[0] == "sig":
                feats = ws[2].split(",") if len(ws) > 2 else []
                s = ws[2] if len(ws) > 2 else ""
                sigs.add(s)
                nontrivial.add(s)
                for f in feats:
                    dist[f] = dist.get(f, 0) + 1
                if "contract" in feats:
                    contract_ok += 1
                if "contract-broken" in feats:
                    contract_broken += 1
                if "accept" in feats:
                    accepted += 1
                if "reject" in feats:
                    rejected += 1
                if len(samples) < 3 and len(feats) > 3:
                    samples.append(inputs_only(blocks.get(ws[1], []))[:600])
            elif ws[0] == "mon" and ws[1] == pid and ws[2] == "FAIL":
                cid = ws[3]
                msg = " ".join(ws[4:])
                mons.append((mon_key(pid, msg), f"monitor {pid} failed on the implementation: {msg}\n"
                             f"# replay: tools/check.py {pid} --replay <this file>\n" + inputs_only(blocks.get(cid, []))))
            elif ws[0] == "badblocks":
                dis.append(f"driver could not parse {ws[1]} case blocks of {name}")
        if seen != len(blocks):
            dis.append(f"driver reported {seen} cases of {len(blocks)} for {name}")
    # one replay per distinct monitor key: the smallest failing input
    uniq = {}
    for k, t in mons:
        if k not in uniq or len(t) < len(uniq[k]):
            uniq[k] = t
    peaks.sort(reverse=True)
    return {
        "evaluations": evaluations,
        "distinct_nontrivial": len(nontrivial),
        "rule": "cases generated from VERIF_SEED by `mbharness codec-gen` (valid machines of every action/distribution/counter variant "
                "with extreme and random-bit fields; hostile strings: string-, compressed- and bincode-level mutations, random strings, "
                "non-ASCII, wrong versions; compression bombs; v1 buffers and their mutations); distinct = distinct signature "
                "(valid: size bucket + variants present + contract outcome; hostile/v1: mutation kind + rejecting stage + accept/reject)",
        "samples": samples or ["(none)"],
        "traces_validated_against_impl": evaluations,
        "model_disagreements": dis,
        "monitor_failures": list(uniq.items()),
        "extra": {
            "feature_distribution": dist,
            "zlib_contract_on_real_path": {"holds": contract_ok, "broken": contract_broken},
            "hostile_accepted": accepted,
            "hostile_rejected": rejected,
            "peak_alloc_during_from_str_top5": [{"peak_bytes": p, "input_len": n, "case": c} for p, n, c in peaks[:5]],
            "peak_alloc_note": "supporting evidence only (counting global allocator in the harness); not a theorem",
        },
    }


PROPS = {
    "C11": {
        "run": run,
        "files": CODEC_FILES,
        "assumptions": [
            "zlib is a parameter of the model: the round-trip theorems assume `Zlib.Contract` (one read into a 1 MiB buffer returns the whole "
            "payload when it fits; a zlib stream is never empty). The harness checks this contract on the real flate2 path for every generated machine.",
            "heap use is outside the model; peak allocation during from_str is measured by a counting allocator and reported as supporting evidence",
            "a `Vec` holds fewer than 2^64 bytes (hypothesis `buf.length < USIZE` of the v1 no-fault theorem); usize is 64 bits",
            "hex decoding and `read_to_end` decompression of parse_v1_machine are inputs to the v1 model (the harness passes the decompressed bytes)",
        ],
        "trusted_extra": [
            "flate2 / miniz_oxide (parameter `Zlib` with a stated contract)",
            "bincode 1.3.3 + serde derive output (modelled format; `encMachine (decode bytes) = bytes` checked on every generated machine)",
            "base64 0.22.1 STANDARD engine (modelled from source; encode and decode compared on every case)",
        ],
    }
}
