#!/bin/sh
# Isolated copy of /verif (at /tmp/viso) pointing at a scratch worktree of /repo (/tmp/riso), so that seeded
# changes can be exercised against the registered checks while /repo itself stays untouched.
#   tools/iso.sh sync                      create / refresh the copy (sources only; build output is kept)
#   tools/iso.sh pipe <worktree> <letter> <PID> [--props ...] [--demo-crate ...]   confirm + run + store under /verif/seeded
#   tools/iso.sh seedtest <patch> [--props ...]
#   tools/iso.sh drop                      remove both
set -e
V=/tmp/viso${ISO_SUFFIX}
R=/tmp/riso${ISO_SUFFIX}
case "$1" in
  sync)
    [ -d "$R" ] || git -C /repo worktree add --detach "$R" HEAD >/dev/null
    git -C "$R" checkout -q --detach "$(git -C /repo rev-parse HEAD)"
    mkdir -p "$V"
    rsync -a --delete --exclude .git --exclude replays --exclude 'harness/Cargo.toml' --exclude '.build/check.lock' /verif/ "$V"/
    sed 's#/repo/crates#'"$R"'/crates#' /verif/harness/Cargo.toml > "$V"/harness/Cargo.toml
    ;;
  pipe)
    shift
    VERIF_REPO="$R" SEEDED_OUT=/verif/seeded python3 "$V"/tools/seeded_pipeline.py "$@"
    ;;
  seedtest)
    shift
    VERIF_REPO="$R" python3 "$V"/tools/seedtest.py "$@"
    ;;
  drop)
    rm -rf "$V"
    git -C /repo worktree remove --force "$R" 2>/dev/null || true
    ;;
esac
