#!/usr/bin/env python3
"""Translator: regenerates lean/MbVerif/Generated/*.lean from /repo's sources.

Extracted: numeric constants, enum variant orders (bincode tags / array
indices), validation thresholds, the simulator's event order table and the C
struct layouts of maybenot.h.  Files are rewritten only when their content
changes (so lake's cache stays valid).  Exit status 2 and a message on stderr
when a pattern is no longer found: the tie between model and source is broken.
"""
import os
import re
import sys
from fractions import Fraction

REPO = os.environ.get("VERIF_REPO", "/repo")
HERE = os.path.dirname(os.path.abspath(__file__))
OUT = os.path.join(HERE, "..", "lean", "MbVerif", "Generated")


class ExtractError(Exception):
    pass


def read(rel):
    p = os.path.join(REPO, rel)
    try:
        with open(p) as f:
            return f.read()
    except OSError as e:
        raise ExtractError(f"cannot read {rel}: {e}")


def strip_comments(src):
    src = re.sub(r"/\*.*?\*/", "", src, flags=re.S)
    return re.sub(r"//[^\n]*", "", src)


def eval_const(expr, env):
    """Evaluate a Rust constant expression made of literals, + - * << and names."""
    e = expr.strip()
    e = re.sub(r"\bu64::MAX\b", str(2**64 - 1), e)
    e = re.sub(r"\bu32::MAX\b", str(2**32 - 1), e)
    e = re.sub(r"\busize::MAX\b", str(2**64 - 1), e)
    # `!0_u64`, `!0u32`, ... : all ones of that width
    e = re.sub(r"!\s*0_?(u8|u16|u32|u64|usize)\b", lambda m: str(2 ** {"u8": 8, "u16": 16, "u32": 32, "u64": 64, "usize": 64}[m.group(1)] - 1), e)
    e = re.sub(r"\bu16::MAX\b", str(2**16 - 1), e)
    e = re.sub(r"\bu8::MAX\b", str(2**8 - 1), e)
    e = re.sub(r"\b(u64|u32|usize|u16|u8)::MIN\b", "0", e)
    e = re.sub(r"\b(?:u64|u32|usize|u16|u8)::max_value\(\)", lambda m: str({"u64": 2**64, "usize": 2**64, "u32": 2**32, "u16": 2**16, "u8": 2**8}[m.group(0).split(":")[0]] - 1), e)
    e = re.sub(r"\bas\s+(usize|u64|u32|u16|u8|i64|i32|f64|f32)\b", "", e)
    # literal spellings: digit separators, type suffixes (with or without an underscore), hex/octal/binary
    SUF = r"(?:_?(?:u8|u16|u32|u64|usize|i32|i64))?"
    e = re.sub(r"\b0x([0-9a-fA-F_]*[0-9a-fA-F])" + SUF + r"\b", lambda m: str(int(m.group(1).replace("_", ""), 16)), e)
    e = re.sub(r"\b0o([0-7_]*[0-7])" + SUF + r"\b", lambda m: str(int(m.group(1).replace("_", ""), 8)), e)
    e = re.sub(r"\b0b([01_]*[01])" + SUF + r"\b", lambda m: str(int(m.group(1).replace("_", ""), 2)), e)
    e = re.sub(r"(\d)_?(u8|u16|u32|u64|usize|i32|i64|f64|f32)\b", r"\1", e)
    e = re.sub(r"\b\d[0-9a-zA-Z_.]*", lambda m: m.group(0).replace("_", ""), e)
    e = re.sub(r"\b0x[0-9a-fA-F]+\b", lambda m: str(int(m.group(0), 16)), e)
    e = re.sub(r"\b0o[0-7]+\b", lambda m: str(int(m.group(0)[2:], 8)), e)
    e = re.sub(r"\b0b[01]+\b", lambda m: str(int(m.group(0)[2:], 2)), e)

    def name(m):
        n = m.group(0)
        if n in env:
            return f"({env[n]!r})"
        raise ExtractError(f"unknown name {n} in constant expression {expr!r}")

    e = re.sub(r"\b[A-Za-z_][A-Za-z0-9_]*\b", lambda m: m.group(0) if re.fullmatch(r"\d+(\.\d+)?(e\d+)?", m.group(0)) else name(m), e)
    # exact rational arithmetic for decimals
    e = re.sub(r"\d+\.\d*(?:[eE][-+]?\d+)?|\d+[eE][-+]?\d+", lambda m: "Fraction('" + (m.group(0) + "0" if m.group(0).endswith(".") else m.group(0)) + "')", e)
    if not re.fullmatch(r"[\d\s()+\-*<>/.,'FractioneE]*", e):
        raise ExtractError(f"unsupported constant expression {expr!r}")
    try:
        return eval(e, {"Fraction": Fraction, "__builtins__": {}})
    except Exception as ex:  # noqa
        raise ExtractError(f"cannot evaluate {expr!r}: {ex}")


def consts_of(src, env=None):
    env = dict(env or {})
    out = {}
    # Rust constants may refer to constants defined further down in the file: evaluate to a fixpoint so
    # that the order of the items does not matter (private constants are read too: a public one may use them)
    pending = [(m.group(1), m.group(2)) for m in
               re.finditer(r"(?:pub(?:\([a-z:]+\))?\s+)?const\s+([A-Z][A-Z0-9_]*)\s*:\s*[A-Za-z0-9:<>& ]+?\s*=\s*([^;]+);", strip_comments(src))]
    last_err = None
    while pending:
        rest = []
        for n, expr in pending:
            try:
                v = eval_const(expr, env)
            except ExtractError as e:
                last_err = e
                rest.append((n, expr))
                continue
            env[n] = v
            out[n] = v
        if len(rest) == len(pending):
            # constants this translator cannot evaluate are only an error when something asks for them
            break
        pending = rest
    out["__unresolved__"] = {n: str(last_err) for n, _ in pending} if pending else {}
    return out


def enum_variants(src, name):
    s = strip_comments(src)
    m = re.search(r"\benum\s+" + name + r"\b[^{]*\{", s)
    if not m:
        raise ExtractError(f"enum {name} not found")
    i = m.end()
    depth = 1
    body = ""
    while depth > 0:
        c = s[i]
        if c == "{":
            depth += 1
        elif c == "}":
            depth -= 1
        if depth > 0:
            body += c
        i += 1
    # split at top level commas
    variants = []
    depth = 0
    cur = ""
    for c in body:
        if c in "{(":
            depth += 1
        if c in "})":
            depth -= 1
        if c == "," and depth == 0:
            variants.append(cur)
            cur = ""
        else:
            cur += c
    if cur.strip():
        variants.append(cur)
    res = []
    for v in variants:
        v = re.sub(r"#\[[^\]]*\]", "", v).strip()
        if not v:
            continue
        mm = re.match(r"([A-Za-z0-9_]+)\s*(\{(.*)\}|\((.*)\))?\s*(=\s*(.+?))?\s*$", v, flags=re.S)
        if not mm:
            raise ExtractError(f"enum {name}: cannot parse variant {v!r}")
        fields = []
        if mm.group(3) is not None:
            for f in mm.group(3).split(","):
                f = f.strip()
                if f:
                    fn, ft = f.split(":", 1)
                    fields.append((fn.strip(), ft.strip()))
        # an explicit discriminant is a constant expression (`3`, `0x3`, `0b11`, `3_u32`, ...): evaluate it,
        # never read a prefix of it
        disc = None
        if mm.group(6) is not None:
            dv = eval_const(mm.group(6), {})
            if isinstance(dv, Fraction):
                if dv.denominator != 1:
                    raise ExtractError(f"enum {name}::{mm.group(1)}: discriminant {mm.group(6)!r} is not integral")
                dv = int(dv)
            disc = dv
        res.append((mm.group(1), fields, disc))
    return res


def split_top(body):
    parts, depth, cur = [], 0, ""
    for c in body:
        if c in "{(<[":
            depth += 1
        if c in "})>]":
            depth -= 1
        if c == "," and depth == 0:
            parts.append(cur)
            cur = ""
        else:
            cur += c
    if cur.strip():
        parts.append(cur)
    return parts


def as_nat(name, v):
    if isinstance(v, Fraction):
        if v.denominator != 1:
            raise ExtractError(f"{name} = {v} is not integral")
        v = int(v)
    if not isinstance(v, int) or v < 0:
        raise ExtractError(f"{name} = {v!r} is not a natural number")
    return v


def gen_consts():
    L = ["/- GENERATED by tools/extract.py from /repo sources. Do not edit. -/", "namespace Mb.Gen", ""]
    c = consts_of(read("crates/maybenot/src/constants.rs"))
    for k in ["VERSION", "MAX_DECOMPRESSED_SIZE", "EVENT_NUM", "STATE_LIMIT_MAX", "STATE_END", "STATE_SIGNAL", "STATE_MAX"]:
        if k not in c:
            raise ExtractError(f"constant {k} not found in constants.rs {c.get('__unresolved__', {}).get(k, '')}")
        L.append(f"def {k} : Nat := {as_nat(k, c[k])}")
    for k in ["MAX_SAMPLED_TIMEOUT", "MAX_SAMPLED_TIMER_DURATION", "MAX_SAMPLED_BLOCK_DURATION"]:
        if k not in c:
            raise ExtractError(f"constant {k} not found in constants.rs")
        L.append(f"/-- microseconds -/\ndef {k} : Nat := {as_nat(k, c[k])}")
    L.append("")

    ev = enum_variants(read("crates/maybenot/src/event.rs"), "Event")
    want = ["NormalRecv", "PaddingRecv", "TunnelRecv", "NormalSent", "PaddingSent", "TunnelSent", "BlockingBegin",
            "BlockingEnd", "LimitReached", "CounterZero", "TimerBegin", "TimerEnd", "Signal"]
    names = [v[0] for v in ev]
    if sorted(names) != sorted(want):
        raise ExtractError(f"enum Event variants changed: {names}")
    for i, n in enumerate(names):
        L.append(f"def EV_{n} : Nat := {i}")
    L.append("")

    tev = [v[0] for v in enum_variants(read("crates/maybenot/src/event.rs"), "TriggerEvent")]
    wantt = ["NormalRecv", "PaddingRecv", "TunnelRecv", "NormalSent", "PaddingSent", "TunnelSent", "BlockingBegin",
             "BlockingEnd", "TimerBegin", "TimerEnd"]
    if sorted(tev) != sorted(wantt):
        raise ExtractError(f"enum TriggerEvent variants changed: {tev}")

    def tags(prefix, rel, enum, want, fieldspec=None):
        vs = enum_variants(read(rel), enum)
        names = [v[0] for v in vs]
        if sorted(names) != sorted(want):
            raise ExtractError(f"enum {enum} variants changed: {names}")
        for i, n in enumerate(names):
            L.append(f"def {prefix}_{n} : Nat := {i}")
        if fieldspec is not None:
            for (n, fields, _) in vs:
                got = [f[0] for f in fields]
                if got != fieldspec[n]:
                    raise ExtractError(f"enum {enum}::{n} fields changed: {got} (model expects {fieldspec[n]})")
        L.append("")

    tags("DT", "crates/maybenot/src/dist.rs", "DistType",
         ["Uniform", "Normal", "SkewNormal", "LogNormal", "Binomial", "Geometric", "Pareto", "Poisson", "Weibull", "Gamma", "Beta"],
         {"Uniform": ["low", "high"], "Normal": ["mean", "stdev"], "SkewNormal": ["location", "scale", "shape"],
          "LogNormal": ["mu", "sigma"], "Binomial": ["trials", "probability"], "Geometric": ["probability"],
          "Pareto": ["scale", "shape"], "Poisson": ["lambda"], "Weibull": ["scale", "shape"], "Gamma": ["scale", "shape"],
          "Beta": ["alpha", "beta"]})
    tags("ACT", "crates/maybenot/src/action.rs", "Action", ["Cancel", "SendPadding", "BlockOutgoing", "UpdateTimer"],
         {"Cancel": ["timer"], "SendPadding": ["bypass", "replace", "timeout", "limit"],
          "BlockOutgoing": ["bypass", "replace", "timeout", "duration", "limit"],
          "UpdateTimer": ["replace", "duration", "limit"]})
    tags("TIMER", "crates/maybenot/src/action.rs", "Timer", ["Action", "Internal", "All"])
    tags("OP", "crates/maybenot/src/counter.rs", "Operation", ["Increment", "Decrement", "Set"])

    # struct field orders (bincode encodes fields in declaration order)
    def struct_fields(rel, name, want):
        s = strip_comments(read(rel))
        m = re.search(r"\bstruct\s+" + name + r"\s*\{([^}]*)\}", s)
        if not m:
            raise ExtractError(f"struct {name} not found in {rel}")
        got = [re.sub(r"\bpub(\([a-z]+\))?", "", f.split(":")[0]).strip() for f in split_top(m.group(1)) if f.strip()]
        got = [g for g in got if g]
        if got != want:
            raise ExtractError(f"struct {name} fields changed: {got} (model expects {want})")

    struct_fields("crates/maybenot/src/machine.rs", "Machine",
                  ["allowed_padding_packets", "max_padding_frac", "allowed_blocked_microsec", "max_blocking_frac", "states"])
    struct_fields("crates/maybenot/src/state.rs", "State", ["action", "counter", "transitions"])
    struct_fields("crates/maybenot/src/counter.rs", "Counter", ["operation", "dist", "copy"])
    struct_fields("crates/maybenot/src/dist.rs", "Dist", ["dist", "start", "max"])

    # validation thresholds in dist.rs
    d = strip_comments(read("crates/maybenot/src/dist.rs"))
    dc = consts_of(d)
    if "DIST_MIN_PROBABILITY" not in dc:
        raise ExtractError("DIST_MIN_PROBABILITY not found")
    q = Fraction(dc["DIST_MIN_PROBABILITY"])
    L.append(f"/-- the decimal literal DIST_MIN_PROBABILITY as an exact rational (the f64 constant is its rounding) -/")
    L.append(f"def DIST_MIN_PROBABILITY_NUM : Nat := {q.numerator}")
    L.append(f"def DIST_MIN_PROBABILITY_DEN : Nat := {q.denominator}")
    env = {k: v for k, v in dc.items() if not k.startswith("__")}
    m = re.search(r"if\s+trials\s*>\s*([^{]+)\{", d)
    if not m:
        raise ExtractError("Binomial trials threshold not found")
    L.append(f"def BINOMIAL_MAX_TRIALS : Nat := {as_nat('Binomial trials threshold', eval_const(m.group(1), env))}")
    m = re.search(r"if\s+lambda\s*>\s*([^{]+)\{", d)
    if not m:
        raise ExtractError("Poisson lambda threshold not found")
    L.append(f"def POISSON_MAX_LAMBDA : Nat := {as_nat('Poisson lambda threshold', eval_const(m.group(1), env))}")
    L.append("")
    L.append("end Mb.Gen")
    return "\n".join(L) + "\n"


def write_if_changed(path, content):
    os.makedirs(os.path.dirname(path), exist_ok=True)
    try:
        with open(path) as f:
            if f.read() == content:
                return False
    except OSError:
        pass
    with open(path, "w") as f:
        f.write(content)
    return True


GENERATORS = {"Consts.lean": gen_consts}


def main():
    try:
        # optional generators living in sibling modules
        try:
            import extract_sim  # noqa
            GENERATORS.update(extract_sim.GENERATORS)
        except ImportError:
            pass
        try:
            import extract_ffi  # noqa
            GENERATORS.update(extract_ffi.GENERATORS)
        except ImportError:
            pass
        changed, failed = [], {}
        for fn, g in GENERATORS.items():
            # one generator that cannot read its source any more breaks the tie only for the properties
            # whose model uses that file (check.py, GENERATED_FOR); the others are still regenerated
            try:
                text = g()
            except ExtractError as e:
                failed[fn] = str(e)
                continue
            except Exception as e:  # noqa: a translator crash is a broken tie, not a crash of the check
                failed[fn] = f"{type(e).__name__}: {e}"
                continue
            if write_if_changed(os.path.join(OUT, fn), text):
                changed.append(fn)
        if failed:
            for fn, e in failed.items():
                print(f"extract: TIE BROKEN [{fn}]: {e}", file=sys.stderr)
            return 2
        print("extract: ok" + (f" (rewrote {', '.join(changed)})" if changed else " (unchanged)"))
        return 0
    except ExtractError as e:
        print(f"extract: TIE BROKEN [*]: {e}", file=sys.stderr)
        return 2


if __name__ == "__main__":
    sys.exit(main())
