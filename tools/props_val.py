"""Checks for C06 (transition probabilities), C12 (validation is sound), C13 (sampling).

Each runner drives `mbharness val-*` (the implementation) and `mbdriver val <pid>` (model and
monitors) over the same protocol text and returns the dictionary tools/check.py expects
(see props.run_fw).
"""
import glob
import os
import re

VAL_FILES = ["crates/maybenot/src/machine.rs", "crates/maybenot/src/state.rs", "crates/maybenot/src/dist.rs",
             "crates/maybenot/src/action.rs", "crates/maybenot/src/counter.rs", "crates/maybenot/src/framework.rs",
             "crates/maybenot/src/constants.rs"]

# property -> (driver subcommand, generator command, replay command)
CMDS = {
    "C12": ("c12", "val-gen", "val-replay"),
    "C13": ("c13", "val-sample", "val-sample-replay"),
    "C06": ("c06", "val-sampstate", "val-sampstate-replay"),
}


def split_cases(text):
    out, cur, cid = {}, [], None
    for line in text.split("\n"):
        if line.startswith("case "):
            cur, cid = [line], line.split()[1]
        elif cid is not None:
            cur.append(line)
            if line.strip() == "end":
                out[cid] = "\n".join(cur) + "\n"
                cid = None
    return out


def inputs_only(block):
    return "\n".join(l for l in block.split("\n") if not l.startswith("o ")) + "\n"


def mon_key(pid, msg):
    """monitor failures that differ only in concrete numbers/ids share one replay"""
    msg = re.sub(r"\b(ret|word|count|got|target)=[0-9a-fx:+-]+", r"\1=*", msg)
    msg = re.sub(r"paths=\S+", "", msg)
    return f"{pid}:{msg.strip()}"


def run_val(pid, tier, seed, replay, ctx, gen_args, rule, nontrivial=None):
    sh = ctx["sh"]
    sub, gen, rep = CMDS[pid]
    H, D = ctx["HBIN"], ctx["DBIN"]
    texts = []
    problems = []
    if replay:
        rc, out = sh([H, rep], input_bytes=open(replay, "rb").read(), timeout=3600)
        texts.append(("replay", out))
    else:
        for c in sorted(glob.glob(os.path.join(ctx["VERIF"], "corpus", pid, "*.txt"))):
            rc, out = sh([H, rep], input_bytes=open(c, "rb").read(), timeout=3600)
            if rc != 0:
                problems.append(f"harness failed on corpus file {os.path.basename(c)}: {out[-300:]}")
            texts.append(("corpus:" + os.path.basename(c), out))
        if pid == "C12":
            # the counterexample machines of Props/C12.lean, replayed on the implementation
            rc, wit = sh([D, "val", "witnesses"], input_bytes=b"")
            rc2, out = sh([H, rep], input_bytes=wit.encode())
            if rc != 0 or rc2 != 0 or "case witness-nan-fraction" not in out:
                problems.append("could not replay the Lean witnesses of Props/C12 on the implementation")
            texts.append(("witnesses", out))
        args = gen_args[tier if tier in gen_args else "quick"]
        rc, out = sh([H, gen, "--seed", str(seed)] + args, timeout=7200)
        if rc != 0:
            return {"evaluations": 0, "model_disagreements": [f"harness {gen} failed: {out[-500:]}"]}
        texts.append((gen, out))
    evaluations = 0
    dis, mons = list(problems), []
    sigs, nontriv = set(), set()
    dist = {}
    samples = []
    for name, text in texts:
        blocks = split_cases(text)
        rc, out = sh([D, "val", sub], input_bytes=text.encode(), timeout=7200)
        if rc != 0:
            dis.append(f"driver failed on {name}: {out[-500:]}")
            continue
        seen = 0
        for line in out.split("\n"):
            ws = line.split()
            if not ws:
                continue
            if ws[0] == "case":
                seen += 1
                evaluations += 1
                cid = ws[1]
                status = ws[-1] if ws[-1] == "ok" else " ".join(ws[2:])
                if status != "ok":
                    m = re.search(r"(DIFF tags=\S+|PARSE.*)$", line)
                    dis.append(f"{cid} {m.group(1) if m else line}\n" + blocks.get(cid, ""))
            elif ws[0] == "sig":
                feats = ws[2] if len(ws) > 2 else ""
                sigs.add(feats)
                fs = feats.split(",")
                for f in fs:
                    dist[f] = dist.get(f, 0) + 1
                if nontrivial is None or nontrivial(fs):
                    if feats not in nontriv and len(samples) < 2:
                        samples.append(inputs_only(blocks.get(ws[1], ""))[:1200])
                    nontriv.add(feats)
            elif ws[0] == "mon" and ws[1] == pid and ws[2] == "FAIL":
                cid = ws[3]
                msg = " ".join(ws[4:])
                mons.append((mon_key(pid, msg),
                             f"monitor {pid} failed on the implementation: {msg}\n" + blocks.get(cid, "")))
            elif ws[0] == "badblocks":
                dis.append(f"driver could not parse {ws[1]} case blocks of {name}")
        if seen != len(blocks):
            dis.append(f"driver reported {seen} cases of {len(blocks)} for {name}")
    uniq = {}
    for k, t in mons:
        uniq.setdefault(k, t)
    return {
        "evaluations": evaluations,
        "distinct_nontrivial": len(nontriv),
        "rule": rule,
        "samples": samples or ["(no non-trivial sample)"],
        "traces_validated_against_impl": evaluations,
        "model_disagreements": dis,
        "monitor_failures": list(uniq.items()),
        "extra": {"feature_distribution": dict(sorted(dist.items(), key=lambda kv: -kv[1])[:60]),
                  "monitor_failure_cases": len(mons)},
    }


def c12(pid, tier, seed, replay, ctx):
    return run_val(
        pid, tier, seed, replay, ctx,
        {"quick": ["--cases", "6000"], "medium": ["--cases", "24000"], "thorough": ["--cases", "150000"]},
        "enumeration of every adversarial f64/f32 (NaN variants, ±inf, -0, subnormals, one ulp beyond each bound) in both "
        "machine fractions, the framework fractions, each transition probability position, per-vector sums, target corner "
        "cases, empty vectors (crafted bincode), every parameter of the 11 distribution families in each position a Dist can "
        "occupy, plus random combinations from VERIF_SEED; all four construction paths per machine; distinct = (label class, "
        "model accept/reject, well-formed or not); non-trivial = accepted, or rejected for a reason other than decoding",
    )


def c13(pid, tier, seed, replay, ctx):
    return run_val(
        pid, tier, seed, replay, ctx,
        {"quick": ["--cases", "25", "--watchdog-ms", "4000"], "medium": ["--cases", "100", "--watchdog-ms", "4000"], "thorough": ["--cases", "600", "--watchdog-ms", "8000"]},
        "every parameter corner of the 11 families admitted by Dist::validate x {start, max} from NaN/±inf/0/neg/pos x RNG prefix "
        "(none, zeros, ones, alternating, top/low bits; lengths 1-64) followed by a fair stream, each Dist::sample call on its own "
        "watchdog-supervised thread; distinct = (family, start class, max class, prefix, raw class, returned class, uniform path)",
        nontrivial=lambda fs: "invalid" not in fs,
    )


def c06(pid, tier, seed, replay, ctx):
    res = c06_val(pid, tier, seed, replay, ctx)
    if replay:
        return res
    # framework level: one fresh draw per transition lookup (Spec/C06.lean, fwMonitor) on the hooked log
    from props import fw_monitor_stage
    # the hooked log (lookups, draws, samplings in order) must also equal the model's: tag L
    n, mons, dis = fw_monitor_stage(pid, tier, seed, ctx, [("general", 800, 20000), ("c08", 500, 10000), ("c07", 300, 5000), ("wide", 4, 60)], tags=("L",))
    res["model_disagreements"] += dis
    res["evaluations"] += n
    res["traces_validated_against_impl"] += n
    have = {k for k, _ in res["monitor_failures"]}
    res["monitor_failures"] += [(k, t) for k, t in mons if k not in have]
    res.setdefault("extra", {})["framework_cases_for_draw_monitor"] = n
    res["rule"] += "; plus framework cases (generators general, c08, c07) whose hooked log is checked for one fresh draw per transition lookup and the target the declared probabilities assign to it"
    return res


def c06_val(pid, tier, seed, replay, ctx):
    return run_val(
        pid, tier, seed, replay, ctx,
        {"quick": ["--cases", "1500", "--exhaustive", "30"], "medium": ["--cases", "6000", "--exhaustive", "60"], "thorough": ["--cases", "20000", "--exhaustive", "400"]},
        "validated probability vectors (fixed corner vectors + random from VERIF_SEED: 1-6 targets incl. END/SIGNAL, values at f32 "
        "resolution limits, sums from tiny to exactly 1); per vector the boundary words (ceil(c_i 2^23)-2..+1) << 9 with low-bit "
        "garbage, and for the exhaustive cases all 2^23 words; distinct = (number of targets, p=1, END, SIGNAL, sum class, mode)",
    )


ASSUME_COMMON = [
    "the Lean model agrees with the code on inputs the correspondence did not sample",
]

PROPS = {
    "C12": {
        "run": c12, "files": VAL_FILES,
        "assumptions": ASSUME_COMMON + [
            "Validate.machine mirrors today's NaN-rejecting comparisons (Validate.checks = checksFixed since fix 65165a2, "
            "theorem C12_today_is_fixed); the full soundness theorem C12_sound is about that model; the witnesses for the "
            "previous comparison style (C12_unsound_cur_*) are kept as the record of the repaired defect, see Props/C12.lean",
            "Machine::from_str is covered by the correspondence only (decode model belongs to C11); Framework::new indexing beyond "
            "initialisation is C01",
        ],
    },
    "C13": {
        "run": c13, "files": VAL_FILES,
        "assumptions": ASSUME_COMMON + [
            "rand_distr's family samplers are an oracle: their value is arbitrary in the theorems; termination and panic-freedom "
            "inside them is exercised under a watchdog, not proved",
            "'real number' is read as 'not NaN' (+inf is reachable by design and saturated by every consumer), DESIGN section 9",
        ],
    },
    "C06": {
        "run": c06, "files": ["crates/maybenot/src/state.rs", "crates/maybenot/src/framework.rs"],
        "assumptions": ASSUME_COMMON + [
            "rand 0.8.8 UniformFloat<f32>::sample_single is modelled from source (C13.draw01) and validated on all 2^23 outcomes "
            "by the exhaustive cases",
        ],
    },
}
