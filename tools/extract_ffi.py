"""Translator, FFI part: regenerates lean/MbVerif/Generated/Ffi.lean.

From crates/maybenot-ffi/src/lib.rs and error.rs: the discriminants of
`MaybenotEventType`, `MaybenotTimer`, `MaybenotResult`, the variant tags and
the per-variant field lists (name, Rust type, in declaration order) of the
`#[repr(C, u32)]` enum `MaybenotAction`, the `#[repr(C)]` structs
`MaybenotEvent` / `MaybenotDuration`, and the `extern "C"` signatures of ffi.rs.
From maybenot.h: every enum (constants), typedef, struct and union (field name
and C type, in order) and the function prototypes.

The generated file also contains the *consistency obligation*
`Mb.Gen.Ffi.layoutConsistent : Bool`, a Lean function over the two extracted
descriptions (it is evaluated by the Lean kernel in Props/C20.lean, not here):
the header is the C view of exactly what the Rust declares.
"""
import re

from extract import ExtractError, enum_variants, read, split_top, strip_comments

LIB = "crates/maybenot-ffi/src/lib.rs"
ERR = "crates/maybenot-ffi/src/error.rs"
FFI = "crates/maybenot-ffi/src/ffi.rs"
HDR = "crates/maybenot-ffi/maybenot.h"


def lean_str(s):
    return '"' + s.replace("\\", "\\\\").replace('"', '\\"') + '"'


def lean_pairs_ss(ps):
    return "[" + ", ".join(f"({lean_str(a)}, {lean_str(b)})" for a, b in ps) + "]"


def lean_pairs_sn(ps):
    return "[" + ", ".join(f"({lean_str(a)}, {b})" for a, b in ps) + "]"


def norm_ty(t):
    return re.sub(r"\s+", " ", t).strip()


# ---------------------------------------------------------------- Rust side

def rust_repr(src, kind, name):
    """the `#[repr(..)]` attribute of `pub <kind> <name>` (attributes may be stacked)"""
    s = strip_comments(src)
    m = re.search(r"((?:#\[[^\]]*\]\s*)+)pub\s+" + kind + r"\s+" + name + r"\b", s)
    if not m:
        raise ExtractError(f"{kind} {name}: declaration with attributes not found")
    r = re.search(r"#\[repr\(([^)]*)\)\]", m.group(1))
    if not r:
        raise ExtractError(f"{kind} {name}: no #[repr(..)] attribute")
    return [x.strip() for x in r.group(1).split(",")]


def rust_unit_enum(src, name, rel):
    if rust_repr(src, "enum", name) != ["u32"]:
        raise ExtractError(f"enum {name} in {rel} is no longer #[repr(u32)]")
    out = []
    for (n, fields, disc) in enum_variants(src, name):
        if fields:
            raise ExtractError(f"enum {name}::{n} unexpectedly has fields")
        if disc is None:
            raise ExtractError(f"enum {name}::{n} has no explicit discriminant")
        out.append((n, disc))
    if not out:
        raise ExtractError(f"enum {name} has no variants")
    return out


def rust_struct(src, name, rel):
    if rust_repr(src, "struct", name) != ["C"]:
        raise ExtractError(f"struct {name} in {rel} is no longer #[repr(C)]")
    s = strip_comments(src)
    m = re.search(r"\bpub\s+struct\s+" + name + r"\s*\{([^}]*)\}", s)
    if not m:
        raise ExtractError(f"struct {name} not found in {rel}")
    fields = []
    for f in split_top(m.group(1)):
        f = re.sub(r"#\[[^\]]*\]", "", f).strip()
        if not f:
            continue
        mm = re.fullmatch(r"pub\s+([a-z_][a-z0-9_]*)\s*:\s*(.+)", f, flags=re.S)
        if not mm:
            raise ExtractError(f"struct {name}: cannot parse field {f!r}")
        fields.append((mm.group(1), norm_ty(mm.group(2))))
    if not fields:
        raise ExtractError(f"struct {name} has no fields")
    return fields


def rust_action(src):
    if sorted(rust_repr(src, "enum", "MaybenotAction")) != ["C", "u32"]:
        raise ExtractError("enum MaybenotAction is no longer #[repr(C, u32)]")
    out = []
    for (n, fields, disc) in enum_variants(src, "MaybenotAction"):
        if disc is None:
            raise ExtractError(f"MaybenotAction::{n} has no explicit discriminant")
        if not fields:
            raise ExtractError(f"MaybenotAction::{n} has no named fields")
        out.append((n, disc, [(a, norm_ty(b)) for a, b in fields]))
    if not out:
        raise ExtractError("enum MaybenotAction has no variants")
    return out


def rust_functions(src):
    s = strip_comments(src)
    out = []
    for m in re.finditer(r"#\[no_mangle\]\s*pub\s+(?:unsafe\s+)?extern\s+\"C\"\s+fn\s+([a-z_0-9]+)\s*\(([^)]*)\)\s*(?:->\s*([^{]+?))?\s*\{", s):
        params = []
        for p in split_top(m.group(2)):
            p = p.strip()
            if not p:
                continue
            a, b = p.split(":", 1)
            params.append((a.strip(), norm_ty(b)))
        out.append((m.group(1), norm_ty(m.group(3) or "()"), params))
    if not out:
        raise ExtractError("no extern \"C\" functions found in ffi.rs")
    return out


# ---------------------------------------------------------------- header side

def parse_fields(body, owner, unions):
    """fields of a struct/union body; anonymous unions become synthetic `union <owner>::anon<i>`"""
    fields = []
    i = 0
    body = body.strip()
    while body:
        m = re.match(r"union\s*\{", body)
        if m:
            depth, j = 1, m.end()
            while depth > 0:
                if j >= len(body):
                    raise ExtractError(f"{owner}: unbalanced braces in anonymous union")
                if body[j] == "{":
                    depth += 1
                elif body[j] == "}":
                    depth -= 1
                j += 1
            inner = body[m.end():j - 1]
            rest = body[j:].lstrip()
            mm = re.match(r"([A-Za-z_][A-Za-z0-9_]*)?\s*;", rest)
            if not mm:
                raise ExtractError(f"{owner}: cannot parse the end of an anonymous union")
            uname = f"{owner}::anon{i}"
            i += 1
            unions.append((uname, parse_fields(inner, uname, unions)))
            fields.append((mm.group(1) or "", "union " + uname))
            body = rest[mm.end():].lstrip()
            continue
        m = re.match(r"([^;{}]+);", body)
        if not m:
            raise ExtractError(f"{owner}: cannot parse field list near {body[:40]!r}")
        decl = norm_ty(m.group(1))
        mm = re.fullmatch(r"(.+?)\s*([A-Za-z_][A-Za-z0-9_]*)", decl)
        if not mm or "*" in decl or "[" in decl or "(" in decl:
            raise ExtractError(f"{owner}: unsupported field declaration {decl!r}")
        fields.append((mm.group(2), norm_ty(mm.group(1))))
        body = body[m.end():].lstrip()
    if not fields:
        raise ExtractError(f"{owner} has no fields")
    return fields


def header_parts(src):
    s = strip_comments(src)
    enums = []
    for m in re.finditer(r"\benum\s+([A-Za-z_][A-Za-z0-9_]*)\s*\{([^}]*)\}\s*;", s):
        consts = []
        for c in m.group(2).split(","):
            c = c.strip()
            if not c:
                continue
            mm = re.fullmatch(r"([A-Za-z_][A-Za-z0-9_]*)\s*=\s*(0[xX][0-9a-fA-F]+|\d+)[uUlL]*", c)
            if not mm:
                raise ExtractError(f"maybenot.h enum {m.group(1)}: constant without explicit value: {c!r}")
            consts.append((mm.group(1), int(mm.group(2), 0) if mm.group(2).lower().startswith("0x") else int(mm.group(2))))
        enums.append((m.group(1), consts))
    typedefs = [(m.group(2), norm_ty(m.group(1)))
                for m in re.finditer(r"\btypedef\s+((?:u?int\d+_t|uintptr_t|size_t|bool))\s+([A-Za-z_][A-Za-z0-9_]*)\s*;", s)]
    structs, unions = [], []
    pos = 0
    while True:
        m = re.compile(r"\btypedef\s+struct\s+([A-Za-z_][A-Za-z0-9_]*)\s*\{").search(s, pos)
        if not m:
            break
        depth, j = 1, m.end()
        while depth > 0:
            if j >= len(s):
                raise ExtractError(f"maybenot.h struct {m.group(1)}: unbalanced braces")
            if s[j] == "{":
                depth += 1
            elif s[j] == "}":
                depth -= 1
            j += 1
        mm = re.match(r"\s*([A-Za-z_][A-Za-z0-9_]*)\s*;", s[j:])
        if not mm or mm.group(1) != m.group(1):
            raise ExtractError(f"maybenot.h struct {m.group(1)}: typedef name differs from the struct tag")
        structs.append((m.group(1), parse_fields(s[m.end():j - 1], m.group(1), unions)))
        pos = j
    funcs = []
    for m in re.finditer(r"([A-Za-z_][A-Za-z0-9_ ]*?[ \*]+)(maybenot_[a-z_0-9]+)\s*\(([^)]*)\)\s*;", s):
        params = []
        ptxt = m.group(3).strip()
        if ptxt != "void":
            for p in ptxt.split(","):
                p = norm_ty(p)
                mm = re.fullmatch(r"(.+?)([A-Za-z_][A-Za-z0-9_]*)", p)
                if not mm:
                    raise ExtractError(f"maybenot.h prototype {m.group(2)}: cannot parse parameter {p!r}")
                params.append((mm.group(2), norm_ty(mm.group(1)).replace(" *", "*").replace("* ", "*")))
        funcs.append((m.group(2), norm_ty(m.group(1)).replace(" *", "*"), params))
    return enums, typedefs, structs, unions, funcs


def need(d, name, what):
    for k, v in d:
        if k == name:
            return v
    raise ExtractError(f"maybenot.h: {what} {name} not found")


# ---------------------------------------------------------------- Lean text

CONSISTENCY = r'''
/-! ### Consistency obligation (evaluated by the kernel in `Props/C20.lean`)

The header must be the C view of what the Rust declares: same constants with the same
values, and for every `#[repr(C)]` struct and every variant of the `#[repr(C, u32)]` enum
the same field names with corresponding types in the same order. -/

/-- the C spelling of a Rust field type as cbindgen renders it -/
def cTypeOf : String → Option String
  | "usize" => some "uintptr_t"
  | "u64" => some "uint64_t"
  | "u32" => some "uint32_t"
  | "bool" => some "bool"
  | "MaybenotDuration" => some "struct MaybenotDuration"
  | "MaybenotTimer" => some "MaybenotTimer"
  | "MaybenotEventType" => some "MaybenotEventType"
  | _ => none

def assoc {α} (k : String) : List (String × α) → Option α
  | [] => none
  | (a, b) :: r => if a == k then some b else assoc k r

/-- Rust fields `(name, rust type)` against header fields `(name, c type)` -/
def fieldsMatch (rs hs : List (String × String)) : Bool :=
  rs.length == hs.length &&
  (rs.zip hs).all (fun (r, h) => r.1 == h.1 && cTypeOf r.2 == some h.2)

/-- a Rust unit enum against the header enum of the same name: `Name_Variant = value`, same order,
    and the enum's typedef is `uint32_t` (`#[repr(u32)]`) -/
def enumMatches (name : String) (rs : List (String × Nat)) : Bool :=
  (match assoc name hEnums with
   | some hs => rs.length == hs.length &&
       (rs.zip hs).all (fun (r, h) => h.1 == name ++ "_" ++ r.1 && r.2 == h.2)
   | none => false) &&
  assoc name hTypedefs == some "uint32_t"

def structMatches (name : String) (rs : List (String × String)) : Bool :=
  match assoc name hStructs with
  | some hs => fieldsMatch rs hs
  | none => false

/-- `snake_case` of a Rust variant name, as cbindgen names the union members -/
def snake (s : String) : String :=
  String.ofList (s.toList.foldl (fun acc c =>
    if c.isUpper then (if acc.isEmpty then acc else acc ++ ['_']) ++ [c.toLower] else acc ++ [c]) [])

/-- the tagged union: tag enum, `{ tag; union { bodies } }`, one body struct per variant -/
def actionMatches : Bool :=
  -- the tag enum
  (match assoc "MaybenotAction_Tag" hEnums with
   | some hs => rsAction.length == hs.length &&
       (rsAction.zip hs).all (fun (r, h) => h.1 == "MaybenotAction_" ++ r.1 && r.2.1 == h.2)
   | none => false) &&
  assoc "MaybenotAction_Tag" hTypedefs == some "uint32_t" &&
  -- the outer struct
  assoc "MaybenotAction" hStructs == some [("tag", "MaybenotAction_Tag"), ("", "union MaybenotAction::anon0")] &&
  -- the union members, in variant order
  (match assoc "MaybenotAction::anon0" hUnions with
   | some us => rsAction.length == us.length &&
       (rsAction.zip us).all (fun (r, u) =>
         u.1 == snake r.1 && u.2 == "MaybenotAction_" ++ r.1 ++ "_Body" &&
         structMatches ("MaybenotAction_" ++ r.1 ++ "_Body") r.2.2)
   | none => false)

/-- the C spelling of a Rust parameter / return type of the `extern "C"` functions -/
def cParamTypeOf : String → Option String
  | "*const c_char" => some "const char*"
  | "f64" => some "double"
  | "usize" => some "uintptr_t"
  | "*mut usize" => some "uintptr_t*"
  | "*mut MaybenotFramework" => some "struct MaybenotFramework*"
  | "*mut MaybeUninit<*mut MaybenotFramework>" => some "struct MaybenotFramework**"
  | "*const MaybenotEvent" => some "const struct MaybenotEvent*"
  | "*mut MaybeUninit<MaybenotAction>" => some "struct MaybenotAction*"
  | "MaybenotResult" => some "MaybenotResult"
  | "()" => some "void"
  | _ => none

def functionsMatch : Bool :=
  rsFunctions.length == hFunctions.length &&
  (rsFunctions.zip hFunctions).all (fun (r, h) =>
    r.1 == h.1 && cParamTypeOf r.2.1 == some h.2.1 &&
    r.2.2.length == h.2.2.length &&
    (r.2.2.zip h.2.2).all (fun (rp, hp) =>
      (rp.1 == hp.1 || rp.1 ++ "_" == hp.1) && cParamTypeOf rp.2 == some hp.2))

/-- THE OBLIGATION: header and Rust declarations agree -/
def layoutConsistent : Bool :=
  enumMatches "MaybenotEventType" rsEventType &&
  enumMatches "MaybenotTimer" rsTimer &&
  enumMatches "MaybenotResult" rsResult &&
  structMatches "MaybenotEvent" rsEvent &&
  structMatches "MaybenotDuration" rsDuration &&
  actionMatches &&
  functionsMatch
'''


def gen_ffi():
    lib = read(LIB)
    err = read(ERR)
    ffi = read(FFI)
    hdr = read(HDR)

    ev = rust_unit_enum(lib, "MaybenotEventType", LIB)
    tm = rust_unit_enum(lib, "MaybenotTimer", LIB)
    rs = rust_unit_enum(err, "MaybenotResult", ERR)
    act = rust_action(lib)
    s_event = rust_struct(lib, "MaybenotEvent", LIB)
    s_dur = rust_struct(lib, "MaybenotDuration", LIB)
    rfuncs = rust_functions(ffi)

    enums, typedefs, structs, unions, hfuncs = header_parts(hdr)
    # the model looks these up by name: their absence breaks the tie here, with a readable message
    for e in ["MaybenotEventType", "MaybenotResult", "MaybenotTimer", "MaybenotAction_Tag"]:
        need(enums, e, "enum")
        need(typedefs, e, "typedef of enum")
    for st in ["MaybenotEvent", "MaybenotDuration", "MaybenotAction"]:
        need(structs, st, "struct")
    for (n, _, _) in act:
        need(structs, f"MaybenotAction_{n}_Body", "struct")
    if not unions:
        raise ExtractError("maybenot.h: the anonymous union of MaybenotAction was not found")
    for f in ["maybenot_version", "maybenot_start", "maybenot_num_machines", "maybenot_stop", "maybenot_on_events"]:
        if f not in [x[0] for x in hfuncs]:
            raise ExtractError(f"maybenot.h: prototype of {f} not found")
        if f not in [x[0] for x in rfuncs]:
            raise ExtractError(f"ffi.rs: extern \"C\" fn {f} not found")
    # names the hand-written model matches on (Ffi.lean): a rename must be looked at by a human
    want_ev = ["NormalRecv", "PaddingRecv", "TunnelRecv", "NormalSent", "PaddingSent", "TunnelSent", "BlockingBegin",
               "BlockingEnd", "TimerBegin", "TimerEnd"]
    if sorted(n for n, _ in ev) != sorted(want_ev):
        raise ExtractError(f"MaybenotEventType variants changed: {[n for n, _ in ev]}")
    if sorted(n for n, _ in tm) != sorted(["Action", "Internal", "All"]):
        raise ExtractError(f"MaybenotTimer variants changed: {[n for n, _ in tm]}")
    if sorted(n for n, _ in rs) != sorted(["Ok", "MachineStringNotUtf8", "InvalidMachineString", "StartFramework", "NullPointer"]):
        raise ExtractError(f"MaybenotResult variants changed: {[n for n, _ in rs]}")
    want_fields = {"Cancel": {"machine", "timer"}, "SendPadding": {"machine", "timeout", "replace", "bypass"},
                   "BlockOutgoing": {"machine", "timeout", "replace", "bypass", "duration"},
                   "UpdateTimer": {"machine", "duration", "replace"}}
    if sorted(n for n, _, _ in act) != sorted(want_fields):
        raise ExtractError(f"MaybenotAction variants changed: {[n for n, _, _ in act]}")
    for (n, _, fs) in act:
        if {a for a, _ in fs} != want_fields[n]:
            raise ExtractError(f"MaybenotAction::{n} field set changed: {[a for a, _ in fs]}")

    L = ["/- GENERATED by tools/extract_ffi.py from /repo/crates/maybenot-ffi. Do not edit. -/",
         "namespace Mb.Gen.Ffi", "",
         "/-! ### Rust side (src/lib.rs, src/error.rs, src/ffi.rs) -/", "",
         "/-- `#[repr(u32)] enum MaybenotEventType`: (variant, discriminant) -/",
         f"def rsEventType : List (String × Nat) := {lean_pairs_sn(ev)}", "",
         "/-- `#[repr(u32)] enum MaybenotTimer` -/",
         f"def rsTimer : List (String × Nat) := {lean_pairs_sn(tm)}", "",
         "/-- `#[repr(u32)] enum MaybenotResult` (error.rs) -/",
         f"def rsResult : List (String × Nat) := {lean_pairs_sn(rs)}", "",
         "/-- `#[repr(C, u32)] enum MaybenotAction`: (variant, tag, fields (name, Rust type) in declaration order) -/",
         "def rsAction : List (String × Nat × List (String × String)) := ["]
    L.append(",\n".join(f"  ({lean_str(n)}, {d}, {lean_pairs_ss(fs)})" for n, d, fs in act) + "]")
    L += ["", "/-- `#[repr(C)] struct MaybenotEvent` -/",
          f"def rsEvent : List (String × String) := {lean_pairs_ss(s_event)}", "",
          "/-- `#[repr(C)] struct MaybenotDuration` -/",
          f"def rsDuration : List (String × String) := {lean_pairs_ss(s_dur)}", "",
          "/-- the `extern \"C\"` functions of ffi.rs: (name, return type, parameters (name, type)) -/",
          "def rsFunctions : List (String × String × List (String × String)) := ["]
    L.append(",\n".join(f"  ({lean_str(n)}, {lean_str(r)}, {lean_pairs_ss(ps)})" for n, r, ps in rfuncs) + "]")
    L += ["", "/-! ### C side (maybenot.h) -/", "",
          "/-- every enum of the header: (enum name, constants (name, value)) -/",
          "def hEnums : List (String × List (String × Nat)) := ["]
    L.append(",\n".join(f"  ({lean_str(n)}, {lean_pairs_sn(cs)})" for n, cs in enums) + "]")
    L += ["", "/-- integer typedefs: (new name, underlying type) -/",
          f"def hTypedefs : List (String × String) := {lean_pairs_ss(typedefs)}", "",
          "/-- every struct with a body: (struct name, fields (name, C type) in order); an anonymous union",
          "    member has the empty name and the synthetic type `union <struct>::anon<i>` -/",
          "def hStructs : List (String × List (String × String)) := ["]
    L.append(",\n".join(f"  ({lean_str(n)}, {lean_pairs_ss(fs)})" for n, fs in structs) + "]")
    L += ["", "/-- the (anonymous) unions: (synthetic name, members (name, C type) in order) -/",
          "def hUnions : List (String × List (String × String)) := ["]
    L.append(",\n".join(f"  ({lean_str(n)}, {lean_pairs_ss(fs)})" for n, fs in unions) + "]")
    L += ["", "/-- the prototypes: (name, return type, parameters (name, type)) -/",
          "def hFunctions : List (String × String × List (String × String)) := ["]
    L.append(",\n".join(f"  ({lean_str(n)}, {lean_str(r)}, {lean_pairs_ss(ps)})" for n, r, ps in hfuncs) + "]")
    L.append(CONSISTENCY)
    L.append("end Mb.Gen.Ffi")
    return "\n".join(L) + "\n"


GENERATORS = {"Ffi.lean": gen_ffi}
