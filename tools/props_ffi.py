"""C20 (C API) runner: harness `ffi-gen` / `ffi-replay` -> driver `mbdriver ffi`.

The harness calls the five extern "C" functions through the maybenot-ffi rlib and dumps raw
bytes; the driver decodes them with the maybenot.h-derived layout, compares with the model of
the API (correspondence, `case .. ok|DIFF tags=..`) and runs the C20 monitor on the
implementation's observations against the Rust framework's own actions (`mon C20 FAIL ..`).
"""
import glob
import os
import re
from tiers import pick

FFI_FILES = ["crates/maybenot-ffi/src/lib.rs", "crates/maybenot-ffi/src/ffi.rs", "crates/maybenot-ffi/src/error.rs",
             "crates/maybenot-ffi/maybenot.h"]

# correspondence tags that belong to C20's projection; MR (framework model vs Rust framework) and
# VAL (validation model vs Framework::new) are other properties' business and only recorded
C20_TAGS = {"LAYOUT", "EV", "RC", "CNT", "A", "AT", "BUF", "FAULT", "PARSE"}
MECH = {"aC", "aP", "aB", "aT", "null", "s1", "s2", "s3", "s4", "full", "multi"}

# (kind, quick cases, thorough cases)
GENS = [("run", 4000, 40000), ("badstart", 2000, 10000), ("deep", 300, 4000)]


def split_cases(text):
    out, cur, cid = {}, [], None
    for line in text.split("\n"):
        if line.startswith("case "):
            cur, cid = [line], line.split()[1]
        elif cid is not None:
            cur.append(line)
            if line.strip() == "end":
                out[cid] = "\n".join(cur) + "\n"
                cid = None
    return out


def inputs_only(block):
    keep = ("case ", "str ", "start ", "ev ", "stop", "version", "end")
    return "\n".join(l for l in block.split("\n") if l.startswith(keep)) + "\n"


def truncate_after_op(block, n):
    """keep the case up to and including its n-th operation (sessions are sequential, so the
    prefix reproduces what the monitor saw at op n)"""
    out, k = [], 0
    for line in block.split("\n"):
        if line.startswith(("start ", "ev ", "stop", "version")):
            k += 1
        if k > n and not line.startswith("end"):
            continue
        if line.startswith("orc ") and k == n:
            # the `orc` line that introduces op n+1
            continue
        out.append(line)
    return "\n".join(out)


def locate_crash(sh, hbin, kind, seed, n):
    """the harness died (the C API crashed the process): find the first case that does it"""
    for i in range(n):
        rc, _ = sh([hbin, "ffi-gen", "--kind", kind, "--seed", str(seed), "--cases", str(n), "--only", str(i)], timeout=600)
        if rc != 0:
            _, dry = sh([hbin, "ffi-gen", "--kind", kind, "--seed", str(seed), "--cases", str(n), "--only", str(i), "--dry"], timeout=600)
            return i, dry
    return None, ""


def run_ffi(pid, tier, seed, replay, ctx):
    sh = ctx["sh"]
    texts = []          # (name, protocol text)
    mons = []           # (key, replay text)
    dis = []
    if replay:
        data = open(replay, "rb").read()
        rc, out = sh([ctx["HBIN"], "ffi-replay"], input_bytes=data, timeout=3600)
        if rc != 0:
            mons.append((f"{pid}:crash", "the C API crashed the harness process (exit status %d) on this session\n" % rc + data.decode("utf-8", "replace")))
        texts.append(("replay", out))
    else:
        for c in sorted(glob.glob(os.path.join(ctx["VERIF"], "corpus", pid, "*.txt"))):
            data = open(c, "rb").read()
            rc, out = sh([ctx["HBIN"], "ffi-replay"], input_bytes=data, timeout=3600)
            if rc != 0:
                mons.append((f"{pid}:crash", f"the C API crashed the harness process (exit status {rc}) on corpus file {os.path.basename(c)}\n" + data.decode("utf-8", "replace")))
            texts.append(("corpus:" + os.path.basename(c), out))
        for kind, nq, nt in GENS:
            n = pick(tier, nq, nt)
            rc, out = sh([ctx["HBIN"], "ffi-gen", "--kind", kind, "--seed", str(seed), "--cases", str(n)], timeout=7200)
            if rc != 0:
                i, dry = locate_crash(sh, ctx["HBIN"], kind, seed, n)
                if i is None:
                    dis.append(f"harness failed for kind {kind} (exit status {rc}) but no single case reproduces it: {out[-400:]}")
                else:
                    mons.append((f"{pid}:crash", f"the C API crashed the harness process (exit status {rc}) on generated case {kind}/{i}\n" + dry))
                # keep the complete cases that were printed before the crash
                out = "".join(split_cases(out).values())
            texts.append((kind, out))
    evaluations = calls = 0
    other = []
    sigs, nontrivial = set(), set()
    samples, dist = [], {}
    leak = {"checked": 0, "unavailable": 0}
    for name, text in texts:
        blocks = split_cases(text)
        if not blocks:
            continue
        rc, out = sh([ctx["DBIN"], "ffi"], input_bytes=text.encode(), timeout=7200)
        if rc != 0:
            dis.append(f"driver failed on {name}: {out[-500:]}")
            continue
        seen = 0
        for line in out.split("\n"):
            ws = line.split()
            if not ws:
                continue
            if ws[0] == "case":
                seen += 1
                evaluations += 1
                cid, status = ws[1], ws[3]
                if status == "ok":
                    m = re.match(r"calls=(\d+)", ws[4]) if len(ws) > 4 else None
                    calls += int(m.group(1)) if m else 0
                elif status == "DIFF":
                    t = set(ws[4].replace("tags=", "").split(","))
                    msg = f"{cid} tags={','.join(sorted(t))} {ws[5] if len(ws) > 5 else ''}\n" + blocks.get(cid, "")
                    if t & C20_TAGS:
                        dis.append(msg)
                    else:
                        other.append(f"{cid} tags={','.join(sorted(t))}")
                else:
                    dis.append(f"{cid} {' '.join(ws[3:])}")
            elif ws[0] == "sig":
                sig = ws[2] if len(ws) > 2 else ""
                feats = sig.split(",") if sig else []
                sigs.add(sig)
                for f in feats:
                    dist[f] = dist.get(f, 0) + 1
                if "leakchk" in feats:
                    leak["checked"] += 1
                if "leakna" in feats:
                    leak["unavailable"] += 1
                if set(feats) & MECH:
                    nontrivial.add(sig)
                    if len(samples) < 2:
                        samples.append(inputs_only(blocks.get(ws[1], ""))[:1500])
            elif ws[0] == "mon" and ws[1] == pid and ws[2] == "FAIL":
                cid = ws[3]
                msg = " ".join(ws[4:])
                key = f"{pid}:{re.sub(r'op [0-9]+', 'op N', msg)}"
                m = re.match(r"op (\d+):", msg)
                blk = blocks.get(cid, "")
                if m:
                    blk = truncate_after_op(blk, int(m.group(1)))
                mons.append((key, f"monitor {pid} failed on the implementation's observation: {msg}\n" + blk))
            elif ws[0] == "badblocks":
                dis.append(f"driver could not parse {ws[1]} case blocks of {name}")
        if seen != len(blocks):
            dis.append(f"driver reported {seen} cases of {len(blocks)} for {name}")
    # wall-clock differential: the API and a Framework<_, std::time::Instant> in lockstep (harness ffi-timed)
    timed = {"scenarios": 0, "informative": 0, "repeated": 0}
    if not replay:
        rc, out = sh([ctx["HBIN"], "ffi-timed"], timeout=600)
        if rc != 0:
            mons.append((f"{pid}:crash", f"the C API crashed the harness process (exit status {rc}) in the wall-clock scenarios\n" + out[-2000:]))
        for line in out.split("\n"):
            ws = line.split()
            if len(ws) >= 5 and ws[0] == "timed":
                timed["scenarios"] += 1
                evaluations += 1
                timed["informative"] += 1 if "informative=1" in ws else 0
                timed["repeated"] += 0 if "tries=1" in ws else 1
                if ws[2] != "ok":
                    mons.append((f"{pid}:wall-clock scenario {ws[1]}: API and Rust framework disagree",
                                 "harness ffi-timed: the C API and Framework<_, std::time::Instant> driven in lockstep with real sleeps return "
                                 "different numbers of actions per call (three repetitions, all disagreeing); scenario steps are in "
                                 "harness/src/ffi.rs `timed`\n" + line + "\n"))
    uniq = {}
    for k, t in mons:
        uniq.setdefault(k, t)
    return {
        "evaluations": evaluations,
        "distinct_nontrivial": len(nontrivial),
        "rule": "API sessions generated from VERIF_SEED by the harness generators run (valid start, 1-25 event batches of 0-6 events, "
                "null-pointer calls mixed in, stop), deep (up to 80 batches of up to 12 events) and badstart (null out pointer, non-UTF-8, "
                "invalid machine strings of ten kinds, fractions -0.1/1.1/NaN/inf/..., alone and combined); machines have probability-1 "
                "transitions and constant distributions; distinct = distinct coverage signature (start code, action kinds decoded from "
                "the raw bytes, count zero/one/multi/full, null calls, out-of-range ids, all ten event types, machine count); "
                "non-trivial = signature touches " + ", ".join(sorted(MECH)),
        "samples": samples or ["(no non-trivial sample)"],
        "traces_validated_against_impl": evaluations,
        "model_disagreements": dis,
        "monitor_failures": list(uniq.items()),
        "extra": {"feature_distribution": dist, "projection_tags": sorted(C20_TAGS), "on_events_calls_checked": calls,
                  "disagreements_outside_projection": other[:20], "disagreements_outside_projection_count": len(other),
                  "leak_check": leak, "wall_clock_lockstep": timed},
    }


PROPS = {
    "C20": {
        "run": run_ffi,
        "files": FFI_FILES,
        "assumptions": [
            "hC04: the framework returns at most one action per machine (property C04) — hypothesis of C20_count / C20_written_actions / C20_model_satisfies_spec; C20_never_past_num_machines holds without it",
            "inRange: machine ids < 2^64 and sampled microseconds < 2^64 (the Rust types usize / u64)",
            "x86-64 SysV data layout (LP64) for the C view of maybenot.h; the Rust compiler's sizeof/alignof are compared with it on every case",
            "machines with deterministic sampling (probability-1 transitions, constant distributions) and time-independent limits (blocking fractions 0): the API's OS-seeded RNG and Instant::now() cannot matter",
            "an undeclared MaybenotEventType discriminant, an invalid machine-string pointer and a foreign pointer given to maybenot_stop are outside the claim (undefined behaviour on the caller's side)",
            "start/stop leak check is supporting evidence only and depends on the harness's counting allocator being wired in (reported in extra.leak_check)",
        ],
        "trusted_extra": [
            "tools/extract_ffi.py (regex extraction of enums, structs, unions and prototypes from lib.rs, error.rs, ffi.rs and maybenot.h)",
            "reading the padding bytes of written MaybenotAction slots through a *const u8 in the harness",
        ],
    },
}
