//! Small helpers: deterministic generator PRNG, hex.

#[derive(Clone)]
pub struct Prng(pub u64);

impl Prng {
    pub fn new(seed: u64) -> Self {
        Prng(seed ^ 0x9E37_79B9_7F4A_7C15)
    }
    pub fn next(&mut self) -> u64 {
        // splitmix64
        self.0 = self.0.wrapping_add(0x9E37_79B9_7F4A_7C15);
        let mut z = self.0;
        z = (z ^ (z >> 30)).wrapping_mul(0xBF58_476D_1CE4_E5B9);
        z = (z ^ (z >> 27)).wrapping_mul(0x94D0_49BB_1331_11EB);
        z ^ (z >> 31)
    }
    pub fn below(&mut self, n: u64) -> u64 {
        if n == 0 {
            0
        } else {
            self.next() % n
        }
    }
    pub fn range(&mut self, lo: u64, hi_incl: u64) -> u64 {
        lo + self.below(hi_incl - lo + 1)
    }
    pub fn chance(&mut self, num: u64, den: u64) -> bool {
        self.below(den) < num
    }
    pub fn pick<'a, T>(&mut self, xs: &'a [T]) -> &'a T {
        &xs[self.below(xs.len() as u64) as usize]
    }
    pub fn fork(&mut self) -> Prng {
        Prng(self.next())
    }
}

pub fn hex(bytes: &[u8]) -> String {
    let mut s = String::with_capacity(bytes.len() * 2);
    for b in bytes {
        s.push_str(&format!("{:02x}", b));
    }
    s
}

pub fn unhex(s: &str) -> Option<Vec<u8>> {
    if s.len() % 2 != 0 {
        return None;
    }
    (0..s.len() / 2)
        .map(|i| u8::from_str_radix(&s[2 * i..2 * i + 2], 16).ok())
        .collect()
}

/// The RNG handed to the framework: a PRNG stream with scripted extreme words mixed in.
#[derive(Clone)]
pub struct ScriptRng {
    pub prng: Prng,
    /// out of 64: chance that a word is replaced by an extreme one
    pub extreme: u64,
    pub prefix: Vec<u64>,
    pub pos: usize,
}

impl ScriptRng {
    pub fn new(seed: u64, extreme: u64) -> Self {
        ScriptRng { prng: Prng::new(seed), extreme, prefix: vec![], pos: 0 }
    }
    pub fn with_prefix(seed: u64, prefix: Vec<u64>) -> Self {
        ScriptRng { prng: Prng::new(seed), extreme: 0, prefix, pos: 0 }
    }
    fn word(&mut self) -> u64 {
        let w = self.word_inner();
        LAST_WORD.store(w, std::sync::atomic::Ordering::Relaxed);
        w
    }
    fn word_inner(&mut self) -> u64 {
        if self.pos < self.prefix.len() {
            self.pos += 1;
            return self.prefix[self.pos - 1];
        }
        let w = self.prng.next();
        if self.extreme > 0 && self.prng.below(64) < self.extreme {
            match self.prng.below(6) {
                0 => 0,
                1 => u64::MAX,
                2 => 0x1ff,            // f32 draw 0 with low garbage
                3 => 0xffff_fe00_0000_0000, // largest f32 draw
                4 => 0x8000_0000_0000_0000,
                _ => 0x7fff_ffff_ffff_ffff,
            }
        } else {
            w
        }
    }
}

impl rand_core::RngCore for ScriptRng {
    fn next_u32(&mut self) -> u32 {
        (self.word() >> 32) as u32
    }
    fn next_u64(&mut self) -> u64 {
        self.word()
    }
    fn fill_bytes(&mut self, dest: &mut [u8]) {
        rand_core::impls::fill_bytes_via_next(self, dest)
    }
    fn try_fill_bytes(&mut self, dest: &mut [u8]) -> Result<(), rand_core::Error> {
        self.fill_bytes(dest);
        Ok(())
    }
}


static LAST_WORD: std::sync::atomic::AtomicU64 = std::sync::atomic::AtomicU64::new(0);

/// the last random word a `ScriptRng` handed out (diagnosis of sampler hangs)
pub fn last_word() -> u64 {
    LAST_WORD.load(std::sync::atomic::Ordering::Relaxed)
}

// ---- panic site capture ----------------------------------------------------------------------

static PANIC_SITE: std::sync::Mutex<String> = std::sync::Mutex::new(String::new());

/// Install a panic hook that stays silent (unless MBHARNESS_PANIC_MSG is set) and records the
/// source location of the last panic.
pub fn install_panic_hook() {
    let verbose = std::env::var_os("MBHARNESS_PANIC_MSG").is_some();
    let default = std::panic::take_hook();
    std::panic::set_hook(Box::new(move |info| {
        if let Some(l) = info.location() {
            if let Ok(mut g) = PANIC_SITE.lock() {
                *g = format!("{}:{}", l.file(), l.line());
            }
        }
        if verbose {
            default(info);
        }
    }));
}

/// Location of the last panic in a canonical, machine-independent form:
/// `maybenot:<file under crates/maybenot*/src>:<line>` for the code under test,
/// `ext:<crate-version>/<path>:<line>` for a dependency from the cargo registry,
/// `std:<path>:<line>` for the standard library. Empty if unknown.
pub fn take_panic_site() -> String {
    let raw = match PANIC_SITE.lock() {
        Ok(mut g) => std::mem::take(&mut *g),
        Err(_) => String::new(),
    };
    if raw.is_empty() {
        return raw;
    }
    if let Some(i) = raw.find("/crates/maybenot") {
        return format!("maybenot:{}", &raw[i + "/crates/".len()..]);
    }
    if let Some(i) = raw.find("/registry/src/") {
        let rest = &raw[i + "/registry/src/".len()..];
        if let Some(j) = rest.find('/') {
            return format!("ext:{}", &rest[j + 1..]);
        }
    }
    if let Some(i) = raw.find("/library/") {
        return format!("std:{}", &raw[i + "/library/".len()..]);
    }
    format!("unknown:{}", raw.rsplit('/').next().unwrap_or(""))
}
