//! Framework-level cases: run the real `Framework` under the virtual clock and a scripted RNG,
//! and print operations, oracle values (hook log) and observed outputs in the line protocol.

use crate::genm::{self, DistMode, GenCfg};
use crate::util::{hex, Prng, ScriptRng};
use crate::vtime::VInstant;
use maybenot::verif::Entry;
use maybenot::{Framework, Machine, MachineId, Timer, TriggerAction, TriggerEvent};
use std::fmt::Write as _;
use std::panic::{catch_unwind, AssertUnwindSafe};

pub type Call = (i128, Vec<TriggerEvent>);

#[derive(Clone)]
pub struct FwCase {
    pub id: String,
    pub kind: String,
    pub machines: Vec<Machine>,
    pub fp: f64,
    pub fb: f64,
    pub t0: i128,
    pub calls: Vec<Call>,
    pub rng_seed: u64,
    pub extreme: u64,
    /// non-interference probe: index of a draw-independent machine that never signals
    pub ni: Option<usize>,
    /// scripted first words of the framework's random stream
    pub prefix: Vec<u64>,
}

impl FwCase {
    pub fn with_prefix(mut self, prefix: Vec<u64>) -> Self {
        self.prefix = prefix;
        self
    }
}

pub fn ev_str(e: &TriggerEvent) -> String {
    match e {
        TriggerEvent::NormalRecv => "nr".into(),
        TriggerEvent::PaddingRecv => "pr".into(),
        TriggerEvent::TunnelRecv => "tr".into(),
        TriggerEvent::NormalSent => "ns".into(),
        TriggerEvent::PaddingSent { machine } => format!("ps:{}", machine.into_raw()),
        TriggerEvent::TunnelSent => "ts".into(),
        TriggerEvent::BlockingBegin { machine } => format!("bb:{}", machine.into_raw()),
        TriggerEvent::BlockingEnd => "be".into(),
        TriggerEvent::TimerBegin { machine } => format!("tb:{}", machine.into_raw()),
        TriggerEvent::TimerEnd { machine } => format!("te:{}", machine.into_raw()),
    }
}

pub fn parse_ev(s: &str) -> Option<TriggerEvent> {
    let (k, id) = match s.split_once(':') {
        Some((k, id)) => (k, Some(MachineId::from_raw(id.parse::<usize>().ok()?))),
        None => (s, None),
    };
    Some(match (k, id) {
        ("nr", None) => TriggerEvent::NormalRecv,
        ("pr", None) => TriggerEvent::PaddingRecv,
        ("tr", None) => TriggerEvent::TunnelRecv,
        ("ns", None) => TriggerEvent::NormalSent,
        ("ts", None) => TriggerEvent::TunnelSent,
        ("be", None) => TriggerEvent::BlockingEnd,
        ("ps", Some(m)) => TriggerEvent::PaddingSent { machine: m },
        ("bb", Some(m)) => TriggerEvent::BlockingBegin { machine: m },
        ("tb", Some(m)) => TriggerEvent::TimerBegin { machine: m },
        ("te", Some(m)) => TriggerEvent::TimerEnd { machine: m },
        _ => return None,
    })
}

fn fmt_log(out: &mut String, log: &[Entry]) {
    // oracle line: the draws and raw distribution samples, in order of use
    let us: Vec<String> = log.iter().filter_map(|e| if let Entry::Draw { bits } = e { Some(format!("{:08x}", bits)) } else { None }).collect();
    let ds: Vec<String> = log.iter().filter_map(|e| if let Entry::DistRaw { bits } = e { Some(format!("{:016x}", bits)) } else { None }).collect();
    let _ = writeln!(out, "orc {} {} {} {}", us.len(), us.join(" "), ds.len(), ds.join(" "));
}

fn fmt_log_out(out: &mut String, log: &[Entry]) {
    let mut s = String::from("o L");
    for e in log {
        match e {
            Entry::Trans { mi, event, state } => {
                let _ = write!(s, " t:{}:{}:{}", mi, event, state);
            }
            Entry::Draw { bits } => {
                let _ = write!(s, " r:{:08x}", bits);
            }
            Entry::Sampled { mi, event, next } => {
                let _ = write!(s, " s:{}:{}:{}", mi, event, next);
            }
            Entry::DistRaw { bits } => {
                let _ = write!(s, " d:{:016x}", bits);
            }
            Entry::Counter { mi, a_old, a_new, b_old, b_new } => {
                let _ = write!(s, " c:{}:{}:{}:{}:{}", mi, a_old, a_new, b_old, b_new);
            }
            Entry::Limit { mi, value, decrement } => {
                let _ = write!(s, " l:{}:{}:{}", mi, value, *decrement as u8);
            }
        }
    }
    let _ = writeln!(out, "{}", s);
}

pub fn fmt_actions<T: maybenot::time::Instant<Duration = std::time::Duration>>(out: &mut String, acts: &[TriggerAction<T>]) {
    for a in acts {
        match a {
            TriggerAction::Cancel { machine, timer } => {
                let t = match timer {
                    Timer::Action => "a",
                    Timer::Internal => "i",
                    Timer::All => "l",
                };
                let _ = writeln!(out, "o A {} C 0 0 {}", machine.into_raw(), t);
                let _ = writeln!(out, "o AT {} 0 0", machine.into_raw());
            }
            TriggerAction::SendPadding { timeout, bypass, replace, machine } => {
                let _ = writeln!(out, "o A {} P {} {} -", machine.into_raw(), *bypass as u8, *replace as u8);
                let _ = writeln!(out, "o AT {} {} 0", machine.into_raw(), timeout.as_micros());
            }
            TriggerAction::BlockOutgoing { timeout, duration, bypass, replace, machine } => {
                let _ = writeln!(out, "o A {} B {} {} -", machine.into_raw(), *bypass as u8, *replace as u8);
                let _ = writeln!(out, "o AT {} {} {}", machine.into_raw(), timeout.as_micros(), duration.as_micros());
            }
            TriggerAction::UpdateTimer { duration, replace, machine } => {
                let _ = writeln!(out, "o A {} T 0 {} -", machine.into_raw(), *replace as u8);
                let _ = writeln!(out, "o AT {} 0 {}", machine.into_raw(), duration.as_micros());
            }
        }
    }
}

fn fmt_snapshot(out: &mut String, f: &Framework<Vec<Machine>, ScriptRng, VInstant>) {
    let s = f.verif_snapshot();
    for (mi, r) in s.runtime.iter().enumerate() {
        let _ = writeln!(out, "o RS {} {} {}", mi, r.current_state, r.state_limit);
        let _ = writeln!(out, "o RC {} {} {}", mi, r.counter_a, r.counter_b);
        let _ = writeln!(out, "o RP {} {} {}", mi, r.padding_sent, r.normal_sent);
        let _ = writeln!(out, "o RB {} {}", mi, r.blocking_duration.as_nanos());
        let z = s.counter_zeroed_once.get(mi).copied().unwrap_or((false, false));
        let _ = writeln!(out, "o RZ {} {} {}", mi, z.0 as u8, z.1 as u8);
    }
    let _ = writeln!(
        out,
        "o G {} {} {} {} {} {}",
        s.current_time.0,
        s.normal_sent_packets,
        s.padding_sent_packets,
        s.blocking_duration.as_nanos(),
        s.blocking_started.0,
        s.blocking_active as u8
    );
    let sig = match s.signal_pending {
        None => "none".to_string(),
        Some(None) => "all".to_string(),
        Some(Some(i)) => format!("x{}", i),
    };
    let _ = writeln!(out, "o GS {}", sig);
}

fn panic_class(p: &Box<dyn std::any::Any + Send>) -> String {
    let msg = if let Some(s) = p.downcast_ref::<&str>() {
        s.to_string()
    } else if let Some(s) = p.downcast_ref::<String>() {
        s.clone()
    } else {
        String::new()
    };
    let site = crate::util::take_panic_site();
    if msg.contains("overflow when adding durations") {
        "dur".to_string()
    } else if msg.contains("index out of bounds") {
        "oob".to_string()
    } else if site.starts_with("ext:") {
        // a panic inside a dependency (the rand_distr samplers): the model's oracle has no
        // value for that draw, so the driver ends the comparison before this call
        site
    } else {
        format!("other {}", site)
    }
}

enum Msg {
    Text(String),
    Pending(String),
    Done,
}

/// watchdog limit for one framework call (a call normally takes microseconds)
const CALL_WATCHDOG_SECS: u64 = 5;

fn has_binomial(ms: &[Machine]) -> bool {
    use maybenot::dist::DistType;
    let is_b = |d: &maybenot::dist::Dist| matches!(d.dist, DistType::Binomial { .. });
    ms.iter().any(|m| {
        m.states.iter().any(|st| {
            let a = match &st.action {
                Some(maybenot::action::Action::SendPadding { timeout, limit, .. }) => is_b(timeout) || limit.as_ref().map_or(false, is_b),
                Some(maybenot::action::Action::BlockOutgoing { timeout, duration, limit, .. }) => {
                    is_b(timeout) || is_b(duration) || limit.as_ref().map_or(false, is_b)
                }
                Some(maybenot::action::Action::UpdateTimer { duration, limit, .. }) => is_b(duration) || limit.as_ref().map_or(false, is_b),
                _ => false,
            };
            let c = |c: &Option<maybenot::counter::Counter>| c.as_ref().and_then(|c| c.dist.as_ref()).map_or(false, is_b);
            a || c(&st.counter.0) || c(&st.counter.1)
        })
    })
}

/// Run one case on the real framework and return its protocol text. The framework runs on a
/// worker thread; a call that does not return within the watchdog limit is reported as
/// `o res panic hang…` (a hang is a C01 violation, not a reason for the check to hang) and the
/// worker is left behind.
pub fn run_case(c: &FwCase) -> String {
    let (tx, rx) = std::sync::mpsc::channel::<Msg>();
    let c2 = c.clone();
    let _ = std::thread::Builder::new().stack_size(64 << 20).spawn(move || run_case_worker(&c2, tx));
    let mut out = String::new();
    let mut pending: Option<String> = None;
    loop {
        match rx.recv_timeout(std::time::Duration::from_secs(CALL_WATCHDOG_SECS)) {
            Ok(Msg::Text(t)) => {
                out.push_str(&t);
                pending = None;
            }
            Ok(Msg::Pending(t)) => pending = Some(t),
            Ok(Msg::Done) => break,
            Err(std::sync::mpsc::RecvTimeoutError::Timeout) => {
                if let Some(t) = pending.take() {
                    out.push_str(&t);
                }
                // diagnosis for the known sampler hang: the last random word handed out had its
                // top 53 bits set (a uniform draw of 1 - 2^-53) and a Binomial distribution is present
                let last = crate::util::last_word();
                let cls = if (last >> 11) == (u64::MAX >> 11) && has_binomial(&c.machines) { "hang:binomial-after-all-ones-draw" } else { "hang" };
                let _ = writeln!(out, "o res panic {}", cls);
                let _ = writeln!(out, "end");
                break;
            }
            Err(std::sync::mpsc::RecvTimeoutError::Disconnected) => {
                // the worker died without `Done` (stack overflow aborts the process instead)
                let _ = writeln!(out, "end");
                break;
            }
        }
    }
    out
}

fn run_case_worker(c: &FwCase, tx: std::sync::mpsc::Sender<Msg>) {
    let mut out = String::new();
    macro_rules! flush {
        () => {
            let _ = tx.send(Msg::Text(std::mem::take(&mut out)));
        };
    }
    let _ = writeln!(out, "case {} {}", c.id, c.kind);
    for m in &c.machines {
        let _ = writeln!(out, "m {}", hex(&genm::machine_bytes(m)));
    }
    let _ = writeln!(out, "rng {} {}", c.rng_seed, c.extreme);
    if !c.prefix.is_empty() {
        let ws: Vec<String> = c.prefix.iter().map(|w| format!("{:016x}", w)).collect();
        let _ = writeln!(out, "words {}", ws.join(" "));
    }
    if let Some(p) = c.ni {
        let _ = writeln!(out, "probe {}", p);
    }
    flush!();
    maybenot::verif::enable(true);
    let _ = maybenot::verif::take();
    let rng = mk_rng(c);
    {
        let mut pend = String::new();
        fmt_log(&mut pend, &[]);
        let _ = writeln!(pend, "new {:016x} {:016x} {}", c.fp.to_bits(), c.fb.to_bits(), c.t0);
        let _ = tx.send(Msg::Pending(pend));
    }
    let r = catch_unwind(AssertUnwindSafe(|| Framework::new(c.machines.clone(), c.fp, c.fb, VInstant(c.t0), rng)));
    let log = maybenot::verif::take();
    fmt_log(&mut out, &log);
    let _ = writeln!(out, "new {:016x} {:016x} {}", c.fp.to_bits(), c.fb.to_bits(), c.t0);
    let mut f = match r {
        Ok(Ok(f)) => {
            let _ = writeln!(out, "o res ok");
            f
        }
        Ok(Err(_)) => {
            let _ = writeln!(out, "o res err");
            let _ = writeln!(out, "end");
            maybenot::verif::enable(false);
            flush!();
            let _ = tx.send(Msg::Done);
            return;
        }
        Err(p) => {
            let _ = writeln!(out, "o res panic {}", panic_class(&p));
            let _ = writeln!(out, "end");
            maybenot::verif::enable(false);
            flush!();
            let _ = tx.send(Msg::Done);
            return;
        }
    };
    fmt_snapshot(&mut out, &f);
    fmt_log_out(&mut out, &log);
    flush!();
    // In a quarter of the cases the observed run itself continues, from some call on, on a copy of the
    // framework (clone, or clone_from into an instance with a different past).  A correct Clone makes no
    // observable difference, so the comparison with the model and every monitor cover the copy as well.
    let swap: Option<(usize, CopyHow)> = if c.rng_seed % 4 == 1 && !c.calls.is_empty() && c.ni.is_none() {
        let how = [CopyHow::Clone, CopyHow::FromFresh, CopyHow::FromUsed][((c.rng_seed / 16) % 3) as usize];
        Some((((c.rng_seed / 4) % c.calls.len() as u64) as usize, how))
    } else {
        None
    };
    for (ci, (t, evs)) in c.calls.iter().enumerate() {
        if let Some((at, how)) = swap {
            if at == ci {
                maybenot::verif::enable(false);
                if let Ok(nf) = catch_unwind(AssertUnwindSafe(|| copy_fw(&f, c, how))) {
                    f = nf;
                }
                maybenot::verif::enable(true);
                let _ = maybenot::verif::take();
            }
        }
        let evs_s: Vec<String> = evs.iter().map(ev_str).collect();
        let mut pend = String::new();
        fmt_log(&mut pend, &[]);
        let _ = writeln!(pend, "call {} {}", t, evs_s.join(" "));
        let _ = tx.send(Msg::Pending(pend));
        let r = catch_unwind(AssertUnwindSafe(|| {
            let acts: Vec<TriggerAction<VInstant>> = f.trigger_events(evs, VInstant(*t)).cloned().collect();
            acts
        }));
        let log = maybenot::verif::take();
        fmt_log(&mut out, &log);
        let _ = writeln!(out, "call {} {}", t, evs_s.join(" "));
        match r {
            Ok(acts) => {
                let _ = writeln!(out, "o res ok");
                fmt_actions(&mut out, &acts);
                fmt_snapshot(&mut out, &f);
                fmt_log_out(&mut out, &log);
                flush!();
            }
            Err(p) => {
                let _ = writeln!(out, "o res panic {}", panic_class(&p));
                break;
            }
        }
    }
    let _ = writeln!(out, "end");
    maybenot::verif::enable(false);
    flush!();
    let _ = tx.send(Msg::Done);
}

/* ---------- generators ---------- */

fn gen_id(p: &mut Prng, n: usize) -> MachineId {
    let r = p.below(20);
    let raw = if n > 0 && r < 15 {
        p.below(n as u64) as usize
    } else {
        match r {
            15 | 16 => n,
            17 => u32::MAX as usize,
            18 => usize::MAX,
            _ => n + 1,
        }
    };
    MachineId::from_raw(raw)
}

pub fn gen_event(p: &mut Prng, n: usize) -> TriggerEvent {
    match p.below(14) {
        0 => TriggerEvent::NormalRecv,
        1 => TriggerEvent::PaddingRecv,
        2 => TriggerEvent::TunnelRecv,
        3 | 4 => TriggerEvent::NormalSent,
        5 | 6 => TriggerEvent::PaddingSent { machine: gen_id(p, n) },
        7 => TriggerEvent::TunnelSent,
        8 | 9 => TriggerEvent::BlockingBegin { machine: gen_id(p, n) },
        10 => TriggerEvent::BlockingEnd,
        11 | 12 => TriggerEvent::TimerBegin { machine: gen_id(p, n) },
        _ => TriggerEvent::TimerEnd { machine: gen_id(p, n) },
    }
}

/// clock step in nanoseconds
fn gen_step(p: &mut Prng, wild: bool) -> i128 {
    match p.below(if wild { 12 } else { 8 }) {
        0 | 1 => 0,
        2 => 1,
        3 => 1_000,
        4 => 1_000_000,
        5 => 1_000_000_000,
        6 => p.below(5_000_000) as i128,
        7 => 86_400_000_000_000,
        8 => -(p.below(2_000_000_000) as i128),
        9 => -1,
        10 => -86_400_000_000_000 * 400,
        _ => 86_400_000_000_000 * 365 * 30,
    }
}

pub fn gen_history(p: &mut Prng, n: usize, single: bool, max_calls: u64, wild_clock: bool) -> Vec<Call> {
    let ncalls = p.range(1, max_calls);
    let mut t: i128 = 0;
    let mut calls = Vec::new();
    for _ in 0..ncalls {
        t += gen_step(p, wild_clock);
        let k = if single { 1 } else { p.below(5) };
        let evs: Vec<TriggerEvent> = (0..k).map(|_| gen_event(p, n)).collect();
        calls.push((t, evs));
    }
    calls
}

/// General-purpose random framework case.
pub fn gen_general(p: &mut Prng, id: String) -> FwCase {
    let mut cfg = GenCfg::default();
    cfg.dist = *p.pick(&[DistMode::Const, DistMode::Uniform, DistMode::All, DistMode::All]);
    cfg.max_states = p.range(1, 6) as usize;
    cfg.density = *p.pick(&[25, 40, 60]);
    let n = p.below(5) as usize;
    let machines: Vec<Machine> = (0..n).map(|_| genm::gen_machine(p, &cfg)).collect();
    let fp = *p.pick(&[0.0, 0.0, 0.0, 0.5, 1.0, 1e-9, 0.25, f64::MIN_POSITIVE, f64::EPSILON, 5e-324, -0.0]);
    let fb = *p.pick(&[0.0, 0.0, 0.0, 0.5, 1.0, 0.01, f64::MIN_POSITIVE, f64::EPSILON, 1e-300, -0.0]);
    let single = p.chance(1, 2);
    let wild = p.chance(1, 2);
    let calls = gen_history(p, n, single, 80, wild);
    FwCase { id, kind: "general".into(), machines, fp, fb, t0: 0, calls, rng_seed: p.next(), extreme: *p.pick(&[0, 0, 4, 16]), ni: None, prefix: vec![] }
}

/// Actions only (no hooks): used for the determinism / clone comparison.
fn mk_rng(c: &FwCase) -> ScriptRng {
    if c.prefix.is_empty() {
        ScriptRng::new(c.rng_seed, c.extreme)
    } else {
        ScriptRng::with_prefix(c.rng_seed, c.prefix.clone())
    }
}

fn run_actions_only(c: &FwCase, clone_at: Option<usize>) -> Vec<String> {
    run_actions_copy(c, clone_at, CopyHow::Clone)
}

fn run_actions_copy(c: &FwCase, clone_at: Option<usize>, how: CopyHow) -> Vec<String> {
    let mut res = Vec::new();
    let rng = mk_rng(c);
    let r = catch_unwind(AssertUnwindSafe(|| Framework::new(c.machines.clone(), c.fp, c.fb, VInstant(c.t0), rng)));
    let mut f = match r {
        Ok(Ok(f)) => f,
        _ => return res,
    };
    for (i, (t, evs)) in c.calls.iter().enumerate() {
        if clone_at == Some(i) {
            // continue on a copy; the original is dropped
            f = if how == CopyHow::Clone { clone_fw(&f) } else { copy_fw(&f, c, how) };
        }
        let r = catch_unwind(AssertUnwindSafe(|| {
            let acts: Vec<TriggerAction<VInstant>> = f.trigger_events(evs, VInstant(*t)).cloned().collect();
            acts
        }));
        match r {
            Ok(acts) => {
                let mut o = String::new();
                fmt_actions(&mut o, &acts);
                res.push(o);
            }
            Err(_) => {
                res.push("panic".into());
                break;
            }
        }
    }
    res
}

fn clone_fw(f: &Framework<Vec<Machine>, ScriptRng, VInstant>) -> Framework<Vec<Machine>, ScriptRng, VInstant> {
    f.clone()
}

/// how the mid-history copy is made: `Clone::clone`, or `Clone::clone_from` into an instance with a
/// different past (a fresh one without machines created later, or a used one with one machine more that
/// has already counted packets and blocked time)
#[derive(Clone, Copy, PartialEq, Debug)]
enum CopyHow {
    Clone,
    FromFresh,
    FromUsed,
}

fn copy_fw(f: &Framework<Vec<Machine>, ScriptRng, VInstant>, c: &FwCase, how: CopyHow) -> Framework<Vec<Machine>, ScriptRng, VInstant> {
    match how {
        CopyHow::Clone => f.clone(),
        CopyHow::FromFresh => {
            let mut spare = match Framework::new(vec![], 0.0, 0.0, VInstant(c.t0 + 8_000_000_000), ScriptRng::new(99, 0)) {
                Ok(s) => s,
                Err(_) => return f.clone(),
            };
            spare.clone_from(f);
            spare
        }
        CopyHow::FromUsed => {
            let mut ms = c.machines.clone();
            if let Some(m) = c.machines.first() {
                ms.push(m.clone());
            }
            let mut spare = match Framework::new(ms, 0.0, 0.0, VInstant(c.t0 - 3_000_000_000), ScriptRng::new(98, 0)) {
                Ok(s) => s,
                Err(_) => return f.clone(),
            };
            let id = MachineId::from_raw(0);
            let mut t = c.t0 - 3_000_000_000;
            let script = [
                TriggerEvent::NormalSent,
                TriggerEvent::PaddingSent { machine: id },
                TriggerEvent::PaddingSent { machine: id },
                TriggerEvent::BlockingBegin { machine: id },
                TriggerEvent::NormalRecv,
                TriggerEvent::BlockingEnd,
                TriggerEvent::TimerBegin { machine: id },
                TriggerEvent::NormalSent,
            ];
            for e in script.iter() {
                t += 400_000_000;
                let r = catch_unwind(AssertUnwindSafe(|| {
                    for _ in spare.trigger_events(std::slice::from_ref(e), VInstant(t)) {}
                }));
                if r.is_err() {
                    return f.clone();
                }
            }
            spare.clone_from(f);
            spare
        }
    }
}

/// the same case on the default clock: `std::time::Instant` / `std::time::Duration` through the crate's own
/// `impl Instant` / `impl Duration` (time.rs), instants laid out around one base instant.  `None` when an
/// instant of the case cannot be represented (before the platform's epoch or out of range).
fn run_actions_std(c: &FwCase) -> Option<Vec<String>> {
    use std::time::{Duration as SD, Instant as SI};
    let base = SI::now();
    let conv = |t: i128| -> Option<SI> {
        if t >= 0 {
            if t > u64::MAX as i128 { return None; }
            base.checked_add(SD::from_nanos(t as u64))
        } else {
            if -t > u64::MAX as i128 { return None; }
            base.checked_sub(SD::from_nanos((-t) as u64))
        }
    };
    let t0 = conv(c.t0)?;
    let mut times = Vec::new();
    for (t, _) in c.calls.iter() {
        times.push(conv(*t)?);
    }
    let mut res = Vec::new();
    let rng = mk_rng(c);
    let r = catch_unwind(AssertUnwindSafe(|| Framework::new(c.machines.clone(), c.fp, c.fb, t0, rng)));
    let mut f = match r {
        Ok(Ok(f)) => f,
        _ => return Some(res),
    };
    for (i, (_, evs)) in c.calls.iter().enumerate() {
        let now = times[i];
        let r = catch_unwind(AssertUnwindSafe(|| {
            let acts: Vec<TriggerAction<SI>> = f.trigger_events(evs, now).cloned().collect();
            acts
        }));
        match r {
            Ok(acts) => {
                let mut o = String::new();
                fmt_actions(&mut o, &acts);
                res.push(o);
            }
            Err(_) => {
                res.push("panic".into());
                break;
            }
        }
    }
    Some(res)
}

/// `o DET ok|fail`: the same inputs give the same actions (second instance, and a clone taken mid-history).
pub fn det_line(c: &FwCase, p: &mut Prng) -> String {
    // the variants run the implementation again (and scripts on spare instances): supervised like the main
    // run, so that an endless loop in one of them is a result and not a stuck check
    let at = if c.calls.is_empty() { None } else { Some(p.below(c.calls.len() as u64) as usize) };
    let (tx, rx) = std::sync::mpsc::channel::<String>();
    let c2 = c.clone();
    let _ = std::thread::Builder::new().stack_size(64 << 20).spawn(move || {
        let _ = tx.send(det_line_inner(&c2, at));
    });
    match rx.recv_timeout(std::time::Duration::from_secs(4 * CALL_WATCHDOG_SECS)) {
        Ok(s) => s,
        Err(std::sync::mpsc::RecvTimeoutError::Timeout) => format!("det fail clone_at={:?} a second instance or a copy of the framework did not return (hang) copy-panicked\n", at),
        Err(std::sync::mpsc::RecvTimeoutError::Disconnected) => "det ok\n".into(),
    }
}

fn det_line_inner(c: &FwCase, at: Option<usize>) -> String {
    let a = run_actions_only(c, None);
    let b = run_actions_only(c, None);
    let d = run_actions_only(c, at);
    let e = run_actions_copy(c, at, CopyHow::FromFresh);
    let g = run_actions_copy(c, at, CopyHow::FromUsed);
    let st = run_actions_std(c);
    let std_ok = st.as_ref().map(|x| *x == a).unwrap_or(true);
    if a == b && a == d && a == e && a == g && std_ok {
        "det ok\n".into()
    } else if a == b && a == d && a == e && a == g {
        format!("det fail clone_at={:?} default-clock (std::time::Instant gives other actions than the same instants on the virtual clock)\n", at)
    } else {
        let which = if a != b { "second-instance" } else if a != d { "clone" } else if a != e { "clone_from-into-fresh-instance" } else { "clone_from-into-used-instance" };
        let panicked = !a.iter().any(|x| x == "panic") && [&b, &d, &e, &g].iter().any(|v| v.iter().any(|x| x == "panic"));
        format!("det fail clone_at={:?} {}{}\n", at, which, if panicked { " copy-panicked" } else { "" })
    }
}

/// Parse the input lines of a protocol file (ignoring `o` and `orc` lines) back into cases.
pub fn parse_cases(text: &str) -> Vec<FwCase> {
    use bincode::Options;
    let mut res = Vec::new();
    let mut cur: Option<FwCase> = None;
    for line in text.lines() {
        let ws: Vec<&str> = line.split_whitespace().collect();
        match ws.as_slice() {
            ["case", id, kind @ ..] => {
                cur = Some(FwCase { id: id.to_string(), kind: kind.join(" "), machines: vec![], fp: 0.0, fb: 0.0, t0: 0, calls: vec![], rng_seed: 0, extreme: 0, ni: None, prefix: vec![] });
            }
            ["m", h] => {
                if let (Some(c), Some(b)) = (cur.as_mut(), crate::util::unhex(h)) {
                    if let Ok(m) = bincode::DefaultOptions::new().deserialize::<Machine>(&b) {
                        c.machines.push(m);
                    }
                }
            }
            ["words", ws @ ..] => {
                if let Some(c) = cur.as_mut() {
                    c.prefix = ws.iter().filter_map(|w| u64::from_str_radix(w, 16).ok()).collect();
                }
            }
            ["probe", i] => {
                if let Some(c) = cur.as_mut() {
                    c.ni = i.parse().ok();
                }
            }
            ["rng", s, e] => {
                if let Some(c) = cur.as_mut() {
                    c.rng_seed = s.parse().unwrap_or(0);
                    c.extreme = e.parse().unwrap_or(0);
                }
            }
            ["new", fp, fb, t0] => {
                if let Some(c) = cur.as_mut() {
                    c.fp = f64::from_bits(u64::from_str_radix(fp, 16).unwrap_or(0));
                    c.fb = f64::from_bits(u64::from_str_radix(fb, 16).unwrap_or(0));
                    c.t0 = t0.parse().unwrap_or(0);
                }
            }
            ["call", t, evs @ ..] => {
                if let Some(c) = cur.as_mut() {
                    let evs: Vec<TriggerEvent> = evs.iter().filter_map(|e| parse_ev(e)).collect();
                    c.calls.push((t.parse().unwrap_or(0), evs));
                }
            }
            ["end"] => {
                if let Some(c) = cur.take() {
                    res.push(c);
                }
            }
            _ => {}
        }
    }
    res
}

/// Non-interference (C10): the probe machine's actions in the combined run equal its actions when
/// run alone on the projected history (events naming other machines mapped to an unknown id).
pub fn ni_line(c: &FwCase) -> Option<String> {
    let pos = c.ni?;
    let combined = run_actions_only(c, None);
    let proj = |e: &TriggerEvent| -> TriggerEvent {
        let map = |m: &MachineId| if m.into_raw() == pos { MachineId::from_raw(0) } else { MachineId::from_raw(usize::MAX) };
        match e {
            TriggerEvent::PaddingSent { machine } => TriggerEvent::PaddingSent { machine: map(machine) },
            TriggerEvent::BlockingBegin { machine } => TriggerEvent::BlockingBegin { machine: map(machine) },
            TriggerEvent::TimerBegin { machine } => TriggerEvent::TimerBegin { machine: map(machine) },
            TriggerEvent::TimerEnd { machine } => TriggerEvent::TimerEnd { machine: map(machine) },
            other => other.clone(),
        }
    };
    let solo = FwCase {
        id: c.id.clone(),
        kind: c.kind.clone(),
        machines: vec![c.machines[pos].clone()],
        fp: c.fp,
        fb: c.fb,
        t0: c.t0,
        calls: c.calls.iter().map(|(t, evs)| (*t, evs.iter().map(proj).collect())).collect(),
        rng_seed: c.rng_seed ^ 0x5555,
        extreme: 0,
        ni: None,
        prefix: vec![],
    };
    let alone = run_actions_only(&solo, None);
    // keep only the probe's lines of the combined run, relabelled to machine 0
    let relabel = |s: &String| -> String {
        s.lines()
            .filter_map(|l| {
                let ws: Vec<&str> = l.split_whitespace().collect();
                if ws.len() > 2 && ws[2] == pos.to_string() {
                    let mut w: Vec<String> = ws.iter().map(|x| x.to_string()).collect();
                    w[2] = "0".into();
                    Some(w.join(" "))
                } else {
                    None
                }
            })
            .collect::<Vec<_>>()
            .join("\n")
    };
    let norm = |s: &String| -> String { s.lines().map(|l| l.split_whitespace().collect::<Vec<_>>().join(" ")).collect::<Vec<_>>().join("\n") };
    for (k, (a, b)) in combined.iter().zip(alone.iter()).enumerate() {
        if relabel(a) != norm(b) {
            return Some(format!("ni fail call={}\n", k + 1));
        }
    }
    if combined.len() != alone.len() {
        return Some(format!("ni fail len {} {}\n", combined.len(), alone.len()));
    }
    Some("ni ok\n".into())
}

/// The input lines of a case, without running anything (used to report a case that crashes the process).
pub fn inputs_only(c: &FwCase) -> String {
    let mut out = String::new();
    let _ = writeln!(out, "case {} {}", c.id, c.kind);
    for m in &c.machines {
        let _ = writeln!(out, "m {}", hex(&genm::machine_bytes(m)));
    }
    let _ = writeln!(out, "rng {} {}", c.rng_seed, c.extreme);
    if !c.prefix.is_empty() {
        let ws: Vec<String> = c.prefix.iter().map(|w| format!("{:016x}", w)).collect();
        let _ = writeln!(out, "words {}", ws.join(" "));
    }
    if let Some(p) = c.ni {
        let _ = writeln!(out, "probe {}", p);
    }
    let _ = writeln!(out, "new {:016x} {:016x} {}", c.fp.to_bits(), c.fb.to_bits(), c.t0);
    for (t, evs) in &c.calls {
        let evs_s: Vec<String> = evs.iter().map(ev_str).collect();
        let _ = writeln!(out, "call {} {}", t, evs_s.join(" "));
    }
    let _ = writeln!(out, "end");
    out
}
