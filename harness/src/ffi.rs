//! `ffi-*` harness commands (property C20): call the five `extern "C"` functions of
//! `maybenot-ffi` through the crate's rlib exactly as a C integrator would — raw pointers,
//! caller-owned output buffer with canary slots around it — and print, per call, the inputs,
//! the result code, the count cell, the RAW BYTES of the whole buffer (guards included) and the
//! actions the Rust `Framework` returns directly for the same machines and events.
//!
//! Protocol (one case = one API session):
//!   case <id> <kind>
//!   sizes <sizeof MaybenotAction> <alignof> <sizeof MaybenotEvent>
//!   str <hex of the machine-string bytes, without the NUL>
//!   m <hex bincode>            one per machine when every line parses with the Rust API
//!   orc 0 0
//!   start <outnull> <fp bits> <fb bits>
//!   o rc <n> / o ref <utf8> <parse> <fw> <strict parse> / o out <0|1> / o nm <n|na> <nm(NULL)>
//!   orc 0 0
//!   ev <nulls:this,events,actions,count> <guard> <pat> <name:machine>*
//!   o rc <n> / o count <n|unset> / o evraw <hex> / o mem <hex> / o A.. / o AT..   (reference)
//!   orc 0 0
//!   stop            -> o leak <before> <after> | o leak na
//!   orc 0 0
//!   version         -> o version <string> <expected>
//!   end

use crate::fw::fmt_actions;
use crate::genm::{self, DistMode, GenCfg};
use crate::util::{hex, unhex, Prng, ScriptRng};
use crate::vtime::VInstant;
use maybenot::{Framework, Machine, MachineId, TriggerAction, TriggerEvent};
use maybenot_ffi::{
    maybenot_num_machines, maybenot_on_events, maybenot_start, maybenot_stop, maybenot_version, MaybenotAction,
    MaybenotEvent, MaybenotEventType, MaybenotFramework,
};
use std::fmt::Write as _;
use std::io::Write;
use std::mem::MaybeUninit;
use std::str::FromStr;

/// Bytes currently allocated according to the harness's counting global allocator.
/// The allocator is owned by another module; until it is wired in, the leak check is reported
/// as unavailable.
fn alloc_current() -> Option<usize> {
    Some(crate::codec::alloc::current())
}

const COUNT_SENTINEL: usize = 0xDEAD_BEEF_DEAD_BEEF;
const OUT_SENTINEL: usize = 0x5A5A_5A5A_5A5A_5A58;
const EV_NAMES: [&str; 10] = ["nr", "pr", "tr", "ns", "ps", "ts", "bb", "be", "tb", "te"];

#[derive(Clone, Debug)]
pub enum Op {
    Start { out_null: bool, fp: f64, fb: f64 },
    Ev { nulls: [bool; 4], guard: usize, pat: u8, events: Vec<(usize, usize)> },
    Stop,
    Version,
}

#[derive(Clone, Debug)]
pub struct FfiCase {
    pub id: String,
    pub kind: String,
    /// the machine-string argument, without the terminating NUL
    pub mstr: Vec<u8>,
    pub ops: Vec<Op>,
}

fn ev_type(i: usize) -> MaybenotEventType {
    match i {
        0 => MaybenotEventType::NormalRecv,
        1 => MaybenotEventType::PaddingRecv,
        2 => MaybenotEventType::TunnelRecv,
        3 => MaybenotEventType::NormalSent,
        4 => MaybenotEventType::PaddingSent,
        5 => MaybenotEventType::TunnelSent,
        6 => MaybenotEventType::BlockingBegin,
        7 => MaybenotEventType::BlockingEnd,
        8 => MaybenotEventType::TimerBegin,
        _ => MaybenotEventType::TimerEnd,
    }
}

/// the framework event an integrator means by the named C event
fn trigger_event(i: usize, machine: usize) -> TriggerEvent {
    let machine = MachineId::from_raw(machine);
    match i {
        0 => TriggerEvent::NormalRecv,
        1 => TriggerEvent::PaddingRecv,
        2 => TriggerEvent::TunnelRecv,
        3 => TriggerEvent::NormalSent,
        4 => TriggerEvent::PaddingSent { machine },
        5 => TriggerEvent::TunnelSent,
        6 => TriggerEvent::BlockingBegin { machine },
        7 => TriggerEvent::BlockingEnd,
        8 => TriggerEvent::TimerBegin { machine },
        _ => TriggerEvent::TimerEnd { machine },
    }
}

/// The Rust API's view of the machine string: UTF-8?, then every LF-separated piece (a final
/// empty piece after a trailing LF does not count, one trailing CR is not part of a piece)
/// through `Machine::from_str`.
fn reference_parse(mstr: &[u8]) -> (bool, Option<Vec<Machine>>) {
    let s = match std::str::from_utf8(mstr) {
        Ok(s) => s,
        Err(_) => return (false, None),
    };
    let mut pieces: Vec<&str> = s.split('\n').collect();
    if pieces.last() == Some(&"") {
        pieces.pop();
    }
    let mut ms = Vec::new();
    for p in pieces {
        let p = p.strip_suffix('\r').unwrap_or(p);
        match Machine::from_str(p) {
            Ok(m) => ms.push(m),
            Err(_) => return (true, None),
        }
    }
    (true, Some(ms))
}

/// The literal reading of "newline-separated machine strings": every piece between LFs (a
/// trailing LF yields a final empty piece, a CR stays part of its piece) must be accepted by
/// `Machine::from_str`.  Reported next to the `str::lines` reading for the record.
fn strict_parse_ok(mstr: &[u8]) -> bool {
    match std::str::from_utf8(mstr) {
        Ok(s) => s.is_empty() || s.split('\n').all(|p| Machine::from_str(p).is_ok()),
        Err(_) => false,
    }
}

type RefFw = Framework<Vec<Machine>, ScriptRng, VInstant>;

/// Run one session against the real C API and return its protocol text.
pub fn run_case(c: &FfiCase) -> String {
    let mut out = String::new();
    let asz = std::mem::size_of::<MaybenotAction>();
    let _ = writeln!(out, "case {} {}", c.id, c.kind);
    let _ = writeln!(out, "sizes {} {} {}", asz, std::mem::align_of::<MaybenotAction>(), std::mem::size_of::<MaybenotEvent>());
    let _ = writeln!(out, "str {}", if c.mstr.is_empty() { "-".to_string() } else { hex(&c.mstr) });
    let (utf8, parsed) = reference_parse(&c.mstr);
    if let Some(ms) = &parsed {
        for m in ms {
            let _ = writeln!(out, "m {}", hex(&genm::machine_bytes(m)));
        }
    }
    let mut inst: *mut MaybenotFramework = std::ptr::null_mut();
    let mut reference: Option<RefFw> = None;
    let mut ref_time: i128 = 0;
    // net bytes allocated inside the extern "C" calls of the current session (measured tightly around
    // each call so that the harness's own allocations are not counted)
    let mut api_net: i64 = 0;
    let mut alloc_before: Option<usize> = None;
    for op in &c.ops {
        let _ = writeln!(out, "orc 0 0");
        match op {
            Op::Start { out_null, fp, fb } => {
                let _ = writeln!(out, "start {} {:016x} {:016x}", *out_null as u8, fp.to_bits(), fb.to_bits());
                if !inst.is_null() {
                    let _ = writeln!(out, "o skipped already-started");
                    continue;
                }
                let mut cstr = c.mstr.clone();
                cstr.push(0);
                alloc_before = alloc_current();
                let mut slot: MaybeUninit<*mut MaybenotFramework> = MaybeUninit::new(OUT_SENTINEL as *mut MaybenotFramework);
                let outp: *mut MaybeUninit<*mut MaybenotFramework> = if *out_null { std::ptr::null_mut() } else { &mut slot };
                let a0 = alloc_current();
                let rc = unsafe { maybenot_start(cstr.as_ptr().cast(), *fp, *fb, outp) } as u32;
                let a1 = alloc_current();
                api_net = match (a0, a1) {
                    (Some(x), Some(y)) => y as i64 - x as i64,
                    _ => 0,
                };
                let got = unsafe { slot.assume_init() };
                let written = got as usize != OUT_SENTINEL && !got.is_null();
                if written {
                    inst = got;
                }
                // the Rust API directly, for the same arguments
                let fw_ref = match &parsed {
                    Some(ms) => match Framework::new(ms.clone(), *fp, *fb, VInstant(0), ScriptRng::new(1, 0)) {
                        Ok(f) => {
                            if written {
                                reference = Some(f);
                            }
                            "ok"
                        }
                        Err(_) => "err",
                    },
                    None => "na",
                };
                let _ = writeln!(out, "o rc {}", rc);
                let _ = writeln!(
                    out,
                    "o ref {} {} {} {}",
                    utf8 as u8,
                    if !utf8 { "na" } else if parsed.is_some() { "ok" } else { "bad" },
                    fw_ref,
                    if !utf8 { "na" } else if strict_parse_ok(&c.mstr) { "ok" } else { "bad" }
                );
                let _ = writeln!(out, "o out {}", written as u8);
                let nm_null = unsafe { maybenot_num_machines(std::ptr::null_mut()) };
                if written {
                    let _ = writeln!(out, "o nm {} {}", unsafe { maybenot_num_machines(inst) }, nm_null);
                } else {
                    let _ = writeln!(out, "o nm na {}", nm_null);
                }
            }
            Op::Ev { nulls, guard, pat, events } => {
                let words: Vec<String> = events.iter().map(|(t, m)| format!("{}:{}", EV_NAMES[*t % 10], m)).collect();
                let this_null = nulls[0] || inst.is_null();
                let nulls = [this_null, nulls[1], nulls[2], nulls[3]];
                let nstr: String = nulls.iter().map(|b| if *b { '1' } else { '0' }).collect();
                let _ = writeln!(out, "ev {} {} {:02x} {}", nstr, guard, pat, words.join(" "));
                let n = if inst.is_null() { 0 } else { unsafe { maybenot_num_machines(inst) } };
                let total = guard + n + guard;
                // caller-owned memory: guard slots, n output slots, guard slots; 8-byte aligned
                let mut mem: Vec<u64> = vec![u64::from_le_bytes([*pat; 8]); (total * asz + 7) / 8 + 1];
                let base = mem.as_mut_ptr() as *mut u8;
                let actp: *mut MaybeUninit<MaybenotAction> =
                    if nulls[2] { std::ptr::null_mut() } else { unsafe { base.add(guard * asz) }.cast() };
                let cevents: Vec<MaybenotEvent> =
                    events.iter().map(|(t, m)| MaybenotEvent { event_type: ev_type(*t % 10), machine: *m }).collect();
                let evp: *const MaybenotEvent = if nulls[1] { std::ptr::null() } else { cevents.as_ptr() };
                let mut count: usize = COUNT_SENTINEL;
                let cntp: *mut usize = if nulls[3] { std::ptr::null_mut() } else { &mut count };
                let thisp = if this_null { std::ptr::null_mut() } else { inst };
                let a0 = alloc_current();
                let rc = unsafe { maybenot_on_events(thisp, evp, cevents.len(), actp, cntp) } as u32;
                let a1 = alloc_current();
                if let (Some(x), Some(y)) = (a0, a1) {
                    api_net += y as i64 - x as i64;
                }
                let _ = writeln!(out, "o rc {}", rc);
                if count == COUNT_SENTINEL {
                    let _ = writeln!(out, "o count unset");
                } else {
                    let _ = writeln!(out, "o count {}", count);
                }
                let evraw = unsafe {
                    std::slice::from_raw_parts(cevents.as_ptr() as *const u8, cevents.len() * std::mem::size_of::<MaybenotEvent>())
                };
                let _ = writeln!(out, "o evraw {}", if evraw.is_empty() { "-".to_string() } else { hex(evraw) });
                let raw = unsafe { std::slice::from_raw_parts(base as *const u8, total * asz) };
                let _ = writeln!(out, "o mem {}", if raw.is_empty() { "-".to_string() } else { hex(raw) });
                // the Rust framework directly (only when the call reached the framework)
                if !nulls.iter().any(|b| *b) {
                    if let Some(f) = reference.as_mut() {
                        ref_time += 1_000_000;
                        let tes: Vec<TriggerEvent> = events.iter().map(|(t, m)| trigger_event(*t % 10, *m)).collect();
                        let acts: Vec<TriggerAction<VInstant>> = f.trigger_events(&tes, VInstant(ref_time)).cloned().collect();
                        let mut s = String::new();
                        fmt_actions(&mut s, &acts);
                        out.push_str(&s);
                    }
                }
            }
            Op::Stop => {
                let _ = writeln!(out, "stop");
                if inst.is_null() {
                    let _ = writeln!(out, "o skipped not-started");
                    continue;
                }
                let a0 = alloc_current();
                unsafe { maybenot_stop(inst) };
                let a1 = alloc_current();
                if let (Some(x), Some(y)) = (a0, a1) {
                    api_net += y as i64 - x as i64;
                }
                inst = std::ptr::null_mut();
                reference = None;
                match (alloc_before, alloc_current()) {
                    (Some(_), Some(_)) => {
                        // bytes allocated by start/on_events and not released by stop: must be 0
                        let _ = writeln!(out, "o leak 0 {}", api_net);
                    }
                    _ => {
                        let _ = writeln!(out, "o leak na");
                    }
                }
            }
            Op::Version => {
                let _ = writeln!(out, "version");
                let p = maybenot_version();
                let s = unsafe { std::ffi::CStr::from_ptr(p) }.to_string_lossy().into_owned();
                let _ = writeln!(out, "o version {} maybenot-ffi/{}", s.replace(' ', "_"), ffi_crate_version());
            }
        }
    }
    if !inst.is_null() {
        unsafe { maybenot_stop(inst) };
    }
    let _ = writeln!(out, "end");
    out
}

/// `version = ".."` of /repo/crates/maybenot-ffi/Cargo.toml, read at run time
fn ffi_crate_version() -> String {
    let repo = std::env::var("VERIF_REPO").unwrap_or_else(|_| "/repo".into());
    let text = std::fs::read_to_string(format!("{repo}/crates/maybenot-ffi/Cargo.toml")).unwrap_or_default();
    for line in text.lines() {
        let l = line.trim();
        if let Some(rest) = l.strip_prefix("version") {
            if let Some(v) = rest.split('"').nth(1) {
                return v.to_string();
            }
        }
    }
    "?".into()
}

/* ---------- generators ---------- */

fn gen_machines(p: &mut Prng, n: usize, no_blocking: bool) -> Vec<Machine> {
    let mut cfg = GenCfg { prob_one: true, dist: DistMode::Const, ..GenCfg::default() };
    cfg.max_states = p.range(1, 5) as usize;
    cfg.density = *p.pick(&[40, 60, 80]);
    if no_blocking {
        cfg.kinds = vec![0, 1, 3];
    }
    (0..n)
        .map(|_| {
            let mut m = genm::gen_machine(p, &cfg);
            // the API stamps events with the OS clock: keep every limit independent of time
            m.max_blocking_frac = 0.0;
            m
        })
        .collect()
}

fn gen_id(p: &mut Prng, n: usize) -> usize {
    let r = p.below(20);
    if n > 0 && r < 14 {
        p.below(n as u64) as usize
    } else {
        match r {
            14 | 15 | 16 => n,
            17 => u32::MAX as usize,
            18 => usize::MAX,
            _ => n + 1,
        }
    }
}

fn gen_nulls(p: &mut Prng) -> [bool; 4] {
    loop {
        let b = p.below(16);
        if b != 0 {
            return [b & 1 != 0, b & 2 != 0, b & 4 != 0, b & 8 != 0];
        }
    }
}

fn gen_ev_ops(p: &mut Prng, n: usize, calls: u64, max_batch: u64) -> Vec<Op> {
    let mut ops = Vec::new();
    for _ in 0..calls {
        let guard = p.range(1, 3) as usize;
        let pat = *p.pick(&[0xC5u8, 0x00, 0xFF, 0x01, 0x7E]);
        let k = p.below(max_batch + 1);
        let events: Vec<(usize, usize)> = (0..k).map(|_| (p.below(10) as usize, gen_id(p, n))).collect();
        let nulls = if p.chance(1, 12) { gen_nulls(p) } else { [false; 4] };
        ops.push(Op::Ev { nulls, guard, pat, events });
        if p.chance(1, 40) {
            ops.push(Op::Version);
        }
    }
    ops
}

fn join(ms: &[Machine], sep: &str) -> Vec<u8> {
    ms.iter().map(|m| m.serialize()).collect::<Vec<_>>().join(sep).into_bytes()
}

/// a valid session: start, batches of events, stop
fn gen_run(p: &mut Prng, id: String, deep: bool) -> FfiCase {
    // one session in ten: many machines (past 64 and 128 indices), copies of one machine so that all of
    // them act in the same call and the action buffer is filled to num_machines
    let many = p.chance(1, 10);
    let n = if many { *p.pick(&[65usize, 70, 130]) } else { *p.pick(&[0usize, 1, 1, 2, 2, 3, 3, 4, 5]) };
    let fb = *p.pick(&[0.0, 0.0, 0.0, -0.0, 0.5, 1.0]);
    let fp = *p.pick(&[0.0, 0.0, -0.0, 0.5, 1.0, 1e-9, 0.25]);
    let ms = if many {
        let one = gen_machines(p, 1, fb > 0.0);
        (0..n).map(|_| one[0].clone()).collect()
    } else {
        gen_machines(p, n, fb > 0.0)
    };
    let mut mstr = match p.below(10) {
        0 => join(&ms, "\r\n"),
        _ => join(&ms, "\n"),
    };
    if n > 0 && p.chance(1, 8) {
        mstr.push(b'\n');
    }
    let mut ops = vec![Op::Start { out_null: false, fp, fb }];
    let calls = if deep { p.range(1, 80) } else { p.range(1, 25) };
    ops.extend(gen_ev_ops(p, n, calls, if deep { 12 } else { 6 }));
    ops.push(Op::Stop);
    FfiCase { id, kind: "run".into(), mstr, ops }
}

/// every invalid start argument the contract allows, alone and combined
fn gen_badstart(p: &mut Prng, id: String) -> FfiCase {
    let n = p.range(1, 3) as usize;
    let ms = gen_machines(p, n, false);
    let good = join(&ms, "\n");
    let mut out_null = false;
    let mut fp = *p.pick(&[0.0, 0.5, 1.0]);
    let mut fb = 0.0;
    let mut mstr = good.clone();
    const BAD_FRACS: [f64; 9] =
        [-0.1, 1.1, f64::NAN, f64::INFINITY, f64::NEG_INFINITY, 1.0000000000000002, -5e-324, -1.0, 2.0];
    let mut picks = vec![p.below(5)];
    if p.chance(1, 3) {
        picks.push(p.below(5));
    }
    for k in picks {
        match k {
            0 => out_null = true,
            1 => {
                // not UTF-8
                mstr = match p.below(4) {
                    0 => vec![0xff, 0xfe],
                    1 => {
                        let mut s = good.clone();
                        let i = p.below(s.len() as u64) as usize;
                        s[i] = 0x80;
                        s
                    }
                    2 => {
                        let mut s = good.clone();
                        s.extend_from_slice(&[b'\n', 0xc3]);
                        s
                    }
                    _ => vec![0xc0, 0xaf, b'0', b'2'],
                };
            }
            2 => {
                // UTF-8 but not a list of valid machine strings
                mstr = match p.below(10) {
                    0 => b"\n".to_vec(),
                    1 => b"not a machine".to_vec(),
                    2 => {
                        let mut s = good.clone();
                        s[1] = b'1'; // version 01
                        s
                    }
                    3 => good[..good.len() - 1 - p.below(6) as usize].to_vec(),
                    4 => {
                        let mut s = good.clone();
                        let i = 2 + p.below(s.len() as u64 - 2) as usize;
                        s[i] = if s[i] == b'A' { b'B' } else { b'A' };
                        s
                    }
                    5 => {
                        let mut s = good.clone();
                        s.extend_from_slice(b"\ngarbage");
                        s
                    }
                    6 => {
                        let mut s = good.clone();
                        s.extend_from_slice(b"\n\n");
                        s.extend_from_slice(&good);
                        s
                    }
                    7 => "02\u{e9}\u{e9}\u{e9}".as_bytes().to_vec(),
                    8 => {
                        // well-formed encoding of a machine that does not validate
                        let mut m = ms[0].clone();
                        m.max_padding_frac = 2.0;
                        m.serialize().into_bytes()
                    }
                    _ => b"02".to_vec(),
                };
            }
            3 => fp = *p.pick(&BAD_FRACS),
            _ => fb = *p.pick(&BAD_FRACS),
        }
    }
    let mut ops = vec![Op::Start { out_null, fp, fb }];
    // whatever happened, a call without an instance must answer NullPointer and touch nothing
    ops.push(Op::Ev { nulls: [true, false, false, false], guard: 1, pat: 0xC5, events: vec![(3, 0)] });
    let extra = p.range(0, 3);
    ops.extend(gen_ev_ops(p, n, extra, 4));
    ops.push(Op::Version);
    ops.push(Op::Stop);
    FfiCase { id, kind: "badstart".into(), mstr, ops }
}

/// the input lines of a case only (nothing is executed)
pub fn inputs_text(c: &FfiCase) -> String {
    let mut out = String::new();
    let _ = writeln!(out, "case {} {}", c.id, c.kind);
    let _ = writeln!(out, "str {}", if c.mstr.is_empty() { "-".to_string() } else { hex(&c.mstr) });
    for op in &c.ops {
        match op {
            Op::Start { out_null, fp, fb } => {
                let _ = writeln!(out, "start {} {:016x} {:016x}", *out_null as u8, fp.to_bits(), fb.to_bits());
            }
            Op::Ev { nulls, guard, pat, events } => {
                let words: Vec<String> = events.iter().map(|(t, m)| format!("{}:{}", EV_NAMES[*t % 10], m)).collect();
                let nstr: String = nulls.iter().map(|b| if *b { '1' } else { '0' }).collect();
                let _ = writeln!(out, "ev {} {} {:02x} {}", nstr, guard, pat, words.join(" "));
            }
            Op::Stop => {
                let _ = writeln!(out, "stop");
            }
            Op::Version => {
                let _ = writeln!(out, "version");
            }
        }
    }
    let _ = writeln!(out, "end");
    out
}

/// Parse the input lines of a protocol file (ignoring outputs) back into cases.
pub fn parse_cases(text: &str) -> Vec<FfiCase> {
    let mut res = Vec::new();
    let mut cur: Option<FfiCase> = None;
    for line in text.lines() {
        let ws: Vec<&str> = line.split_whitespace().collect();
        match ws.as_slice() {
            ["case", id, kind @ ..] => {
                cur = Some(FfiCase { id: id.to_string(), kind: kind.join(" "), mstr: vec![], ops: vec![] });
            }
            ["str", h] => {
                if let Some(c) = cur.as_mut() {
                    c.mstr = if *h == "-" { vec![] } else { unhex(h).unwrap_or_default() };
                }
            }
            ["start", on, fp, fb] => {
                if let Some(c) = cur.as_mut() {
                    c.ops.push(Op::Start {
                        out_null: *on == "1",
                        fp: f64::from_bits(u64::from_str_radix(fp, 16).unwrap_or(0)),
                        fb: f64::from_bits(u64::from_str_radix(fb, 16).unwrap_or(0)),
                    });
                }
            }
            ["ev", nulls, guard, pat, evs @ ..] => {
                if let Some(c) = cur.as_mut() {
                    let nb: Vec<bool> = nulls.chars().map(|ch| ch == '1').collect();
                    let mut events = Vec::new();
                    for e in evs {
                        if let Some((k, m)) = e.split_once(':') {
                            if let (Some(t), Ok(m)) = (EV_NAMES.iter().position(|x| *x == k), m.parse::<usize>()) {
                                events.push((t, m));
                            }
                        }
                    }
                    c.ops.push(Op::Ev {
                        nulls: [nb.first().copied().unwrap_or(false), nb.get(1).copied().unwrap_or(false), nb.get(2).copied().unwrap_or(false), nb.get(3).copied().unwrap_or(false)],
                        guard: guard.parse().unwrap_or(1),
                        pat: u8::from_str_radix(pat, 16).unwrap_or(0xC5),
                        events,
                    });
                }
            }
            ["stop"] => {
                if let Some(c) = cur.as_mut() {
                    c.ops.push(Op::Stop);
                }
            }
            ["version"] => {
                if let Some(c) = cur.as_mut() {
                    c.ops.push(Op::Version);
                }
            }
            ["end"] => {
                if let Some(c) = cur.take() {
                    res.push(c);
                }
            }
            _ => {}
        }
    }
    res
}

/// Returns false if `sub` is not a command of this module.
pub fn cmd(sub: &str, args: &[String], w: &mut dyn Write) -> bool {
    let seed: u64 = crate::arg_val(args, "--seed").and_then(|s| s.parse().ok()).unwrap_or(1);
    let cases: u64 = crate::arg_val(args, "--cases").and_then(|s| s.parse().ok()).unwrap_or(100);
    match sub {
        "ffi-gen" => {
            let kind = crate::arg_val(args, "--kind").unwrap_or_else(|| "run".into());
            let salt = match kind.as_str() {
                "run" => 0x0c20_0001u64,
                "deep" => 0x0c20_0002,
                "badstart" => 0x0c20_0003,
                other => {
                    eprintln!("unknown ffi kind {other}");
                    std::process::exit(2);
                }
            };
            let only: Option<u64> = crate::arg_val(args, "--only").and_then(|s| s.parse().ok());
            let dry = args.iter().any(|a| a == "--dry");
            let mut p = Prng::new(seed ^ salt);
            for i in 0..cases {
                let mut cp = p.fork();
                if only.is_some() && only != Some(i) {
                    continue;
                }
                let id = format!("ffi-{}-{}-{}", kind, seed, i);
                let c = match kind.as_str() {
                    "run" => gen_run(&mut cp, id, false),
                    "deep" => gen_run(&mut cp, id, true),
                    _ => gen_badstart(&mut cp, id),
                };
                let text = if dry { inputs_text(&c) } else { run_case(&c) };
                let _ = w.write_all(text.as_bytes());
                let _ = w.flush();
            }
            true
        }
        "ffi-timed" => {
            timed(w);
            true
        }
        "ffi-replay" => {
            let mut text = String::new();
            let _ = std::io::Read::read_to_string(&mut std::io::stdin(), &mut text);
            for c in parse_cases(&text) {
                let _ = w.write_all(run_case(&c).as_bytes());
            }
            true
        }
        _ => false,
    }
}

/* ---------- wall-clock differential (ffi-timed) ----------
   The C API stamps every batch with `Instant::now()`.  The byte-level model cannot see that clock, so the
   time-dependent half of "exactly the actions the Rust framework returns" is checked here directly: the API
   and a `Framework<_, std::time::Instant>` are driven in lockstep (same machines, each reference call made
   right after the API call) through scenarios whose blocking-budget decisions depend on how much real time
   has passed, with margins of a factor two or more so that scheduling noise cannot flip them.  A scenario
   that disagrees is repeated; only a disagreement in every repetition is reported. */

fn timed_machine(mfrac: f64) -> Machine {
    use enum_map::enum_map;
    use maybenot::action::Action;
    use maybenot::dist::{Dist, DistType};
    use maybenot::event::Event;
    use maybenot::state::{State, Trans};
    let konst = |v: f64| Dist { dist: DistType::Uniform { low: v, high: v }, start: 0.0, max: 0.0 };
    let s0 = State::new(enum_map! { Event::NormalSent => vec![Trans(1, 1.0)], _ => vec![] });
    let mut s1 = State::new(enum_map! { Event::NormalSent => vec![Trans(1, 1.0)], Event::NormalRecv => vec![Trans(0, 1.0)], _ => vec![] });
    s1.action = Some(Action::BlockOutgoing { bypass: false, replace: false, timeout: konst(0.0), duration: konst(1000.0), limit: None });
    Machine::new(0, 0.0, 0, mfrac, vec![s0, s1]).expect("timed machine is valid")
}

#[derive(Clone, Copy)]
enum TStep {
    Ev(usize),     // a batch holding this one event (index into EV_NAMES), machine 0
    Sleep(u64),    // milliseconds
}

fn timed_once(mfrac: f64, fb: f64, steps: &[TStep]) -> (String, String) {
    let m = timed_machine(mfrac);
    let mut cstr = m.serialize().into_bytes();
    cstr.push(0);
    let mut slot: MaybeUninit<*mut MaybenotFramework> = MaybeUninit::new(std::ptr::null_mut());
    let rc = unsafe { maybenot_start(cstr.as_ptr().cast(), 0.0, fb, &mut slot) } as u32;
    let inst = unsafe { slot.assume_init() };
    let mut reference = Framework::new(vec![m], 0.0, fb, std::time::Instant::now(), ScriptRng::new(1, 0)).expect("reference framework");
    if rc != 0 || inst.is_null() {
        return (format!("start-rc-{rc}"), "started".into());
    }
    let (mut a, mut b) = (String::new(), String::new());
    for s in steps {
        match *s {
            TStep::Sleep(ms) => std::thread::sleep(std::time::Duration::from_millis(ms)),
            TStep::Ev(t) => {
                let ev = [MaybenotEvent { event_type: ev_type(t), machine: 0 }];
                let mut acts: [MaybeUninit<MaybenotAction>; 1] = [MaybeUninit::uninit()];
                let mut count: usize = 0;
                let rc = unsafe { maybenot_on_events(inst, ev.as_ptr(), 1, acts.as_mut_ptr(), &mut count) } as u32;
                let n = reference.trigger_events(&[trigger_event(t, 0)], std::time::Instant::now()).count();
                let _ = write!(a, "{}", if rc != 0 { "E".to_string() } else { count.to_string() });
                let _ = write!(b, "{}", n);
            }
        }
    }
    unsafe { maybenot_stop(inst) };
    (a, b)
}

pub fn timed(w: &mut dyn Write) {
    use TStep::*;
    // event indices: 0 NormalRecv, 3 NormalSent, 6 BlockingBegin, 7 BlockingEnd
    let scenarios: Vec<(&str, f64, f64, Vec<TStep>, &str)> = vec![
        // blocked 30 ms of 30 ms: over the limit; 90 ms later 30 of 120 ms: below it
        ("machine-frac-recovers", 0.5, 0.0, vec![Ev(6), Sleep(30), Ev(7), Ev(3), Ev(0), Sleep(90), Ev(3)], "00001"),
        ("framework-frac-recovers", 0.0, 0.5, vec![Ev(6), Sleep(30), Ev(7), Ev(3), Ev(0), Sleep(90), Ev(3)], "00001"),
        // an ongoing block counts up to now: 60 ms of 60 ms
        ("ongoing-block-counts", 0.5, 0.0, vec![Ev(6), Sleep(60), Ev(3)], "00"),
        // nothing blocked yet, time has passed: below the limit
        ("idle-time-allows", 0.5, 0.0, vec![Sleep(20), Ev(3)], "1"),
        // blocked 20 of 100 ms, then a long block: 20 + 80 of 180 ms is over again
        ("second-block-exceeds", 0.5, 0.0, vec![Ev(6), Sleep(20), Ev(7), Sleep(80), Ev(3), Ev(0), Ev(6), Sleep(80), Ev(7), Ev(3)], "0010000"),
    ];
    for (name, mfrac, fb, steps, expect) in scenarios {
        let mut last = (String::new(), String::new());
        let mut agree = false;
        let mut tries = 0;
        while tries < 3 {
            tries += 1;
            last = timed_once(mfrac, fb, &steps);
            if last.0 == last.1 {
                agree = true;
                break;
            }
        }
        let _ = writeln!(
            w,
            "timed {} {} api={} ref={} tries={} informative={}",
            name,
            if agree { "ok" } else { "MISMATCH" },
            last.0,
            last.1,
            tries,
            (last.1 == expect) as u8
        );
    }
}
