//! `val-*` harness commands: validation paths (C12), `Dist::sample` (C13), `State::sample_state` (C06).
//!
//! Protocol (one block per case, see lean/Driver/ValRun.lean):
//!   case <id> c12 <label>            case <id> c13 <label>              case <id> c06 <label>
//!   m <bincode hex>                  d <bincode hex of Dist>            v <numstates> <target>:<f32 bits> ...
//!   orc 0 0                          orc 0 0                            orc 0 0
//!   paths <fp bits> <fb bits>        sample <prefix> <k> <seed>         words <w> ... | exhaustive | novec
//!   o validate ok|err                o res ok|panic|hang                o w <word> <draw bits> <target|none> <u32 calls> <u64 calls>
//!   o new ok|err                     o words <total> <kind:hex> ...     o counts <target>:<n> ... none:<n> drawbad:<n>
//!   o fromstr ok|err|panic           o raw <f64 bits>
//!   o fwnew ok|err|panic|hang        o ret <f64 bits>
//!   o run ok|panic|hang (if fwnew ok)
//!   end                              end                                end

use crate::genm::machine_bytes;
use crate::util::{hex, unhex, Prng, ScriptRng};
use crate::vtime::VInstant;
use enum_map::enum_map;
use maybenot::action::Action;
use maybenot::constants::{STATE_END, STATE_MAX, STATE_SIGNAL};
use maybenot::counter::{Counter, Operation};
use maybenot::dist::{Dist, DistType};
use maybenot::event::Event;
use maybenot::state::{State, Trans};
use maybenot::{Framework, Machine, Timer};
use std::io::Write;
use std::panic::{catch_unwind, AssertUnwindSafe};
use std::str::FromStr;
use std::sync::mpsc;
use std::time::Duration;

const EVENTS: [Event; 13] = [
    Event::NormalRecv,
    Event::PaddingRecv,
    Event::TunnelRecv,
    Event::NormalSent,
    Event::PaddingSent,
    Event::TunnelSent,
    Event::BlockingBegin,
    Event::BlockingEnd,
    Event::LimitReached,
    Event::CounterZero,
    Event::TimerBegin,
    Event::TimerEnd,
    Event::Signal,
];

fn arg_val(args: &[String], name: &str) -> Option<String> {
    args.iter().position(|a| a == name).and_then(|i| args.get(i + 1).cloned())
}

pub fn cmd(sub: &str, args: &[String], w: &mut dyn Write) -> bool {
    let seed: u64 = arg_val(args, "--seed").and_then(|s| s.parse().ok()).unwrap_or(1);
    let cases: u64 = arg_val(args, "--cases").and_then(|s| s.parse().ok()).unwrap_or(100);
    match sub {
        "val-gen" => {
            gen_c12(seed, cases, w);
            true
        }
        "val-replay" => {
            replay_c12(w);
            true
        }
        "val-sample" => {
            let wd: u64 = arg_val(args, "--watchdog-ms").and_then(|s| s.parse().ok()).unwrap_or(3000);
            gen_c13(seed, cases, wd, w);
            true
        }
        "val-sample-replay" => {
            let wd: u64 = arg_val(args, "--watchdog-ms").and_then(|s| s.parse().ok()).unwrap_or(3000);
            replay_c13(wd, w);
            true
        }
        "val-sampstate" => {
            let ex: u64 = arg_val(args, "--exhaustive").and_then(|s| s.parse().ok()).unwrap_or(3);
            gen_c06(seed, cases, ex, w);
            true
        }
        "val-sampstate-replay" => {
            replay_c06(w);
            true
        }
        _ => false,
    }
}

// ---------------------------------------------------------------------------------------------
// watchdog

enum Outcome<T> {
    Done(T),
    Panic,
    Hang,
}

/// Run `f` on its own thread; give up after `ms` milliseconds (the thread is left behind).
fn with_watchdog<T: Send + 'static>(ms: u64, f: impl FnOnce() -> T + Send + 'static) -> Outcome<T> {
    let (tx, rx) = mpsc::channel();
    let _ = std::thread::Builder::new().stack_size(16 << 20).spawn(move || {
        let r = catch_unwind(AssertUnwindSafe(f));
        let _ = tx.send(r.ok());
    });
    match rx.recv_timeout(Duration::from_millis(ms)) {
        Ok(Some(v)) => Outcome::Done(v),
        Ok(None) => Outcome::Panic,
        Err(_) => Outcome::Hang,
    }
}

// ---------------------------------------------------------------------------------------------
// C12: machine specifications, built through the public API or as crafted bincode

#[derive(Clone)]
struct SSpec {
    action: Option<Action>,
    ca: Option<Counter>,
    cb: Option<Counter>,
    /// one entry per event; `Some(vec![])` can only be expressed as crafted bytes
    trans: Vec<Option<Vec<Trans>>>,
}

#[derive(Clone)]
struct MSpec {
    app: u64,
    mpf: f64,
    abm: u64,
    mbf: f64,
    states: Vec<SSpec>,
}

fn empty_state() -> SSpec {
    SSpec { action: None, ca: None, cb: None, trans: vec![None; 13] }
}

fn state_with(ev: usize, v: Vec<Trans>) -> SSpec {
    let mut s = empty_state();
    s.trans[ev] = Some(v);
    s
}

fn base_spec(states: Vec<SSpec>) -> MSpec {
    MSpec { app: 0, mpf: 0.0, abm: 0, mbf: 0.0, states }
}

fn varint(out: &mut Vec<u8>, n: u64) {
    if n < 251 {
        out.push(n as u8);
    } else if n < (1 << 16) {
        out.push(251);
        out.extend_from_slice(&(n as u16).to_le_bytes());
    } else if n < (1 << 32) {
        out.push(252);
        out.extend_from_slice(&(n as u32).to_le_bytes());
    } else {
        out.push(253);
        out.extend_from_slice(&n.to_le_bytes());
    }
}

macro_rules! bc {
    ($v:expr) => {{
        use bincode::Options;
        bincode::DefaultOptions::new().serialize($v).expect("bincode")
    }};
}

/// bincode of the machine described by the spec, written by hand for the private parts
fn craft_bytes(s: &MSpec) -> Vec<u8> {
    let mut out = Vec::new();
    varint(&mut out, s.app);
    out.extend_from_slice(&s.mpf.to_bits().to_le_bytes());
    varint(&mut out, s.abm);
    out.extend_from_slice(&s.mbf.to_bits().to_le_bytes());
    varint(&mut out, s.states.len() as u64);
    for st in &s.states {
        out.extend::<Vec<u8>>(bc!(&st.action));
        out.extend::<Vec<u8>>(bc!(&st.ca));
        out.extend::<Vec<u8>>(bc!(&st.cb));
        for v in &st.trans {
            match v {
                None => out.push(0),
                Some(ts) => {
                    out.push(1);
                    varint(&mut out, ts.len() as u64);
                    for t in ts {
                        varint(&mut out, t.0 as u64);
                        out.extend_from_slice(&t.1.to_bits().to_le_bytes());
                    }
                }
            }
        }
    }
    out
}

fn has_empty_vec(s: &MSpec) -> bool {
    s.states.iter().any(|st| st.trans.iter().any(|v| matches!(v, Some(x) if x.is_empty())))
}

/// the machine assembled through `State::new` and the public fields (no validation yet)
fn build_public(s: &MSpec) -> Machine {
    let mut states = Vec::new();
    for st in &s.states {
        let mut t = enum_map! { _ => vec![] };
        for (i, v) in st.trans.iter().enumerate() {
            if let Some(v) = v {
                t[EVENTS[i]] = v.clone();
            }
        }
        let mut x = State::new(t);
        x.action = st.action;
        x.counter = (st.ca, st.cb);
        states.push(x);
    }
    Machine {
        allowed_padding_packets: s.app,
        max_padding_frac: s.mpf,
        allowed_blocked_microsec: s.abm,
        max_blocking_frac: s.mbf,
        states,
    }
}

fn machine_of_spec(s: &MSpec) -> Option<(Machine, &'static str)> {
    use bincode::Options;
    if has_empty_vec(s) {
        let b = craft_bytes(s);
        bincode::DefaultOptions::new().deserialize::<Machine>(&b).ok().map(|m| (m, "crafted"))
    } else {
        Some((build_public(s), "public"))
    }
}

fn okerr<T, E>(r: &Result<T, E>) -> &'static str {
    if r.is_ok() {
        "ok"
    } else {
        "err"
    }
}

/// run all construction paths on `m` and print the case
fn emit_c12(w: &mut dyn Write, id: &str, label: &str, m: &Machine, crafted: Option<&[u8]>, fp: f64, fb: f64) {
    let bytes = match catch_unwind(AssertUnwindSafe(|| machine_bytes(m))) {
        Ok(b) => b,
        Err(_) => return,
    };
    let _ = writeln!(w, "case {} c12 {}", id, label);
    let _ = writeln!(w, "m {}", hex(&bytes));
    let _ = writeln!(w, "orc 0 0");
    let _ = writeln!(w, "paths {:016x} {:016x}", fp.to_bits(), fb.to_bits());
    if let Some(c) = crafted {
        let _ = writeln!(w, "o enc {}", if c == bytes.as_slice() { "ok" } else { "DIFF" });
    }
    // validate / new / from_str on a watchdog thread: a hang in any of them must be a result,
    // not a stuck check
    let mv = m.clone();
    let by = bytes.clone();
    let three = with_watchdog(5000, move || {
        let v = catch_unwind(AssertUnwindSafe(|| mv.validate()));
        let v = match &v { Ok(r) => okerr(r), Err(_) => "panic" };
        let n = catch_unwind(AssertUnwindSafe(|| {
            Machine::new(mv.allowed_padding_packets, mv.max_padding_frac, mv.allowed_blocked_microsec, mv.max_blocking_frac, mv.states.clone())
        }));
        let n = match &n { Ok(r) => okerr(r), Err(_) => "panic" };
        let f = catch_unwind(AssertUnwindSafe(|| {
            let s = mv.serialize();
            Machine::from_str(&s).map(|m2| machine_bytes(&m2))
        }));
        let f = match &f {
            Ok(Ok(b2)) => if *b2 == by { "ok" } else { "ok-differs" },
            Ok(Err(_)) => "err",
            Err(_) => "panic",
        };
        (v, n, f)
    });
    let (v, n, f) = match three {
        Outcome::Done(x) => x,
        Outcome::Panic => ("panic", "panic", "panic"),
        Outcome::Hang => ("hang", "hang", "hang"),
    };
    let _ = writeln!(w, "o validate {}", v);
    let _ = writeln!(w, "o new {}", n);
    let _ = writeln!(w, "o fromstr {}", f);
    if v == "hang" {
        // Framework::new validates too; do not leave a second spinning thread behind
        let _ = writeln!(w, "o fwnew hang");
        let _ = writeln!(w, "end");
        return;
    }
    let mc = m.clone();
    let r = with_watchdog(5000, move || {
        Framework::new(vec![mc], fp, fb, VInstant(0), ScriptRng::new(7, 0)).map(|_| ())
    });
    let fwnew = match r {
        Outcome::Done(Ok(())) => "ok",
        Outcome::Done(Err(_)) => "err",
        Outcome::Panic => "panic",
        Outcome::Hang => "hang",
    };
    let _ = writeln!(w, "o fwnew {}", fwnew);
    // the same judgement when the machines live in a slice that earlier calls on one thread have already
    // passed to Framework::new (same address, same length, other content): it must not depend on the past.
    // The slice lives in a persistent worker thread; the call is supervised (a hang is a result).
    if fwnew != "hang" {
        let again = same_slice_again(m.clone(), fp, fb);
        let _ = writeln!(w, "o fwnew2 {}", again);
    }
    // the judgement on a machine must not depend on its neighbours in the machine list: next to a valid
    // eight-state ring (before and after it) Framework::new must say the same as for the machine alone
    if fwnew == "ok" || fwnew == "err" {
        let ring = ring_machine(8);
        let (a, b) = (vec![ring.clone(), m.clone()], vec![m.clone(), ring]);
        let r = with_watchdog(5000, move || {
            let x = Framework::new(a, fp, fb, VInstant(0), ScriptRng::new(7, 0)).is_ok();
            let y = Framework::new(b, fp, fb, VInstant(0), ScriptRng::new(7, 0)).is_ok();
            (x, y)
        });
        let s3 = match r {
            Outcome::Done((x, y)) => format!("{} {}", if x { "ok" } else { "err" }, if y { "ok" } else { "err" }),
            Outcome::Panic => "panic panic".to_string(),
            Outcome::Hang => "hang hang".to_string(),
        };
        let _ = writeln!(w, "o fwnew3 {}", s3);
    }
    // "a machine obtained from any of them can always be run": drive every framework the
    // implementation agreed to build through a short scripted history (every event kind, for the
    // machine itself and for an unknown id, three fair random streams) and report how it went
    if fwnew == "ok" {
        let mc = m.clone();
        let r = with_watchdog(8000, move || run_accepted(mc, fp, fb));
        let _ = writeln!(
            w,
            "o run {}",
            match r {
                Outcome::Done(()) => "ok",
                Outcome::Panic => "panic",
                Outcome::Hang => "hang",
            }
        );
    }
    let _ = writeln!(w, "end");
}

type SliceJob = (Machine, f64, f64);

struct SliceWorker {
    tx: mpsc::Sender<SliceJob>,
    rx: mpsc::Receiver<&'static str>,
}

/// `Framework::new` on a one-element slice owned by a long-lived worker thread whose element is overwritten
/// for every call.  After a hang the worker is abandoned and a new one started; after eight hangs the step
/// is skipped for the rest of the process so that the total time stays bounded.
fn same_slice_again(m: Machine, fp: f64, fb: f64) -> &'static str {
    use std::sync::atomic::{AtomicUsize, Ordering};
    use std::sync::Mutex;
    static WORKER: Mutex<Option<SliceWorker>> = Mutex::new(None);
    static HANGS: AtomicUsize = AtomicUsize::new(0);
    if HANGS.load(Ordering::SeqCst) >= 8 {
        return "-";
    }
    let mut guard = WORKER.lock().unwrap();
    if guard.is_none() {
        let (tx, jrx) = mpsc::channel::<SliceJob>();
        let (rtx, rx) = mpsc::channel::<&'static str>();
        let _ = std::thread::Builder::new().stack_size(16 << 20).spawn(move || {
            let mut slot: Vec<Machine> = Vec::new();
            while let Ok((m, fp, fb)) = jrx.recv() {
                if slot.is_empty() {
                    slot.push(m);
                } else {
                    slot[0] = m;
                }
                let r = catch_unwind(AssertUnwindSafe(|| Framework::new(&slot, fp, fb, VInstant(0), ScriptRng::new(7, 0)).map(|_| ())));
                let v = match r {
                    Ok(Ok(())) => "ok",
                    Ok(Err(_)) => "err",
                    Err(_) => "panic",
                };
                if rtx.send(v).is_err() {
                    return;
                }
            }
        });
        *guard = Some(SliceWorker { tx, rx });
    }
    let wk = guard.as_ref().unwrap();
    if wk.tx.send((m, fp, fb)).is_err() {
        *guard = None;
        return "-";
    }
    match wk.rx.recv_timeout(Duration::from_millis(5000)) {
        Ok(v) => v,
        Err(_) => {
            HANGS.fetch_add(1, Ordering::SeqCst);
            *guard = None; // abandon the spinning worker
            "hang"
        }
    }
}

/// a valid machine with `n` states in a ring over NormalSent
fn ring_machine(n: usize) -> Machine {
    let states: Vec<State> = (0..n).map(|i| State::new(enum_map! { Event::NormalSent => vec![Trans((i + 1) % n, 1.0)], _ => vec![] })).collect();
    Machine::new(0, 0.0, 0, 0.0, states).expect("ring machine")
}

fn run_accepted(m: Machine, fp: f64, fb: f64) {
    use maybenot::{MachineId, TriggerEvent};
    for seed in [11u64, 12, 13] {
        let Ok(mut f) = Framework::new(vec![m.clone(), m.clone()], fp, fb, VInstant(0), ScriptRng::new(seed, 0)) else {
            return;
        };
        let mut t: i128 = 0;
        for round in 0..24u64 {
            for id in [0usize, 1, 7] {
                let mid = MachineId::from_raw(id);
                let evs = [
                    TriggerEvent::NormalRecv,
                    TriggerEvent::PaddingRecv,
                    TriggerEvent::TunnelRecv,
                    TriggerEvent::NormalSent,
                    TriggerEvent::PaddingSent { machine: mid },
                    TriggerEvent::TunnelSent,
                    TriggerEvent::BlockingBegin { machine: mid },
                    TriggerEvent::BlockingEnd,
                    TriggerEvent::TimerBegin { machine: mid },
                    TriggerEvent::TimerEnd { machine: mid },
                ];
                for (k, e) in evs.iter().enumerate() {
                    t += 1000 * ((round + k as u64) % 5) as i128;
                    for _ in f.trigger_events(std::slice::from_ref(e), VInstant(t)) {}
                }
                // and one batch
                for _ in f.trigger_events(&evs, VInstant(t)) {}
            }
        }
    }
}

fn emit_spec(w: &mut dyn Write, id: &str, label: &str, s: &MSpec) {
    emit_spec_fw(w, id, label, s, 0.0, 0.0)
}

fn emit_spec_fw(w: &mut dyn Write, id: &str, label: &str, s: &MSpec, fp: f64, fb: f64) {
    if let Some((m, how)) = machine_of_spec(s) {
        let crafted = craft_bytes(s);
        let lab = format!("{} {}", label, how);
        // the hand-written encoder must agree with bincode whenever the machine is expressible
        emit_c12(w, id, &lab, &m, if how == "public" { Some(&crafted) } else { None }, fp, fb);
    }
}

pub const ADV64: &[u64] = &[
    0x7ff8000000000000, // NaN
    0x7ff0000000000001, // signalling NaN
    0xfff8000000000000, // negative NaN
    0x7ff0000000000000, // +inf
    0xfff0000000000000, // -inf
    0x8000000000000000, // -0
    0x0000000000000000, // 0
    0x0000000000000001, // smallest subnormal
    0x8000000000000001, // -smallest subnormal
    0x000fffffffffffff, // largest subnormal
    0x0010000000000000, // smallest normal
    0x3ff0000000000000, // 1
    0x3ff0000000000001, // 1 + ulp
    0x3fefffffffffffff, // 1 - ulp/2
    0x3fe0000000000000, // 0.5
    0x4000000000000000, // 2
    0xbff0000000000000, // -1
    0x7fefffffffffffff, // MAX
    0xffefffffffffffff, // -MAX
    0x3e112e0be826d695, // 1e-9 (DIST_MIN_PROBABILITY)
    0x3e112e0be826d694, // 1e-9 - ulp
    0x3e112e0be826d696, // 1e-9 + ulp
    0x48a6f578c4e0a061, // 1e42
    0x48a6f578c4e0a062, // 1e42 + ulp
];

pub const ADV32: &[u32] = &[
    0x7fc00000, // NaN
    0x7f800001, // signalling NaN
    0xffc00000, // negative NaN
    0x7f800000, // +inf
    0xff800000, // -inf
    0x80000000, // -0
    0x00000000, // 0
    0x00000001, // smallest subnormal
    0x80000001, // -smallest subnormal
    0x00800000, // smallest normal
    0x3f800000, // 1
    0x3f800001, // 1 + ulp
    0x3f7fffff, // 1 - ulp/2
    0x3f000000, // 0.5
    0x40000000, // 2
    0xbf800000, // -1
    0x7f7fffff, // MAX
    0x33800000, // 2^-24
    0x34000000, // 2^-23
];

fn f(b: u64) -> f64 {
    f64::from_bits(b)
}

fn next_up_f(x: f64) -> f64 {
    if x >= 0.0 { f64::from_bits(x.to_bits() + 1) } else { f64::from_bits(x.to_bits() - 1) }
}

fn konst(v: f64) -> Dist {
    Dist { dist: DistType::Uniform { low: v, high: v }, start: 0.0, max: 0.0 }
}

/// all parameter corners of the eleven families: every parameter position takes every adversarial
/// value while the others stay nominal, plus the documented bounds
pub fn dist_corners() -> Vec<(String, DistType)> {
    let mut v: Vec<(String, DistType)> = Vec::new();
    let e42 = 1_000_000_000_000_000_000_000_000_000_000_000_000_000_000.0f64;
    for &b in ADV64 {
        let x = f(b);
        let t = format!("{:016x}", b);
        v.push((format!("uniform-low-{t}"), DistType::Uniform { low: x, high: 10.0 }));
        v.push((format!("uniform-high-{t}"), DistType::Uniform { low: -10.0, high: x }));
        v.push((format!("uniform-both-{t}"), DistType::Uniform { low: x, high: x }));
        v.push((format!("normal-mean-{t}"), DistType::Normal { mean: x, stdev: 1.0 }));
        v.push((format!("normal-stdev-{t}"), DistType::Normal { mean: 0.0, stdev: x }));
        v.push((format!("skewnormal-location-{t}"), DistType::SkewNormal { location: x, scale: 1.0, shape: 1.0 }));
        v.push((format!("skewnormal-scale-{t}"), DistType::SkewNormal { location: 0.0, scale: x, shape: 1.0 }));
        v.push((format!("skewnormal-shape-{t}"), DistType::SkewNormal { location: 0.0, scale: 1.0, shape: x }));
        v.push((format!("lognormal-mu-{t}"), DistType::LogNormal { mu: x, sigma: 1.0 }));
        v.push((format!("lognormal-sigma-{t}"), DistType::LogNormal { mu: 0.0, sigma: x }));
        v.push((format!("binomial-p-{t}"), DistType::Binomial { trials: 10, probability: x }));
        v.push((format!("geometric-p-{t}"), DistType::Geometric { probability: x }));
        v.push((format!("pareto-scale-{t}"), DistType::Pareto { scale: x, shape: 1.0 }));
        v.push((format!("pareto-shape-{t}"), DistType::Pareto { scale: 1.0, shape: x }));
        v.push((format!("poisson-lambda-{t}"), DistType::Poisson { lambda: x }));
        v.push((format!("weibull-scale-{t}"), DistType::Weibull { scale: x, shape: 1.0 }));
        v.push((format!("weibull-shape-{t}"), DistType::Weibull { scale: 1.0, shape: x }));
        v.push((format!("gamma-scale-{t}"), DistType::Gamma { scale: x, shape: 2.0 }));
        v.push((format!("gamma-shape-{t}"), DistType::Gamma { scale: 1.0, shape: x }));
        v.push((format!("gamma1-scale-{t}"), DistType::Gamma { scale: x, shape: 1.0 }));
        v.push((format!("beta-alpha-{t}"), DistType::Beta { alpha: x, beta: 1.0 }));
        v.push((format!("beta-beta-{t}"), DistType::Beta { alpha: 1.0, beta: x }));
    }
    let next_up = |x: f64| f64::from_bits(x.to_bits() + 1);
    let next_down = |x: f64| f64::from_bits(x.to_bits() - 1);
    for (n, t) in [(0u64, "0"), (1, "1"), (1_000_000_000, "1e9"), (1_000_000_001, "1e9+1"), (u64::MAX, "max"),
                   (1u64 << 32, "2^32"), ((1u64 << 32) + 5, "2^32+5"), (0xFFFF_FFFF_0000_0000, "hi32"), (1u64 << 31, "2^31"), (1u64 << 63, "2^63")] {
        for (p, pt) in [(0.0, "0"), (1e-9, "min"), (0.5, "half"), (1.0, "1"), (0.6666666666666666, "2/3")] {
            v.push((format!("binomial-trials-{t}-p-{pt}"), DistType::Binomial { trials: n, probability: p }));
        }
    }
    v.push(("poisson-1e42".into(), DistType::Poisson { lambda: e42 }));
    v.push(("poisson-1e42-up".into(), DistType::Poisson { lambda: next_up(e42) }));
    v.push(("poisson-1e42-down".into(), DistType::Poisson { lambda: next_down(e42) }));
    v.push(("poisson-12".into(), DistType::Poisson { lambda: 12.0 }));
    v.push(("poisson-12-down".into(), DistType::Poisson { lambda: next_down(12.0) }));
    v.push(("uniform-range-overflow".into(), DistType::Uniform { low: -f64::MAX, high: f64::MAX }));
    v.push(("uniform-range-max".into(), DistType::Uniform { low: -f64::MAX / 2.0, high: f64::MAX / 2.0 }));
    v.push(("uniform-range-just-overflow".into(), DistType::Uniform { low: -f64::MAX / 2.0, high: next_up(f64::MAX / 2.0) }));
    v.push(("uniform-0-max".into(), DistType::Uniform { low: 0.0, high: f64::MAX }));
    v.push(("uniform-one-ulp".into(), DistType::Uniform { low: 1.0, high: next_up(1.0) }));
    v.push(("uniform-top-ulp".into(), DistType::Uniform { low: next_down(f64::MAX), high: f64::MAX }));
    v.push(("uniform-subnormal".into(), DistType::Uniform { low: 0.0, high: 5e-324 }));
    v.push(("uniform-inverted".into(), DistType::Uniform { low: 2.0, high: 1.0 }));
    // inverted by one ulp only (rounding noise such as 0.1 + 0.2 against 0.3): still an empty range
    for (t, hi) in [("1", 1.0f64), ("300", 300.0), ("0.3", 0.3), ("1e300", 1e300), ("-1", -1.0), ("tiny", 1e-300)] {
        v.push((format!("uniform-inverted-ulp-{t}"), DistType::Uniform { low: next_up_f(hi), high: hi }));
    }
    v.push(("uniform-inverted-0.1+0.2".into(), DistType::Uniform { low: 0.1 + 0.2, high: 0.3 }));
    // zeros of opposite sign are equal as numbers (a constant distribution), not as bit patterns or in total order
    v.push(("uniform-negzero-zero".into(), DistType::Uniform { low: -0.0, high: 0.0 }));
    v.push(("uniform-zero-negzero".into(), DistType::Uniform { low: 0.0, high: -0.0 }));
    v.push(("uniform-unit".into(), DistType::Uniform { low: 0.0, high: 1.0 }));
    v.push(("gamma-shape-below-1".into(), DistType::Gamma { scale: 1.0, shape: next_down(1.0) }));
    v.push(("gamma-shape-above-1".into(), DistType::Gamma { scale: 1.0, shape: next_up(1.0) }));
    v.push(("geometric-2/3".into(), DistType::Geometric { probability: 2.0 / 3.0 }));
    v.push(("geometric-below-2/3".into(), DistType::Geometric { probability: next_down(2.0 / 3.0) }));
    v
}

fn machine_with_dist(d: Dist, pos: u64) -> MSpec {
    let mut s = empty_state();
    s.trans[0] = Some(vec![Trans(0, 1.0)]);
    let one = konst(1.0);
    match pos % 12 {
        // both counters set: the validation of one must not stand in for the other
        8 => {
            s.ca = Some(Counter { operation: Operation::Increment, dist: Some(one), copy: false });
            s.cb = Some(Counter { operation: Operation::Decrement, dist: Some(d), copy: false });
        }
        9 => {
            s.ca = Some(Counter { operation: Operation::Set, dist: Some(d), copy: false });
            s.cb = Some(Counter { operation: Operation::Increment, dist: Some(one), copy: false });
        }
        // a valid action next to a counter with the adversarial distribution, and vice versa
        10 => {
            s.action = Some(Action::SendPadding { bypass: false, replace: false, timeout: one, limit: Some(one) });
            s.cb = Some(Counter { operation: Operation::Increment, dist: Some(d), copy: false });
        }
        11 => {
            s.action = Some(Action::UpdateTimer { replace: true, duration: one, limit: Some(d) });
            s.ca = Some(Counter { operation: Operation::Increment, dist: Some(one), copy: false });
            s.cb = Some(Counter { operation: Operation::Increment, dist: Some(one), copy: false });
        }
        0 => s.action = Some(Action::SendPadding { bypass: false, replace: false, timeout: d, limit: None }),
        1 => s.action = Some(Action::SendPadding { bypass: true, replace: false, timeout: one, limit: Some(d) }),
        2 => s.action = Some(Action::BlockOutgoing { bypass: false, replace: true, timeout: d, duration: one, limit: None }),
        3 => s.action = Some(Action::BlockOutgoing { bypass: false, replace: false, timeout: one, duration: d, limit: None }),
        4 => s.action = Some(Action::BlockOutgoing { bypass: true, replace: true, timeout: one, duration: one, limit: Some(d) }),
        5 => s.action = Some(Action::UpdateTimer { replace: false, duration: d, limit: None }),
        6 => s.ca = Some(Counter { operation: Operation::Increment, dist: Some(d), copy: false }),
        _ => s.cb = Some(Counter { operation: Operation::Set, dist: Some(d), copy: true }),
    }
    base_spec(vec![s])
}

fn gen_c12(seed: u64, cases: u64, w: &mut dyn Write) {
    let mut n = 0u64;
    let mut id = |label: &str| {
        n += 1;
        format!("c12-{}-{}-{}", seed, n, label.split(' ').next().unwrap_or(""))
    };
    let tr1 = |t: usize, p: f32| vec![Trans(t, p)];
    // --- machine fractions
    for &b in ADV64 {
        let mut s = base_spec(vec![state_with(0, tr1(0, 1.0))]);
        s.mpf = f(b);
        let l = format!("frac-padding-{:016x}", b);
        emit_spec(w, &id(&l), &l, &s);
        let mut s = base_spec(vec![state_with(0, tr1(0, 1.0))]);
        s.mbf = f(b);
        let l = format!("frac-blocking-{:016x}", b);
        emit_spec(w, &id(&l), &l, &s);
        // framework-level fractions on a valid machine
        let s = base_spec(vec![state_with(0, tr1(0, 1.0))]);
        let l = format!("fw-frac-padding-{:016x}", b);
        emit_spec_fw(w, &id(&l), &l, &s, f(b), 0.0);
        let l = format!("fw-frac-blocking-{:016x}", b);
        emit_spec_fw(w, &id(&l), &l, &s, 0.5, f(b));
    }
    // --- transition probabilities, on every event slot in turn
    for (i, &b) in ADV32.iter().enumerate() {
        let p = f32::from_bits(b);
        let s = base_spec(vec![state_with(i % 13, tr1(0, p))]);
        let l = format!("prob-single-{:08x}", b);
        emit_spec(w, &id(&l), &l, &s);
        let s = base_spec(vec![state_with((i + 5) % 13, vec![Trans(0, 0.25), Trans(STATE_END, p)]), empty_state()]);
        let l = format!("prob-second-{:08x}", b);
        emit_spec(w, &id(&l), &l, &s);
        let s = base_spec(vec![state_with((i + 7) % 13, vec![Trans(1, p), Trans(0, 0.25)]), empty_state()]);
        let l = format!("prob-first-{:08x}", b);
        emit_spec(w, &id(&l), &l, &s);
    }
    // --- sums
    let sums: Vec<(&str, Vec<f32>)> = vec![
        ("sum-half-half", vec![0.5, 0.5]),
        ("sum-just-above", vec![0.5, 0.50000006]),
        ("sum-rounds-to-one", vec![0.99999994, 5.9604645e-8]),
        ("sum-one-plus-denormal", vec![1.0, 1e-45]),
        ("sum-thirds", vec![0.33333334, 0.33333334, 0.33333334]),
        ("sum-thirds-over", vec![0.33333334, 0.33333334, 0.33333337]),
        ("sum-tiny", vec![1e-45, 1e-45]),
        ("sum-two-ones", vec![1.0, 1.0]),
        ("sum-one-and-ulp", vec![1.0, 5.9604645e-8]),
        ("sum-one-and-2ulp", vec![1.0, 1.1920929e-7]),
        ("sum-inf-minus-inf", vec![f32::INFINITY, f32::NEG_INFINITY]),
        ("sum-nan-first", vec![f32::NAN, 0.5]),
        ("sum-nan-last", vec![0.5, f32::NAN]),
        ("sum-four-quarters", vec![0.25, 0.25, 0.25, 0.25]),
        ("sum-five-quarters", vec![0.25, 0.25, 0.25, 0.25, 0.25]),
    ];
    for (l, ps) in &sums {
        let mut states = vec![empty_state(); ps.len().max(1)];
        states[0].trans[3] = Some(ps.iter().enumerate().map(|(i, p)| Trans(i, *p)).collect());
        emit_spec(w, &id(l), l, &base_spec(states));
    }
    // --- targets
    let targets: Vec<(&str, usize, Vec<usize>)> = vec![
        ("target-self", 1, vec![0]),
        ("target-n", 1, vec![1]),
        ("target-n-of-3", 3, vec![3]),
        ("target-last", 3, vec![2]),
        ("target-end", 1, vec![STATE_END]),
        ("target-signal", 1, vec![STATE_SIGNAL]),
        ("target-state-max", 1, vec![STATE_MAX]),
        ("target-end-plus-1", 1, vec![STATE_END + 1]),
        ("target-usize-max", 1, vec![usize::MAX]),
        ("target-dup", 2, vec![0, 0]),
        ("target-dup-end", 2, vec![STATE_END, STATE_END]),
        ("target-dup-signal", 2, vec![STATE_SIGNAL, 1, STATE_SIGNAL]),
        ("target-dup-far", 3, vec![1, 2, 0, 1]),
        ("target-all-kinds", 2, vec![0, 1, STATE_END, STATE_SIGNAL]),
    ];
    for (l, ns, ts) in &targets {
        let mut states = vec![empty_state(); *ns];
        states[ns - 1].trans[12] = Some(ts.iter().map(|t| Trans(*t, 0.125)).collect());
        emit_spec(w, &id(l), l, &base_spec(states));
    }
    // --- state lists and empty vectors
    emit_spec(w, &id("states-none"), "states-none", &base_spec(vec![]));
    emit_spec(w, &id("states-bare"), "states-bare", &base_spec(vec![empty_state()]));
    for ev in [0usize, 6, 12] {
        let l = format!("empty-vector-{}", ev);
        emit_spec(w, &id(&l), &l, &base_spec(vec![state_with(ev, vec![])]));
    }
    {
        let mut s = state_with(2, vec![]);
        s.trans[4] = Some(tr1(0, 1.0));
        emit_spec(w, &id("empty-vector-and-valid"), "empty-vector-and-valid", &base_spec(vec![s]));
    }
    // --- distribution parameter corners, rotated through every position a Dist can occupy
    for (i, (l, dt)) in dist_corners().into_iter().enumerate() {
        let d = Dist { dist: dt, start: 0.0, max: 0.0 };
        let l = format!("dist-{}", l);
        emit_spec(w, &id(&l), &l, &machine_with_dist(d, i as u64));
    }
    // start / max are unconstrained by validation
    for (i, &b) in ADV64.iter().enumerate() {
        let d = Dist { dist: DistType::Uniform { low: 1.0, high: 2.0 }, start: f(b), max: f(ADV64[(i * 7 + 3) % ADV64.len()]) };
        let l = format!("dist-start-max-{:016x}", b);
        emit_spec(w, &id(&l), &l, &machine_with_dist(d, i as u64));
    }
    // --- random combinations
    let mut p = Prng::new(seed ^ 0xc12);
    let corners = dist_corners();
    for _ in 0..cases {
        let ns = p.range(1, 3) as usize;
        let mut states = Vec::new();
        for _ in 0..ns {
            let mut s = empty_state();
            for ev in 0..13 {
                if !p.chance(1, 4) {
                    continue;
                }
                let k = p.range(0, 3) as usize;
                let mut v = Vec::new();
                for _ in 0..k {
                    let t = match p.below(10) {
                        0 => STATE_END,
                        1 => STATE_SIGNAL,
                        2 => ns,
                        3 => *p.pick(&[STATE_MAX, STATE_END + 1, usize::MAX]),
                        _ => p.below(ns as u64) as usize,
                    };
                    let pr = if p.chance(1, 5) {
                        f32::from_bits(*p.pick(ADV32))
                    } else {
                        *p.pick(&[1.0f32, 0.5, 0.25, 0.125, 0.3, 0.33333334, 0.1, 0.0625])
                    };
                    v.push(Trans(t, pr));
                }
                s.trans[ev] = Some(v);
            }
            if p.chance(1, 2) {
                let (_, dt) = p.pick(&corners).clone();
                let d = Dist { dist: dt, start: f(*p.pick(ADV64)), max: f(*p.pick(ADV64)) };
                let m = machine_with_dist(d, p.next());
                s.action = m.states[0].action;
                s.ca = m.states[0].ca;
                s.cb = m.states[0].cb;
            }
            states.push(s);
        }
        let mut spec = base_spec(states);
        if p.chance(1, 6) {
            spec.mpf = f(*p.pick(ADV64));
        }
        if p.chance(1, 6) {
            spec.mbf = f(*p.pick(ADV64));
        }
        spec.app = *p.pick(&[0, 1, u64::MAX]);
        spec.abm = *p.pick(&[0, 1000, u64::MAX]);
        let (fp, fb) = if p.chance(1, 8) { (f(*p.pick(ADV64)), f(*p.pick(ADV64))) } else { (0.0, 1.0) };
        emit_spec_fw(w, &id("random"), "random", &spec, fp, fb);
    }
}

/// stdin: protocol text; every `m <hex>` machine (bincode) is re-run through all paths
fn replay_c12(w: &mut dyn Write) {
    use bincode::Options;
    let mut text = String::new();
    let _ = std::io::Read::read_to_string(&mut std::io::stdin(), &mut text);
    let mut id = String::from("replay");
    let mut label = String::from("replay");
    let mut fp = 0.0f64;
    let mut fb = 0.0f64;
    let mut pending: Option<Machine> = None;
    let flush = |w: &mut dyn Write, id: &str, label: &str, m: &mut Option<Machine>, fp: f64, fb: f64| {
        if let Some(m) = m.take() {
            emit_c12(w, id, label, &m, None, fp, fb);
        }
    };
    for line in text.lines() {
        let ws: Vec<&str> = line.split_whitespace().collect();
        match ws.as_slice() {
            ["case", i, "c12", rest @ ..] => {
                flush(w, &id, &label, &mut pending, fp, fb);
                id = i.to_string();
                label = rest.join(" ");
                fp = 0.0;
                fb = 0.0;
            }
            ["m", h] => {
                flush(w, &id, &label, &mut pending, fp, fb);
                if let Some(b) = unhex(h) {
                    pending = bincode::DefaultOptions::new().deserialize::<Machine>(&b).ok();
                }
            }
            ["paths", a, b] => {
                fp = u64::from_str_radix(a, 16).map(f64::from_bits).unwrap_or(0.0);
                fb = u64::from_str_radix(b, 16).map(f64::from_bits).unwrap_or(0.0);
            }
            _ => {}
        }
    }
    flush(w, &id, &label, &mut pending, fp, fb);
}

// ---------------------------------------------------------------------------------------------
// C13: Dist::sample under scripted RNG prefixes

/// scripted prefix followed by a fair stream; logs every word it hands out
struct LogRng {
    prefix: Vec<u64>,
    pos: usize,
    fair: Prng,
    log: Vec<(u8, u64)>,
    total: u64,
}

impl LogRng {
    fn word(&mut self) -> u64 {
        if self.pos < self.prefix.len() {
            self.pos += 1;
            self.prefix[self.pos - 1]
        } else {
            self.fair.next()
        }
    }
    fn note(&mut self, kind: u8, w: u64) {
        self.total += 1;
        if self.log.len() < 160 {
            self.log.push((kind, w));
        }
    }
}

impl rand_core::RngCore for LogRng {
    fn next_u32(&mut self) -> u32 {
        let w = (self.word() >> 32) as u32;
        self.note(32, w as u64);
        w
    }
    fn next_u64(&mut self) -> u64 {
        let w = self.word();
        self.note(64, w);
        w
    }
    fn fill_bytes(&mut self, dest: &mut [u8]) {
        rand_core::impls::fill_bytes_via_next(self, dest)
    }
    fn try_fill_bytes(&mut self, dest: &mut [u8]) -> Result<(), rand_core::Error> {
        self.fill_bytes(dest);
        Ok(())
    }
}

fn prefix_words(kind: &str, k: usize) -> Vec<u64> {
    match kind {
        "zeros" => vec![0; k],
        "ones" => vec![u64::MAX; k],
        "alt" => (0..k).map(|i| if i % 2 == 0 { 0 } else { u64::MAX }).collect(),
        "tla" => (0..k).map(|i| if i % 2 == 0 { u64::MAX } else { 0 }).collect(),
        "alt2" => (0..k).map(|i| if i % 2 == 0 { 0xaaaa_aaaa_aaaa_aaaa } else { 0x5555_5555_5555_5555 }).collect(),
        "top" => vec![0xffff_ffff_ffff_f000; k],
        "low" => vec![0x0000_0000_0000_0fff; k],
        other => match other.strip_prefix("hex:").and_then(|h| u64::from_str_radix(h, 16).ok()) {
            Some(x) => vec![x; k],
            None => vec![],
        },
    }
}

fn emit_c13(w: &mut dyn Write, id: &str, label: &str, d: Dist, pk: &str, k: usize, seed: u64, wd: u64) {
    let _ = writeln!(w, "case {} c13 {}", id, label);
    let _ = writeln!(w, "d {}", hex(&{ let b: Vec<u8> = bc!(&d); b }));
    let _ = writeln!(w, "orc 0 0");
    let _ = writeln!(w, "sample {} {} {}", pk, k, seed);
    let prefix = prefix_words(pk, k);
    // validation and sampling both run on the watchdog thread: `Dist::validate` calls the
    // rand_distr constructors, which contain loops of their own
    let r = with_watchdog(wd, move || {
        if d.validate().is_err() {
            return None;
        }
        maybenot::verif::enable(true);
        let _ = maybenot::verif::take();
        let mut rng = LogRng { prefix, pos: 0, fair: Prng::new(seed), log: vec![], total: 0 };
        let r = catch_unwind(AssertUnwindSafe(|| d.sample(&mut rng)));
        let log = maybenot::verif::take();
        maybenot::verif::enable(false);
        Some((r.ok(), log, rng.log, rng.total))
    });
    let r = match r {
        Outcome::Done(None) => {
            // the property is about validated distributions only
            let _ = writeln!(w, "o validate err");
            let _ = writeln!(w, "o res skipped");
            let _ = writeln!(w, "end");
            return;
        }
        Outcome::Done(Some(x)) => {
            let _ = writeln!(w, "o validate ok");
            Outcome::Done(x)
        }
        Outcome::Panic => {
            let _ = writeln!(w, "o validate ok");
            Outcome::Panic
        }
        Outcome::Hang => {
            let _ = writeln!(w, "o validate ok");
            Outcome::Hang
        }
    };
    match r {
        Outcome::Done((ret, log, words, total)) => {
            if ret.is_some() {
                let _ = writeln!(w, "o res ok");
            } else {
                let _ = writeln!(w, "o res panic {}", crate::util::take_panic_site());
            }
            let ws: Vec<String> = words.iter().map(|(k, x)| format!("{}:{:x}", k, x)).collect();
            let _ = writeln!(w, "o words {} {}", total, ws.join(" "));
            for e in &log {
                if let maybenot::verif::Entry::DistRaw { bits } = e {
                    let _ = writeln!(w, "o raw {:016x}", bits);
                }
            }
            if let Some(x) = ret {
                let _ = writeln!(w, "o ret {:016x}", x.to_bits());
            }
        }
        Outcome::Panic => {
            let _ = writeln!(w, "o res panic {}", crate::util::take_panic_site());
        }
        Outcome::Hang => {
            let _ = writeln!(w, "o res hang");
        }
    }
    let _ = writeln!(w, "end");
}

const STARTS: &[u64] = &[
    0, 0, 0, 0x7ff8000000000000, 0x7ff0000000000000, 0xfff0000000000000, 0xfe37e43c8800759c, /* -1e300 */
    0x4014000000000000, /* 5 */ 0x7fefffffffffffff, 0xc000000000000000, /* -2 */ 0x8000000000000000,
];
const MAXES: &[u64] = &[
    0, 0, 0, 0x7ff8000000000000, 0x7ff0000000000000, 0xfff0000000000000, 0x0000000000000001,
    0x408f400000000000, /* 1000 */ 0xbff0000000000000, /* -1 */ 0x7fefffffffffffff, 0x3fd3333333333333, /* 0.3 */
];
const PREFIXES: &[(&str, usize)] = &[
    ("none", 0), ("zeros", 1), ("zeros", 4), ("zeros", 64), ("ones", 1), ("ones", 4), ("ones", 64),
    ("alt", 2), ("alt", 9), ("alt2", 8), ("top", 3), ("low", 3), ("tla", 2), ("tla", 9),
];

fn gen_c13(seed: u64, rounds: u64, wd: u64, w: &mut dyn Write) {
    let mut p = Prng::new(seed ^ 0xc13);
    // keep the corners validation admits; a validation that does not return is kept too, so that
    // it is reported as a hang by `emit_c13` instead of stalling the generator
    let corners: Vec<(String, DistType)> = dist_corners()
        .into_iter()
        .filter(|(_, dt)| {
            let d = Dist { dist: *dt, start: 0.0, max: 0.0 };
            !matches!(with_watchdog(wd, move || d.validate().is_ok()), Outcome::Done(false))
        })
        .collect();
    let mut n = 0u64;
    for round in 0..rounds {
        for (l, dt) in &corners {
            n += 1;
            // first round: plain clamp parameters with every prefix in rotation; later rounds: random
            let (start, max, (pk, k)) = if round == 0 {
                (0.0, 0.0, PREFIXES[(n as usize) % PREFIXES.len()])
            } else {
                (f(*p.pick(STARTS)), f(*p.pick(MAXES)), *p.pick(PREFIXES))
            };
            let d = Dist { dist: *dt, start, max };
            let id = format!("c13-{}-{}", seed, n);
            emit_c13(w, &id, l, d, pk, k, p.next(), wd);
            // the retry loop of `gen_range` is modelled word by word: give it every prefix once
            if round == 0 {
                if let DistType::Uniform { low, high } = dt {
                    if low != high {
                        for (pk, k) in PREFIXES {
                            n += 1;
                            let id = format!("c13-{}-{}", seed, n);
                            emit_c13(w, &id, l, d, pk, *k, p.next(), wd);
                        }
                    }
                }
            }
        }
    }
}

fn replay_c13(wd: u64, w: &mut dyn Write) {
    use bincode::Options;
    let mut text = String::new();
    let _ = std::io::Read::read_to_string(&mut std::io::stdin(), &mut text);
    let mut id = String::from("replay");
    let mut label = String::from("replay");
    let mut d: Option<Dist> = None;
    for line in text.lines() {
        let ws: Vec<&str> = line.split_whitespace().collect();
        match ws.as_slice() {
            ["case", i, "c13", rest @ ..] => {
                id = i.to_string();
                label = rest.join(" ");
                d = None;
            }
            ["d", h] => {
                d = unhex(h).and_then(|b| bincode::DefaultOptions::new().deserialize::<Dist>(&b).ok());
            }
            ["sample", pk, k, seed] => {
                if let (Some(d), Ok(k), Ok(seed)) = (d, k.parse::<usize>(), seed.parse::<u64>()) {
                    emit_c13(w, &id, &label, d, pk, k, seed, wd);
                }
            }
            _ => {}
        }
    }
}

// ---------------------------------------------------------------------------------------------
// C06: State::sample_state under a counting RNG

/// hands out one fixed 32-bit word and counts the calls
struct WordRng {
    w: u32,
    n32: u32,
    n64: u32,
}

impl rand_core::RngCore for WordRng {
    fn next_u32(&mut self) -> u32 {
        self.n32 += 1;
        self.w
    }
    fn next_u64(&mut self) -> u64 {
        self.n64 += 1;
        ((self.w as u64) << 32) | self.w as u64
    }
    fn fill_bytes(&mut self, dest: &mut [u8]) {
        rand_core::impls::fill_bytes_via_next(self, dest)
    }
    fn try_fill_bytes(&mut self, dest: &mut [u8]) -> Result<(), rand_core::Error> {
        self.fill_bytes(dest);
        Ok(())
    }
}

fn vec_line(ns: usize, v: &[Trans]) -> String {
    let ts: Vec<String> = v.iter().map(|t| format!("{}:{:08x}", t.0, t.1.to_bits())).collect();
    format!("v {} {}", ns, ts.join(" "))
}

fn parse_vec_line(ws: &[&str]) -> Option<(usize, Vec<Trans>)> {
    let ns = ws.get(1)?.parse::<usize>().ok()?;
    let mut v = Vec::new();
    for x in &ws[2..] {
        let (a, b) = x.split_once(':')?;
        v.push(Trans(a.parse::<usize>().ok()?, f32::from_bits(u32::from_str_radix(b, 16).ok()?)));
    }
    Some((ns, v))
}

/// the state carrying `v` on NormalSent (and nothing on the other events), inside a validated machine
fn state_for(ns: usize, v: &[Trans]) -> Option<State> {
    let mut t = enum_map! { _ => vec![] };
    t[Event::NormalSent] = v.to_vec();
    let st = State::new(t);
    let mut states = vec![st.clone()];
    for _ in 1..ns {
        states.push(State::new(enum_map! { _ => vec![] }));
    }
    let machine = Machine::new(0, 0.0, 0, 0.0, states).ok()?;
    // hand out the state through the different copy paths in rotation: a copy must carry exactly
    // the declared lists (a stale list on another event would show in the `novec` observation)
    static ROT: std::sync::atomic::AtomicUsize = std::sync::atomic::AtomicUsize::new(0);
    let decoy = || {
        let mut t = enum_map! { _ => vec![Trans(0, 1.0)] };
        t[Event::NormalSent] = vec![Trans(0, 0.5)];
        State::new(t)
    };
    Some(match ROT.fetch_add(1, std::sync::atomic::Ordering::Relaxed) % 5 {
        0 => st,
        // through the machine string: whatever a state keeps beside its serialized fields (caches marked
        // serde(skip), lazily built tables) has to be rebuilt by the parser
        4 => match Machine::from_str(&machine.serialize()) {
            Ok(m2) => m2.states.into_iter().next()?,
            Err(_) => st,
        },
        1 => st.clone(),
        2 => {
            let mut d = decoy();
            d.clone_from(&st);
            d
        }
        _ => {
            let mut dv = vec![decoy(), decoy()];
            dv.clone_from(&vec![st]);
            dv.pop().unwrap()
        }
    })
}

fn draw_once(st: &State, ev: Event, word: u32) -> (Option<u32>, Option<usize>, u32, u32) {
    maybenot::verif::enable(true);
    let _ = maybenot::verif::take();
    let mut rng = WordRng { w: word, n32: 0, n64: 0 };
    let r = st.sample_state(ev, &mut rng);
    let log = maybenot::verif::take();
    let bits = log.iter().find_map(|e| if let maybenot::verif::Entry::Draw { bits } = e { Some(*bits) } else { None });
    (bits, r, rng.n32, rng.n64)
}

fn target_str(t: Option<usize>) -> String {
    match t {
        Some(x) => x.to_string(),
        None => "none".into(),
    }
}

fn emit_c06_words(w: &mut dyn Write, id: &str, label: &str, ns: usize, v: &[Trans], words: &[u32]) {
    let Some(st) = state_for(ns, v) else { return };
    let _ = writeln!(w, "case {} c06 {}", id, label);
    let _ = writeln!(w, "{}", vec_line(ns, v));
    let _ = writeln!(w, "orc 0 0");
    let ws: Vec<String> = words.iter().map(|x| format!("{:08x}", x)).collect();
    let _ = writeln!(w, "words {}", ws.join(" "));
    for &word in words {
        let (bits, r, n32, n64) = draw_once(&st, Event::NormalSent, word);
        let _ = writeln!(w, "o w {:08x} {} {} {} {}", word, bits.map(|b| format!("{:08x}", b)).unwrap_or("-".into()), target_str(r), n32, n64);
    }
    // an event without a vector: no draw, no transition
    let (bits, r, n32, n64) = draw_once(&st, Event::Signal, 0);
    let _ = writeln!(w, "o novec {} {} {} {}", bits.map(|b| format!("{:08x}", b)).unwrap_or("-".into()), target_str(r), n32, n64);
    let _ = writeln!(w, "end");
    maybenot::verif::enable(false);
}

fn emit_c06_exhaustive(w: &mut dyn Write, id: &str, label: &str, ns: usize, v: &[Trans]) {
    let Some(st) = state_for(ns, v) else { return };
    let _ = writeln!(w, "case {} c06 {}", id, label);
    let _ = writeln!(w, "{}", vec_line(ns, v));
    let _ = writeln!(w, "orc 0 0");
    let _ = writeln!(w, "exhaustive");
    maybenot::verif::enable(true);
    let _ = maybenot::verif::take();
    let mut counts: Vec<u64> = vec![0; v.len()];
    let mut none = 0u64;
    let mut other = 0u64;
    let mut drawbad = 0u64;
    let mut callsbad = 0u64;
    for k in 0u32..(1 << 23) {
        // all 2^23 outcomes; the nine discarded low bits carry garbage derived from k
        let word = (k << 9) | (k.wrapping_mul(0x9E37_79B1) >> 23);
        let mut rng = WordRng { w: word, n32: 0, n64: 0 };
        let r = st.sample_state(Event::NormalSent, &mut rng);
        if rng.n32 != 1 || rng.n64 != 0 {
            callsbad += 1;
        }
        let log = maybenot::verif::take();
        let expect = (k as f32) / 8388608.0;
        match log.first() {
            Some(maybenot::verif::Entry::Draw { bits }) if *bits == expect.to_bits() => {}
            _ => drawbad += 1,
        }
        match r {
            None => none += 1,
            Some(t) => match v.iter().position(|x| x.0 == t) {
                Some(i) => counts[i] += 1,
                None => other += 1,
            },
        }
    }
    maybenot::verif::enable(false);
    let cs: Vec<String> = v.iter().zip(counts.iter()).map(|(t, c)| format!("{}:{}", t.0, c)).collect();
    let _ = writeln!(w, "o counts {} none:{} other:{} drawbad:{} callsbad:{}", cs.join(" "), none, other, drawbad, callsbad);
    let _ = writeln!(w, "end");
}

/// running f32 sums as `sample_state` computes them
fn thresholds(v: &[Trans]) -> Vec<f32> {
    let mut sum: f32 = 0.0;
    v.iter()
        .map(|t| {
            sum += t.1;
            sum
        })
        .collect()
}

fn boundary_words(p: &mut Prng, v: &[Trans]) -> Vec<u32> {
    let mut ks: Vec<u32> = vec![0, 1, (1 << 23) - 1, (1 << 22), (1 << 22) - 1];
    for c in thresholds(v) {
        let x = (c as f64) * 8388608.0;
        let k = x.ceil();
        for d in [-2.0, -1.0, 0.0, 1.0] {
            let y = k + d;
            if y >= 0.0 && y < 8388608.0 {
                ks.push(y as u32);
            }
        }
    }
    for _ in 0..6 {
        ks.push(p.below(1 << 23) as u32);
    }
    ks.sort();
    ks.dedup();
    ks.iter()
        .map(|k| {
            let low = match p.below(3) {
                0 => 0,
                1 => 0x1ff,
                _ => p.below(512) as u32,
            };
            (k << 9) | low
        })
        .collect()
}

const PROBS: &[u32] = &[
    0x3f800000, // 1
    0x3f7fffff, // 1 - 2^-24
    0x3f000000, // 0.5
    0x3e800000, // 0.25
    0x3e000000, // 0.125
    0x3e99999a, // 0.3
    0x3eaaaaab, // 1/3
    0x3dcccccd, // 0.1
    0x34000000, // 2^-23
    0x33800000, // 2^-24
    0x33000000, // 2^-25
    0x00000001, // smallest subnormal
    0x00800000, // smallest normal
    0x3089705f, // 1e-9
    0x3f7ffffe, // 1 - 2^-23
    0x3f400000, // 0.75
    0x3c23d70a, // 0.01
];

fn gen_vector(p: &mut Prng) -> (usize, Vec<Trans>) {
    // one vector in six is long (9 to 40 entries: past any blocking / unrolling factor of the sampling loop)
    if p.chance(1, 6) {
        let k = *p.pick(&[9usize, 12, 16, 17, 24, 33, 40]);
        let ns = k + p.below(4) as usize;
        let mut targets: Vec<usize> = (0..ns).collect();
        for i in (1..targets.len()).rev() {
            let j = p.below(i as u64 + 1) as usize;
            targets.swap(i, j);
        }
        let share = *p.pick(&[1.0f32, 0.75, 0.5]);
        let equal = p.chance(1, 2);
        let mut v = Vec::new();
        let mut sum: f32 = 0.0;
        for t in targets.iter().take(k) {
            let pr = if equal { share / (k as f32) } else { share * (((p.below(1 << 20) + 1) as f32) / 1048576.0) / (k as f32) };
            if pr > 0.0 && sum + pr <= 1.0 {
                sum += pr;
                v.push(Trans(*t, pr));
            }
        }
        return (ns, v);
    }
    let ns = p.range(1, 6) as usize;
    let mut targets: Vec<usize> = (0..ns).collect();
    targets.push(STATE_END);
    targets.push(STATE_SIGNAL);
    for i in (1..targets.len()).rev() {
        let j = p.below(i as u64 + 1) as usize;
        targets.swap(i, j);
    }
    let k = (p.range(1, 6) as usize).min(targets.len());
    let mut v: Vec<Trans> = Vec::new();
    let mut sum: f32 = 0.0;
    for t in targets.iter().take(k) {
        let pr = if p.chance(1, 3) {
            // random f32 in (0, 1]
            let x = ((p.below(1 << 24) + 1) as f32) / 16777216.0;
            x / (k as f32)
        } else {
            f32::from_bits(*p.pick(PROBS))
        };
        if pr > 0.0 && sum + pr <= 1.0 {
            sum += pr;
            v.push(Trans(*t, pr));
        }
    }
    if v.is_empty() {
        v.push(Trans(targets[0], 1.0));
    }
    // sometimes top the vector up to a sum of exactly 1
    if p.chance(1, 3) && v.len() < targets.len() {
        let rest = 1.0 - sum;
        if rest > 0.0 && sum + rest <= 1.0 {
            v.push(Trans(targets[v.len()], rest));
        }
    }
    (ns, v)
}

fn fixed_vectors() -> Vec<(&'static str, usize, Vec<Trans>)> {
    vec![
        ("one", 1, vec![Trans(0, 1.0)]),
        ("one-end", 1, vec![Trans(STATE_END, 1.0)]),
        ("one-signal", 1, vec![Trans(STATE_SIGNAL, 1.0)]),
        ("halves", 2, vec![Trans(1, 0.5), Trans(0, 0.5)]),
        ("thirds", 3, vec![Trans(2, 0.33333334), Trans(0, 0.33333334), Trans(1, 0.33333334)]),
        ("tenths", 3, vec![Trans(0, 0.1), Trans(STATE_END, 0.2), Trans(2, 0.3), Trans(STATE_SIGNAL, 0.1)]),
        ("tiny", 1, vec![Trans(0, f32::from_bits(1))]),
        ("resolution", 2, vec![Trans(0, 1.1920929e-7), Trans(1, 5.9604645e-8)]),
        ("below-resolution", 2, vec![Trans(1, 2.9802322e-8), Trans(0, 0.5)]),
        ("almost-one", 2, vec![Trans(0, 0.99999994), Trans(1, 5.9604645e-8)]),
        ("absorbed", 2, vec![Trans(0, 0.75), Trans(1, 1e-9), Trans(STATE_END, 0.25)]),
        ("eighty", 1, vec![Trans(0, 0.8)]),
        ("twelve-sixteenths", 12, (0..12).map(|i| Trans(i, 0.0625)).collect()),
        ("seventeen", 17, (0..17).map(|i| Trans(16 - i, 0.05)).collect()),
    ]
}

fn gen_c06(seed: u64, cases: u64, exhaustive: u64, w: &mut dyn Write) {
    let mut p = Prng::new(seed ^ 0xc06);
    let mut n = 0u64;
    for (l, ns, v) in fixed_vectors() {
        n += 1;
        let words = boundary_words(&mut p, &v);
        emit_c06_words(w, &format!("c06-{}-{}", seed, n), l, ns, &v, &words);
    }
    for _ in 0..cases {
        n += 1;
        let (ns, v) = gen_vector(&mut p);
        let words = boundary_words(&mut p, &v);
        emit_c06_words(w, &format!("c06-{}-{}", seed, n), "random", ns, &v, &words);
    }
    let fixed = fixed_vectors();
    for i in 0..exhaustive {
        n += 1;
        if (i as usize) < fixed.len() {
            // rotate through the fixed vectors starting from a seed-dependent position
            let (l, ns, v) = &fixed[((seed + i) as usize) % fixed.len()];
            emit_c06_exhaustive(w, &format!("c06-{}-{}", seed, n), &format!("exhaustive-{}", l), *ns, v);
        } else {
            let (ns, v) = gen_vector(&mut p);
            emit_c06_exhaustive(w, &format!("c06-{}-{}", seed, n), "exhaustive-random", ns, &v);
        }
    }
}

fn replay_c06(w: &mut dyn Write) {
    let mut text = String::new();
    let _ = std::io::Read::read_to_string(&mut std::io::stdin(), &mut text);
    let mut id = String::from("replay");
    let mut label = String::from("replay");
    let mut vec: Option<(usize, Vec<Trans>)> = None;
    for line in text.lines() {
        let ws: Vec<&str> = line.split_whitespace().collect();
        match ws.as_slice() {
            ["case", i, "c06", rest @ ..] => {
                id = i.to_string();
                label = rest.join(" ");
                vec = None;
            }
            ["v", ..] => vec = parse_vec_line(&ws),
            ["words", rest @ ..] => {
                if let Some((ns, v)) = &vec {
                    let words: Vec<u32> = rest.iter().filter_map(|x| u32::from_str_radix(x, 16).ok()).collect();
                    emit_c06_words(w, &id, &label, *ns, v, &words);
                }
            }
            ["exhaustive"] => {
                if let Some((ns, v)) = &vec {
                    emit_c06_exhaustive(w, &id, &label, *ns, v);
                }
            }
            _ => {}
        }
    }
}

#[allow(dead_code)]
fn _unused(_: Timer) {}
