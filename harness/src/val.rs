//! `val-*` harness commands.

use std::io::Write;

/// Returns false if `sub` is not a command of this module.
pub fn cmd(sub: &str, _args: &[String], _w: &mut dyn Write) -> bool {
    match sub {
        _ => false,
    }
}
