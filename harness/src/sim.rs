//! `sim-*` harness commands: run the real simulator (`sim_advanced` / `sim`) on generated or
//! replayed cases and print inputs, the oracle log (hook log of every transition draw and raw
//! distribution sample made by either framework, in order) and the observed trace.
//!
//! Line protocol (one case):
//! ```text
//! case <id> <kind>
//! mc <hex bincode>            one line per client machine
//! ms <hex bincode>            one line per server machine
//! tr <n> <ns>:<s|sn|r|rn|sp|rp>[+] ...   the input trace (`+` = the line has the optional size column)
//! delay <ns>
//! orc <n_u> <u hex…> <n_d> <d hex…>
//! run <name> <adv|sim> <pps|-> <mtl> <msi> <cont> <oc> <on> <fpc> <fbc> <fps> <fbs> <seed|->
//! o res ok <n> | o res panic <class>
//! o <ns offset from first base event> <c|s> <event> <padding> <bypass> <replace>
//! ...                          (more orc/run/o groups: one per run of the case)
//! end
//! ```

use crate::genm::{self, DistMode, GenCfg};
use crate::util::{hex, unhex, Prng};
use enum_map::enum_map;
use maybenot::action::Action;
use maybenot::constants::{STATE_END, STATE_SIGNAL};
use maybenot::counter::{Counter, Operation};
use maybenot::dist::{Dist, DistType};
use maybenot::event::Event;
use maybenot::state::{State, Trans};
use maybenot::verif::Entry;
use maybenot::{Machine, Timer, TriggerEvent};
use maybenot_simulator::network::Network;
use maybenot_simulator::{parse_trace, sim, sim_advanced, SimEvent, SimulatorArgs};
use std::fmt::Write as _;
use std::io::Write;
use std::panic::{catch_unwind, AssertUnwindSafe};
use std::time::Duration;

#[derive(Clone, Debug)]
pub struct RunSpec {
    pub name: String,
    /// true = `sim_advanced`, false = `sim`
    pub adv: bool,
    pub pps: Option<usize>,
    pub mtl: usize,
    pub msi: usize,
    pub cont: bool,
    pub oc: bool,
    pub on: bool,
    pub fpc: f64,
    pub fbc: f64,
    pub fps: f64,
    pub fbs: f64,
    pub seed: Option<u64>,
}

#[derive(Clone, Debug)]
pub struct SimCase {
    pub id: String,
    pub kind: String,
    pub mc: Vec<Machine>,
    pub ms: Vec<Machine>,
    pub trace: Vec<TLine>,
    pub delay_ns: u64,
    pub runs: Vec<RunSpec>,
}

/// direction tokens `parse_trace` knows
pub const TOKS: [&str; 6] = ["s", "sn", "r", "rn", "sp", "rp"];

/// one line of an input trace: time, direction token (index into `TOKS`), and whether the
/// optional third "size" column is written
#[derive(Clone, Copy, Debug, PartialEq, Eq)]
pub struct TLine {
    pub t: u64,
    pub tok: u8,
    pub size: bool,
}

/// plain `s` / `r` lines without a size column
pub fn plain(v: Vec<(u64, bool)>) -> Vec<TLine> {
    v.into_iter().map(|(t, s)| TLine { t, tok: if s { 0 } else { 2 }, size: false }).collect()
}

/// vary what the real parser accepts: `sn` / `rn` for normal packets, interspersed padding lines
/// `sp` / `rp` (which `parse_trace` ignores), and the optional size column
pub fn decorate(p: &mut Prng, v: Vec<(u64, bool)>) -> Vec<TLine> {
    let mode = p.below(4);
    if mode == 0 {
        return plain(v);
    }
    let mut out = Vec::with_capacity(v.len() * 2);
    for (i, (t, s)) in v.iter().enumerate() {
        let alt = mode >= 2 && p.chance(1, 2);
        let tok = match (*s, alt) {
            (true, false) => 0,
            (true, true) => 1,
            (false, false) => 2,
            (false, true) => 3,
        };
        out.push(TLine { t: *t, tok, size: p.chance(1, 3) });
        if mode >= 2 && p.chance(1, 3) {
            // a padding line at this time or between this and the next line (the trace stays time-ordered)
            let next = v.get(i + 1).map(|x| x.0).unwrap_or(*t + 1_000_000);
            let tp = if next > *t && p.chance(1, 2) { *t + p.below(next - *t + 1) } else { *t };
            out.push(TLine { t: tp, tok: if p.chance(1, 2) { 4 } else { 5 }, size: p.chance(1, 3) });
        }
    }
    if mode == 3 && p.chance(1, 3) {
        // also a padding line before the first packet
        let t0 = out[0].t;
        out.insert(0, TLine { t: t0 / 2, tok: if p.chance(1, 2) { 4 } else { 5 }, size: false });
    }
    out
}

fn tline_str(l: &TLine) -> String {
    format!("{}:{}{}", l.t, TOKS[l.tok as usize], if l.size { "+" } else { "" })
}

pub fn sim_ev_str(e: &TriggerEvent) -> String {
    crate::fw::ev_str(e)
}

fn panic_class(p: &Box<dyn std::any::Any + Send>) -> &'static str {
    let msg = if let Some(s) = p.downcast_ref::<&str>() {
        s.to_string()
    } else if let Some(s) = p.downcast_ref::<String>() {
        s.clone()
    } else {
        String::new()
    };
    if msg.contains("divide by zero") {
        "divzero"
    } else if msg.contains("moves time backwards") {
        "backwards"
    } else if msg.contains("no internal action found") {
        "nointernal"
    } else if msg.contains("no action found") {
        "noaction"
    } else if msg.contains("cancel action in scheduled") {
        "cancelsched"
    } else if msg.contains("update timer action in scheduled") {
        "timersched"
    } else if msg.contains("Option::unwrap()") {
        "unwrap"
    } else if msg.contains("Result::unwrap()") {
        "fwnew"
    } else if msg.contains("overflow when") {
        "dur"
    } else if msg.contains("index out of bounds") {
        "oob"
    } else {
        "other"
    }
}

fn trace_string(trace: &[TLine]) -> String {
    let mut s = String::new();
    // lines without a second field are not records: a third of the traces carry an empty line, a blank
    // line of spaces and a one-word line between their records (the parser skips them; chosen from the
    // content so that a replay reproduces them)
    let noise = trace.len() >= 2 && trace.iter().fold(0u64, |a, l| a.wrapping_add(l.t)) % 3 == 0;
    for (i, l) in trace.iter().enumerate() {
        if noise {
            if i == 1 {
                s.push('\n');
            }
            if i == trace.len() / 2 + 1 {
                s.push_str("   \n");
            }
            if i + 1 == trace.len() {
                s.push_str("end-of-capture\n");
            }
        }
        if l.size {
            let _ = writeln!(s, "{},{},{}", l.t, TOKS[l.tok as usize], 100 + (l.t % 1400));
        } else {
            let _ = writeln!(s, "{},{}", l.t, TOKS[l.tok as usize]);
        }
    }
    s
}

pub struct RunOut {
    pub log: Vec<Entry>,
    pub res: Result<Vec<(i128, SimEvent)>, &'static str>,
}

/// set when a run did not return within the watchdog limit (its thread is still spinning)
pub static TIMED_OUT: std::sync::atomic::AtomicBool = std::sync::atomic::AtomicBool::new(false);

/// watchdog limit for one call of the simulator
const WATCHDOG_SECS: u64 = 20;

/// Run the real simulator once, in its own thread so that a run that never returns (a hang is a
/// C19 violation, not a reason for the harness to hang) can be reported.
pub fn run_once(c: &SimCase, r: &RunSpec) -> RunOut {
    if TIMED_OUT.load(std::sync::atomic::Ordering::SeqCst) {
        // a previous run is still spinning in the background: do not start more work
        return RunOut { log: vec![], res: Err("skipped-after-timeout") };
    }
    let (tx, rx) = std::sync::mpsc::channel();
    let c2 = c.clone();
    let r2 = r.clone();
    let builder = std::thread::Builder::new().stack_size(64 << 20);
    let handle = builder.spawn(move || {
        let out = run_once_here(&c2, &r2);
        let _ = tx.send(out);
    });
    if handle.is_err() {
        return run_once_here(c, r);
    }
    match rx.recv_timeout(Duration::from_secs(WATCHDOG_SECS)) {
        Ok(out) => out,
        Err(std::sync::mpsc::RecvTimeoutError::Timeout) => {
            TIMED_OUT.store(true, std::sync::atomic::Ordering::SeqCst);
            RunOut { log: vec![], res: Err("timeout") }
        }
        // the run's thread ended without a result: a panic outside the supervised call, i.e. in this harness
        Err(std::sync::mpsc::RecvTimeoutError::Disconnected) => RunOut { log: vec![], res: Err("harness-thread-died") },
    }
}

/// a logger that formats every record and throws it away: with it installed and the level raised, the
/// arguments of the library's `debug!` lines are evaluated as they would be under RUST_LOG=debug
struct DiscardLogger;
impl log::Log for DiscardLogger {
    fn enabled(&self, _: &log::Metadata) -> bool {
        true
    }
    fn log(&self, record: &log::Record) {
        use std::fmt::Write as _;
        let mut s = String::new();
        let _ = write!(s, "{}", record.args());
        std::hint::black_box(&s);
    }
    fn flush(&self) {}
}
static DISCARD: DiscardLogger = DiscardLogger;

fn run_once_here(c: &SimCase, r: &RunSpec) -> RunOut {
    // the repeat run of small cases is made with debug logging on: logging must not change the simulation
    let with_log = r.name == "det" && c.trace.len() <= 80 && c.mc.len() + c.ms.len() <= 6;
    if with_log {
        let _ = log::set_logger(&DISCARD);
        log::set_max_level(log::LevelFilter::Debug);
    }
    let out = run_once_inner(c, r);
    if with_log {
        log::set_max_level(log::LevelFilter::Off);
    }
    out
}

fn run_once_inner(c: &SimCase, r: &RunSpec) -> RunOut {
    let delay = Duration::from_nanos(c.delay_ns);
    let text = trace_string(&c.trace);
    maybenot::verif::enable(true);
    let _ = maybenot::verif::take();
    let res = catch_unwind(AssertUnwindSafe(|| {
        let network = Network::new(delay, r.pps);
        let mut sq = parse_trace(&text, network);
        if r.name == "det" {
            // the repeat run goes through Clone (clone_from into a queue parsed from another trace, then
            // clone): a caller that parses once and simulates copies must see the same simulation
            let mut other = parse_trace("0,s\n5,r\n7,s\n9,s\n", network);
            // ... a queue that has been used: a capped run leaves events in flight in its heaps
            let _ = sim(&[], &[], &mut other, delay, 3, false);
            other.clone_from(&sq);
            sq = other.clone();
        }
        let first = sq.get_first_time();
        let out = if r.adv {
            let mut args = SimulatorArgs::new(network, r.mtl, r.on);
            args.max_sim_iterations = r.msi;
            args.continue_after_all_normal_packets_processed = r.cont;
            args.only_client_events = r.oc;
            args.max_padding_frac_client = r.fpc;
            args.max_blocking_frac_client = r.fbc;
            args.max_padding_frac_server = r.fps;
            args.max_blocking_frac_server = r.fbs;
            args.insecure_rng_seed = r.seed;
            sim_advanced(&c.mc, &c.ms, &mut sq, &args)
        } else {
            sim(&c.mc, &c.ms, &mut sq, delay, r.mtl, r.on)
        };
        let first = first.expect("non-empty output needs a first time");
        out.into_iter()
            .map(|e| {
                let off = if e.time >= first {
                    e.time.duration_since(first).as_nanos() as i128
                } else {
                    -(first.duration_since(e.time).as_nanos() as i128)
                };
                (off, e)
            })
            .collect::<Vec<_>>()
    }));
    let log = maybenot::verif::take();
    maybenot::verif::enable(false);
    RunOut { log, res: res.map_err(|p| panic_class(&p)) }
}

fn fmt_orc(out: &mut String, log: &[Entry]) {
    let us: Vec<String> = log.iter().filter_map(|e| if let Entry::Draw { bits } = e { Some(format!("{:08x}", bits)) } else { None }).collect();
    let ds: Vec<String> = log.iter().filter_map(|e| if let Entry::DistRaw { bits } = e { Some(format!("{:016x}", bits)) } else { None }).collect();
    let _ = writeln!(out, "orc {} {} {} {}", us.len(), us.join(" "), ds.len(), ds.join(" "));
}

fn fmt_run_line(out: &mut String, r: &RunSpec) {
    let _ = writeln!(
        out,
        "run {} {} {} {} {} {} {} {} {:016x} {:016x} {:016x} {:016x} {}",
        r.name,
        if r.adv { "adv" } else { "sim" },
        r.pps.map(|p| p.to_string()).unwrap_or_else(|| "-".into()),
        r.mtl,
        r.msi,
        r.cont as u8,
        r.oc as u8,
        r.on as u8,
        r.fpc.to_bits(),
        r.fbc.to_bits(),
        r.fps.to_bits(),
        r.fbs.to_bits(),
        r.seed.map(|p| p.to_string()).unwrap_or_else(|| "-".into()),
    );
}

fn fmt_events(out: &mut String, evs: &[(i128, SimEvent)]) {
    for (off, e) in evs {
        let (b, rp) = e.verif_flags();
        let _ = writeln!(
            out,
            "o {} {} {} {} {} {}",
            off,
            if e.client { "c" } else { "s" },
            sim_ev_str(&e.event),
            e.contains_padding as u8,
            b as u8,
            rp as u8
        );
    }
}

/// Run every run of the case on the real code and return the protocol text.
pub fn run_case(c: &SimCase) -> String {
    let mut out = String::new();
    let _ = writeln!(out, "case {} {}", c.id, c.kind);
    for m in &c.mc {
        let _ = writeln!(out, "mc {}", hex(&genm::machine_bytes(m)));
    }
    for m in &c.ms {
        let _ = writeln!(out, "ms {}", hex(&genm::machine_bytes(m)));
    }
    let tr: Vec<String> = c.trace.iter().map(tline_str).collect();
    let _ = writeln!(out, "tr {} {}", c.trace.len(), tr.join(" "));
    let _ = writeln!(out, "delay {}", c.delay_ns);
    for r in &c.runs {
        let o = run_once(c, r);
        fmt_orc(&mut out, &o.log);
        fmt_run_line(&mut out, r);
        match o.res {
            Ok(evs) => {
                let _ = writeln!(out, "o res ok {}", evs.len());
                fmt_events(&mut out, &evs);
            }
            Err(cls) => {
                let _ = writeln!(out, "o res panic {}", cls);
            }
        }
    }
    let _ = writeln!(out, "end");
    out
}

/* ---------------- machine templates ---------------- */

/// microsecond constants at the time scale of the generated traces
const US: &[f64] = &[0.0, 0.0, 1.0, 10.0, 500.0, 1000.0, 2000.0, 5000.0, 20_000.0, 100_000.0, 300_000.0, 1_000_000.0];

fn konst(v: f64) -> Dist {
    Dist { dist: DistType::Uniform { low: v, high: v }, start: 0.0, max: 0.0 }
}

fn sdist(p: &mut Prng) -> Dist {
    match p.below(8) {
        0 => {
            let lo = *p.pick(US);
            let hi = lo + *p.pick(&[1.0, 100.0, 5000.0, 50_000.0]);
            Dist { dist: DistType::Uniform { low: lo, high: hi }, start: 0.0, max: 0.0 }
        }
        1 => {
            let d = match p.below(4) {
                0 => DistType::Normal { mean: *p.pick(&[1000.0, 20_000.0]), stdev: *p.pick(&[100.0, 5000.0]) },
                1 => DistType::Pareto { scale: *p.pick(&[10.0, 1000.0]), shape: 2.0 },
                2 => DistType::Geometric { probability: 0.01 },
                _ => DistType::Weibull { scale: 5000.0, shape: 1.5 },
            };
            Dist { dist: d, start: 0.0, max: *p.pick(&[0.0, 50_000.0]) }
        }
        _ => konst(*p.pick(US)),
    }
}

fn slimit(p: &mut Prng) -> Option<Dist> {
    match p.below(6) {
        0 => Some(konst(1.0)),
        1 => Some(konst(*p.pick(&[2.0, 3.0, 5.0, 20.0]))),
        2 => Some(Dist { dist: DistType::Uniform { low: 0.0, high: 4.0 }, start: 0.0, max: 0.0 }),
        _ => None,
    }
}

fn tr1(to: usize) -> Vec<Trans> {
    vec![Trans(to, 1.0)]
}

fn trp(p: &mut Prng, a: usize, b: usize) -> Vec<Trans> {
    match p.below(4) {
        0 => vec![Trans(a, 0.5), Trans(b, 0.5)],
        1 => vec![Trans(a, 0.75)],
        2 => vec![Trans(a, 0.3), Trans(b, 0.3)],
        _ => vec![Trans(a, 1.0)],
    }
}

fn pad_action(p: &mut Prng, bypass: bool, replace: bool) -> Action {
    Action::SendPadding { bypass, replace, timeout: sdist(p), limit: slimit(p) }
}

fn block_action(p: &mut Prng, bypass: bool, replace: bool) -> Action {
    Action::BlockOutgoing { bypass, replace, timeout: sdist(p), duration: sdist(p), limit: slimit(p) }
}

fn timer_action(p: &mut Prng, replace: bool) -> Action {
    Action::UpdateTimer { replace, duration: sdist(p), limit: slimit(p) }
}

fn pad_action_r(p: &mut Prng) -> Action {
    let b = p.chance(1, 2);
    let r = p.chance(1, 2);
    pad_action(p, b, r)
}

fn block_action_r(p: &mut Prng) -> Action {
    let b = p.chance(1, 2);
    let r = p.chance(1, 2);
    block_action(p, b, r)
}

fn timer_action_r(p: &mut Prng) -> Action {
    let r = p.chance(1, 2);
    timer_action(p, r)
}

fn start_event(p: &mut Prng) -> Event {
    *p.pick(&[Event::NormalSent, Event::NormalSent, Event::TunnelSent, Event::NormalRecv, Event::TunnelRecv, Event::PaddingRecv])
}

fn machine(states: Vec<State>, p: &mut Prng, budgets: bool) -> Machine {
    let (app, mpf, abm, mbf) = if budgets && p.chance(1, 3) {
        (
            *p.pick(&[0u64, 1, 3, 1000]),
            *p.pick(&[0.0, 0.5, 1.0, 0.1]),
            *p.pick(&[0u64, 10, 1000, 1_000_000]),
            *p.pick(&[0.0, 0.5, 1.0, 0.01]),
        )
    } else {
        (0, 0.0, 0, 0.0)
    };
    let m = Machine { allowed_padding_packets: app, max_padding_frac: mpf, allowed_blocked_microsec: abm, max_blocking_frac: mbf, states };
    if let Err(e) = m.validate() {
        panic!("template produced an invalid machine: {e}");
    }
    m
}

/// padding machine: start event -> padding state; PaddingSent loops or returns
fn t_padding(p: &mut Prng) -> Machine {
    let ev = start_event(p);
    let s0 = State::new(enum_map! { e if e == ev => tr1(1), _ => vec![] });
    let back = trp(p, 1, 0);
    let again = start_event(p);
    let mut s1 = State::new(enum_map! {
        Event::PaddingSent => back.clone(),
        Event::LimitReached => tr1(0),
        e if e == again => tr1(1),   // re-issue before firing
        _ => vec![] });
    s1.action = Some(pad_action_r(p));
    machine(vec![s0, s1], p, true)
}

/// blocking machine with a follow-up padding state (all four flag combinations on both)
fn t_blocking(p: &mut Prng) -> Machine {
    let ev = start_event(p);
    let s0 = State::new(enum_map! { e if e == ev => tr1(1), _ => vec![] });
    let nxt = trp(p, 2, 0);
    let mut s1 = State::new(enum_map! {
        Event::BlockingBegin => nxt.clone(),
        Event::LimitReached => tr1(0),
        _ => vec![] });
    s1.action = Some(block_action_r(p));
    let after = trp(p, 2, 0);
    let mut s2 = State::new(enum_map! {
        Event::PaddingSent => after.clone(),
        Event::BlockingEnd => tr1(0),
        Event::LimitReached => tr1(0),
        _ => vec![] });
    s2.action = Some(pad_action_r(p));
    machine(vec![s0, s1, s2], p, true)
}

/// two blocking actions in a row with independent flags (extension / replacement of a block),
/// then padding with independent flags
fn t_blocking2(p: &mut Prng) -> Machine {
    let ev = start_event(p);
    let s0 = State::new(enum_map! { e if e == ev => tr1(1), _ => vec![] });
    let mut s1 = State::new(enum_map! { Event::BlockingBegin => tr1(2), _ => vec![] });
    s1.action = Some(block_action_r(p));
    let mut s2 = State::new(enum_map! { Event::BlockingBegin => tr1(3), Event::BlockingEnd => tr1(0), _ => vec![] });
    s2.action = Some(block_action_r(p));
    let back = trp(p, 3, 0);
    let mut s3 = State::new(enum_map! { Event::PaddingSent => back.clone(), Event::BlockingEnd => tr1(0), Event::LimitReached => tr1(0), _ => vec![] });
    s3.action = Some({ let b = p.chance(2, 3); let r = p.chance(1, 2); pad_action(p, b, r) });
    machine(vec![s0, s1, s2, s3], p, false)
}

/// a pair for one side: a blocker (long block on the first packets) and a padder that sends
/// replace padding while the block is active, so queued normal packets get swapped in
fn t_replace_pair(p: &mut Prng) -> Vec<Machine> {
    let b1 = p.chance(1, 2);
    let s0 = State::new(enum_map! { Event::NormalSent => tr1(1), _ => vec![] });
    let mut s1 = State::new(enum_map! { Event::BlockingEnd => tr1(0), _ => vec![] });
    s1.action = Some(Action::BlockOutgoing {
        bypass: b1,
        replace: p.chance(1, 3),
        timeout: konst(*p.pick(&[0.0, 0.0, 100.0])),
        duration: konst(*p.pick(&[20_000.0, 100_000.0, 300_000.0, 1_000_000.0])),
        limit: None,
    });
    let blocker = machine(vec![s0, s1], p, false);
    let q0 = State::new(enum_map! { Event::BlockingBegin => tr1(1), _ => vec![] });
    let again = trp(p, 1, 0);
    let mut q1 = State::new(enum_map! { Event::PaddingSent => again.clone(), Event::BlockingEnd => tr1(0), _ => vec![] });
    q1.action = Some(Action::SendPadding {
        bypass: p.chance(2, 3),
        replace: p.chance(4, 5),
        timeout: konst(*p.pick(&[0.0, 1000.0, 5000.0, 30_000.0])),
        limit: if p.chance(1, 2) { Some(konst(*p.pick(&[1.0, 3.0, 6.0]))) } else { None },
    });
    let padder = machine(vec![q0, q1], p, false);
    vec![blocker, padder]
}

/// internal timer machine: UpdateTimer, then a second UpdateTimer on TimerBegin (longest /
/// replace rule, same-instant update), padding on TimerEnd
fn t_timer(p: &mut Prng) -> Machine {
    let ev = start_event(p);
    let s0 = State::new(enum_map! { e if e == ev => tr1(1), _ => vec![] });
    let again = start_event(p);
    let n1 = trp(p, 2, 1);
    let mut s1 = State::new(enum_map! {
        Event::TimerBegin => n1.clone(),
        Event::TimerEnd => tr1(3),
        e if e == again => tr1(1),
        _ => vec![] });
    s1.action = Some(timer_action_r(p));
    let mut s2 = State::new(enum_map! {
        Event::TimerEnd => tr1(3),
        Event::TimerBegin => tr1(0),
        e if e == again => tr1(1),
        _ => vec![] });
    s2.action = Some(timer_action_r(p));
    let fin = trp(p, 0, 1);
    let mut s3 = State::new(enum_map! { Event::PaddingSent => fin.clone(), Event::LimitReached => tr1(0), _ => vec![] });
    s3.action = Some({ let r = p.chance(1, 2); pad_action(p, false, r) });
    machine(vec![s0, s1, s2, s3], p, false)
}

/// schedules something (padding / blocking / timer) and cancels it on a later event
fn t_cancel(p: &mut Prng) -> Machine {
    let ev = start_event(p);
    let s0 = State::new(enum_map! { e if e == ev => tr1(1), _ => vec![] });
    let cancel_on = *p.pick(&[Event::TunnelSent, Event::NormalRecv, Event::TunnelRecv, Event::NormalSent, Event::TimerBegin]);
    let mut s1 = State::new(enum_map! {
        e if e == cancel_on => tr1(2),
        Event::PaddingSent => tr1(0),
        Event::BlockingBegin => tr1(0),
        Event::TimerEnd => tr1(0),
        _ => vec![] });
    s1.action = Some(match p.below(3) {
        0 => pad_action_r(p),
        1 => block_action_r(p),
        _ => timer_action_r(p),
    });
    let mut s2 = State::new(enum_map! { e if e == ev => tr1(1), Event::TimerEnd => tr1(1), _ => vec![] });
    s2.action = Some(Action::Cancel { timer: *p.pick(&[Timer::Action, Timer::Internal, Timer::All]) });
    machine(vec![s0, s1, s2], p, false)
}

/// counter machine: counts normal packets down from a sampled value, pads on CounterZero
fn t_counter(p: &mut Prng) -> Machine {
    let mut s0 = State::new(enum_map! { Event::NormalSent => tr1(1), Event::NormalRecv => tr1(1), _ => vec![] });
    s0.counter = (Some(Counter::new_dist(Operation::Set, konst(*p.pick(&[1.0, 2.0, 4.0])))), None);
    let mut s1 = State::new(enum_map! {
        Event::NormalSent => tr1(1),
        Event::TunnelRecv => tr1(1),
        Event::CounterZero => tr1(2),
        _ => vec![] });
    s1.counter = (Some(Counter::new(Operation::Decrement)), if p.chance(1, 2) { Some(Counter::new(Operation::Increment)) } else { None });
    let mut s2 = State::new(enum_map! { Event::PaddingSent => tr1(0), Event::LimitReached => tr1(0), _ => vec![] });
    s2.action = Some(pad_action_r(p));
    machine(vec![s0, s1, s2], p, true)
}

/// signalling machine: signals on an event, pads / blocks when signalled
fn t_signal(p: &mut Prng) -> Machine {
    use maybenot::constants::STATE_SIGNAL;
    let ev = start_event(p);
    let s0 = State::new(enum_map! {
        e if e == ev => vec![Trans(STATE_SIGNAL, 0.5), Trans(1, 0.25)],
        Event::Signal => tr1(1),
        _ => vec![] });
    let mut s1 = State::new(enum_map! {
        Event::PaddingSent => tr1(0),
        Event::BlockingBegin => tr1(0),
        Event::Signal => vec![Trans(STATE_END, 0.1), Trans(0, 0.5)],
        _ => vec![] });
    s1.action = Some(if p.chance(2, 3) { pad_action_r(p) } else { block_action_r(p) });
    machine(vec![s0, s1], p, false)
}

/// endless padding loop (needs an iteration or length cap)
fn t_loop(p: &mut Prng) -> Machine {
    let mut s0 = State::new(enum_map! { Event::PaddingSent => tr1(1), Event::NormalSent => tr1(1), Event::TunnelRecv => tr1(1), _ => vec![] });
    s0.action = Some(Action::SendPadding { bypass: p.chance(1, 2), replace: p.chance(1, 2), timeout: konst(*p.pick(&[0.0, 1.0, 3000.0])), limit: None });
    let mut s1 = State::new(enum_map! { Event::PaddingSent => tr1(0), Event::BlockingEnd => tr1(0), _ => vec![] });
    s1.action = Some(Action::SendPadding { bypass: p.chance(1, 2), replace: p.chance(1, 2), timeout: konst(*p.pick(&[0.0, 10.0, 20_000.0])), limit: None });
    machine(vec![s0, s1], p, true)
}

/// random machine from genm with its action timings rescaled to the trace's time scale
fn t_random(p: &mut Prng) -> Machine {
    let mut cfg = GenCfg::default();
    cfg.dist = *p.pick(&[DistMode::Const, DistMode::Uniform, DistMode::All]);
    cfg.max_states = p.range(1, 5) as usize;
    cfg.density = *p.pick(&[25, 40, 60]);
    cfg.budgets = p.chance(1, 2);
    let mut m = genm::gen_machine(p, &cfg);
    for s in m.states.iter_mut() {
        if let Some(a) = s.action.as_mut() {
            if p.chance(3, 4) {
                match a {
                    Action::SendPadding { timeout, .. } => *timeout = sdist(p),
                    Action::BlockOutgoing { timeout, duration, .. } => {
                        *timeout = sdist(p);
                        *duration = sdist(p);
                    }
                    Action::UpdateTimer { duration, .. } => *duration = sdist(p),
                    Action::Cancel { .. } => {}
                }
            }
        }
    }
    if m.validate().is_err() {
        return t_padding(p);
    }
    m
}

pub fn gen_sim_machine(p: &mut Prng, allow_loop: bool) -> Machine {
    match p.below(if allow_loop { 12 } else { 11 }) {
        0 | 1 => t_padding(p),
        2 | 3 => t_blocking(p),
        4 => t_blocking2(p),
        5 | 6 => t_timer(p),
        7 => t_cancel(p),
        8 => t_counter(p),
        9 => t_signal(p),
        10 => t_random(p),
        _ => t_loop(p),
    }
}

/* ---------------- traces and cases ---------------- */

pub fn gen_trace(p: &mut Prng) -> Vec<(u64, bool)> {
    let n = match p.below(6) {
        0 => p.range(1, 3),
        1 | 2 => p.range(2, 12),
        _ => p.range(5, 60),
    };
    let style = p.below(6);
    if style == 5 {
        return gen_const_rate_trace(p);
    }
    // now and then absolute timestamps of a capture: beyond 2^53 ns (not every u64 is an f64)
    let mut t: u64 = if p.chance(1, 16) { 1_700_000_000_000_000_000 + p.below(1000) } else if p.chance(1, 4) { p.below(50_000_000) } else { 0 };
    let mut out = Vec::new();
    let mut dir = p.chance(2, 3);
    for _ in 0..n {
        let gap = match style {
            0 => 0,                                         // everything at one instant
            1 => *p.pick(&[0, 0, 0, 1, 1000, 50_000]),      // dense burst
            2 => *p.pick(&[0, 1_000_000, 5_000_000, 20_000_000, 100_000_000, 100_000_001, 99_999_999]),
            3 => p.below(3_000_000_000),                    // up to seconds
            _ => match p.below(8) {
                0 | 1 => 0,
                2 => 1,
                3 => p.below(2_000_000),
                4 => p.below(200_000_000),
                5 => 1_000_000_000,
                6 => 100_000_000,
                _ => p.below(2_500_000_000),
            },
        };
        t += gap;
        if !p.chance(2, 3) {
            dir = !dir;
        }
        out.push((t, dir));
    }
    // one trace in twelve spans more than 2^32 microseconds (71.6 minutes): a gap of 1.2 to 3 hours
    if out.len() >= 2 && p.chance(1, 8) {
        let at = 1 + p.below(out.len() as u64 - 1) as usize;
        // either a generous gap, or one that lands the rest of the trace just past the 2^32 microsecond
        // mark (and past 2^32 milliseconds' worth is out of reach): times that wrap around a 32-bit
        // microsecond counter then compare as EARLIER than the first part
        let shift = if p.chance(1, 2) { 4_300_000_000_000 + p.below(6_500_000_000_000) } else { 4_294_967_296_000 + p.below(3_000_000) };
        for x in out.iter_mut().skip(at) {
            x.0 += shift;
        }
    }
    out
}

/// constant-rate trace whose period divides 100 ms and that lasts longer than one second (the
/// parse window and the bottleneck window see exactly full windows)
pub fn gen_const_rate_trace(p: &mut Prng) -> Vec<(u64, bool)> {
    let period = *p.pick(&[10_000_000u64, 20_000_000, 25_000_000, 50_000_000, 100_000_000]);
    let n = (1_200_000_000 / period + p.below(20)).min(150);
    let t0 = if p.chance(1, 3) { p.below(period) } else { 0 };
    let pattern = p.below(4);
    (0..n)
        .map(|i| {
            let dir = match pattern {
                0 => true,
                1 => false,
                2 => i % 2 == 0,
                _ => i % 3 != 0,
            };
            (t0 + i * period, dir)
        })
        .collect()
}

const DELAYS: &[u64] = &[0, 1_000, 1_000_000, 10_000_000, 250_000_000];
const PROBE_ITERS: usize = 1500;

fn base_run(name: &str, p: &mut Prng, pps: Option<usize>) -> RunSpec {
    RunSpec {
        name: name.into(),
        adv: true,
        pps,
        mtl: *p.pick(&[0, 0, 0, 1, 5, 30, 200]),
        msi: *p.pick(&[0, 0, 0, 1, 7, 60, 400, 1500]),
        cont: p.chance(1, 3),
        oc: p.chance(1, 4),
        on: p.chance(1, 3),
        fpc: *p.pick(&[0.0, 0.0, 0.0, 0.5, 1.0, 0.1]),
        fbc: *p.pick(&[0.0, 0.0, 0.0, 0.5, 1.0, 0.05]),
        fps: *p.pick(&[0.0, 0.0, 0.0, 0.5, 1.0, 0.1]),
        fbs: *p.pick(&[0.0, 0.0, 0.0, 0.5, 1.0, 0.05]),
        seed: Some(gen_seed(p)),
    }
}

/// RNG seed of a run: one time in four an extreme value (the server's seed is derived from it
/// by `wrapping_add(1)`, so `u64::MAX` wraps to 0)
fn gen_seed(p: &mut Prng) -> u64 {
    if p.chance(1, 4) {
        *p.pick(&[u64::MAX, u64::MAX, u64::MAX - 1, 0, 1, 1u64 << 63])
    } else {
        p.next()
    }
}

fn is_special_seed(s: Option<u64>) -> bool {
    matches!(s, Some(x) if x == u64::MAX || x == u64::MAX - 1 || x == 0 || x == 1 || x == 1u64 << 63)
}

/// a machine whose behaviour depends on genuinely random sampling: wide Uniform timeouts and
/// probabilistic transitions (so that two runs with different random streams differ)
fn t_random_sampler(p: &mut Prng) -> Machine {
    let ev = *p.pick(&[Event::NormalSent, Event::NormalRecv, Event::TunnelRecv, Event::TunnelSent]);
    let s0 = State::new(enum_map! { e if e == ev => vec![Trans(1, 0.5), Trans(2, 0.25)], _ => vec![] });
    let wide = |lo: f64, hi: f64| Dist { dist: DistType::Uniform { low: lo, high: hi }, start: 0.0, max: 0.0 };
    let mut s1 = State::new(enum_map! {
        Event::PaddingSent => vec![Trans(1, 0.5), Trans(0, 0.25), Trans(2, 0.25)],
        e if e == ev => vec![Trans(1, 0.5)],
        _ => vec![] });
    s1.action = Some(Action::SendPadding { bypass: p.chance(1, 2), replace: p.chance(1, 2), timeout: wide(0.0, 200_000.0), limit: None });
    let mut s2 = State::new(enum_map! {
        Event::PaddingSent => vec![Trans(0, 0.5), Trans(1, 0.5)],
        Event::TimerEnd => vec![Trans(1, 0.7)],
        e if e == ev => vec![Trans(2, 0.3), Trans(1, 0.3)],
        _ => vec![] });
    s2.action = Some(if p.chance(1, 2) {
        Action::SendPadding { bypass: false, replace: false, timeout: wide(1000.0, 3_000_000.0), limit: Some(wide(1.0, 6.0)) }
    } else {
        Action::UpdateTimer { replace: p.chance(1, 2), duration: wide(10.0, 500_000.0), limit: None }
    });
    machine(vec![s0, s1, s2], p, false)
}

/// Complete the list of runs of a case from its main run: determinism re-run, the unfiltered
/// uncapped reference run, the three filter settings, and a run through `sim`.
fn expand_runs(c: &mut SimCase, mut main: RunSpec, p: &mut Prng) {
    // an uncapped iteration count is only used when the simulation ends on its own
    let mut probe = main.clone();
    probe.name = "probe".into();
    probe.mtl = 0;
    probe.oc = false;
    probe.on = false;
    probe.msi = PROBE_ITERS;
    let self_terminating = match run_once(c, &probe).res {
        Ok(evs) => evs.len() < PROBE_ITERS,
        Err(_) => true,
    };
    if main.msi == 0 && !self_terminating {
        main.msi = *p.pick(&[40, 300, PROBE_ITERS]);
    }
    let mut det = main.clone();
    det.name = "det".into();
    let mut u = main.clone();
    u.name = "u".into();
    u.mtl = 0;
    u.oc = false;
    u.on = false;
    let mut runs = vec![main.clone(), det, u.clone()];
    for (oc, on, name) in [(true, false, "f10"), (false, true, "f01"), (true, true, "f11")] {
        let mut f = u.clone();
        f.name = name.into();
        f.oc = oc;
        f.on = on;
        runs.push(f);
    }
    // a capped, filtered variant of the reference run (prefix property)
    let mut cap = u.clone();
    cap.name = "cap".into();
    cap.mtl = *p.pick(&[1, 2, 5, 17, 60]);
    cap.oc = p.chance(1, 2);
    cap.on = p.chance(1, 2);
    runs.push(cap);
    // a length cap that can never bind (a caller's "effectively unlimited"): must behave like no cap
    if p.chance(1, 3) {
        let mut huge = u.clone();
        huge.name = "huge".into();
        huge.mtl = usize::MAX;
        runs.push(huge);
    }
    // `sim`: thread RNG, no iteration cap: bounded through the length cap unless there are no machines
    let no_machines = c.mc.is_empty() && c.ms.is_empty();
    let s = RunSpec {
        name: "sim".into(),
        adv: false,
        pps: None,
        mtl: if no_machines { *p.pick(&[0, 0, 3, 40]) } else { p.range(1, 400) as usize },
        msi: 0,
        cont: false,
        oc: false,
        on: if no_machines { p.chance(1, 2) } else { false },
        fpc: 0.0,
        fbc: 0.0,
        fps: 0.0,
        fbs: 0.0,
        seed: None,
    };
    runs.push(s);
    c.runs = runs;
}

fn gen_pps(p: &mut Prng) -> Option<usize> {
    match p.below(40) {
        0..=23 => None,
        24 | 25 => Some(1),
        26 | 27 => Some(2),
        28..=30 => Some(10),
        31 | 32 => Some(100),
        33 | 34 => Some(5000),
        35 => Some(u32::MAX as usize),
        36 => Some((1usize << 32) + 1),
        37 => Some(3 * (1usize << 32)),
        38 => Some(1usize << 32),
        _ => Some(usize::MAX),
    }
}

/// general case: 0-3 machines per side
pub fn gen_general(p: &mut Prng, id: String) -> SimCase {
    let trace0 = gen_trace(p);
    let trace = decorate(p, trace0);
    let delay_ns = *p.pick(DELAYS);
    let nmc = *p.pick(&[0usize, 1, 1, 1, 2, 3]);
    let nms = *p.pick(&[0usize, 0, 1, 1, 2, 3]);
    let mut mc: Vec<Machine> = (0..nmc).map(|_| gen_sim_machine(p, true)).collect();
    let mut ms: Vec<Machine> = (0..nms).map(|_| gen_sim_machine(p, true)).collect();
    if p.chance(1, 10) {
        mc = t_replace_pair(p);
    }
    if p.chance(1, 12) {
        ms = t_replace_pair(p);
    }
    let mut c = SimCase { id, kind: "general".into(), mc, ms, trace, delay_ns, runs: vec![] };
    let pps = gen_pps(p);
    let main = base_run("main", p, pps);
    if is_special_seed(main.seed) {
        // make the repeat-run comparison meaningful: random sampling on the server (whose seed is derived)
        if p.chance(3, 4) {
            if c.ms.len() >= 3 {
                c.ms.pop();
            }
            c.ms.push(t_random_sampler(p));
        }
        if p.chance(1, 4) && c.mc.len() < 3 {
            c.mc.push(t_random_sampler(p));
        }
    }
    expand_runs(&mut c, main, p);
    c
}

/// no machines at all (C14)
pub fn gen_nomachines(p: &mut Prng, id: String) -> SimCase {
    let trace0 = gen_trace(p);
    let trace = decorate(p, trace0);
    let delay_ns = *p.pick(DELAYS);
    let mut c = SimCase { id, kind: "nomachines".into(), mc: vec![], ms: vec![], trace, delay_ns, runs: vec![] };
    let mut main = base_run("main", p, None);
    main.msi = 0;
    main.mtl = *p.pick(&[0, 0, 0, 1000]);
    expand_runs(&mut c, main, p);
    c
}

/// blocking-heavy cases: several blocking / padding machines on one side (C16)
pub fn gen_blocking(p: &mut Prng, id: String) -> SimCase {
    let trace0 = gen_trace(p);
    let trace = decorate(p, trace0);
    let delay_ns = *p.pick(DELAYS);
    let pick = |p: &mut Prng| match p.below(5) {
        0 | 1 => t_blocking(p),
        2 => t_blocking2(p),
        3 => t_padding(p),
        _ => t_cancel(p),
    };
    let nmc = p.range(1, 3) as usize;
    let nms = p.below(3) as usize;
    let mut mc: Vec<Machine> = (0..nmc).map(|_| pick(p)).collect();
    let mut ms: Vec<Machine> = (0..nms).map(|_| pick(p)).collect();
    if p.chance(1, 3) {
        mc = t_replace_pair(p);
        if p.chance(1, 3) {
            mc.push(pick(p));
        }
    }
    if p.chance(1, 6) {
        ms = t_replace_pair(p);
    }
    let mut c = SimCase { id, kind: "blocking".into(), mc, ms, trace, delay_ns, runs: vec![] };
    let pps = if p.chance(1, 5) { Some(*p.pick(&[2usize, 10, 100])) } else { None };
    let mut main = base_run("main", p, pps);
    main.mtl = 0;
    main.oc = false;
    main.on = false;
    expand_runs(&mut c, main, p);
    c
}

/// timer / cancel heavy cases (C17, C18)
pub fn gen_timers(p: &mut Prng, id: String) -> SimCase {
    let trace0 = gen_trace(p);
    let trace = decorate(p, trace0);
    let delay_ns = *p.pick(DELAYS);
    let pick = |p: &mut Prng| match p.below(5) {
        0 | 1 => t_timer(p),
        2 => t_cancel(p),
        3 => t_padding(p),
        _ => t_counter(p),
    };
    let nmc = p.range(1, 3) as usize;
    let nms = p.below(3) as usize;
    let mc: Vec<Machine> = (0..nmc).map(|_| pick(p)).collect();
    let ms: Vec<Machine> = (0..nms).map(|_| pick(p)).collect();
    let mut c = SimCase { id, kind: "timers".into(), mc, ms, trace, delay_ns, runs: vec![] };
    let mut main = base_run("main", p, None);
    main.mtl = 0;
    main.oc = false;
    main.on = false;
    expand_runs(&mut c, main, p);
    c
}

fn pad_state(bypass: bool, replace: bool, to_us: f64, next: Vec<Trans>) -> State {
    let mut s = State::new(enum_map! { Event::PaddingSent => next.clone(), _ => vec![] });
    s.action = Some(Action::SendPadding { bypass, replace, timeout: konst(to_us), limit: None });
    s
}

/// hand-made situations: same-instant timers on one side and on both sides, replace-UpdateTimer
/// re-issued with the same expiry, overlapping blocks that do not extend, blocking on both sides
/// with different bypass flags
pub fn gen_scenario(p: &mut Prng, id: String) -> SimCase {
    let to = *p.pick(&[0.0, 1.0, 1000.0, 5000.0, 20_000.0]);
    let start = State::new(enum_map! { Event::NormalSent => tr1(1), Event::TunnelRecv => tr1(1), _ => vec![] });
    let mut delay_ns = *p.pick(DELAYS);
    let (mc, ms): (Vec<Machine>, Vec<Machine>) = match p.below(8) {
        6 => {
            // two machines on one side whose internal timers expire at the same instant; the first one's
            // TimerEnd makes it signal, and the other machine reacts to the Signal by cancelling or
            // replacing its own timer at that very instant (its TimerEnd must then not be reported)
            let dur = *p.pick(&[1000.0, 30_000.0]);
            let mut a1 = State::new(enum_map! { Event::TimerEnd => vec![Trans(STATE_SIGNAL, 1.0)], _ => vec![] });
            a1.action = Some(Action::UpdateTimer { replace: false, duration: konst(dur), limit: None });
            let a = plain_machine(vec![start.clone(), a1]);
            let mut b1 = State::new(enum_map! { Event::Signal => tr1(2), Event::TimerEnd => tr1(3), _ => vec![] });
            b1.action = Some(Action::UpdateTimer { replace: false, duration: konst(dur), limit: None });
            let mut b2 = State::new(enum_map! { Event::TimerEnd => tr1(3), _ => vec![] });
            b2.action = Some(if p.chance(1, 2) {
                Action::Cancel { timer: *p.pick(&[Timer::Internal, Timer::All]) }
            } else {
                Action::UpdateTimer { replace: true, duration: konst(dur * 3.0), limit: None }
            });
            let b = plain_machine(vec![start.clone(), b1, b2, pad_state(false, false, to, tr1(0))]);
            let pair = if p.chance(1, 2) { vec![a, b] } else { vec![b, a] };
            if p.chance(1, 2) { (pair, vec![]) } else { (vec![], pair) }
        }
        7 => {
            // the same for action timers: two machines due at the same instant, the first one's PaddingSent
            // makes it signal and the other cancels or re-issues its pending action on the Signal
            let mut a1 = State::new(enum_map! { Event::PaddingSent => vec![Trans(STATE_SIGNAL, 1.0)], _ => vec![] });
            a1.action = Some(Action::SendPadding { bypass: false, replace: false, timeout: konst(to.max(1000.0)), limit: None });
            let a = plain_machine(vec![start.clone(), a1]);
            let mut b1 = State::new(enum_map! { Event::Signal => tr1(2), _ => vec![] });
            b1.action = Some(Action::SendPadding { bypass: false, replace: false, timeout: konst(to.max(1000.0)), limit: None });
            let mut b2 = State::new(enum_map! { _ => vec![] });
            b2.action = Some(if p.chance(1, 2) {
                Action::Cancel { timer: *p.pick(&[Timer::Action, Timer::All]) }
            } else {
                Action::SendPadding { bypass: false, replace: false, timeout: konst(to.max(1000.0) * 2.0), limit: None }
            });
            let b = plain_machine(vec![start.clone(), b1, b2]);
            let pair = if p.chance(1, 2) { vec![a, b] } else { vec![b, a] };
            if p.chance(1, 2) { (pair, vec![]) } else { (vec![], pair) }
        }
        0 => {
            // two (or three) machines on one side whose actions are due at the same instant
            let k = p.range(2, 3) as usize;
            let ms: Vec<Machine> = (0..k)
                .map(|i| plain_machine(vec![start.clone(), pad_state(i % 2 == 0, p.chance(1, 2), to, tr1(0))]))
                .collect();
            if p.chance(1, 2) { (ms, vec![]) } else { (vec![], ms) }
        }
        1 => {
            // two machines on one side whose internal timers expire at the same instant
            let dur = *p.pick(&[0.0, 1000.0, 30_000.0]);
            let mk = |rp: bool| {
                let mut s1 = State::new(enum_map! { Event::TimerEnd => tr1(2), _ => vec![] });
                s1.action = Some(Action::UpdateTimer { replace: rp, duration: konst(dur), limit: None });
                plain_machine(vec![start.clone(), s1, pad_state(false, false, to, tr1(0))])
            };
            (vec![mk(false), mk(true)], vec![])
        }
        2 => {
            // client and server actions due at the same instant (delay 0: the server sees the packet at once)
            delay_ns = 0;
            let c = plain_machine(vec![start.clone(), pad_state(p.chance(1, 2), false, to, tr1(0))]);
            let sv = plain_machine(vec![start.clone(), pad_state(p.chance(1, 2), false, to, tr1(0))]);
            (vec![c], vec![sv])
        }
        3 => {
            // replace=true UpdateTimer re-issued at the same instant with the same expiry
            let dur = *p.pick(&[0.0, 500.0, 10_000.0]);
            let mut s1 = State::new(enum_map! { Event::TimerBegin => tr1(2), Event::TimerEnd => tr1(3), _ => vec![] });
            s1.action = Some(Action::UpdateTimer { replace: true, duration: konst(dur), limit: None });
            let mut s2 = State::new(enum_map! { Event::TimerBegin => tr1(0), Event::TimerEnd => tr1(3), _ => vec![] });
            s2.action = Some(Action::UpdateTimer { replace: true, duration: konst(dur), limit: None });
            let m = plain_machine(vec![start.clone(), s1, s2, pad_state(false, false, to, tr1(0))]);
            if p.chance(1, 2) { (vec![m], vec![]) } else { (vec![], vec![m]) }
        }
        4 => {
            // overlapping blocks from two machines where the second does not extend the first
            let long = *p.pick(&[50_000.0, 300_000.0]);
            let short = *p.pick(&[0.0, 1000.0, 10_000.0]);
            let b1 = p.chance(1, 2);
            let mut a1 = State::new(enum_map! { Event::BlockingEnd => tr1(0), _ => vec![] });
            a1.action = Some(Action::BlockOutgoing { bypass: b1, replace: false, timeout: konst(0.0), duration: konst(long), limit: None });
            let a = plain_machine(vec![start.clone(), a1]);
            let b0 = State::new(enum_map! { Event::BlockingBegin => tr1(1), _ => vec![] });
            let mut bb1 = State::new(enum_map! { Event::BlockingBegin => tr1(2), Event::BlockingEnd => tr1(0), _ => vec![] });
            bb1.action = Some(Action::BlockOutgoing { bypass: !b1, replace: false, timeout: konst(to), duration: konst(short), limit: None });
            let b = plain_machine(vec![b0, bb1, pad_state(true, p.chance(1, 2), 2000.0, vec![Trans(2, 0.5), Trans(0, 0.5)])]);
            if p.chance(1, 2) { (vec![a, b], vec![]) } else { (vec![], vec![a, b]) }
        }
        _ => {
            // blocking on both sides with different bypass flags, bypass padding on both sides
            let mk = |bypass: bool| {
                let mut s1 = State::new(enum_map! { Event::BlockingBegin => tr1(2), _ => vec![] });
                s1.action = Some(Action::BlockOutgoing { bypass, replace: false, timeout: konst(0.0), duration: konst(100_000.0), limit: None });
                plain_machine(vec![start.clone(), s1, pad_state(true, false, 3000.0, vec![Trans(2, 0.75)])])
            };
            (vec![mk(true)], vec![mk(false)])
        }
    };
    let trace0 = if p.chance(1, 4) { gen_const_rate_trace(p) } else { gen_trace(p) };
    let trace = decorate(p, trace0);
    let mut c = SimCase { id, kind: "scenario".into(), mc, ms, trace, delay_ns, runs: vec![] };
    let mut main = base_run("main", p, None);
    main.fpc = 0.0;
    main.fbc = 0.0;
    main.fps = 0.0;
    main.fbs = 0.0;
    expand_runs(&mut c, main, p);
    c
}

/// sizes past every plausible index width or preallocated capacity: many machines on a side (9, 17, 33,
/// 65, 70) or a long trace (1100 .. 4500 packets: more than the queues' initial capacities of 1024 / 4096
/// and the bottleneck window's 512)
pub fn gen_big(p: &mut Prng, id: String) -> SimCase {
    let long = p.chance(1, 2);
    let (trace0, nmc, nms) = if long {
        let n = *p.pick(&[1100u64, 2100, 4500]);
        let mut t: u64 = 0;
        let mut out = Vec::new();
        let mut dir = true;
        for _ in 0..n {
            t += *p.pick(&[0u64, 100, 1000, 50_000, 2_000_000]);
            if p.chance(1, 3) {
                dir = !dir;
            }
            out.push((t, dir));
        }
        if n > 4096 { (out, 0, 0) } else { (out, *p.pick(&[0usize, 0, 1]), *p.pick(&[0usize, 1])) }
    } else {
        let big = *p.pick(&[9usize, 17, 33, 65, 70]);
        if p.chance(1, 2) { (gen_trace(p), big, *p.pick(&[0usize, 1, 9])) } else { (gen_trace(p), *p.pick(&[0usize, 1]), big) }
    };
    let trace = decorate(p, trace0);
    let delay_ns = *p.pick(DELAYS);
    // half of the many-machine cases: copies of ONE machine per side, so that every machine acts, arms its
    // timer and fires at the same instants (index aliasing and fixed-size scratch buffers show at once)
    let variant = if long { 0 } else { p.below(3) };
    let same = variant == 1;
    let (mc, ms): (Vec<Machine>, Vec<Machine>) = if variant == 2 {
        // two different busy machines at indices 32 or 64 apart on the big side, the others inert
        use enum_map::enum_map;
        let inert = Machine::new(0, 0.0, 0, 0.0, vec![maybenot::state::State::new(enum_map! { _ => vec![] })]).expect("inert");
        let side = |p: &mut Prng, n: usize| -> Vec<Machine> {
            let mut v: Vec<Machine> = (0..n).map(|_| inert.clone()).collect();
            if n > 64 {
                let i = p.below((n - 64) as u64) as usize;
                v[i] = gen_sim_machine(p, true);
                v[i + 64] = gen_sim_machine(p, true);
            } else if n > 32 {
                let i = p.below((n - 32) as u64) as usize;
                v[i] = gen_sim_machine(p, true);
                v[i + 32] = gen_sim_machine(p, true);
            } else if n > 8 {
                let i = p.below((n - 8) as u64) as usize;
                v[i] = gen_sim_machine(p, true);
                v[i + 8] = gen_sim_machine(p, true);
            } else if n > 0 {
                v[n - 1] = gen_sim_machine(p, true);
            }
            v
        };
        (side(p, nmc), side(p, nms))
    } else if same {
        let a = gen_sim_machine(p, true);
        let b = gen_sim_machine(p, true);
        ((0..nmc).map(|_| a.clone()).collect(), (0..nms).map(|_| b.clone()).collect())
    } else {
        ((0..nmc).map(|_| gen_sim_machine(p, true)).collect(), (0..nms).map(|_| gen_sim_machine(p, true)).collect())
    };
    let mut c = SimCase { id, kind: "big".into(), mc, ms, trace, delay_ns, runs: vec![] };
    let mut main = base_run("main", p, None);
    if long {
        main.msi = if nmc + nms == 0 { 0 } else { 8000 };
        main.mtl = 0;
    }
    expand_runs(&mut c, main, p);
    c
}

/// a crowd: 33 to 70 copies of ONE template machine (padding, blocking, timer or cancel) on one side, so
/// that more than 32 (and more than 64) machines act, arm timers and fire on the same event at the same
/// instants; the other side has none or one machine
pub fn gen_crowd(p: &mut Prng, id: String) -> SimCase {
    let n = *p.pick(&[33usize, 40, 65, 70]);
    let one = match p.below(5) {
        0 | 1 => t_padding(p),
        2 => t_blocking(p),
        3 => t_timer(p),
        _ => t_cancel(p),
    };
    let crowd: Vec<Machine> = (0..n).map(|_| one.clone()).collect();
    let other: Vec<Machine> = if p.chance(1, 2) { vec![] } else { vec![gen_sim_machine(p, false)] };
    let (mc, ms) = if p.chance(2, 3) { (crowd, other) } else { (other, crowd) };
    let trace0 = gen_trace(p);
    let trace = decorate(p, trace0);
    let delay_ns = *p.pick(DELAYS);
    let mut c = SimCase { id, kind: "crowd".into(), mc, ms, trace, delay_ns, runs: vec![] };
    let mut main = base_run("main", p, None);
    main.msi = 600;
    main.mtl = 0;
    expand_runs(&mut c, main, p);
    c
}

pub fn gen_kind(kind: &str, p: &mut Prng, id: String) -> Option<SimCase> {
    Some(match kind {
        "general" => gen_general(p, id),
        "nomachines" => gen_nomachines(p, id),
        "blocking" => gen_blocking(p, id),
        "timers" => gen_timers(p, id),
        "scenario" => gen_scenario(p, id),
        "big" => gen_big(p, id),
        "crowd" => gen_crowd(p, id),
        _ => return None,
    })
}

/* ---------------- probes (DESIGN section 9) ---------------- */

fn probe_run(pps: Option<usize>) -> RunSpec {
    RunSpec { name: "u".into(), adv: true, pps, mtl: 0, msi: 200, cont: false, oc: false, on: false, fpc: 0.0, fbc: 0.0, fps: 0.0, fbs: 0.0, seed: Some(1) }
}

fn plain_machine(states: Vec<State>) -> Machine {
    Machine { allowed_padding_packets: 0, max_padding_frac: 0.0, allowed_blocked_microsec: 0, max_blocking_frac: 0.0, states }
}

/// Minimal hand-made cases for the deviations found while designing (F5, F7, F10, F11).
pub fn probes() -> Vec<SimCase> {
    let mut res = Vec::new();
    // F5 (fixed in /repo, regression case): pps = 2^32 used to truncate to 0 in `window / pps as u32`
    res.push(SimCase { id: "probe-F5-pps-2pow32".into(), kind: "probe".into(), mc: vec![], ms: vec![], trace: plain(vec![(0, true)]), delay_ns: 0, runs: vec![probe_run(Some(1usize << 32))] });
    // F7: non-bypass block extended by a bypass block, then bypass padding
    {
        let s0 = State::new(enum_map! { Event::NormalSent => tr1(1), _ => vec![] });
        let mut s1 = State::new(enum_map! { Event::BlockingBegin => tr1(2), _ => vec![] });
        s1.action = Some(Action::BlockOutgoing { bypass: false, replace: false, timeout: konst(0.0), duration: konst(10_000.0), limit: None });
        let mut s2 = State::new(enum_map! { Event::BlockingBegin => tr1(3), _ => vec![] });
        s2.action = Some(Action::BlockOutgoing { bypass: true, replace: false, timeout: konst(0.0), duration: konst(20_000.0), limit: None });
        let mut s3 = State::new(enum_map! { _ => vec![] });
        s3.action = Some(Action::SendPadding { bypass: true, replace: false, timeout: konst(1000.0), limit: None });
        res.push(SimCase { id: "probe-F7-bypass-extension".into(), kind: "probe".into(), mc: vec![plain_machine(vec![s0, s1, s2, s3])], ms: vec![], trace: plain(vec![(0, true), (50_000_000, true)]), delay_ns: 1_000_000, runs: vec![probe_run(None)] });
    }
    // F10 (fixed in /repo, regression case): UpdateTimer with duration 0, no timer running, no replace
    {
        let s0 = State::new(enum_map! { Event::NormalSent => tr1(1), _ => vec![] });
        let mut s1 = State::new(enum_map! { _ => vec![] });
        s1.action = Some(Action::UpdateTimer { replace: false, duration: konst(0.0), limit: None });
        res.push(SimCase { id: "probe-F10-timer-zero".into(), kind: "probe".into(), mc: vec![plain_machine(vec![s0, s1])], ms: vec![], trace: plain(vec![(0, true), (5_000_000, true)]), delay_ns: 1_000_000, runs: vec![probe_run(None)] });
    }
    // S1: a BlockOutgoing selected by pick_next is executed at selection time, before it is due:
    // the blocking expiry / bypass flag change early, and a newer action does not supersede it
    {
        let a0 = State::new(enum_map! { Event::NormalSent => tr1(1), _ => vec![] });
        let mut a1 = State::new(enum_map! { _ => vec![] });
        a1.action = Some(Action::BlockOutgoing { bypass: false, replace: false, timeout: konst(0.0), duration: konst(100_000.0), limit: None });
        let b0 = State::new(enum_map! { Event::NormalSent => tr1(1), _ => vec![] });
        let mut b1 = State::new(enum_map! { _ => vec![] });
        b1.action = Some(Action::SendPadding { bypass: true, replace: false, timeout: konst(10_000.0), limit: None });
        let c0 = State::new(enum_map! { Event::NormalSent => tr1(1), _ => vec![] });
        let blk = Action::BlockOutgoing { bypass: true, replace: true, timeout: konst(50_000.0), duration: konst(1_000.0), limit: None };
        let mut c1 = State::new(enum_map! { Event::TunnelSent => tr1(2), _ => vec![] });
        c1.action = Some(blk.clone());
        let mut c2 = State::new(enum_map! { Event::TunnelSent => tr1(1), _ => vec![] });
        c2.action = Some(blk);
        res.push(SimCase {
            id: "probe-S1-early-block-execution".into(),
            kind: "probe".into(),
            mc: vec![plain_machine(vec![a0, a1]), plain_machine(vec![b0, b1]), plain_machine(vec![c0, c1, c2])],
            ms: vec![],
            trace: plain(vec![(0, true), (200_000_000, true)]),
            delay_ns: 1_000_000,
            runs: vec![probe_run(None)],
        });
    }
    // regression: seed u64::MAX (the server's derived seed wraps to 0) with a server machine that samples a wide
    // Uniform padding timeout: two runs must be identical
    {
        let s0 = State::new(enum_map! { Event::NormalSent => tr1(1), Event::NormalRecv => tr1(1), _ => vec![] });
        let mut s1 = State::new(enum_map! { Event::PaddingSent => vec![Trans(1, 0.5), Trans(0, 0.5)], Event::NormalSent => tr1(1), _ => vec![] });
        s1.action = Some(Action::SendPadding {
            bypass: false,
            replace: false,
            timeout: Dist { dist: DistType::Uniform { low: 0.0, high: 1_000_000.0 }, start: 0.0, max: 0.0 },
            limit: None,
        });
        let mut run = probe_run(None);
        run.name = "main".into();
        run.seed = Some(u64::MAX);
        run.cont = true;
        run.msi = 120;
        let mut det = run.clone();
        det.name = "det".into();
        res.push(SimCase {
            id: "probe-seed-max-server-random".into(),
            kind: "probe".into(),
            mc: vec![],
            ms: vec![plain_machine(vec![s0, s1])],
            trace: plain(vec![(0, true), (1_000_000, false), (40_000_000, false), (90_000_000, true), (500_000_000, false)]),
            delay_ns: 1_000_000,
            runs: vec![run, det],
        });
    }
    // F11: BlockOutgoing with duration 0 (no blocking active), without and with replace
    for (replace, id) in [(false, "probe-F11-block-zero"), (true, "probe-F11b-block-zero-replace")] {
        let s0 = State::new(enum_map! { Event::NormalSent => tr1(1), _ => vec![] });
        let mut s1 = State::new(enum_map! { _ => vec![] });
        s1.action = Some(Action::BlockOutgoing { bypass: false, replace, timeout: konst(0.0), duration: konst(0.0), limit: None });
        res.push(SimCase { id: id.into(), kind: "probe".into(), mc: vec![plain_machine(vec![s0, s1])], ms: vec![], trace: plain(vec![(0, true), (5_000_000, true)]), delay_ns: 1_000_000, runs: vec![probe_run(None)] });
    }
    res
}

/// input-only text of a case (what `sim-replay` reads)
pub fn case_inputs(c: &SimCase) -> String {
    let mut out = String::new();
    let _ = writeln!(out, "case {} {}", c.id, c.kind);
    for m in &c.mc {
        let _ = writeln!(out, "mc {}", hex(&genm::machine_bytes(m)));
    }
    for m in &c.ms {
        let _ = writeln!(out, "ms {}", hex(&genm::machine_bytes(m)));
    }
    let tr: Vec<String> = c.trace.iter().map(tline_str).collect();
    let _ = writeln!(out, "tr {} {}", c.trace.len(), tr.join(" "));
    let _ = writeln!(out, "delay {}", c.delay_ns);
    for r in &c.runs {
        fmt_run_line(&mut out, r);
    }
    let _ = writeln!(out, "end");
    out
}

/* ---------------- replay ---------------- */

fn parse_f64_bits(s: &str) -> f64 {
    f64::from_bits(u64::from_str_radix(s, 16).unwrap_or(0))
}

/// Parse the input lines of a protocol file (ignoring `o` and `orc` lines) back into cases.
pub fn parse_cases(text: &str) -> Vec<SimCase> {
    use bincode::Options;
    let mut res = Vec::new();
    let mut cur: Option<SimCase> = None;
    for line in text.lines() {
        let ws: Vec<&str> = line.split_whitespace().collect();
        match ws.as_slice() {
            ["case", id, kind @ ..] => {
                cur = Some(SimCase { id: id.to_string(), kind: kind.join(" "), mc: vec![], ms: vec![], trace: plain(vec![]), delay_ns: 0, runs: vec![] });
            }
            [side @ ("mc" | "ms"), h] => {
                if let (Some(c), Some(b)) = (cur.as_mut(), unhex(h)) {
                    if let Ok(m) = bincode::DefaultOptions::new().deserialize::<Machine>(&b) {
                        if *side == "mc" {
                            c.mc.push(m)
                        } else {
                            c.ms.push(m)
                        }
                    }
                }
            }
            ["tr", _n, items @ ..] => {
                if let Some(c) = cur.as_mut() {
                    for it in items {
                        if let Some((t, d)) = it.split_once(':') {
                            let (d, size) = match d.strip_suffix('+') {
                                Some(x) => (x, true),
                                None => (d, false),
                            };
                            if let (Ok(t), Some(tok)) = (t.parse::<u64>(), TOKS.iter().position(|x| *x == d)) {
                                c.trace.push(TLine { t, tok: tok as u8, size });
                            }
                        }
                    }
                }
            }
            ["delay", d] => {
                if let Some(c) = cur.as_mut() {
                    c.delay_ns = d.parse().unwrap_or(0);
                }
            }
            ["run", name, api, pps, mtl, msi, cont, oc, on, fpc, fbc, fps, fbs, seed] => {
                if let Some(c) = cur.as_mut() {
                    c.runs.push(RunSpec {
                        name: name.to_string(),
                        adv: *api == "adv",
                        pps: pps.parse().ok(),
                        mtl: mtl.parse().unwrap_or(0),
                        msi: msi.parse().unwrap_or(0),
                        cont: *cont == "1",
                        oc: *oc == "1",
                        on: *on == "1",
                        fpc: parse_f64_bits(fpc),
                        fbc: parse_f64_bits(fbc),
                        fps: parse_f64_bits(fps),
                        fbs: parse_f64_bits(fbs),
                        seed: seed.parse().ok(),
                    });
                }
            }
            ["end"] => {
                if let Some(c) = cur.take() {
                    res.push(c);
                }
            }
            _ => {}
        }
    }
    res
}

/// A replayed run without any bound could hang the harness: give unbounded runs of cases with
/// machines the probe's iteration cap unless the probe shows that the run ends on its own.
fn make_safe(c: &mut SimCase) {
    let no_machines = c.mc.is_empty() && c.ms.is_empty();
    if no_machines {
        return;
    }
    for i in 0..c.runs.len() {
        let r = c.runs[i].clone();
        let bounded = r.msi > 0 || (r.mtl > 0 && !r.on && !r.oc);
        if bounded {
            continue;
        }
        if !r.adv || r.seed.is_none() {
            // random source not reproducible: cannot probe
            c.runs[i].mtl = if r.mtl > 0 { r.mtl } else { PROBE_ITERS };
            c.runs[i].on = false;
            c.runs[i].oc = false;
            continue;
        }
        let mut probe = r.clone();
        probe.mtl = 0;
        probe.oc = false;
        probe.on = false;
        probe.msi = PROBE_ITERS;
        let ok = match run_once(c, &probe).res {
            Ok(evs) => evs.len() < PROBE_ITERS,
            Err(_) => true,
        };
        if !ok {
            c.runs[i].msi = PROBE_ITERS;
        }
    }
}

/// Returns false if `sub` is not a command of this module.
pub fn cmd(sub: &str, args: &[String], w: &mut dyn Write) -> bool {
    match sub {
        "sim-gen" => {
            let seed: u64 = crate::arg_val(args, "--seed").and_then(|s| s.parse().ok()).unwrap_or(1);
            let cases: u64 = crate::arg_val(args, "--cases").and_then(|s| s.parse().ok()).unwrap_or(100);
            let kind = crate::arg_val(args, "--kind").unwrap_or_else(|| "general".into());
            let mut h: u64 = 0xcbf29ce484222325;
            for b in kind.bytes() {
                h ^= b as u64;
                h = h.wrapping_mul(0x100000001b3);
            }
            let mut p = Prng::new(seed ^ h ^ 0x5151);
            for i in 0..cases {
                let mut cp = p.fork();
                let id = format!("sim-{}-{}-{}", kind, seed, i);
                match gen_kind(&kind, &mut cp, id) {
                    Some(c) => {
                        let _ = w.write_all(run_case(&c).as_bytes());
                        if TIMED_OUT.load(std::sync::atomic::Ordering::SeqCst) {
                            // a simulator call is still spinning: stop here, the case above reports it
                            let _ = w.flush();
                            std::process::exit(0);
                        }
                    }
                    None => {
                        eprintln!("unknown sim kind {kind}");
                        std::process::exit(2);
                    }
                }
            }
            true
        }
        "sim-probes" => {
            // input-only case files of the hand-made probes; with `--run` also run them
            let run = args.iter().any(|a| a == "--run");
            for c in probes() {
                let text = if run { run_case(&c) } else { case_inputs(&c) };
                let _ = w.write_all(text.as_bytes());
            }
            true
        }
        "sim-replay" => {
            let mut text = String::new();
            let _ = std::io::Read::read_to_string(&mut std::io::stdin(), &mut text);
            for mut c in parse_cases(&text) {
                make_safe(&mut c);
                let _ = w.write_all(run_case(&c).as_bytes());
                if TIMED_OUT.load(std::sync::atomic::Ordering::SeqCst) {
                    let _ = w.flush();
                    std::process::exit(0);
                }
            }
            true
        }
        _ => false,
    }
}
