//! Counting global allocator: current and peak live heap bytes of the whole process.
//! Used by `codec-*` (peak allocation during `from_str` on compression bombs) and available to
//! the other modules through `crate::codec::alloc`.

use std::alloc::{GlobalAlloc, Layout, System};
use std::sync::atomic::{AtomicUsize, Ordering};

pub struct Counting;

static CURRENT: AtomicUsize = AtomicUsize::new(0);
static PEAK: AtomicUsize = AtomicUsize::new(0);
static ALLOCS: AtomicUsize = AtomicUsize::new(0);

#[inline]
fn add(n: usize) {
    let cur = CURRENT.fetch_add(n, Ordering::Relaxed) + n;
    PEAK.fetch_max(cur, Ordering::Relaxed);
    ALLOCS.fetch_add(1, Ordering::Relaxed);
}

unsafe impl GlobalAlloc for Counting {
    unsafe fn alloc(&self, l: Layout) -> *mut u8 {
        let p = System.alloc(l);
        if !p.is_null() {
            add(l.size());
        }
        p
    }
    unsafe fn alloc_zeroed(&self, l: Layout) -> *mut u8 {
        let p = System.alloc_zeroed(l);
        if !p.is_null() {
            add(l.size());
        }
        p
    }
    unsafe fn dealloc(&self, p: *mut u8, l: Layout) {
        System.dealloc(p, l);
        CURRENT.fetch_sub(l.size(), Ordering::Relaxed);
    }
    unsafe fn realloc(&self, p: *mut u8, l: Layout, new_size: usize) -> *mut u8 {
        let q = System.realloc(p, l, new_size);
        if !q.is_null() {
            if new_size >= l.size() {
                add(new_size - l.size());
            } else {
                CURRENT.fetch_sub(l.size() - new_size, Ordering::Relaxed);
            }
        }
        q
    }
}

#[global_allocator]
static GLOBAL: Counting = Counting;

/// live heap bytes right now
pub fn current() -> usize {
    CURRENT.load(Ordering::Relaxed)
}

/// set the peak to the current level; returns that level
pub fn reset_peak() -> usize {
    let c = current();
    PEAK.store(c, Ordering::Relaxed);
    c
}

/// highest live level since the last `reset_peak`
pub fn peak() -> usize {
    PEAK.load(Ordering::Relaxed)
}

/// number of allocation calls so far
#[allow(dead_code)]
pub fn allocs() -> usize {
    ALLOCS.load(Ordering::Relaxed)
}
