//! Generators for machines (valid by construction unless asked otherwise).

use crate::util::Prng;
use enum_map::enum_map;
use maybenot::action::Action;
use maybenot::constants::{STATE_END, STATE_SIGNAL};
use maybenot::counter::{Counter, Operation};
use maybenot::dist::{Dist, DistType};
use maybenot::event::Event;
use maybenot::state::{State, Trans};
use maybenot::{Machine, Timer};

#[derive(Clone, Copy, PartialEq, Eq, Debug)]
pub enum DistMode {
    /// only `Uniform { low == high }`
    Const,
    /// constants and proper uniform ranges
    Uniform,
    /// all eleven families
    All,
}

#[derive(Clone, Debug)]
pub struct GenCfg {
    pub max_states: usize,
    pub allow_signal: bool,
    pub allow_end: bool,
    /// only probability-1 transitions
    pub prob_one: bool,
    pub dist: DistMode,
    /// probability (out of 100) that an event gets a transition vector
    pub density: u64,
    pub counters: bool,
    pub limits: bool,
    pub budgets: bool,
    /// restrict to these action kinds: 0 cancel, 1 padding, 2 blocking, 3 timer (empty = all)
    pub kinds: Vec<u8>,
}

impl Default for GenCfg {
    fn default() -> Self {
        GenCfg {
            max_states: 5,
            allow_signal: true,
            allow_end: true,
            prob_one: false,
            dist: DistMode::All,
            density: 40,
            counters: true,
            limits: true,
            budgets: true,
            kinds: vec![],
        }
    }
}

const CONSTS: &[f64] = &[
    0.0, 0.0, 1.0, 1.0, 2.0, 3.0, 10.0, 1000.0, 1e6, 1e11, 0.4, 0.5, 1.5, 2.5, 86_400_000_000.0, 86_400_000_000.4,
    86_400_000_000.5, 1.8446744073709552e19, 1e30, f64::MAX, 5e-324, -1.0, -0.5,
];

pub fn gen_dist(p: &mut Prng, mode: DistMode, small: bool) -> Dist {
    let start = *p.pick(&[0.0, 0.0, 0.0, 0.0, 1.0, -2.0, 0.5, 1e6]);
    // a maximum of its own above the 24 h cap must not lift that cap (seeded change C04-a)
    let max = *p.pick(&[0.0, 0.0, 0.0, 0.0, 5.0, 1000.0, 0.3, 6.048e11, 1e15]);
    let konst = |p: &mut Prng| {
        let v = if small { *p.pick(&[0.0, 1.0, 1.0, 2.0, 3.0, 0.4, 0.5, 1.5, 2.5, 10.0]) } else { *p.pick(CONSTS) };
        DistType::Uniform { low: v, high: v }
    };
    let dist = match mode {
        DistMode::Const => konst(p),
        DistMode::Uniform => {
            if p.chance(1, 2) {
                konst(p)
            } else {
                let (lo, hi) = *p.pick(&[(0.0, 10.0), (1.0, 3.0), (0.0, 1e6), (-5.0, 5.0), (0.0, 1.0), (0.0, 4.0), (1e10, 1e12), (-0.0, 0.0), (0.0, -0.0)]);
                DistType::Uniform { low: lo, high: hi }
            }
        }
        DistMode::All => match p.below(16) {
            0..=4 => konst(p),
            5 => {
                let (lo, hi) = *p.pick(&[(0.0, 10.0), (1.0, 3.0), (0.0, 1e6), (-5.0, 5.0), (0.0, 4.0), (1e10, 1e12), (-0.0, 0.0), (0.0, -0.0)]);
                DistType::Uniform { low: lo, high: hi }
            }
            6 => DistType::Normal { mean: *p.pick(&[0.0, 10.0, 1e5]), stdev: *p.pick(&[0.0, 3.0, 1e4]) },
            7 => DistType::SkewNormal { location: 5.0, scale: *p.pick(&[1.0, 100.0]), shape: *p.pick(&[-3.0, 0.0, 4.0]) },
            8 => DistType::LogNormal { mu: *p.pick(&[0.0, 2.0, 20.0]), sigma: *p.pick(&[0.0, 1.0, 5.0]) },
            9 => DistType::Binomial { trials: *p.pick(&[0, 1, 10, 1000]), probability: *p.pick(&[0.0, 0.5, 1.0, 1e-9]) },
            10 => DistType::Geometric { probability: *p.pick(&[1.0, 0.3, 1e-3]) },
            11 => DistType::Pareto { scale: *p.pick(&[1.0, 100.0]), shape: *p.pick(&[0.5, 2.0]) },
            12 => DistType::Poisson { lambda: *p.pick(&[0.5, 4.0, 1e3]) },
            13 => DistType::Weibull { scale: *p.pick(&[1.0, 1e4]), shape: *p.pick(&[0.5, 1.5]) },
            14 => DistType::Gamma { scale: *p.pick(&[1.0, 2.0]), shape: *p.pick(&[0.5, 1.0, 2.0]) },
            _ => DistType::Beta { alpha: *p.pick(&[0.5, 2.0]), beta: *p.pick(&[0.5, 3.0]) },
        },
    };
    let mut d = Dist { dist, start, max };
    if mode == DistMode::Const && p.chance(3, 4) {
        d.start = 0.0;
        d.max = 0.0;
    }
    if d.validate().is_err() {
        d = Dist { dist: DistType::Uniform { low: 1.0, high: 1.0 }, start: 0.0, max: 0.0 };
    }
    d
}

pub fn gen_limit(p: &mut Prng, mode: DistMode) -> Option<Dist> {
    if p.chance(1, 2) {
        return None;
    }
    let v = *p.pick(&[0.0, 1.0, 1.0, 2.0, 2.0, 3.0, 0.4, 0.5, 1.5]);
    if mode != DistMode::Const && p.chance(1, 4) {
        return Some(Dist { dist: DistType::Uniform { low: 0.0, high: 3.0 }, start: 0.0, max: 0.0 });
    }
    Some(Dist { dist: DistType::Uniform { low: v, high: v }, start: 0.0, max: 0.0 })
}

pub fn gen_action(p: &mut Prng, cfg: &GenCfg) -> Option<Action> {
    if p.chance(1, 6) {
        return None;
    }
    let kind = if cfg.kinds.is_empty() { p.below(4) as u8 } else { *p.pick(&cfg.kinds) };
    let small = p.chance(3, 4);
    let limit = if cfg.limits { gen_limit(p, cfg.dist) } else { None };
    Some(match kind {
        0 => Action::Cancel { timer: *p.pick(&[Timer::Action, Timer::Internal, Timer::All]) },
        1 => Action::SendPadding {
            bypass: p.chance(1, 2),
            replace: p.chance(1, 2),
            timeout: gen_dist(p, cfg.dist, small),
            limit,
        },
        2 => Action::BlockOutgoing {
            bypass: p.chance(1, 2),
            replace: p.chance(1, 2),
            timeout: gen_dist(p, cfg.dist, small),
            duration: gen_dist(p, cfg.dist, small),
            limit,
        },
        _ => Action::UpdateTimer { replace: p.chance(1, 2), duration: gen_dist(p, cfg.dist, small), limit },
    })
}

pub fn gen_counter(p: &mut Prng, cfg: &GenCfg) -> Option<Counter> {
    if !cfg.counters || p.chance(1, 2) {
        return None;
    }
    let op = *p.pick(&[Operation::Increment, Operation::Decrement, Operation::Set]);
    Some(match p.below(4) {
        0 => Counter::new(op),
        1 => Counter::new_copy(op),
        _ => {
            let v = *p.pick(&[0.0, 1.0, 1.0, 2.0, 3.0, 0.9, 1.8446744073709552e19, 9.223372036854775e18, 1.8446744073709550e19]);
            let d = if cfg.dist != DistMode::Const && p.chance(1, 4) {
                Dist { dist: DistType::Uniform { low: 0.0, high: 3.0 }, start: 0.0, max: 0.0 }
            } else {
                Dist { dist: DistType::Uniform { low: v, high: v }, start: 0.0, max: 0.0 }
            };
            Counter::new_dist(op, d)
        }
    })
}

const EVENTS: [Event; 13] = [
    Event::NormalRecv,
    Event::PaddingRecv,
    Event::TunnelRecv,
    Event::NormalSent,
    Event::PaddingSent,
    Event::TunnelSent,
    Event::BlockingBegin,
    Event::BlockingEnd,
    Event::LimitReached,
    Event::CounterZero,
    Event::TimerBegin,
    Event::TimerEnd,
    Event::Signal,
];

pub fn gen_probs(p: &mut Prng, k: usize, prob_one: bool) -> Vec<f32> {
    if prob_one {
        return vec![1.0];
    }
    let pats: &[&[f32]] = match k {
        1 => &[&[1.0], &[1.0], &[0.5], &[0.3], &[1.1920929e-7], &[0.99999994], &[1e-9], &[0.75]],
        2 => &[&[0.5, 0.5], &[0.5, 0.25], &[0.3, 0.3], &[1.1920929e-7, 0.5], &[0.99999994, 5.9604645e-8], &[0.7, 0.3], &[0.1, 0.2]],
        _ => &[&[0.3, 0.3, 0.3], &[0.25, 0.25, 0.5], &[0.5, 0.25, 0.125], &[0.1, 0.2, 0.3], &[0.33333334, 0.33333334, 0.33333334]],
    };
    p.pick(pats).to_vec()
}

pub fn gen_machine(p: &mut Prng, cfg: &GenCfg) -> Machine {
    let n = p.range(1, cfg.max_states as u64) as usize;
    let mut states = Vec::with_capacity(n);
    for _ in 0..n {
        let mut t = enum_map! { _ => vec![] };
        for e in EVENTS.iter() {
            let boost = matches!(e, Event::NormalSent | Event::NormalRecv | Event::PaddingSent | Event::CounterZero | Event::LimitReached | Event::Signal | Event::BlockingBegin | Event::TimerBegin);
            let dens = if boost { cfg.density + 15 } else { cfg.density };
            if !p.chance(dens, 100) {
                continue;
            }
            let mut targets: Vec<usize> = (0..n).collect();
            if cfg.allow_end && p.chance(1, 5) {
                targets.push(STATE_END);
            }
            if cfg.allow_signal && p.chance(1, 3) {
                targets.push(STATE_SIGNAL);
            }
            // shuffle
            for i in (1..targets.len()).rev() {
                let j = p.below(i as u64 + 1) as usize;
                targets.swap(i, j);
            }
            let mut k = if cfg.prob_one { 1 } else { (p.range(1, 3) as usize).min(targets.len()) };
            // now and then a list with as many entries as there are targets (up to 8: states + END + SIGNAL)
            let long_list = !cfg.prob_one && targets.len() >= 5 && p.chance(1, 10);
            if long_list {
                k = targets.len().min(8);
            }
            let probs = if long_list { vec![0.125f32; k] } else { gen_probs(p, k, cfg.prob_one) };
            let mut v: Vec<Trans> = targets.iter().zip(probs.iter()).map(|(t, pr)| Trans(*t, *pr)).collect();
            let mut sum: f32 = 0.0;
            for x in v.iter() {
                sum += x.1;
            }
            if !(sum > 0.0 && sum <= 1.0) {
                v = vec![Trans(targets[0], 1.0)];
            }
            t[*e] = v;
        }
        let mut s = State::new(t);
        s.action = gen_action(p, cfg);
        s.counter = (gen_counter(p, cfg), gen_counter(p, cfg));
        states.push(s);
    }
    let (app, mpf, abm, mbf) = if cfg.budgets {
        (
            *p.pick(&[0u64, 0, 1, 3, 1000]),
            *p.pick(&[0.0, 0.0, 0.5, 1.0, 0.1, 1e-9, 0.3333333333333333, f64::MIN_POSITIVE, f64::EPSILON, 5e-324, -0.0, 0.9999999999999999]),
            *p.pick(&[0u64, 0, 10, 1000, 1_000_000]),
            *p.pick(&[0.0, 0.0, 0.5, 1.0, 0.01, 0.25, f64::MIN_POSITIVE, f64::EPSILON, 5e-324, 1e-300, -0.0, 0.9999999999999999]),
        )
    } else {
        (0, 0.0, 0, 0.0)
    };
    let m = Machine {
        allowed_padding_packets: app,
        max_padding_frac: mpf,
        allowed_blocked_microsec: abm,
        max_blocking_frac: mbf,
        states,
    };
    if let Err(e) = m.validate() {
        panic!("generator produced an invalid machine: {e}");
    }
    m
}

pub fn machine_bytes(m: &Machine) -> Vec<u8> {
    use bincode::Options;
    bincode::DefaultOptions::new().serialize(m).expect("bincode")
}
