//! Virtual clock: a signed nanosecond count. Durations are real `std::time::Duration`,
//! so the repository's own `div_duration_f64` stays in the loop.

use std::time::Duration;

#[derive(Clone, Copy, Debug, PartialEq, Eq, PartialOrd, Ord)]
pub struct VInstant(pub i128);

impl maybenot::time::Instant for VInstant {
    type Duration = Duration;

    fn saturating_duration_since(&self, earlier: Self) -> Duration {
        if self.0 <= earlier.0 {
            return Duration::ZERO;
        }
        let d = (self.0 - earlier.0) as u128;
        let secs = d / 1_000_000_000;
        if secs > u64::MAX as u128 {
            return Duration::MAX;
        }
        Duration::new(secs as u64, (d % 1_000_000_000) as u32)
    }
}
