//! `codec-*` harness commands (property C11): machine strings round-trip, hostile strings are
//! rejected safely, for `Machine::from_str` / `Machine::serialize` and the legacy
//! `parsing::parse_v1_machine`.
//!
//!   mbharness codec-gen --kind valid|hostile|v1|bomb --seed N --cases N [--max-states K]
//!   mbharness codec-replay            (case inputs on stdin: `case <id> <kind..>` + `m <hex>` / `s <hex>`)
//!   mbharness codec-probe-state       (parse_state with an overflowing num_states)
//!
//! Every case block carries the *input* (`m` = bincode of the machine for `valid`, `s` = the
//! bytes of the string for the others) and what the real code did with it, including the
//! intermediate stages of a replica of the `from_str` pipeline (same crates, same calls), so that
//! the Lean model needs no inflate of its own.

#[path = "alloc.rs"]
pub mod alloc;

use crate::util::{hex, unhex, Prng};
use base64::prelude::*;
use bincode::Options;
use enum_map::enum_map;
use flate2::read::ZlibDecoder;
use flate2::write::ZlibEncoder;
use flate2::Compression;
use maybenot::action::Action;
use maybenot::constants::{MAX_DECOMPRESSED_SIZE, STATE_END, STATE_SIGNAL, VERSION};
use maybenot::counter::{Counter, Operation};
use maybenot::dist::{Dist, DistType};
use maybenot::event::Event;
use maybenot::state::{State, Trans};
use maybenot::{Machine, Timer};
use std::io::{Read, Write};
use std::panic::{catch_unwind, AssertUnwindSafe};
use std::str::FromStr;

pub fn cmd(sub: &str, args: &[String], w: &mut dyn Write) -> bool {
    match sub {
        "codec-gen" => {
            let seed: u64 = crate::arg_val(args, "--seed").and_then(|s| s.parse().ok()).unwrap_or(1);
            let cases: u64 = crate::arg_val(args, "--cases").and_then(|s| s.parse().ok()).unwrap_or(100);
            let kind = crate::arg_val(args, "--kind").unwrap_or_else(|| "valid".into());
            let max_states: usize = crate::arg_val(args, "--max-states").and_then(|s| s.parse().ok()).unwrap_or(400);
            let big: u64 = crate::arg_val(args, "--big").and_then(|s| s.parse().ok()).unwrap_or(0);
            let mut p = Prng::new(seed ^ fx(&kind));
            for i in 0..cases {
                let mut cp = p.fork();
                let id = format!("{}-{}-{}", kind, seed, i);
                match kind.as_str() {
                    "valid" => gen_valid_case(&mut cp, &id, i, cases, max_states, w),
                    "hostile" => gen_hostile_case(&mut cp, &id, w),
                    "v1" => gen_v1_case(&mut cp, &id, i, w),
                    "bomb" => gen_bomb_case(&mut cp, &id, i, big, w),
                    "limit" => gen_limit_case(&mut cp, &id, i, w),
                    _ => {
                        eprintln!("unknown codec kind {kind}");
                        std::process::exit(2);
                    }
                }
            }
            true
        }
        "codec-replay" => {
            let mut text = String::new();
            let _ = std::io::stdin().read_to_string(&mut text);
            replay(&text, w);
            true
        }
        "codec-probe-state" => {
            probe_state(w);
            true
        }
        "codec-find-f2" => {
            let seed: u64 = crate::arg_val(args, "--seed").and_then(|s| s.parse().ok()).unwrap_or(1);
            find_f2(seed, w);
            true
        }
        _ => false,
    }
}

fn fx(s: &str) -> u64 {
    let mut h: u64 = 0xcbf29ce484222325;
    for b in s.bytes() {
        h ^= b as u64;
        h = h.wrapping_mul(0x100000001b3);
    }
    h
}

// ---------------------------------------------------------------------------------------------
// the stages of from_str, replicated with the same crates and calls
// ---------------------------------------------------------------------------------------------

pub fn bincode_of(m: &Machine) -> Vec<u8> {
    bincode::DefaultOptions::new().serialize(m).expect("bincode")
}

fn machine_of(b: &[u8]) -> Option<Machine> {
    bincode::DefaultOptions::new().deserialize(b).ok()
}

fn deflate(b: &[u8]) -> Vec<u8> {
    let mut e = ZlibEncoder::new(Vec::new(), Compression::best());
    e.write_all(b).unwrap();
    e.finish().unwrap()
}

fn deflate_level(b: &[u8], level: u32) -> Vec<u8> {
    let mut e = ZlibEncoder::new(Vec::new(), Compression::new(level));
    e.write_all(b).unwrap();
    e.finish().unwrap()
}

/// exactly what `from_str` does (since fix f96075f): read into a MAX_DECOMPRESSED_SIZE buffer until
/// the stream ends or the buffer is full (before the fix: ONE `read` call)
fn read_once(compressed: &[u8]) -> Result<Vec<u8>, String> {
    let mut decoder = ZlibDecoder::new(compressed);
    let mut buf = vec![0; MAX_DECOMPRESSED_SIZE];
    let mut n = 0;
    while n < buf.len() {
        let k = decoder.read(&mut buf[n..]).map_err(|e| e.to_string())?;
        if k == 0 {
            break;
        }
        n += k;
    }
    buf.truncate(n);
    Ok(buf)
}

struct Replica {
    stage: &'static str,
    z: Option<Vec<u8>>,
    raw: Option<Vec<u8>>,
    m: Option<Machine>,
}

fn replica(s: &str) -> Replica {
    let mut r = Replica { stage: "ok", z: None, raw: None, m: None };
    if s.len() < 3 {
        r.stage = "short";
        return r;
    }
    if !s.is_ascii() {
        r.stage = "ascii";
        return r;
    }
    if s[0..2] != format!("{:02}", VERSION) {
        r.stage = "version";
        return r;
    }
    let z = match BASE64_STANDARD.decode(s[2..].as_bytes()) {
        Ok(z) => z,
        Err(_) => {
            r.stage = "b64";
            return r;
        }
    };
    let raw = read_once(&z);
    r.z = Some(z);
    let raw = match raw {
        Ok(x) => x,
        Err(_) => {
            r.stage = "zlib";
            return r;
        }
    };
    let bincoder = bincode::DefaultOptions::new().with_limit(MAX_DECOMPRESSED_SIZE as u64);
    let m: Result<Machine, _> = bincoder.deserialize(&raw);
    r.raw = Some(raw);
    let m = match m {
        Ok(m) => m,
        Err(_) => {
            r.stage = "bincode";
            return r;
        }
    };
    if m.validate().is_err() {
        r.stage = "invalid";
        return r;
    }
    r.m = Some(m);
    r
}

fn panic_msg(p: &Box<dyn std::any::Any + Send>) -> String {
    let msg = if let Some(s) = p.downcast_ref::<&str>() {
        s.to_string()
    } else if let Some(s) = p.downcast_ref::<String>() {
        s.clone()
    } else {
        "?".to_string()
    };
    msg.replace(['\n', '\r'], " ")
}

// ---------------------------------------------------------------------------------------------
// observations
// ---------------------------------------------------------------------------------------------

/// round trip of a machine given by its bincode bytes
fn observe_valid(id: &str, kind: &str, bytes: &[u8], w: &mut dyn Write) {
    let _ = writeln!(w, "case {} {}", id, kind);
    let _ = writeln!(w, "m {}", hex(bytes));
    let m = match machine_of(bytes) {
        Some(m) => m,
        None => {
            let _ = writeln!(w, "bad not-a-machine");
            let _ = writeln!(w, "end");
            return;
        }
    };
    let _ = writeln!(w, "val {}", if m.validate().is_ok() { "ok" } else { "err" });
    let s = catch_unwind(AssertUnwindSafe(|| m.serialize()));
    let s = match s {
        Ok(s) => s,
        Err(p) => {
            let _ = writeln!(w, "ser panic {}", panic_msg(&p));
            let _ = writeln!(w, "end");
            return;
        }
    };
    let _ = writeln!(w, "ser ok {}", s);
    // the compressed bytes, recovered with the real base64 decoder
    if s.len() >= 2 {
        if let Ok(z) = BASE64_STANDARD.decode(s[2..].as_bytes()) {
            let _ = writeln!(w, "z {}", hex(&z));
            // the zlib contract on the real path
            match read_once(&z) {
                Ok(raw) => {
                    if raw == bytes {
                        let _ = writeln!(w, "ro ok {} eq", raw.len());
                    } else {
                        let _ = writeln!(w, "ro ok {} ne", raw.len());
                        let _ = writeln!(w, "rob {}", hex(&raw));
                    }
                }
                Err(_) => {
                    let _ = writeln!(w, "ro err");
                }
            }
        }
    }
    let before = alloc::reset_peak();
    let r = catch_unwind(AssertUnwindSafe(|| Machine::from_str(&s)));
    let peak = alloc::peak().saturating_sub(before);
    match r {
        Ok(Ok(m2)) => {
            let _ = writeln!(w, "rt ok");
            let s2 = catch_unwind(AssertUnwindSafe(|| m2.serialize()));
            let _ = writeln!(w, "rs {}", match &s2 { Ok(x) if *x == s => "same", Ok(_) => "diff", Err(_) => "panic" });
            let n1 = catch_unwind(AssertUnwindSafe(|| m.name()));
            let n2 = catch_unwind(AssertUnwindSafe(|| m2.name()));
            let _ = writeln!(w, "nm {}", match (n1, n2) { (Ok(a), Ok(b)) if a == b => "same", (Ok(_), Ok(_)) => "diff", _ => "panic" });
            let _ = writeln!(w, "eq {}", if bincode_of(&m2) == bytes { "same" } else { "diff" });
            // "... and drives a framework identically": the parsed machine and the original one through the
            // same scripted history with the same random stream (only for machines small enough to be quick)
            if m.states.len() <= 64 {
                let (tx, rx) = std::sync::mpsc::channel::<&'static str>();
                // the reference is built with the public constructors (State::new / Machine::new) from the
                // decoded machine's declared content, not taken from a deserializer
                let (ma, mb) = (rebuild_public(&m).unwrap_or_else(|| m.clone()), m2.clone());
                let _ = std::thread::Builder::new().stack_size(32 << 20).spawn(move || {
                    let d = catch_unwind(AssertUnwindSafe(|| drive_actions(&ma) == drive_actions(&mb) && sample_table(&ma) == sample_table(&mb)));
                    let _ = tx.send(match d { Ok(true) => "same", Ok(false) => "diff", Err(_) => "panic" });
                });
                // supervised: an endless loop inside the framework is a result ("panic" class), not a stuck check
                let verdict = rx.recv_timeout(std::time::Duration::from_secs(15)).unwrap_or("panic");
                let _ = writeln!(w, "dr {}", verdict);
            }
        }
        Ok(Err(e)) => {
            let _ = writeln!(w, "rt err {}", e.to_string().replace('\n', " "));
        }
        Err(p) => {
            let _ = writeln!(w, "rt panic {}", panic_msg(&p));
        }
    }
    let _ = writeln!(w, "peak {} {} {}", peak, s.len(), std::mem::size_of::<State>());
    let _ = writeln!(w, "end");
}

/// the same machine built through `State::new` and `Machine::new`
fn rebuild_public(m: &Machine) -> Option<Machine> {
    let states: Vec<State> = m
        .states
        .iter()
        .map(|st| {
            let mut s = State::new(st.get_transitions());
            s.action = st.action;
            s.counter = st.counter;
            s
        })
        .collect();
    Machine::new(m.allowed_padding_packets, m.max_padding_frac, m.allowed_blocked_microsec, m.max_blocking_frac, states).ok()
}

/// what every state of `m` samples for every event under a fixed set of random words (the history above
/// need not reach every state)
fn sample_table(m: &Machine) -> Vec<Option<usize>> {
    use crate::util::ScriptRng;
    let mut out = Vec::new();
    let evs = [
        maybenot::event::Event::NormalRecv, maybenot::event::Event::PaddingRecv, maybenot::event::Event::TunnelRecv,
        maybenot::event::Event::NormalSent, maybenot::event::Event::PaddingSent, maybenot::event::Event::TunnelSent,
        maybenot::event::Event::BlockingBegin, maybenot::event::Event::BlockingEnd, maybenot::event::Event::LimitReached,
        maybenot::event::Event::CounterZero, maybenot::event::Event::TimerBegin, maybenot::event::Event::TimerEnd,
        maybenot::event::Event::Signal,
    ];
    for st in m.states.iter() {
        for e in evs.iter() {
            let mut rng = ScriptRng::new(33, 0);
            for _ in 0..12 {
                out.push(st.sample_state(*e, &mut rng));
            }
        }
    }
    out
}

/// actions of a framework holding two copies of `m` over a scripted history (every event kind, for both ids
/// and an unknown one, fair random stream); an invalid machine gives an empty log
fn drive_actions(m: &Machine) -> Vec<String> {
    use crate::util::ScriptRng;
    use crate::vtime::VInstant;
    use maybenot::{Framework, MachineId, TriggerAction, TriggerEvent};
    let mut out = Vec::new();
    let Ok(mut f) = Framework::new(vec![m.clone(), m.clone()], 0.0, 0.0, VInstant(0), ScriptRng::new(21, 0)) else {
        return out;
    };
    let mut t: i128 = 0;
    for round in 0..40u64 {
        for id in [0usize, 1, 5] {
            let mid = MachineId::from_raw(id);
            let evs = [
                TriggerEvent::NormalRecv,
                TriggerEvent::PaddingRecv,
                TriggerEvent::TunnelRecv,
                TriggerEvent::NormalSent,
                TriggerEvent::PaddingSent { machine: mid },
                TriggerEvent::TunnelSent,
                TriggerEvent::BlockingBegin { machine: mid },
                TriggerEvent::BlockingEnd,
                TriggerEvent::TimerBegin { machine: mid },
                TriggerEvent::TimerEnd { machine: mid },
            ];
            for (k, e) in evs.iter().enumerate() {
                t += 1000 * ((round + k as u64) % 5) as i128;
                let acts: Vec<TriggerAction<VInstant>> = f.trigger_events(std::slice::from_ref(e), VInstant(t)).cloned().collect();
                if !acts.is_empty() {
                    out.push(format!("{round}/{id}/{k}:{acts:?}"));
                }
            }
        }
    }
    out
}

/// A small valid machine string that is parsed again on the same thread right after every hostile
/// string: parsing "any other string" must not leave anything behind that changes how a valid string
/// parses afterwards (`canary ok|FAIL ...`).
fn canary_line(w: &mut dyn Write) {
    use std::sync::OnceLock;
    static CANARY: OnceLock<(String, Vec<u8>)> = OnceLock::new();
    let (cs, cb) = CANARY.get_or_init(|| {
        let mut p = Prng::new(0xCA9A21);
        let cfg = crate::genm::GenCfg::default();
        let m = crate::genm::gen_machine(&mut p, &cfg);
        (m.serialize(), bincode_of(&m))
    });
    let r = catch_unwind(AssertUnwindSafe(|| Machine::from_str(cs)));
    let verdict = match r {
        Ok(Ok(m)) => {
            if bincode_of(&m) == *cb && m.serialize() == *cs { "ok".to_string() } else { "FAIL parsed-to-a-different-machine".to_string() }
        }
        Ok(Err(e)) => format!("FAIL rejected: {}", e.to_string().replace('\n', " ")),
        Err(p) => format!("FAIL panic: {}", panic_msg(&p)),
    };
    let _ = writeln!(w, "canary {}", verdict);
}

/// `from_str` on an arbitrary string
fn observe_hostile(id: &str, kind: &str, s: &str, w: &mut dyn Write) {
    let _ = writeln!(w, "case {} {}", id, kind);
    let _ = writeln!(w, "s {}", hex(s.as_bytes()));
    let rep = catch_unwind(AssertUnwindSafe(|| replica(s)));
    let rep = match rep {
        Ok(r) => r,
        Err(p) => {
            let _ = writeln!(w, "st panic {}", panic_msg(&p));
            Replica { stage: "panic", z: None, raw: None, m: None }
        }
    };
    let _ = writeln!(w, "st {}", rep.stage);
    if let Some(z) = &rep.z {
        let _ = writeln!(w, "z {}", hex(z));
    }
    if let Some(raw) = &rep.raw {
        let _ = writeln!(w, "raw {}", hex(raw));
    }
    let before = alloc::reset_peak();
    let r = catch_unwind(AssertUnwindSafe(|| Machine::from_str(s)));
    let peak = alloc::peak().saturating_sub(before);
    match r {
        Ok(Ok(m)) => {
            let _ = writeln!(w, "r ok {}", hex(&bincode_of(&m)));
            let agrees = rep.m.as_ref().map(|x| bincode_of(x) == bincode_of(&m)).unwrap_or(false);
            if !agrees {
                let _ = writeln!(w, "replica-mismatch accepted");
            }
        }
        Ok(Err(e)) => {
            let _ = writeln!(w, "r err {}", e.to_string().replace('\n', " "));
            if rep.stage == "ok" {
                let _ = writeln!(w, "replica-mismatch rejected");
            }
        }
        Err(p) => {
            let _ = writeln!(w, "r panic {}", panic_msg(&p));
        }
    }
    canary_line(w);
    let _ = writeln!(w, "peak {} {} {}", peak, s.len(), std::mem::size_of::<State>());
    let _ = writeln!(w, "end");
}

/// `parse_v1_machine` on an arbitrary string
fn observe_v1(id: &str, kind: &str, s: &str, w: &mut dyn Write) {
    let _ = writeln!(w, "case {} {}", id, kind);
    let _ = writeln!(w, "s {}", hex(s.as_bytes()));
    // replica of the first two stages
    match hex::decode(s) {
        Err(_) => {
            let _ = writeln!(w, "st hex");
        }
        Ok(c) => {
            let mut d = ZlibDecoder::new(c.as_slice());
            let mut buf = vec![];
            match d.read_to_end(&mut buf) {
                Err(_) => {
                    let _ = writeln!(w, "st zlib");
                }
                Ok(_) => {
                    let _ = writeln!(w, "st ok");
                    let _ = writeln!(w, "raw {}", hex(&buf));
                }
            }
        }
    }
    let r = catch_unwind(AssertUnwindSafe(|| maybenot::parsing::parse_v1_machine(s)));
    match r {
        Ok(Ok(m)) => {
            let _ = writeln!(w, "r ok {}", hex(&bincode_of(&m)));
            // the accepted machine must also survive the current format
            let rt = catch_unwind(AssertUnwindSafe(|| Machine::from_str(&m.serialize()).map(|x| x.name() == m.name())));
            let _ = writeln!(w, "v2 {}", match rt { Ok(Ok(true)) => "ok", Ok(Ok(false)) => "diff", Ok(Err(_)) => "err", Err(_) => "panic" });
        }
        Ok(Err(e)) => {
            let _ = writeln!(w, "r err {}", e.to_string().replace('\n', " "));
        }
        Err(p) => {
            let _ = writeln!(w, "r panic {}", panic_msg(&p));
        }
    }
    let _ = writeln!(w, "end");
}

fn replay(text: &str, w: &mut dyn Write) {
    let mut cur: Option<(String, String)> = None;
    for line in text.lines() {
        let ws: Vec<&str> = line.split_whitespace().collect();
        if ws.is_empty() {
            continue;
        }
        match ws[0] {
            "case" if ws.len() >= 3 => cur = Some((ws[1].to_string(), ws[2..].join(" "))),
            "m" if ws.len() == 2 => {
                if let (Some((id, kind)), Some(b)) = (&cur, unhex(ws[1])) {
                    if kind.starts_with("valid") {
                        observe_valid(id, kind, &b, w);
                        cur = None;
                    }
                }
            }
            "s" => {
                let b = if ws.len() == 2 { unhex(ws[1]) } else { Some(vec![]) };
                if let (Some((id, kind)), Some(b)) = (&cur, b) {
                    if let Ok(s) = String::from_utf8(b) {
                        if kind.starts_with("v1") {
                            observe_v1(id, kind, &s, w);
                        } else if !kind.starts_with("valid") {
                            observe_hostile(id, kind, &s, w);
                        }
                        cur = None;
                    }
                }
            }
            _ => {}
        }
    }
}

// ---------------------------------------------------------------------------------------------
// generator of valid machines (all variants, extreme fields, optional incompressible noise)
// ---------------------------------------------------------------------------------------------

const EVENTS: [Event; 13] = [
    Event::NormalRecv,
    Event::PaddingRecv,
    Event::TunnelRecv,
    Event::NormalSent,
    Event::PaddingSent,
    Event::TunnelSent,
    Event::BlockingBegin,
    Event::BlockingEnd,
    Event::LimitReached,
    Event::CounterZero,
    Event::TimerBegin,
    Event::TimerEnd,
    Event::Signal,
];

#[derive(Clone, Copy)]
struct VOpts {
    /// fill unchecked float fields with random bits (incompressible)
    noise: bool,
    /// percent of events that get a transition vector
    density: u64,
    /// percent of states with an action / counters
    rich: u64,
    /// allow one long transition vector (> 250 entries: crosses the varint boundary)
    long_vec: bool,
}

/// any bit pattern: NaNs with payloads, infinities, subnormals, both zeros
fn any_f64(p: &mut Prng, noise: bool) -> f64 {
    if noise {
        return f64::from_bits(p.next());
    }
    match p.below(12) {
        0 => 0.0,
        1 => -0.0,
        2 => f64::from_bits(1),
        3 => f64::MAX,
        4 => f64::from_bits(0x7ff8_0000_0000_0000 | (p.next() & 0x7_ffff_ffff_ffff)),
        5 => f64::from_bits(0xfff0_0000_0000_0001 | (p.next() & 0x7_ffff_ffff_ffff)),
        6 => f64::INFINITY,
        7 => f64::NEG_INFINITY,
        8 => 1.0,
        9 => f64::MIN_POSITIVE,
        10 => f64::from_bits(p.next()),
        _ => 1000.0,
    }
}

/// positive finite with moderate exponent
fn pos_f64(p: &mut Prng, noise: bool) -> f64 {
    if noise {
        let mant = p.next() & 0x000f_ffff_ffff_ffff;
        let exp = 1023 - 60 + p.below(120);
        f64::from_bits((exp << 52) | mant)
    } else {
        *p.pick(&[1.0, 0.5, 2.0, 1e-9, 1e9, 5e-324, f64::MIN_POSITIVE, 1e42, 3.0])
    }
}

fn fin_f64(p: &mut Prng, noise: bool) -> f64 {
    let x = pos_f64(p, noise);
    match p.below(4) {
        0 => -x,
        1 if !noise => 0.0,
        _ => x,
    }
}

fn prob_f64(p: &mut Prng, noise: bool) -> f64 {
    if noise {
        let x = (p.next() >> 11) as f64 / (1u64 << 53) as f64;
        if x < 1e-9 {
            0.5
        } else {
            x
        }
    } else {
        *p.pick(&[0.0, 1.0, 0.5, 1e-9, 0.3, 0.999999999])
    }
}

fn gen_vdist(p: &mut Prng, noise: bool) -> Dist {
    let start = any_f64(p, noise);
    let max = any_f64(p, noise);
    let dist = match p.below(11) {
        0 => {
            let a = fin_f64(p, noise);
            let b = fin_f64(p, noise);
            let (lo, hi) = if a <= b { (a, b) } else { (b, a) };
            if p.chance(1, 3) {
                DistType::Uniform { low: hi, high: hi }
            } else {
                DistType::Uniform { low: lo, high: hi }
            }
        }
        1 => DistType::Normal { mean: any_f64(p, noise), stdev: fin_f64(p, noise) },
        2 => DistType::SkewNormal { location: any_f64(p, noise), scale: pos_f64(p, noise), shape: fin_f64(p, noise) },
        3 => DistType::LogNormal { mu: any_f64(p, noise), sigma: fin_f64(p, noise) },
        4 => DistType::Binomial {
            trials: *p.pick(&[0u64, 1, 250, 251, 65535, 65536, 1_000_000_000, 999_999_999]),
            probability: prob_f64(p, noise),
        },
        5 => DistType::Geometric { probability: prob_f64(p, noise) },
        6 => DistType::Pareto { scale: pos_f64(p, noise), shape: pos_f64(p, noise) },
        7 => DistType::Poisson { lambda: pos_f64(p, noise) },
        8 => DistType::Weibull { scale: pos_f64(p, noise), shape: pos_f64(p, noise) },
        9 => DistType::Gamma { scale: pos_f64(p, noise), shape: if p.chance(1, 4) { 1.0 } else { pos_f64(p, noise) } },
        _ => DistType::Beta { alpha: pos_f64(p, noise), beta: pos_f64(p, noise) },
    };
    let d = Dist { dist, start, max };
    if d.validate().is_ok() {
        d
    } else {
        Dist { dist: DistType::Uniform { low: 1.0, high: 1.0 }, start, max }
    }
}

fn gen_vaction(p: &mut Prng, noise: bool) -> Action {
    let limit = if p.chance(1, 2) { Some(gen_vdist(p, noise)) } else { None };
    match p.below(4) {
        0 => Action::Cancel { timer: *p.pick(&[Timer::Action, Timer::Internal, Timer::All]) },
        1 => Action::SendPadding { bypass: p.chance(1, 2), replace: p.chance(1, 2), timeout: gen_vdist(p, noise), limit },
        2 => Action::BlockOutgoing {
            bypass: p.chance(1, 2),
            replace: p.chance(1, 2),
            timeout: gen_vdist(p, noise),
            duration: gen_vdist(p, noise),
            limit,
        },
        _ => Action::UpdateTimer { replace: p.chance(1, 2), duration: gen_vdist(p, noise), limit },
    }
}

fn gen_vcounter(p: &mut Prng, noise: bool) -> Counter {
    let op = *p.pick(&[Operation::Increment, Operation::Decrement, Operation::Set]);
    match p.below(3) {
        0 => Counter::new(op),
        1 => Counter::new_copy(op),
        _ => Counter::new_dist(op, gen_vdist(p, noise)),
    }
}

const PROBS1: &[f32] = &[1.0, 1.0, 0.5, 1.1920929e-7, 0.99999994, 1e-45, 1.17549435e-38, 0.3];

fn gen_vstate(p: &mut Prng, n: usize, o: &VOpts, long_vec: bool) -> State {
    let mut t = enum_map! { _ => vec![] };
    let mut long_done = !long_vec;
    for e in EVENTS.iter() {
        if !p.chance(o.density, 100) {
            continue;
        }
        let mut v: Vec<Trans> = vec![];
        if !long_done && n >= 300 {
            // 251..300 distinct targets with tiny probabilities
            long_done = true;
            let k = p.range(251, 300) as usize;
            let off = p.below((n - k) as u64 + 1) as usize;
            for j in 0..k {
                v.push(Trans(off + j, 1.0 / 1024.0));
            }
        } else if n >= 5 && p.chance(1, 8) {
            // a medium list: 5 to 8 distinct targets (past any small linear-scan threshold)
            let k = p.range(5, 8.min(n as u64)) as usize;
            let off = p.below((n - k) as u64 + 1) as usize;
            for j in 0..k {
                v.push(Trans(off + j, 0.125));
            }
        } else {
            let k = p.range(1, 3) as usize;
            let mut used: Vec<usize> = vec![];
            for _ in 0..k {
                let tgt = match p.below(8) {
                    0 => STATE_END,
                    1 => STATE_SIGNAL,
                    2 => n - 1,
                    3 => 0,
                    _ => p.below(n as u64) as usize,
                };
                if used.contains(&tgt) {
                    continue;
                }
                used.push(tgt);
            }
            let probs: Vec<f32> = match used.len() {
                1 => vec![*p.pick(PROBS1)],
                2 => p.pick(&[[0.5f32, 0.5], [0.99999994, 5.9604645e-8], [1e-45, 0.25], [0.7, 0.3]]).to_vec(),
                _ => p.pick(&[[0.3f32, 0.3, 0.3], [0.25, 0.25, 0.5], [0.33333334, 0.33333334, 0.33333334]]).to_vec(),
            };
            for (tg, pr) in used.iter().zip(probs.iter()) {
                v.push(Trans(*tg, *pr));
            }
        }
        t[*e] = v;
    }
    let mut s = State::new(t);
    if p.chance(o.rich, 100) {
        s.action = Some(gen_vaction(p, o.noise));
    }
    let ca = if p.chance(o.rich, 200) { Some(gen_vcounter(p, o.noise)) } else { None };
    let cb = if p.chance(o.rich, 200) { Some(gen_vcounter(p, o.noise)) } else { None };
    s.counter = (ca, cb);
    s
}

fn gen_vmachine(p: &mut Prng, n: usize, o: &VOpts) -> Machine {
    let long_at = if o.long_vec && n >= 300 { Some(p.below(n as u64) as usize) } else { None };
    let mut states = Vec::with_capacity(n);
    for i in 0..n {
        states.push(gen_vstate(p, n, o, long_at == Some(i)));
    }
    let ints: &[u64] = &[0, 1, 250, 251, 65535, 65536, u32::MAX as u64, u32::MAX as u64 + 1, u64::MAX, 1000];
    let fracs: &[f64] = &[0.0, -0.0, 1.0, 0.5, 5e-324, f64::MIN_POSITIVE, 0.999999999999, 0.1];
    let mut m = Machine {
        allowed_padding_packets: *p.pick(ints),
        max_padding_frac: *p.pick(fracs),
        allowed_blocked_microsec: *p.pick(ints),
        max_blocking_frac: *p.pick(fracs),
        states,
    };
    if o.noise {
        m.allowed_padding_packets = p.next();
        m.allowed_blocked_microsec = p.next();
    }
    if let Err(e) = m.validate() {
        panic!("codec generator produced an invalid machine: {e}");
    }
    m
}

fn gen_valid_case(p: &mut Prng, id: &str, i: u64, cases: u64, max_states: usize, w: &mut dyn Write) {
    // a deterministic spread of sizes: mostly small, a ladder up to max_states, varint boundaries
    let ladder: &[usize] = &[1, 2, 3, 250, 251, 252, 64, 128, 300, 500, 1000, 2000, 3000, 4000];
    let n = if i < ladder.len() as u64 && cases > ladder.len() as u64 {
        ladder[i as usize].min(max_states.max(1))
    } else {
        match p.below(10) {
            0..=5 => p.range(1, 8) as usize,
            6..=7 => p.range(9, 64.min(max_states as u64).max(9)) as usize,
            _ => p.range(1, max_states as u64) as usize,
        }
    };
    let n = n.min(max_states).max(1);
    let noise = p.chance(1, 2);
    // keep the bincode size under the 1 MiB limit: ~250 bytes per state at most
    let (density, rich) = if n > 2500 {
        (8, 30)
    } else if n > 1200 {
        (15, 50)
    } else if n > 400 {
        (30, 70)
    } else {
        (*p.pick(&[10u64, 40, 80, 100]), *p.pick(&[30u64, 70, 100]))
    };
    let o = VOpts { noise, density, rich, long_vec: p.chance(1, 3) };
    let mut m = gen_vmachine(p, n, &o);
    let mut b = bincode_of(&m);
    let mut tries = 0;
    while b.len() > MAX_DECOMPRESSED_SIZE && tries < 8 {
        // thin out until it fits the documented limit
        let o2 = VOpts { noise, density: o.density / (tries + 2), rich: o.rich / (tries + 2), long_vec: false };
        m = gen_vmachine(p, n, &o2);
        b = bincode_of(&m);
        tries += 1;
    }
    observe_valid(id, "valid", &b, w);
}

/// A filler state whose bincode encoding is exactly `16 + x` bytes (`x <= 86`, `x mod 3 != 1`):
/// a bare state is 16 bytes (3 option tags + 13 empty transition slots); a `Cancel` action adds
/// 2, each counter adds 3, each one-transition vector (`Trans(0, 1.0)`) adds 6.
fn filler_state(x: usize) -> Option<State> {
    for c in (0..=13usize).rev() {
        for b in 0..=2usize {
            for a in 0..=1usize {
                if 6 * c + 3 * b + 2 * a == x {
                    let mut t = enum_map! { _ => vec![] };
                    for e in EVENTS.iter().take(c) {
                        t[*e] = vec![Trans(0, 1.0)];
                    }
                    let mut s = State::new(t);
                    if a == 1 {
                        s.action = Some(Action::Cancel { timer: Timer::All });
                    }
                    let ca = if b >= 1 { Some(Counter::new(Operation::Increment)) } else { None };
                    let cb = if b >= 2 { Some(Counter::new_copy(Operation::Set)) } else { None };
                    s.counter = (ca, cb);
                    return Some(s);
                }
            }
        }
    }
    None
}

/// A valid machine whose bincode encoding is EXACTLY `target` bytes: many copies of one
/// generated state (highly compressible), then filler states whose sizes are chosen greedily so
/// that the total hits the target. `None` if the construction misses (never observed; the caller
/// reports it).
fn machine_of_size(p: &mut Prng, target: usize) -> Option<Machine> {
    let o = VOpts { noise: false, density: *p.pick(&[30u64, 60, 90]), rich: 100, long_vec: false };
    let proto = gen_vstate(p, 1, &o, false);
    let ints: &[u64] = &[1, 250, 251, 65536, u64::MAX];
    let head = (*p.pick(ints), *p.pick(ints));
    let mk = |states: Vec<State>| Machine {
        allowed_padding_packets: head.0,
        max_padding_frac: 0.5,
        allowed_blocked_microsec: head.1,
        max_blocking_frac: 0.5,
        states,
    };
    let s1 = bincode_of(&mk(vec![proto.clone(); 300])).len();
    let s2 = bincode_of(&mk(vec![proto.clone(); 301])).len();
    let per = s2 - s1;
    // leave room for two to four filler states; the state count stays in the 3-byte varint range
    let base = s1 - 300 * per;
    if target < base + 300 * per + 400 {
        return None;
    }
    let k = (target - base - 150) / per;
    if k + 8 >= 65536 {
        return None;
    }
    let mut states = vec![proto.clone(); k];
    let mut d = target - (base + k * per);
    // a filler has size 16 + x with x representable (x mod 3 != 1, x <= 86); two fillers reach
    // every residue
    while d > 140 {
        states.push(filler_state(33)?);
        d -= 49;
    }
    let mut done = false;
    'search: for x1 in 0..=86usize {
        let Some(f1) = filler_state(x1) else { continue };
        if 16 + x1 == d {
            states.push(f1);
            done = true;
            break 'search;
        }
        for x2 in 0..=86usize {
            if 32 + x1 + x2 == d {
                if let Some(f2) = filler_state(x2) {
                    states.push(f1);
                    states.push(f2);
                    done = true;
                    break 'search;
                }
            }
        }
    }
    if !done {
        return None;
    }
    let m = mk(states);
    if bincode_of(&m).len() != target || m.validate().is_err() {
        return None;
    }
    Some(m)
}

/// Machines at the documented size limit. By case index (mod 6): encoding of exactly
/// `MAX_DECOMPRESSED_SIZE` bytes, MAX-1, MAX-2, MAX-4096 (all must round-trip: `serialize`'s own
/// `with_limit(MAX)` accepts them), MAX+1 (`serialize` panics on its size limit: outside the
/// property's hypothesis, the model must predict it), and the largest whole number of copies of
/// one state that fits.
fn gen_limit_case(p: &mut Prng, id: &str, i: u64, w: &mut dyn Write) {
    let max = MAX_DECOMPRESSED_SIZE;
    if i % 7 == 6 {
        // a large machine that barely compresses (random mantissas everywhere): its encoding is
        // below the limit while its string is longer than the limit
        use maybenot::action::Action;
        use maybenot::dist::{Dist, DistType};
        use maybenot::state::{State, Trans};
        use enum_map::enum_map;
        let rf = |p: &mut Prng| f64::from_bits(0x3ff0_0000_0000_0000 | (p.next() >> 12)); // [1, 2)
        let rd = |p: &mut Prng| {
            let lo = rf(p);
            Dist { dist: DistType::Uniform { low: lo, high: lo + rf(p) }, start: rf(p), max: rf(p) * 1000.0 }
        };
        let mut states: Vec<State> = Vec::new();
        let mut m = Machine { allowed_padding_packets: p.next(), max_padding_frac: 0.5, allowed_blocked_microsec: p.next(), max_blocking_frac: 0.5, states: vec![] };
        loop {
            let mut t = enum_map! { _ => vec![] };
            t[maybenot::event::Event::NormalSent] = vec![Trans(0, f32::from_bits(0x3e00_0000 | (p.next() as u32 & 0x007f_ffff)))];
            let mut st = State::new(t);
            st.action = Some(Action::BlockOutgoing { bypass: p.chance(1, 2), replace: p.chance(1, 2), timeout: rd(p), duration: rd(p), limit: Some(rd(p)) });
            st.counter = (
                Some(maybenot::counter::Counter { operation: maybenot::counter::Operation::Increment, dist: Some(rd(p)), copy: false }),
                Some(maybenot::counter::Counter { operation: maybenot::counter::Operation::Decrement, dist: Some(rd(p)), copy: false }),
            );
            states.push(st);
            if states.len() % 64 == 0 {
                m.states = states.clone();
                if bincode_of(&m).len() > max - 40_000 {
                    break;
                }
            }
        }
        m.states = states;
        while bincode_of(&m).len() > max {
            m.states.pop();
        }
        if m.validate().is_ok() {
            observe_valid(id, "valid incompressible", &bincode_of(&m), w);
        } else {
            let _ = writeln!(w, "case {} valid incompressible", id);
            let _ = writeln!(w, "bad incompressible-construction-invalid");
            let _ = writeln!(w, "end");
        }
        return;
    }
    let (tag, target): (&str, Option<usize>) = match i % 7 {
        0 => ("valid exact-max", Some(max)),
        1 => ("valid max-1", Some(max - 1)),
        2 => ("valid max-2", Some(max - 2)),
        3 => ("valid max-4096", Some(max - 4096)),
        4 => ("valid max+1", Some(max + 1)),
        _ => ("valid at-limit", None),
    };
    if let Some(t) = target {
        match machine_of_size(p, t) {
            Some(m) => observe_valid(id, tag, &bincode_of(&m), w),
            None => {
                // never silent: the driver reports a block without `m` as a PARSE problem
                let _ = writeln!(w, "case {} {}", id, tag);
                let _ = writeln!(w, "bad size-construction-missed {}", t);
                let _ = writeln!(w, "end");
            }
        }
        return;
    }
    let o = VOpts { noise: false, density: 60, rich: 100, long_vec: false };
    let proto = gen_vstate(p, 1, &o, false);
    let mk = |k: usize| Machine {
        allowed_padding_packets: 1,
        max_padding_frac: 0.5,
        allowed_blocked_microsec: 1,
        max_blocking_frac: 0.5,
        states: vec![proto.clone(); k],
    };
    let per = (bincode_of(&mk(2)).len() - bincode_of(&mk(1)).len()).max(16);
    let mut k = max / per + 2;
    while bincode_of(&mk(k)).len() > max {
        k -= 1;
    }
    let m = mk(k);
    if m.validate().is_err() {
        return;
    }
    observe_valid(id, tag, &bincode_of(&m), w);
}

// ---------------------------------------------------------------------------------------------
// hostile strings for from_str
// ---------------------------------------------------------------------------------------------

fn small_machine(p: &mut Prng) -> Machine {
    let n = match p.below(4) {
        0 => 1,
        1 => p.range(2, 4) as usize,
        2 => p.range(5, 12) as usize,
        _ => p.range(1, 40) as usize,
    };
    let o = VOpts { noise: p.chance(1, 3), density: *p.pick(&[10u64, 40, 80]), rich: *p.pick(&[30u64, 100]), long_vec: false };
    gen_vmachine(p, n, &o)
}

fn b64_string(z: &[u8]) -> String {
    format!("{:02}{}", VERSION, BASE64_STANDARD.encode(z))
}

fn mutate_bytes(p: &mut Prng, b: &mut Vec<u8>) -> &'static str {
    if b.is_empty() {
        b.push(p.next() as u8);
        return "push";
    }
    match p.below(12) {
        0 | 1 | 2 => {
            let i = p.below(b.len() as u64) as usize;
            b[i] ^= 1 << p.below(8);
            "bitflip"
        }
        3 => {
            let i = p.below(b.len() as u64) as usize;
            b[i] = p.next() as u8;
            "byteset"
        }
        4 => {
            let i = p.below(b.len() as u64) as usize;
            b[i] = *p.pick(&[0u8, 1, 2, 250, 251, 252, 253, 254, 255]);
            "bytespecial"
        }
        5 => {
            let i = p.below(b.len() as u64 + 1) as usize;
            b.truncate(i);
            "truncate"
        }
        6 => {
            let k = p.range(1, 16);
            for _ in 0..k {
                b.push(if p.chance(1, 2) { 0 } else { p.next() as u8 });
            }
            "append"
        }
        7 => {
            let i = p.below(b.len() as u64) as usize;
            b.remove(i);
            "delete"
        }
        8 => {
            let i = p.below(b.len() as u64 + 1) as usize;
            b.insert(i, p.next() as u8);
            "insert"
        }
        9 => {
            // two flips
            for _ in 0..2 {
                let i = p.below(b.len() as u64) as usize;
                b[i] ^= 1 << p.below(8);
            }
            "bitflip2"
        }
        10 => {
            // overwrite an 8-byte window with a special float
            if b.len() >= 8 {
                let i = p.below(b.len() as u64 - 7) as usize;
                let v: f64 = *p.pick(&[f64::NAN, f64::INFINITY, -1.0, 0.0, 2.0, 1e-10, -0.0]);
                b[i..i + 8].copy_from_slice(&v.to_le_bytes());
            }
            "float"
        }
        _ => {
            // replace a byte by a non-canonical varint of the same value (if < 251)
            let i = p.below(b.len() as u64) as usize;
            let v = b[i];
            if v < 251 {
                b[i] = 251;
                b.insert(i + 1, v);
                b.insert(i + 2, 0);
            }
            "noncanon"
        }
    }
}

fn gen_hostile_case(p: &mut Prng, id: &str, w: &mut dyn Write) {
    let m = small_machine(p);
    let raw = bincode_of(&m);
    let good = m.serialize();
    let (tag, s): (String, String) = match p.below(20) {
        // --- string level ---
        0 => {
            let mut b = good.clone().into_bytes();
            let i = p.below(b.len() as u64) as usize;
            b[i] = 0x20 + p.below(0x5f) as u8;
            ("s-ascii".into(), String::from_utf8(b).unwrap())
        }
        1 => {
            let cut = p.below(good.len() as u64 + 1) as usize;
            ("s-trunc".into(), good[..cut].to_string())
        }
        2 => {
            let cut = p.below(4) as usize;
            ("s-short".into(), good[..cut.min(good.len())].to_string())
        }
        3 => {
            let v = *p.pick(&["00", "01", "03", "20", "2 ", " 2", "99", "0２", "２0", "0x", "-2", "+2"]);
            ("s-version".into(), format!("{}{}", v, &good[2..]))
        }
        4 => {
            let mut cs: Vec<char> = good.chars().collect();
            let i = p.below(cs.len() as u64) as usize;
            cs[i] = *p.pick(&['é', '日', '\u{80}', '\u{7f}', '\u{0}', '＝', '\u{1F600}']);
            ("s-nonascii".into(), cs.into_iter().collect())
        }
        5 => {
            let extra = *p.pick(&["\n", " ", "=", "==", "====", "A", "AA", "AAA", "AAAA", "\r\n", "\0"]);
            ("s-suffix".into(), format!("{}{}", good, extra))
        }
        6 => {
            // padding manipulations
            let t = good.trim_end_matches('=').to_string();
            let s = match p.below(5) {
                0 => t,
                1 => format!("{}=", t),
                2 => format!("{}===", t),
                3 => {
                    let mut b = good.clone().into_bytes();
                    let i = 2 + p.below(b.len() as u64 - 2) as usize;
                    b[i] = b'=';
                    String::from_utf8(b).unwrap()
                }
                _ => format!("{}=", good),
            };
            ("s-padding".into(), s)
        }
        7 => {
            // non-canonical trailing bits: bump the last symbol before the padding
            let mut b = good.clone().into_bytes();
            let mut i = b.len() - 1;
            while i > 2 && b[i] == b'=' {
                i -= 1;
            }
            let alphabet = b"ABCDEFGHIJKLMNOPQRSTUVWXYZabcdefghijklmnopqrstuvwxyz0123456789+/";
            let pos = alphabet.iter().position(|c| *c == b[i]).unwrap_or(0);
            b[i] = alphabet[(pos + 1 + p.below(3) as usize) % 64];
            ("s-trailing-bits".into(), String::from_utf8(b).unwrap())
        }
        8 => {
            // random strings
            let len = p.below(80) as usize;
            let mut s = String::new();
            if p.chance(2, 3) {
                s.push_str(&format!("{:02}", VERSION));
            }
            let alpha: &[u8] = if p.chance(1, 2) {
                b"ABCDEFGHIJKLMNOPQRSTUVWXYZabcdefghijklmnopqrstuvwxyz0123456789+/="
            } else {
                b" !\"#$%&'()*+,-./0123456789:;<=>?@ABCXYZ[\\]^_`abcxyz{|}~\n\t"
            };
            for _ in 0..len {
                s.push(*p.pick(alpha) as char);
            }
            ("s-random".into(), s)
        }
        9 => {
            // url-safe alphabet / lowercase / whitespace inside
            let s = match p.below(3) {
                0 => good.replace('+', "-").replace('/', "_"),
                1 => good.to_lowercase(),
                _ => {
                    let cut = 2 + p.below(good.len() as u64 - 2) as usize;
                    format!("{}\n{}", &good[..cut], &good[cut..])
                }
            };
            ("s-alphabet".into(), s)
        }
        // --- compressed level ---
        10 | 11 | 12 => {
            let mut z = deflate(&raw);
            let t = mutate_bytes(p, &mut z);
            (format!("z-{}", t), b64_string(&z))
        }
        13 => {
            // not a zlib stream at all / raw deflate / gzip-like header / empty
            let z: Vec<u8> = match p.below(4) {
                0 => vec![],
                1 => raw.clone(),
                2 => deflate(&raw)[2..].to_vec(),
                _ => (0..p.below(64)).map(|_| p.next() as u8).collect(),
            };
            ("z-garbage".into(), b64_string(&z))
        }
        14 => {
            // valid stream, other compression levels (stored blocks, fast): must still parse
            let level = *p.pick(&[0u32, 1, 6]);
            ("z-level".into(), b64_string(&deflate_level(&raw, level)))
        }
        // --- bincode level ---
        _ => {
            let mut b = raw.clone();
            let k = p.range(1, 3);
            let mut t = "";
            for _ in 0..k {
                t = mutate_bytes(p, &mut b);
            }
            (format!("b-{}", t), b64_string(&deflate(&b)))
        }
    };
    observe_hostile(id, &format!("hostile {}", tag), &s, w);
}

// ---------------------------------------------------------------------------------------------
// compression bombs
// ---------------------------------------------------------------------------------------------

fn gen_bomb_case(p: &mut Prng, id: &str, i: u64, big: u64, w: &mut dyn Write) {
    let m = small_machine(p);
    let raw = bincode_of(&m);
    let mib = 1usize << 20;
    let (tag, payload): (&str, Vec<u8>) = match i % 11 {
        9 | 10 => {
            // an incompressible head (more compressed input than the decoder's 32 KiB buffer holds is
            // consumed before the output limit is reached: short reads in the middle), then a long run of zeros
            let head = if i % 11 == 9 { 48 * 1024 } else { 200 * 1024 };
            let mut v: Vec<u8> = (0..head).map(|_| (p.next() >> 24) as u8).collect();
            let n = if big > 0 { 128 * mib } else { 24 * mib };
            v.extend(std::iter::repeat(0u8).take(n));
            ("noise-head+zeros", v)
        }
        8 => {
            // a valid machine of exactly MAX bytes followed by more data: the buffer is full
            // after the machine, the rest of the stream is never read
            let mut v = machine_of_size(p, mib).map(|m| bincode_of(&m)).unwrap_or_else(|| raw.clone());
            v.extend(std::iter::repeat(0u8).take(4096));
            ("machine-max+zeros", v)
        }
        0 => ("zeros-1MiB+1", vec![0u8; mib + 1]),
        1 => ("zeros-4MiB", vec![0u8; 4 * mib]),
        2 => {
            // a valid machine followed by a megabyte of zeros
            let mut v = raw.clone();
            v.extend(std::iter::repeat(0u8).take(mib + 17));
            ("machine+zeros", v)
        }
        3 => ("zeros-1MiB", vec![0u8; mib]),
        4 => {
            // plausible header, then a state vector that claims 2^40 states
            let mut v = vec![0u8, 0, 0, 0, 0, 0, 0, 0, 0, 0, 0, 0, 0, 0, 0, 0, 0, 0];
            v.push(253);
            v.extend_from_slice(&(1u64 << 40).to_le_bytes());
            v.extend(std::iter::repeat(0u8).take(mib));
            ("huge-len", v)
        }
        5 => {
            let n = if big > 0 { 64 * mib } else { 8 * mib };
            ("ones", vec![0xffu8; n])
        }
        6 => {
            // many minimal states: 16 zero bytes each; a *valid-looking* body that is too long
            let mut v = vec![0u8; 18];
            v.push(252);
            v.extend_from_slice(&(200_000u32).to_le_bytes());
            v.extend(std::iter::repeat(0u8).take(200_000 * 16));
            ("many-states", v)
        }
        _ => {
            let n = if big > 0 { 256 * mib } else { 16 * mib };
            ("zeros-big", vec![0u8; n])
        }
    };
    let z = deflate(&payload);
    drop(payload);
    let s = b64_string(&z);
    observe_hostile(id, &format!("bomb {} z={}", tag, z.len()), &s, w);
}

// ---------------------------------------------------------------------------------------------
// legacy v1 format
// ---------------------------------------------------------------------------------------------

const V1_SEEDS: &[&str] = &[
    "789cedca2101000000c230e85f1a8387009f9e351d051503ca0003",
    "789cd5cfbb0900200c04d08b833886adb889389f5bb9801be811acb58ae2837ce02010c158b070555c9538b6377a64dbb0ceff242c20b79038507dd169fbede9f629bf6f021efa1b66",
    "789ccdd14b4802411807f0d122d630a80e75e920646a9db2d24bd48c9587b012bc04415d32e856eca107d4210f792809a38804e910f400835ca88387d8961e144920b551aed8b59032cc0e59d16c0f41962510dafa0d0cc3cc77f8bef9cbc0b7e0092f06f131832c076f3f21c0e88d464f4c1b51449d3731df6b432feb0fa1f6e20e841f3fc801e5bd5f3d28efa43d8bbc1a1a5f6692e12589b860c84f62f752fbcd3e14605fb549f6bb6de86e0c1a7a028d88f09575d9a7dad2491120ff6279b0a1ca84ecf551ab6b418502adca267a486bc28f5fb20d4a7cb2db0d32fe34c94067ccda6d64afe1dba926585a782e5a2fb5dcdd9496721e42dfd5e35aed5e04865a0a9a13c3ec9ff62707db89d7b391233d1ae7a35458d219ce3049dd40b40827966d52e24a1c4a0be362a05fcde9923b97d0ecf1fa2b9f39c14f181ceeb914c74273f52cb9143e862b7d1554dd565850f7dfbd03f1ca70ff",
];

fn v1_float(p: &mut Prng) -> f64 {
    match p.below(16) {
        0 => 0.0,
        1 => 1.0,
        2 => 0.5,
        3 => 0.1,
        4 => 1.0 / 3.0,
        5 => 1e-50,
        6 => 1e40,
        7 => f64::from_bits(0x7ff8_0000_0000_0000 | (p.next() & 0xf_ffff_ffff_ffff)),
        8 => -0.0,
        9 => -1e-320,
        10 => f64::INFINITY,
        11 => 1e-40,
        12 => 1.0 + f64::EPSILON,
        13 => 0.49999999,
        14 => f64::from_bits(p.next()),
        _ => 2.0,
    }
}

fn v1_dist(p: &mut Prng, out: &mut Vec<u8>, sane: bool) {
    if sane && p.chance(3, 4) {
        let ty: u16 = *p.pick(&[0u16, 1, 2, 3, 4, 5, 6, 8, 9, 10, 11]);
        out.extend_from_slice(&ty.to_le_bytes());
        let (a, b): (f64, f64) = if ty == 4 {
            (*p.pick(&[0.0, 10.0, 1e9, 0.7, 250.9, 1.8446744073709552e19, -3.0]), *p.pick(&[0.5, 1.0, 0.0, 1e-9]))
        } else {
            *p.pick(&[(1.0, 2.0), (0.5, 1.0), (1.0, 1.0), (2.0, 100.0), (5e-324, 1.0)])
        };
        out.extend_from_slice(&a.to_le_bytes());
        out.extend_from_slice(&b.to_le_bytes());
        out.extend_from_slice(&v1_float(p).to_le_bytes());
        out.extend_from_slice(&v1_float(p).to_le_bytes());
        return;
    }
    let ty: u16 = match p.below(8) {
        0 => 0,
        1 => 1,
        2 => p.below(12) as u16,
        3 => 4,
        4 => p.next() as u16,
        _ => p.range(1, 10) as u16,
    };
    out.extend_from_slice(&ty.to_le_bytes());
    let (a, b) = match p.below(4) {
        0 => (v1_float(p), v1_float(p)),
        1 => (1.0, 2.0),
        2 => (*p.pick(&[0.0, 10.0, 1e9, 1e10, 1.8446744073709552e19, -5.0, 0.7, f64::NAN]), *p.pick(&[0.5, 1.0, 0.0, 1e-10, 2.0])),
        _ => (*p.pick(&[0.5, 1.0, 2.0, 100.0]), *p.pick(&[0.5, 1.0, 2.0, 100.0])),
    };
    out.extend_from_slice(&a.to_le_bytes());
    out.extend_from_slice(&b.to_le_bytes());
    out.extend_from_slice(&v1_float(p).to_le_bytes());
    out.extend_from_slice(&v1_float(p).to_le_bytes());
}

/// a structurally well-formed v1 buffer (version included); `claim` = the state count written
fn v1_buffer(p: &mut Prng, n: usize, claim: usize, sane: bool) -> Vec<u8> {
    let mut b = vec![];
    b.extend_from_slice(&1u16.to_le_bytes());
    b.extend_from_slice(&p.pick(&[0u64, 1, 1000, u64::MAX]).to_le_bytes());
    b.extend_from_slice(&(if sane { *p.pick(&[0.0, 0.5, 1.0]) } else { v1_float(p) }).to_le_bytes());
    b.extend_from_slice(&p.pick(&[0u64, 1, 1000, u64::MAX]).to_le_bytes());
    b.extend_from_slice(&(if sane { *p.pick(&[0.0, 0.5, 1.0]) } else { v1_float(p) }).to_le_bytes());
    b.push(p.below(3) as u8);
    b.extend_from_slice(&(claim as u16).to_le_bytes());
    for _ in 0..n {
        for _ in 0..3 {
            v1_dist(p, &mut b, sane);
        }
        for _ in 0..4 {
            b.push(*p.pick(&[0u8, 1, 1, 2, 255]));
        }
        // 8 rows of (claim + 2) f64; only 7 are read
        for _row in 0..8 {
            let mut left: f64 = 1.0;
            for i in 0..claim + 2 {
                let v = if sane {
                    if i != claim && p.chance(1, 3) && left > 0.0 {
                        // includes f32 rounding ties, values that round up to 1.0 / down to a
                        // subnormal, and the smallest f32 subnormal
                        let rare = p.chance(1, 4);
                        let x = *p.pick(&[
                            1.0,
                            0.5,
                            0.25,
                            0.1,
                            1.0 / 3.0,
                            1e-40,
                            1.0000000001,
                            0.5 + 1.0 / 33554432.0,
                            0.5 + 3.0 / 33554432.0,
                            1.401298464324817e-45,
                            0.2,
                            0.125,
                            0.3,
                            1.0,
                            0.5,
                            0.25,
                            0.1,
                            0.05,
                            0.01,
                            if rare { 0.7e-45 } else { 0.15 },
                            if rare { 0.7006492321624086e-45 } else { 0.35 },
                            if rare { 0.71e-45 } else { 0.45 },
                        ]);
                        let x = if x > left { left } else { x };
                        left -= x;
                        x
                    } else {
                        0.0
                    }
                } else if p.chance(1, 4) {
                    v1_float(p)
                } else {
                    0.0
                };
                b.extend_from_slice(&v.to_le_bytes());
            }
        }
    }
    b
}

fn gen_v1_case(p: &mut Prng, id: &str, i: u64, w: &mut dyn Write) {
    if (i as usize) < V1_SEEDS.len() {
        observe_v1(id, "v1 seed", V1_SEEDS[i as usize], w);
        return;
    }
    let (tag, s): (String, String) = match p.below(12) {
        0 | 1 | 2 => {
            let n = if p.chance(1, 12) { 0 } else { p.range(1, 4) as usize };
            let b = v1_buffer(p, n, n, true);
            ("sane".into(), hex(&deflate(&b)))
        }
        3 | 4 => {
            let n = p.range(0, 5) as usize;
            let b = v1_buffer(p, n, n, false);
            ("wild".into(), hex(&deflate(&b)))
        }
        5 => {
            // state count and body disagree
            let n = p.range(0, 4) as usize;
            let claim = *p.pick(&[0usize, 1, 2, 5, 255, 256, 65535]);
            let b = v1_buffer(p, n, claim.min(6), true);
            let mut b = b;
            b[2 + 33..2 + 35].copy_from_slice(&(claim as u16).to_le_bytes());
            ("count".into(), hex(&deflate(&b)))
        }
        6 | 7 => {
            let n = p.range(1, 3) as usize;
            let sane = p.chance(1, 2);
            let mut b = v1_buffer(p, n, n, sane);
            let t = mutate_bytes(p, &mut b);
            (format!("raw-{}", t), hex(&deflate(&b)))
        }
        8 => {
            // short buffers, wrong versions
            let b: Vec<u8> = match p.below(5) {
                0 => vec![],
                1 => vec![1],
                2 => vec![1, 0],
                3 => {
                    let mut b = v1_buffer(p, 1, 1, true);
                    let v = *p.pick(&[0u16, 2, 256, 257, 65535]);
                    b[0..2].copy_from_slice(&v.to_le_bytes());
                    b
                }
                _ => {
                    let mut b = vec![1u8, 0];
                    let k = p.below(40);
                    for _ in 0..k {
                        b.push(p.next() as u8);
                    }
                    b
                }
            };
            ("short".into(), hex(&deflate(&b)))
        }
        9 => {
            // string level: odd length, non-hex, upper case, truncation
            let seed = *p.pick(V1_SEEDS);
            let s = match p.below(5) {
                0 => seed[..seed.len() - 1].to_string(),
                1 => seed.to_uppercase(),
                2 => {
                    let mut b = seed.as_bytes().to_vec();
                    let i = p.below(b.len() as u64) as usize;
                    b[i] = *p.pick(&[b'g', b' ', b'x', b'G', b'\n']);
                    String::from_utf8(b).unwrap()
                }
                3 => {
                    let cut = 2 * p.below(seed.len() as u64 / 2 + 1) as usize;
                    seed[..cut].to_string()
                }
                _ => format!("{}é", seed),
            };
            ("str".into(), s)
        }
        10 => {
            // compressed level mutation of a seed
            let seed = *p.pick(V1_SEEDS);
            let mut z = hex::decode(seed).unwrap();
            let t = mutate_bytes(p, &mut z);
            (format!("z-{}", t), hex(&z))
        }
        _ => {
            // decompressed level mutation of a seed
            let seed = *p.pick(V1_SEEDS);
            let z = hex::decode(seed).unwrap();
            let mut d = ZlibDecoder::new(z.as_slice());
            let mut b = vec![];
            d.read_to_end(&mut b).unwrap();
            let t = mutate_bytes(p, &mut b);
            (format!("seed-{}", t), hex(&deflate(&b)))
        }
    };
    observe_v1(id, &format!("v1 {}", tag), &s, w);
}

/// Smallest prefix of a fixed sequence of noise-filled states whose serialized form no longer
/// parses (DESIGN section 9, F2): bisection over the number of states.
fn find_f2(seed: u64, w: &mut dyn Write) {
    let mut p = Prng::new(seed ^ 0xf2);
    let total = 1200usize;
    let states: Vec<State> = (0..total)
        .map(|_| {
            let mut s = State::new(enum_map! { _ => vec![] });
            let nd = |p: &mut Prng| Dist {
                dist: DistType::Normal { mean: f64::from_bits(p.next()), stdev: pos_f64(p, true) },
                start: f64::from_bits(p.next()),
                max: f64::from_bits(p.next()),
            };
            s.action = Some(Action::BlockOutgoing { bypass: false, replace: false, timeout: nd(&mut p), duration: nd(&mut p), limit: Some(nd(&mut p)) });
            s.counter = (Some(Counter::new_dist(Operation::Set, nd(&mut p))), Some(Counter::new_dist(Operation::Set, nd(&mut p))));
            s
        })
        .collect();
    let mk = |k: usize| Machine {
        allowed_padding_packets: 0,
        max_padding_frac: 0.0,
        allowed_blocked_microsec: 0,
        max_blocking_frac: 0.0,
        states: states[..k].to_vec(),
    };
    let fails = |k: usize| {
        let m = mk(k);
        m.validate().is_ok() && Machine::from_str(&m.serialize()).is_err()
    };
    if !fails(total) {
        let _ = writeln!(w, "# no failing prefix up to {} states", total);
        return;
    }
    let (mut lo, mut hi) = (1usize, total); // fails(hi), assume !fails(lo)
    if fails(lo) {
        hi = lo;
    }
    while hi - lo > 1 {
        let mid = (lo + hi) / 2;
        if fails(mid) {
            hi = mid;
        } else {
            lo = mid;
        }
    }
    let _ = writeln!(w, "# smallest failing prefix: {} states (the prefix with {} states parses)", hi, lo);
    observe_valid(&format!("f2-min-{}", hi), "valid f2-min", &bincode_of(&mk(hi)), w);
    observe_valid(&format!("f2-below-{}", lo), "valid f2-below", &bincode_of(&mk(lo)), w);
}

/// `parse_state` is public and takes `num_states` as an argument: with overflow checks on, a
/// count near `usize::MAX` panics in the length expression (no string can reach this: the v1
/// reader only passes a u16)
fn probe_state(w: &mut dyn Write) {
    for n in [usize::MAX, usize::MAX - 1, 1usize << 61, (1usize << 61) - 3, 1 << 50, 65535] {
        let r = catch_unwind(AssertUnwindSafe(|| maybenot::parsing::parse_state(vec![0u8; 300], n)));
        let _ = writeln!(
            w,
            "probe parse_state num_states={} -> {}",
            n,
            match r {
                Ok(Ok(_)) => "ok".to_string(),
                Ok(Err(e)) => format!("err {}", e),
                Err(p) => format!("panic {}", panic_msg(&p)),
            }
        );
    }
}
