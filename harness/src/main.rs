mod codec;
mod ffi;
mod fw;
mod fwgen;
mod sim;
mod val;
mod genm;
mod util;
mod vtime;

use std::io::Write;

pub fn arg_val(args: &[String], name: &str) -> Option<String> {
    args.iter().position(|a| a == name).and_then(|i| args.get(i + 1).cloned())
}

fn main() {
    util::install_panic_hook();
    let args: Vec<String> = std::env::args().collect();
    let cmd = args.get(1).map(|s| s.as_str()).unwrap_or("");
    let seed: u64 = arg_val(&args, "--seed").and_then(|s| s.parse().ok()).unwrap_or(1);
    let cases: u64 = arg_val(&args, "--cases").and_then(|s| s.parse().ok()).unwrap_or(100);
    let stdout = std::io::stdout();
    let mut w = std::io::BufWriter::new(stdout.lock());
    match cmd {
        "fw-gen" => {
            let kind = arg_val(&args, "--kind").unwrap_or_else(|| "general".into());
            // --only I: emit only case I; --dry: print the inputs without running the framework
            let only: Option<u64> = arg_val(&args, "--only").and_then(|s| s.parse().ok());
            let dry = args.iter().any(|a| a == "--dry");
            let mut p = util::Prng::new(seed ^ fxhash(&kind));
            for i in 0..cases {
                let mut cp = p.fork();
                if let Some(o) = only {
                    if i != o {
                        continue;
                    }
                }
                let id = format!("{}-{}-{}", kind, seed, i);
                let c = match kind.as_str() {
                    "general" => fw::gen_general(&mut cp, id),
                    other => match fwgen::gen_kind(other, &mut cp, id) {
                        Some(c) => c,
                        None => {
                            eprintln!("unknown kind {other}");
                            std::process::exit(2);
                        }
                    },
                };
                if dry {
                    let _ = w.write_all(fw::inputs_only(&c).as_bytes());
                } else {
                    emit_fw(&mut w, &c, &mut cp);
                    let _ = w.flush();
                }
            }
        }
        "fw-exh" => {
            // bounded-exhaustive family: --depth D, cases = number of indices from --start (stride --stride)
            let depth: u32 = arg_val(&args, "--depth").and_then(|s| s.parse().ok()).unwrap_or(2);
            let start: u64 = arg_val(&args, "--start").and_then(|s| s.parse().ok()).unwrap_or(0);
            let stride: u64 = arg_val(&args, "--stride").and_then(|s| s.parse().ok()).unwrap_or(1);
            let size = fwgen::exh_size(depth);
            let mut p = util::Prng::new(seed);
            let mut i = start;
            let mut n = 0;
            while i < size && n < cases {
                if let Some(c) = fwgen::gen_exh(i, depth, format!("exh{}-{}", depth, i)) {
                    emit_fw(&mut w, &c, &mut p);
                }
                i += stride;
                n += 1;
            }
            eprintln!("exh depth={} size={} emitted={}", depth, size, n);
        }
        "fw-replay" => {
            let mut text = String::new();
            let _ = std::io::Read::read_to_string(&mut std::io::stdin(), &mut text);
            let mut p = util::Prng::new(seed);
            for c in fw::parse_cases(&text) {
                emit_fw(&mut w, &c, &mut p);
            }
        }
        "fw-dump" => {
            let mut text = String::new();
            let _ = std::io::Read::read_to_string(&mut std::io::stdin(), &mut text);
            for c in fw::parse_cases(&text) {
                let _ = writeln!(w, "{:#?}", c.machines);
            }
        }
        other => {
            let handled = sim::cmd(other, &args, &mut w)
                || codec::cmd(other, &args, &mut w)
                || val::cmd(other, &args, &mut w)
                || ffi::cmd(other, &args, &mut w);
            if !handled {
                eprintln!("usage: mbharness <fw-gen|fw-replay|sim-*|codec-*|val-*|ffi-*> --seed N --cases N");
                std::process::exit(2);
            }
        }
    }
}

fn fxhash(s: &str) -> u64 {
    let mut h: u64 = 0xcbf29ce484222325;
    for b in s.bytes() {
        h ^= b as u64;
        h = h.wrapping_mul(0x100000001b3);
    }
    h
}

/// emit a framework case: protocol text with the determinism line inserted before `end`
fn emit_fw<W: Write>(w: &mut W, c: &fw::FwCase, p: &mut util::Prng) {
    let text = fw::run_case(c);
    if text.contains("o res panic hang") {
        // do not run the hanging history again for the determinism / non-interference trailers
        let _ = w.write_all(text.as_bytes());
        return;
    }
    let det = fw::det_line(c, p);
    let body = text.strip_suffix("end\n").unwrap_or(&text);
    let _ = w.write_all(body.as_bytes());
    let _ = w.write_all(det.as_bytes());
    // the solo run of the probe machine (C10), supervised like the others
    {
        let (tx, rx) = std::sync::mpsc::channel::<Option<String>>();
        let c2 = c.clone();
        let _ = std::thread::Builder::new().stack_size(64 << 20).spawn(move || {
            let _ = tx.send(fw::ni_line(&c2));
        });
        match rx.recv_timeout(std::time::Duration::from_secs(20)) {
            Ok(Some(ni)) => {
                let _ = w.write_all(ni.as_bytes());
            }
            Ok(None) => {}
            Err(std::sync::mpsc::RecvTimeoutError::Timeout) => {
                let _ = w.write_all(b"ni fail the solo run of the probe machine did not return (hang)\n");
            }
            Err(_) => {}
        }
    }
    let _ = w.write_all(b"end\n");
}
