mod fw;
mod genm;
mod util;
mod vtime;

use std::io::Write;

fn arg_val(args: &[String], name: &str) -> Option<String> {
    args.iter().position(|a| a == name).and_then(|i| args.get(i + 1).cloned())
}

fn main() {
    std::panic::set_hook(Box::new(|_| {}));
    let args: Vec<String> = std::env::args().collect();
    let cmd = args.get(1).map(|s| s.as_str()).unwrap_or("");
    let seed: u64 = arg_val(&args, "--seed").and_then(|s| s.parse().ok()).unwrap_or(1);
    let cases: u64 = arg_val(&args, "--cases").and_then(|s| s.parse().ok()).unwrap_or(100);
    let stdout = std::io::stdout();
    let mut w = std::io::BufWriter::new(stdout.lock());
    match cmd {
        "fw-gen" => {
            let mut p = util::Prng::new(seed);
            for i in 0..cases {
                let mut cp = p.fork();
                let c = fw::gen_general(&mut cp, format!("g{}-{}", seed, i));
                let _ = w.write_all(fw::run_case(&c).as_bytes());
            }
        }
        _ => {
            eprintln!("usage: mbharness fw-gen --seed N --cases N");
            std::process::exit(2);
        }
    }
}
