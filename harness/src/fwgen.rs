//! Property-directed generators for framework cases (boundary generators of DESIGN.md section 5).

use crate::fw::{gen_event, gen_history, FwCase};
use crate::genm::{self, DistMode, GenCfg};
use crate::util::Prng;
use maybenot::action::Action;
use maybenot::constants::STATE_SIGNAL;
use maybenot::dist::{Dist, DistType};
use maybenot::event::Event;
use maybenot::state::{State, Trans};
use maybenot::{Machine, MachineId, TriggerEvent};

fn completion_for(p: &mut Prng, n: usize) -> TriggerEvent {
    // completions for the right machine, other machines and unknown ids
    let id = match p.below(10) {
        0..=5 => p.below(n.max(1) as u64) as usize,
        6 | 7 => n,
        8 => usize::MAX,
        _ => u32::MAX as usize,
    };
    let m = MachineId::from_raw(id);
    match p.below(3) {
        0 => TriggerEvent::PaddingSent { machine: m },
        1 => TriggerEvent::BlockingBegin { machine: m },
        _ => TriggerEvent::TimerBegin { machine: m },
    }
}

/// C07: limited actions, histories heavy on completions, self-transitions, leave-and-return.
fn gen_c07(p: &mut Prng, id: String) -> FwCase {
    let mut cfg = GenCfg::default();
    cfg.dist = *p.pick(&[DistMode::Const, DistMode::Uniform]);
    cfg.max_states = p.range(1, 4) as usize;
    cfg.density = 55;
    cfg.kinds = vec![1, 2, 3];
    cfg.allow_signal = p.chance(1, 4);
    cfg.allow_end = p.chance(1, 4);
    let n = p.range(1, 3) as usize;
    let machines: Vec<Machine> = (0..n).map(|_| genm::gen_machine(p, &cfg)).collect();
    let single = p.chance(2, 3);
    let ncalls = p.range(5, 60);
    let mut t: i128 = 0;
    let mut calls = Vec::new();
    for _ in 0..ncalls {
        t += p.below(3_000_000) as i128;
        let k = if single { 1 } else { p.range(1, 4) };
        let evs: Vec<TriggerEvent> = (0..k).map(|_| if p.chance(3, 5) { completion_for(p, n) } else { gen_event(p, n) }).collect();
        calls.push((t, evs));
    }
    FwCase { id, kind: "c07".into(), machines, fp: 0.0, fb: 0.0, t0: 0, calls, rng_seed: p.next(), extreme: 0, ni: None, prefix: vec![] }
}

/// C08: counters everywhere, several machines hitting zero in one call, copy meets saturation.
fn gen_c08(p: &mut Prng, id: String) -> FwCase {
    let mut cfg = GenCfg::default();
    cfg.dist = *p.pick(&[DistMode::Const, DistMode::Uniform]);
    cfg.max_states = p.range(1, 4) as usize;
    cfg.density = 60;
    cfg.counters = true;
    cfg.allow_signal = false;
    let n = p.range(1, 4) as usize;
    let machines: Vec<Machine> = (0..n).map(|_| genm::gen_machine(p, &cfg)).collect();
    let single = p.chance(1, 2);
    let calls = gen_history(p, n, single, 60, false);
    FwCase { id, kind: "c08".into(), machines, fp: 0.0, fb: 0.0, t0: 0, calls, rng_seed: p.next(), extreme: 0, ni: None, prefix: vec![] }
}

/// C09, role-based: every machine signals on one chosen external event, may END on another,
/// may answer a delivered Signal by signalling, and acts on Signal; batches are drawn from the
/// events in use so that "X signals, X ends, Y signals" and similar orders occur within one call.
fn gen_c09_roles(p: &mut Prng, id: String) -> FwCase {
    use enum_map::enum_map;
    use maybenot::action::Action;
    use maybenot::constants::{STATE_END, STATE_SIGNAL};
    use maybenot::dist::{Dist, DistType};
    use maybenot::event::Event;
    use maybenot::state::{State, Trans};
    let ext = [Event::NormalRecv, Event::PaddingRecv, Event::TunnelRecv, Event::NormalSent, Event::TunnelSent, Event::BlockingEnd];
    let n = p.range(2, 4) as usize;
    let k = |v: f64| Dist { dist: DistType::Uniform { low: v, high: v }, start: 0.0, max: 0.0 };
    let mut machines = Vec::new();
    for i in 0..n {
        let sig_ev = *p.pick(&ext);
        let end_ev = *p.pick(&ext);
        let mut t0 = enum_map! { _ => vec![] };
        if p.chance(3, 4) {
            t0[sig_ev] = vec![Trans(STATE_SIGNAL, 1.0)];
        }
        if end_ev != sig_ev && p.chance(1, 2) {
            t0[end_ev] = vec![Trans(STATE_END, 1.0)];
        }
        // reaction to a delivered Signal: act (state 1), answer by signalling, or both via state 1
        match p.below(4) {
            0 => t0[Event::Signal] = vec![Trans(1, 1.0)],
            1 => t0[Event::Signal] = vec![Trans(STATE_SIGNAL, 1.0)],
            2 => t0[Event::Signal] = vec![Trans(1, 0.5), Trans(STATE_SIGNAL, 0.5)],
            _ => {}
        }
        let mut s0 = State::new(t0);
        if p.chance(1, 3) {
            s0.action = Some(Action::SendPadding { bypass: false, replace: false, timeout: k(i as f64), limit: None });
        }
        let mut t1 = enum_map! { _ => vec![] };
        t1[Event::Signal] = vec![Trans(0, 1.0)];
        t1[sig_ev] = vec![Trans(0, 1.0)];
        let mut s1 = State::new(t1);
        s1.action = Some(Action::SendPadding { bypass: false, replace: false, timeout: k(10.0 + i as f64), limit: None });
        machines.push(Machine::new(1000, 0.0, 0, 0.0, vec![s0, s1]).expect("role machine"));
    }
    let ncalls = p.range(1, 12);
    let mut t: i128 = 0;
    let mut calls = Vec::new();
    for _ in 0..ncalls {
        t += 1000;
        let len = p.range(1, 5);
        let evs: Vec<TriggerEvent> = (0..len)
            .map(|_| match p.below(6) {
                0 => TriggerEvent::NormalRecv,
                1 => TriggerEvent::PaddingRecv,
                2 => TriggerEvent::TunnelRecv,
                3 => TriggerEvent::NormalSent,
                4 => TriggerEvent::TunnelSent,
                _ => TriggerEvent::BlockingEnd,
            })
            .collect();
        calls.push((t, evs));
    }
    FwCase { id, kind: "c09".into(), machines, fp: 0.0, fb: 0.0, t0: 0, calls, rng_seed: p.next(), extreme: 0, ni: None, prefix: vec![] }
}

/// C09: machines that signal on external events, LimitReached, CounterZero and Signal.
fn gen_c09(p: &mut Prng, id: String) -> FwCase {
    if p.chance(1, 2) {
        return gen_c09_roles(p, id);
    }
    let mut cfg = GenCfg::default();
    cfg.dist = DistMode::Const;
    cfg.max_states = p.range(1, 3) as usize;
    cfg.density = 60;
    cfg.allow_signal = true;
    cfg.allow_end = p.chance(1, 3);
    cfg.prob_one = p.chance(1, 2);
    let n = p.range(1, 4) as usize;
    let machines: Vec<Machine> = (0..n).map(|_| genm::gen_machine(p, &cfg)).collect();
    let single = p.chance(1, 2);
    let calls = gen_history(p, n, single, 40, false);
    FwCase { id, kind: "c09".into(), machines, fp: 0.0, fb: 0.0, t0: 0, calls, rng_seed: p.next(), extreme: 0, ni: None, prefix: vec![] }
}

/// C10: a draw-independent probe machine that never signals, next to arbitrary non-signalling
/// neighbours; the harness also runs the probe alone on the projected history.
fn gen_ni(p: &mut Prng, id: String) -> FwCase {
    let mut probe_cfg = GenCfg::default();
    probe_cfg.dist = DistMode::Const;
    probe_cfg.prob_one = true;
    probe_cfg.allow_signal = false;
    probe_cfg.max_states = p.range(1, 4) as usize;
    probe_cfg.density = 60;
    let mut ncfg = GenCfg::default();
    ncfg.dist = *p.pick(&[DistMode::Const, DistMode::Uniform, DistMode::All]);
    ncfg.allow_signal = false;
    ncfg.max_states = p.range(1, 4) as usize;
    ncfg.density = 60;
    // one case in twenty: many neighbours (past 32 / 64 machine indices), the probe at a high index and
    // twins of the probe at the indices 32 and 64 below it, so that word-sized bit sets alias
    let many = p.chance(1, 20);
    let n = if many { *p.pick(&[33usize, 65, 66, 70, 130]) } else { p.range(2, 4) as usize };
    let pos = if many { n - 1 - p.below(2) as usize } else { p.below(n as u64) as usize };
    let probe = genm::gen_machine(p, &probe_cfg);
    let machines: Vec<Machine> = (0..n)
        .map(|i| {
            if i == pos || (many && (i + 32 == pos || i + 64 == pos)) {
                probe.clone()
            } else {
                genm::gen_machine(p, &ncfg)
            }
        })
        .collect();
    let single = p.chance(1, 2);
    let wild = p.chance(1, 3);
    let calls = gen_history(p, n, single, 50, wild);
    FwCase { id, kind: "ni".into(), machines, fp: 0.0, fb: 0.0, t0: 0, calls, rng_seed: p.next(), extreme: 0, ni: Some(pos), prefix: vec![] }
}

/// Library of small machine sets for the bounded-exhaustive family of C05: 1-3 machines,
/// 1-3 states, dyadic probabilities, constant distributions.
fn exh_machine_sets() -> Vec<Vec<Machine>> {
    use enum_map::enum_map;
    use maybenot::action::Action;
    use maybenot::constants::{STATE_END, STATE_SIGNAL};
    use maybenot::counter::{Counter, Operation};
    use maybenot::dist::{Dist, DistType};
    use maybenot::event::Event;
    use maybenot::state::{State, Trans};
    use maybenot::Timer;
    let k = |v: f64| Dist { dist: DistType::Uniform { low: v, high: v }, start: 0.0, max: 0.0 };
    let pad = |lim: Option<f64>| Action::SendPadding { bypass: false, replace: true, timeout: k(2.0), limit: lim.map(k) };
    let blk = |rp: bool| Action::BlockOutgoing { bypass: true, replace: rp, timeout: k(0.0), duration: k(5.0), limit: Some(k(1.0)) };
    let tmr = Action::UpdateTimer { replace: false, duration: k(3.0), limit: None };
    // machine 1: two states, 1/2-1/2 split on NormalSent, padding with limit 1, LimitReached back to 0
    let mut a0 = State::new(enum_map! {
        Event::NormalSent => vec![Trans(1, 0.5), Trans(0, 0.5)],
        Event::NormalRecv => vec![Trans(1, 0.25)],
        Event::BlockingBegin => vec![Trans(STATE_SIGNAL, 0.5)],
        _ => vec![],
    });
    a0.counter = (Some(Counter::new(Operation::Increment)), None);
    let mut a1 = State::new(enum_map! {
        Event::PaddingSent => vec![Trans(1, 1.0)],
        Event::LimitReached => vec![Trans(0, 1.0)],
        Event::CounterZero => vec![Trans(STATE_END, 0.5)],
        Event::Signal => vec![Trans(0, 1.0)],
        _ => vec![],
    });
    a1.action = Some(pad(Some(1.0)));
    a1.counter = (Some(Counter::new(Operation::Decrement)), Some(Counter::new_copy(Operation::Set)));
    let m1 = Machine::new(1, 0.5, 0, 0.0, vec![a0, a1]).unwrap();
    // machine 2: blocking + timer, signals on TimerEnd, three states
    let mut b0 = State::new(enum_map! {
        Event::NormalSent => vec![Trans(1, 1.0)],
        Event::Signal => vec![Trans(2, 0.5), Trans(STATE_SIGNAL, 0.25)],
        Event::TunnelRecv => vec![Trans(0, 1.0)],
        _ => vec![],
    });
    b0.action = Some(Action::Cancel { timer: Timer::All });
    let mut b1 = State::new(enum_map! {
        Event::BlockingBegin => vec![Trans(1, 0.5)],
        Event::BlockingEnd => vec![Trans(2, 1.0)],
        Event::LimitReached => vec![Trans(STATE_SIGNAL, 1.0)],
        _ => vec![],
    });
    b1.action = Some(blk(false));
    let mut b2 = State::new(enum_map! {
        Event::TimerBegin => vec![Trans(2, 0.25), Trans(0, 0.25)],
        Event::TimerEnd => vec![Trans(STATE_SIGNAL, 0.5), Trans(1, 0.5)],
        Event::PaddingRecv => vec![Trans(STATE_END, 0.25)],
        _ => vec![],
    });
    b2.action = Some(tmr);
    b2.counter = (None, Some(Counter::new_dist(Operation::Set, k(0.0))));
    let m2 = Machine::new(0, 0.0, 10, 0.5, vec![b0, b1, b2]).unwrap();
    // machine 3: one state, pads on everything with probability 1/2, replace blocking
    let mut c0 = State::new(enum_map! {
        Event::NormalSent => vec![Trans(0, 0.5)],
        Event::TunnelSent => vec![Trans(0, 1.0)],
        Event::PaddingSent => vec![Trans(0, 0.5)],
        Event::BlockingBegin => vec![Trans(0, 1.0)],
        _ => vec![],
    });
    c0.action = Some(blk(true));
    let m3 = Machine::new(0, 0.0, 0, 0.25, vec![c0]).unwrap();
    vec![
        vec![m1.clone()],
        vec![m2.clone()],
        vec![m3.clone()],
        vec![m1.clone(), m2.clone()],
        vec![m2.clone(), m1.clone()],
        vec![m1.clone(), m3.clone()],
        vec![m3.clone(), m2.clone(), m1.clone()],
        vec![m1.clone(), m1.clone()],
    ]
}

/// Bounded-exhaustive family (C05): index `i` enumerates machine set x event history of depth
/// `depth` over the full event alphabet (ids: machine 0 / unknown) x clock pattern x scripted draw
/// words (representative and boundary words of the dyadic thresholds).
pub fn gen_exh(i: u64, depth: u32, id: String) -> Option<FwCase> {
    let sets = exh_machine_sets();
    let words: [u64; 6] = [0x0000_0000_0000_0000, 0x3fff_fe00_0000_0000, 0x4000_0000_0000_0000, 0x7fff_fe00_0000_0000, 0x8000_0000_0000_0000, 0xffff_ffff_ffff_ffff];
    let alphabet = |n: usize| -> Vec<TriggerEvent> {
        let ids = [MachineId::from_raw(0), MachineId::from_raw(n)];
        let mut v = vec![TriggerEvent::NormalRecv, TriggerEvent::PaddingRecv, TriggerEvent::TunnelRecv, TriggerEvent::NormalSent, TriggerEvent::TunnelSent, TriggerEvent::BlockingEnd];
        for m in ids {
            v.push(TriggerEvent::PaddingSent { machine: m });
            v.push(TriggerEvent::BlockingBegin { machine: m });
            v.push(TriggerEvent::TimerBegin { machine: m });
            v.push(TriggerEvent::TimerEnd { machine: m });
        }
        v
    };
    let clocks: [[i128; 3]; 4] = [[0, 0, 0], [1_000, 1_000, 1_000], [86_400_000_000_000, 0, 1_000], [1_000_000, -1_000_000_000, 1_000]];
    let mut x = i;
    let si = (x % sets.len() as u64) as usize;
    x /= sets.len() as u64;
    let machines = sets[si].clone();
    let al = alphabet(machines.len());
    let mut evs = Vec::new();
    for _ in 0..depth {
        evs.push(al[(x % al.len() as u64) as usize].clone());
        x /= al.len() as u64;
    }
    let ck = clocks[(x % 4) as usize];
    x /= 4;
    let mut prefix = Vec::new();
    for _ in 0..3 {
        prefix.push(words[(x % 6) as usize]);
        x /= 6;
    }
    if x > 0 {
        return None; // enumeration exhausted
    }
    let mut t: i128 = 0;
    let mut calls = Vec::new();
    for (k, e) in evs.into_iter().enumerate() {
        t += ck[k.min(2)];
        calls.push((t, vec![e]));
    }
    Some(FwCase { id, kind: "exh".into(), machines, fp: 0.5, fb: 0.5, t0: 0, calls, rng_seed: i, extreme: 0, ni: None, prefix: vec![] }.with_prefix(prefix))
}

pub fn exh_size(depth: u32) -> u64 {
    let sets = exh_machine_sets().len() as u64;
    sets * 14u64.pow(depth) * 4 * 216
}

/// C01: CounterZero cycles — states that send each other CounterZero while re-arming the other
/// counter with Set/Increment, so that only the once-per-call guard bounds the recursion.
fn gen_czcycle(p: &mut Prng, id: String) -> FwCase {
    use enum_map::enum_map;
    use maybenot::action::Action;
    use maybenot::counter::{Counter, Operation};
    use maybenot::dist::{Dist, DistType};
    use maybenot::event::Event;
    use maybenot::state::{State, Trans};
    let k = |v: f64| Dist { dist: DistType::Uniform { low: v, high: v }, start: 0.0, max: 0.0 };
    let nm = p.range(1, 2) as usize;
    let mut machines = Vec::new();
    for _ in 0..nm {
        let ns = p.range(2, 3) as usize;
        let mut states = Vec::new();
        for si in 0..ns {
            let mut t = enum_map! { _ => vec![] };
            t[Event::CounterZero] = vec![Trans(p.below(ns as u64) as usize, 1.0)];
            t[Event::NormalSent] = vec![Trans(p.below(ns as u64) as usize, 1.0)];
            t[Event::NormalRecv] = vec![Trans((si + 1) % ns, 1.0)];
            if p.chance(1, 3) {
                t[Event::LimitReached] = vec![Trans(p.below(ns as u64) as usize, 1.0)];
            }
            let mut st = State::new(t);
            let ctr = |p: &mut Prng| -> Option<Counter> {
                match p.below(7) {
                    0 => None,
                    1 => Some(Counter::new_dist(Operation::Set, k(0.0))),
                    2 => Some(Counter::new_dist(Operation::Set, k(1.0))),
                    3 => Some(Counter::new(Operation::Decrement)),
                    4 => Some(Counter::new(Operation::Increment)),
                    5 => Some(Counter::new_copy(Operation::Set)),
                    _ => Some(Counter::new_dist(Operation::Decrement, k(5.0))),
                }
            };
            st.counter = (ctr(p), ctr(p));
            if p.chance(1, 2) {
                st.action = Some(Action::SendPadding { bypass: false, replace: false, timeout: k(si as f64), limit: if p.chance(1, 2) { Some(k(1.0)) } else { None } });
            }
            states.push(st);
        }
        machines.push(Machine::new(1000, 0.0, 0, 0.0, states).expect("czcycle machine"));
    }
    let ncalls = p.range(2, 12);
    let mut calls = Vec::new();
    let mut t: i128 = 0;
    for _ in 0..ncalls {
        t += 1000;
        let len = p.range(1, 3);
        let evs: Vec<TriggerEvent> = (0..len)
            .map(|_| match p.below(4) {
                0 | 1 => TriggerEvent::NormalSent,
                2 => TriggerEvent::NormalRecv,
                _ => TriggerEvent::PaddingSent { machine: MachineId::from_raw(p.below(nm as u64 + 1) as usize) },
            })
            .collect();
        calls.push((t, evs));
    }
    FwCase { id, kind: "czcycle".into(), machines, fp: 0.0, fb: 0.0, t0: 0, calls, rng_seed: p.next(), extreme: 0, ni: None, prefix: vec![] }
}

/// C01/C13: the rand_distr samplers inside the framework. One machine whose action timeout,
/// block duration, limit or counter value comes from a heavy sampler (BTPE binomial, PTRS
/// poisson, gamma/beta rejection loops, geometric, pareto, weibull), driven by a scripted
/// prefix of extreme words (all-ones / all-zero in both orders) after the transition draw.
/// Case 0 of every seed is the minimal F12 history: Binomial(1000, 0.5), words [0, MAX, 0].
fn gen_extsample(p: &mut Prng, id: String, first: bool) -> FwCase {
    use enum_map::enum_map;
    use maybenot::action::Action;
    use maybenot::counter::{Counter, Operation};
    use maybenot::dist::{Dist, DistType};
    use maybenot::event::Event;
    use maybenot::state::{State, Trans};
    let fams: Vec<DistType> = vec![
        DistType::Binomial { trials: 1000, probability: 0.5 },
        DistType::Binomial { trials: 1_000_000_000, probability: 0.6666666666666666 },
        DistType::Binomial { trials: 20, probability: 0.5 },
        DistType::Binomial { trials: 1_000_000_000, probability: 1e-9 },
        DistType::Poisson { lambda: 1000.0 },
        DistType::Poisson { lambda: 5.0 },
        DistType::Poisson { lambda: 1e42 },
        DistType::Geometric { probability: 1e-9 },
        DistType::Geometric { probability: 0.5 },
        DistType::Gamma { scale: 1.0, shape: 0.5 },
        DistType::Gamma { scale: 1e300, shape: 2.0 },
        DistType::Beta { alpha: 0.5, beta: 0.5 },
        DistType::Beta { alpha: 2.0, beta: 3.0 },
        DistType::Pareto { scale: 1.0, shape: 1e-3 },
        DistType::Weibull { scale: 1.0, shape: 1e-3 },
        DistType::Normal { mean: 0.0, stdev: 1e300 },
        DistType::LogNormal { mu: 700.0, sigma: 10.0 },
        DistType::SkewNormal { location: 0.0, scale: 1.0, shape: 1e300 },
    ];
    let dt = if first { fams[0] } else { *p.pick(&fams) };
    let d = Dist { dist: dt, start: 0.0, max: if first || p.chance(1, 2) { 0.0 } else { 1000.0 } };
    let k = |v: f64| Dist { dist: DistType::Uniform { low: v, high: v }, start: 0.0, max: 0.0 };
    let mut t = enum_map! { _ => vec![] };
    t[Event::NormalSent] = vec![Trans(0, 1.0)];
    t[Event::NormalRecv] = vec![Trans(1, 1.0)];
    let mut s0 = State::new(t);
    let site = if first { 0 } else { p.below(5) };
    s0.action = Some(match site {
        0 => Action::SendPadding { bypass: false, replace: false, timeout: d, limit: None },
        1 => Action::BlockOutgoing { bypass: false, replace: false, timeout: k(0.0), duration: d, limit: None },
        2 => Action::UpdateTimer { replace: true, duration: d, limit: None },
        3 => Action::SendPadding { bypass: false, replace: false, timeout: k(1.0), limit: Some(d) },
        _ => Action::SendPadding { bypass: false, replace: false, timeout: k(1.0), limit: None },
    });
    if site == 4 {
        s0.counter = (Some(Counter::new_dist(Operation::Increment, d)), None);
    }
    let mut t1 = enum_map! { _ => vec![] };
    t1[Event::NormalSent] = vec![Trans(0, 1.0)];
    let s1 = State::new(t1);
    let machines = vec![Machine::new(1_000_000, 0.0, 0, 0.0, vec![s0, s1]).expect("extsample machine")];
    // words: one per transition draw, then the sampler's draws
    let pat: Vec<u64> = if first {
        vec![u64::MAX, 0]
    } else {
        let n = p.range(1, 8) as usize;
        match p.below(6) {
            0 => (0..n).map(|i| if i % 2 == 0 { u64::MAX } else { 0 }).collect(),
            1 => (0..n).map(|i| if i % 2 == 0 { 0 } else { u64::MAX }).collect(),
            2 => vec![u64::MAX; n],
            3 => vec![0; n],
            4 => (0..n).map(|_| *p.pick(&[0u64, u64::MAX, 0xfff, 0xffff_ffff_ffff_f000, 1 << 63, (1 << 63) - 1])).collect(),
            _ => (0..n).map(|_| if p.chance(1, 2) { p.next() } else { *p.pick(&[0u64, u64::MAX]) }).collect(),
        }
    };
    // Framework::new samples the limit of state 0 first when the dist sits in the limit
    let mut prefix: Vec<u64> = Vec::new();
    if site != 3 {
        prefix.push(0);
    }
    prefix.extend(pat);
    let ncalls = if first { 1 } else { p.range(1, 4) };
    let mut calls = Vec::new();
    let mut tm: i128 = 0;
    for _ in 0..ncalls {
        tm += 1000;
        let evs = if first || p.chance(2, 3) { vec![TriggerEvent::NormalSent] } else { vec![TriggerEvent::NormalRecv, TriggerEvent::NormalSent] };
        calls.push((tm, evs));
    }
    FwCase { id, kind: "extsample".into(), machines, fp: 0.0, fb: 0.0, t0: 0, calls, rng_seed: p.next(), extreme: 0, ni: None, prefix }
}

/// C02: fractions that are not exactly representable in f32 / that make the padding share hit the
/// limit exactly: limit k/d (machine-level, framework-level or both), d-k NormalSent and then
/// PaddingSent reports one per call while the machine re-pads on every event.
fn gen_c02frac(p: &mut Prng, id: String) -> FwCase {
    use enum_map::enum_map;
    use maybenot::action::Action;
    use maybenot::dist::{Dist, DistType};
    use maybenot::event::Event;
    use maybenot::state::{State, Trans};
    let k0 = |v: f64| Dist { dist: DistType::Uniform { low: v, high: v }, start: 0.0, max: 0.0 };
    let d = *p.pick(&[3u64, 5, 6, 7, 9, 10, 10, 11, 13, 20, 30, 50, 100, 1000]);
    let k = p.range(1, d - 1);
    let f = k as f64 / d as f64;
    let mode = p.below(3); // 0: machine fraction, 1: framework fraction, 2: both (the other one laxer)
    let nm = p.range(1, 2) as usize;
    let mut machines = Vec::new();
    for mi in 0..nm {
        let mut t = enum_map! { _ => vec![] };
        for ev in [Event::NormalSent, Event::PaddingSent, Event::NormalRecv, Event::TunnelSent] {
            t[ev] = vec![Trans(0, 1.0)];
        }
        let mut st = State::new(t);
        st.action = Some(Action::SendPadding { bypass: false, replace: false, timeout: k0(mi as f64), limit: None });
        let mfrac = match mode {
            0 => f,
            1 => 0.0,
            _ => if p.chance(1, 2) { f } else { (f + 1.0) / 2.0 },
        };
        let budget = *p.pick(&[0u64, 0, 0, 1, 2]);
        machines.push(Machine::new(budget, mfrac, 0, 0.0, vec![st]).expect("c02frac machine"));
    }
    let fp = match mode {
        0 => 0.0,
        1 => f,
        _ => if p.chance(1, 2) { f } else { (f + 1.0) / 2.0 },
    };
    let mult = p.range(1, 3);
    let mut evs: Vec<TriggerEvent> = Vec::new();
    for _ in 0..(d - k) * mult {
        evs.push(TriggerEvent::NormalSent);
    }
    for _ in 0..(k * mult + 3) {
        evs.push(TriggerEvent::PaddingSent { machine: MachineId::from_raw(p.below(nm as u64) as usize) });
    }
    // sometimes interleave instead of front-loading the normal packets
    if p.chance(1, 3) {
        let n = evs.len();
        for i in (1..n).rev() {
            let j = p.below(i as u64 + 1) as usize;
            evs.swap(i, j);
        }
    }
    evs.push(TriggerEvent::NormalRecv);
    let mut t: i128 = 0;
    let calls = evs.into_iter().map(|e| { t += 1000; (t, vec![e]) }).collect();
    FwCase { id, kind: "c02frac".into(), machines, fp, fb: 0.0, t0: 0, calls, rng_seed: p.next(), extreme: 0, ni: None, prefix: vec![] }
}

/// Many machines (past every plausible index width: 9, 17, 33, 65, 130, 257) and one machine with more
/// than 256 states that is walked up to its high state indices: bit sets, narrow casts and fixed-size
/// scratch arrays indexed by machine or state only show beyond these sizes.
fn gen_wide(p: &mut Prng, id: String) -> FwCase {
    use enum_map::enum_map;
    let n = *p.pick(&[9usize, 17, 33, 65, 66, 130, 257, 300]);
    let mut cfg = GenCfg::default();
    cfg.dist = DistMode::Const;
    cfg.max_states = 2;
    cfg.density = *p.pick(&[25, 40]);
    let mut machines: Vec<Machine> = if p.chance(1, 2) {
        // n copies of one deterministic machine: every machine does the same thing in the same call, so
        // any state shared by machine indices that alias (mod 8, 32, 64, 256) shows at once
        let mut c1 = cfg.clone();
        c1.prob_one = true;
        c1.density = 60;
        c1.max_states = 3;
        let m = genm::gen_machine(p, &c1);
        (0..n).map(|_| m.clone()).collect()
    } else {
        (0..n).map(|_| genm::gen_machine(p, &cfg)).collect()
    };
    // the long machine: a chain over NormalSent with an action in every state, a signal from the top
    let len = *p.pick(&[257usize, 300, 600]);
    let konst = |v: f64| Dist { dist: DistType::Uniform { low: v, high: v }, start: 0.0, max: 0.0 };
    let mut states = Vec::with_capacity(len);
    for i in 0..len {
        let next = if i + 1 < len { i + 1 } else { 0 };
        let mut st = State::new(enum_map! {
            Event::NormalSent => vec![Trans(next, 1.0)],
            Event::Signal => if i % 7 == 0 { vec![Trans((i * 31 + 5) % len, 1.0)] } else { vec![] },
            Event::NormalRecv => if i + 1 == len { vec![Trans(STATE_SIGNAL, 1.0)] } else { vec![] },
            // long transition lists (12 and 20 entries, more than any blocking factor of the sampling loop)
            Event::TunnelRecv => if i % 5 == 0 { (0..12).map(|k| Trans((i + 3 * k + 1) % len, 0.0625)).collect() } else { vec![] },
            Event::PaddingRecv => if i % 11 == 0 { (0..20).map(|k| Trans((i + 7 * k + 2) % len, 0.04)).collect() } else { vec![] },
            _ => vec![],
        });
        st.action = Some(match i % 3 {
            0 => Action::SendPadding { bypass: i % 2 == 0, replace: i % 5 == 0, timeout: konst(i as f64), limit: None },
            1 => Action::UpdateTimer { replace: false, duration: konst(i as f64), limit: None },
            _ => Action::BlockOutgoing { bypass: false, replace: i % 2 == 1, timeout: konst(1.0), duration: konst(i as f64), limit: None },
        });
        states.push(st);
    }
    let long = Machine::new(u64::MAX, 0.0, u64::MAX, 0.0, states).expect("wide long machine");
    let pos = p.below(n as u64 - 1) as usize;
    machines[pos] = long;
    // the last machine (index 8, 16, 32, 64, 65, 129, 256, 299) is a plain signaller: it signals on every
    // NormalRecv and pads when signalled, so that the signal slot has to remember a high machine index
    {
        let mut s0 = State::new(enum_map! {
            Event::NormalRecv => vec![Trans(STATE_SIGNAL, 1.0)],
            Event::Signal => vec![Trans(0, 1.0)],
            _ => vec![],
        });
        s0.action = Some(Action::SendPadding { bypass: false, replace: false, timeout: konst(7.0), limit: None });
        machines[n - 1] = Machine::new(u64::MAX, 0.0, 0, 0.0, vec![s0]).expect("wide signaller");
    }
    // history: enough NormalSent to climb the chain, interleaved with completions for high machine ids
    let mut calls = Vec::new();
    let mut t: i128 = 0;
    let steps = p.range(40, 120);
    for k in 0..steps {
        t += p.below(3) as i128 * 1000;
        let mut evs = Vec::new();
        let burst = if k % 4 == 0 { p.range(1, 12) } else { 1 };
        for _ in 0..burst {
            evs.push(TriggerEvent::NormalSent);
        }
        if p.chance(1, 2) {
            evs.push(crate::fw::gen_event(p, n));
        }
        if p.chance(1, 6) {
            evs.push(TriggerEvent::NormalRecv);
        }
        if p.chance(1, 3) {
            evs.push(if p.chance(1, 2) { TriggerEvent::TunnelRecv } else { TriggerEvent::PaddingRecv });
        }
        calls.push((t, evs));
    }
    FwCase { id, kind: "wide".into(), machines, fp: 0.0, fb: 0.0, t0: 0, calls, rng_seed: p.next(), extreme: 0, ni: None, prefix: vec![] }
}

/// Two different, busy machines at machine indices that are a word-size multiple apart (8, 16, 32, 64,
/// 128, 256), all other machines inert, and a history that addresses exactly these two: any per-machine
/// state that is keyed by a narrowed or wrapped index makes one of them see the other's state.
fn gen_alias(p: &mut Prng, id: String) -> FwCase {
    use enum_map::enum_map;
    let d = *p.pick(&[8usize, 16, 32, 64, 64, 128, 256]);
    let n = d + 1 + p.below(6) as usize;
    let i = p.below((n - d) as u64) as usize;
    let mut cfg = GenCfg::default();
    cfg.dist = *p.pick(&[DistMode::Const, DistMode::Const, DistMode::Uniform]);
    cfg.max_states = p.range(2, 4) as usize;
    cfg.density = 60;
    let inert = Machine::new(0, 0.0, 0, 0.0, vec![State::new(enum_map! { _ => vec![] })]).expect("inert machine");
    let mut machines: Vec<Machine> = (0..n).map(|_| inert.clone()).collect();
    machines[i] = genm::gen_machine(p, &cfg);
    machines[i + d] = genm::gen_machine(p, &cfg);
    let fp = *p.pick(&[0.0, 0.0, 0.5, 1.0]);
    let fb = *p.pick(&[0.0, 0.0, 0.5]);
    let single = p.chance(1, 2);
    let mut calls = gen_history(p, n, single, 60, false);
    // completions address the pair (and now and then a neighbour of it)
    for (_, evs) in calls.iter_mut() {
        for e in evs.iter_mut() {
            let pick = |p: &mut Prng| MachineId::from_raw(match p.below(10) { 0..=3 => i, 4..=7 => i + d, 8 => i + 1, _ => n });
            match e {
                TriggerEvent::PaddingSent { machine } | TriggerEvent::BlockingBegin { machine } | TriggerEvent::TimerBegin { machine } | TriggerEvent::TimerEnd { machine } => {
                    *machine = pick(p);
                }
                _ => {}
            }
        }
    }
    FwCase { id, kind: "alias".into(), machines, fp, fb, t0: 0, calls, rng_seed: p.next(), extreme: 0, ni: None, prefix: vec![] }
}

/// long histories on one instance: 260 to 700 calls (past a wrapping u8 call counter or generation stamp),
/// small counter-heavy machines so that the per-call state (guard flags, slots, pending signal) is exercised
/// in every call
fn gen_longhist(p: &mut Prng, id: String) -> FwCase {
    let mut cfg = GenCfg::default();
    cfg.dist = DistMode::Const;
    cfg.max_states = p.range(2, 4) as usize;
    cfg.density = 70;
    cfg.counters = true;
    let n = p.range(1, 3) as usize;
    let machines: Vec<Machine> = (0..n).map(|_| genm::gen_machine(p, &cfg)).collect();
    let want = *p.pick(&[260u64, 300, 520, 700]);
    let mut calls = Vec::new();
    let mut t: i128 = 0;
    while (calls.len() as u64) < want {
        let more = gen_history(p, n, true, 80, false);
        for (dt, evs) in more {
            t += (dt % 5_000_000).max(0);
            calls.push((t, evs));
        }
    }
    calls.truncate(want as usize);
    FwCase { id, kind: "longhist".into(), machines, fp: 0.0, fb: 0.0, t0: 0, calls, rng_seed: p.next(), extreme: 0, ni: None, prefix: vec![] }
}

pub fn gen_kind(kind: &str, p: &mut Prng, id: String) -> Option<FwCase> {
    match kind {
        "longhist" => Some(gen_longhist(p, id)),
        "alias" => Some(gen_alias(p, id)),
        "wide" => Some(gen_wide(p, id)),
        "c02frac" => Some(gen_c02frac(p, id)),
        "extsample" => {
            let first = id.ends_with("-0");
            Some(gen_extsample(p, id, first))
        }
        "c07" => Some(gen_c07(p, id)),
        "c08" => Some(gen_c08(p, id)),
        "c09" => Some(gen_c09(p, id)),
        "ni" => Some(gen_ni(p, id)),
        "czcycle" => Some(gen_czcycle(p, id)),
        _ => None,
    }
}
