//! Property-directed generators for framework cases (boundary generators of DESIGN.md section 5).

use crate::fw::{gen_event, gen_history, FwCase};
use crate::genm::{self, DistMode, GenCfg};
use crate::util::Prng;
use maybenot::{Machine, MachineId, TriggerEvent};

fn completion_for(p: &mut Prng, n: usize) -> TriggerEvent {
    // completions for the right machine, other machines and unknown ids
    let id = match p.below(10) {
        0..=5 => p.below(n.max(1) as u64) as usize,
        6 | 7 => n,
        8 => usize::MAX,
        _ => u32::MAX as usize,
    };
    let m = MachineId::from_raw(id);
    match p.below(3) {
        0 => TriggerEvent::PaddingSent { machine: m },
        1 => TriggerEvent::BlockingBegin { machine: m },
        _ => TriggerEvent::TimerBegin { machine: m },
    }
}

/// C07: limited actions, histories heavy on completions, self-transitions, leave-and-return.
fn gen_c07(p: &mut Prng, id: String) -> FwCase {
    let mut cfg = GenCfg::default();
    cfg.dist = *p.pick(&[DistMode::Const, DistMode::Uniform]);
    cfg.max_states = p.range(1, 4) as usize;
    cfg.density = 55;
    cfg.kinds = vec![1, 2, 3];
    cfg.allow_signal = p.chance(1, 4);
    cfg.allow_end = p.chance(1, 4);
    let n = p.range(1, 3) as usize;
    let machines: Vec<Machine> = (0..n).map(|_| genm::gen_machine(p, &cfg)).collect();
    let single = p.chance(2, 3);
    let ncalls = p.range(5, 60);
    let mut t: i128 = 0;
    let mut calls = Vec::new();
    for _ in 0..ncalls {
        t += p.below(3_000_000) as i128;
        let k = if single { 1 } else { p.range(1, 4) };
        let evs: Vec<TriggerEvent> = (0..k).map(|_| if p.chance(3, 5) { completion_for(p, n) } else { gen_event(p, n) }).collect();
        calls.push((t, evs));
    }
    FwCase { id, kind: "c07".into(), machines, fp: 0.0, fb: 0.0, t0: 0, calls, rng_seed: p.next(), extreme: 0, ni: None }
}

/// C08: counters everywhere, several machines hitting zero in one call, copy meets saturation.
fn gen_c08(p: &mut Prng, id: String) -> FwCase {
    let mut cfg = GenCfg::default();
    cfg.dist = *p.pick(&[DistMode::Const, DistMode::Uniform]);
    cfg.max_states = p.range(1, 4) as usize;
    cfg.density = 60;
    cfg.counters = true;
    cfg.allow_signal = false;
    let n = p.range(1, 4) as usize;
    let machines: Vec<Machine> = (0..n).map(|_| genm::gen_machine(p, &cfg)).collect();
    let single = p.chance(1, 2);
    let calls = gen_history(p, n, single, 60, false);
    FwCase { id, kind: "c08".into(), machines, fp: 0.0, fb: 0.0, t0: 0, calls, rng_seed: p.next(), extreme: 0, ni: None }
}

/// C09: machines that signal on external events, LimitReached, CounterZero and Signal.
fn gen_c09(p: &mut Prng, id: String) -> FwCase {
    let mut cfg = GenCfg::default();
    cfg.dist = DistMode::Const;
    cfg.max_states = p.range(1, 3) as usize;
    cfg.density = 60;
    cfg.allow_signal = true;
    cfg.allow_end = p.chance(1, 3);
    cfg.prob_one = p.chance(1, 2);
    let n = p.range(1, 4) as usize;
    let machines: Vec<Machine> = (0..n).map(|_| genm::gen_machine(p, &cfg)).collect();
    let single = p.chance(1, 2);
    let calls = gen_history(p, n, single, 40, false);
    FwCase { id, kind: "c09".into(), machines, fp: 0.0, fb: 0.0, t0: 0, calls, rng_seed: p.next(), extreme: 0, ni: None }
}

/// C10: a draw-independent probe machine that never signals, next to arbitrary non-signalling
/// neighbours; the harness also runs the probe alone on the projected history.
fn gen_ni(p: &mut Prng, id: String) -> FwCase {
    let mut probe_cfg = GenCfg::default();
    probe_cfg.dist = DistMode::Const;
    probe_cfg.prob_one = true;
    probe_cfg.allow_signal = false;
    probe_cfg.max_states = p.range(1, 4) as usize;
    probe_cfg.density = 60;
    let mut ncfg = GenCfg::default();
    ncfg.dist = *p.pick(&[DistMode::Const, DistMode::Uniform, DistMode::All]);
    ncfg.allow_signal = false;
    ncfg.max_states = p.range(1, 4) as usize;
    ncfg.density = 60;
    let n = p.range(2, 4) as usize;
    let pos = p.below(n as u64) as usize;
    let machines: Vec<Machine> = (0..n).map(|i| if i == pos { genm::gen_machine(p, &probe_cfg) } else { genm::gen_machine(p, &ncfg) }).collect();
    let single = p.chance(1, 2);
    let wild = p.chance(1, 3);
    let calls = gen_history(p, n, single, 50, wild);
    FwCase { id, kind: "ni".into(), machines, fp: 0.0, fb: 0.0, t0: 0, calls, rng_seed: p.next(), extreme: 0, ni: Some(pos) }
}

pub fn gen_kind(kind: &str, p: &mut Prng, id: String) -> Option<FwCase> {
    match kind {
        "c07" => Some(gen_c07(p, id)),
        "c08" => Some(gen_c08(p, id)),
        "c09" => Some(gen_c09(p, id)),
        "ni" => Some(gen_ni(p, id)),
        _ => None,
    }
}
