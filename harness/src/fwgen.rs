//! Property-directed generators for framework cases (boundary generators of DESIGN.md section 5).

use crate::fw::FwCase;
use crate::util::Prng;

pub fn gen_kind(kind: &str, _p: &mut Prng, _id: String) -> Option<FwCase> {
    match kind {
        _ => None,
    }
}
