import Driver.Main
