/-
  Model of validation: `Dist::validate` (dist.rs, including the parameter checks of the
  rand_distr 0.4.3 constructors it delegates to), `Action::validate`, `Counter::validate`,
  `State::validate`, `Machine::validate` and the argument checks of `Framework::new`.
  Comparisons are IEEE comparisons on `FV` (every comparison with NaN is false).
-/
import MbVerif.Types

namespace Mb
namespace Validate
open Fp

def isFinite : FV → Bool
  | .fin _ => true
  | _ => false

def zero : FV := .fin 0
def one : FV := .fin 1

/-- the f64 constant `DIST_MIN_PROBABILITY` (the decimal literal rounded to binary64) -/
def distMinProbability : FV :=
  Fp.f64.round ((Gen.DIST_MIN_PROBABILITY_NUM : Rat) / (Gen.DIST_MIN_PROBABILITY_DEN : Rat))

/-- the f64 literal `1e42` in the Poisson check -/
def poissonMaxLambda : FV := Fp.f64.round (Gen.POISSON_MAX_LAMBDA : Rat)

/-- `Dist::validate` -/
def distType : DistType → Bool
  | .uniform lo hi =>
    let l := val64 lo
    let h := val64 hi
    if isNan l || isNan h then false
    else if isInf l || isInf h then false
    else if gt l h then false
    else if isInf (sub f64 h l) then false
    else true
  | .normal _ stdev => isFinite (val64 stdev)                      -- Normal::new
  | .skewNormal _ scale shape =>                                   -- SkewNormal::new
    let sc := val64 scale
    if !isFinite sc || !(gt sc zero) then false
    else if !isFinite (val64 shape) then false
    else true
  | .logNormal _ sigma => isFinite (val64 sigma)                   -- LogNormal::new = Normal::new
  | .binomial trials p =>
    let p := val64 p
    if !feq p zero && lt p distMinProbability then false            -- `p != 0.0 && p < MIN`
    else if trials > Gen.BINOMIAL_MAX_TRIALS then false
    else if !(ge p zero) then false                                -- Binomial::new
    else if !(le p one) then false
    else true
  | .geometric p =>
    let p := val64 p
    if !feq p zero && lt p distMinProbability then false
    else if !isFinite p || lt p zero || gt p one then false        -- Geometric::new
    else true
  | .pareto scale shape =>                                         -- Pareto::new
    if !(gt (val64 scale) zero) then false
    else if !(gt (val64 shape) zero) then false
    else true
  | .poisson lambda =>
    let l := val64 lambda
    if gt l poissonMaxLambda then false
    else if !(gt l zero) then false                                -- Poisson::new
    else true
  | .weibull scale shape =>                                        -- Weibull::new
    if !(gt (val64 scale) zero) then false
    else if !(gt (val64 shape) zero) then false
    else true
  | .gamma scale shape =>                                          -- Gamma::new(shape, scale)
    let sh := val64 shape
    let sc := val64 scale
    if !(gt sh zero) then false
    else if !(gt sc zero) then false
    else if feq sh one then ge (div f64 one sc) zero               -- Exp::new(1/scale)
    else true
  | .beta alpha beta =>                                            -- Beta::new
    if !(gt (val64 alpha) zero) then false
    else if !(gt (val64 beta) zero) then false
    else true

def dist (d : Dist) : Bool := distType d.dist

def optDist : Option Dist → Bool
  | none => true
  | some d => dist d

/-- `Action::validate` -/
def action : Action → Bool
  | .cancel _ => true
  | .sendPadding _ _ to lim => dist to && optDist lim
  | .blockOutgoing _ _ to du lim => dist to && dist du && optDist lim
  | .updateTimer _ du lim => dist du && optDist lim

/-- `Counter::validate` -/
def counter (c : Counter) : Bool := optDist c.dist

/-! ### The three range tests of `Machine::validate` / `State::validate`

The tests on machine fractions, transition probabilities and per-vector sums are routed
through three named functions so that a change of the comparison style in the code is
mirrored by changing `fracBad`, `probBad`, `sumBad` below (one line each).

* `…Cur`   : the code as it is today: `x < 0.0 || x > 1.0`, `p <= 0.0 || p > 1.0`,
             `sum <= 0.0 || sum > 1.0`.  Every comparison with NaN is false, so NaN passes.
* `…Fixed` : the NaN-rejecting style `!(x >= 0.0 && x <= 1.0)`, `!(p > 0.0 && p <= 1.0)`,
             `!(sum > 0.0 && sum <= 1.0)`.
-/

/-- `x < 0.0 || x > 1.0` (machine.rs) -/
def fracBadCur (x : FV) : Bool := lt x zero || gt x one
/-- `t.1 <= 0.0 || t.1 > 1.0` (state.rs) -/
def probBadCur (p : FV) : Bool := le p zero || gt p one
/-- `sum <= 0.0 || sum > 1.0` (state.rs) -/
def sumBadCur (s : FV) : Bool := le s zero || gt s one

/-- `!(x >= 0.0 && x <= 1.0)` -/
def fracBadFixed (x : FV) : Bool := !(ge x zero && le x one)
/-- `!(p > 0.0 && p <= 1.0)` -/
def probBadFixed (p : FV) : Bool := !(gt p zero && le p one)
/-- `!(sum > 0.0 && sum <= 1.0)` -/
def sumBadFixed (s : FV) : Bool := !(gt s zero && le s one)

/-- the three range tests as a parameter of the validation model -/
structure Checks where
  fracBad : FV → Bool
  probBad : FV → Bool
  sumBad : FV → Bool

def checksCur : Checks := ⟨fracBadCur, probBadCur, sumBadCur⟩
def checksFixed : Checks := ⟨fracBadFixed, probBadFixed, sumBadFixed⟩

/-! **MIRROR POINT**: these three definitions say which style /repo uses today
    (the NaN-rejecting style since fix 65165a2; `…Cur` is the style before that fix). -/
def fracBad : FV → Bool := fracBadFixed
def probBad : FV → Bool := probBadFixed
def sumBad : FV → Bool := sumBadFixed

/-- the tests used by the code today -/
def checks : Checks := ⟨fracBad, probBad, sumBad⟩

/-- the per-vector loop of `State::validate`: returns the f32 sum, or `none` on error -/
def transLoopWith (c : Checks) (numStates : Nat) : List Trans → List Nat → FV → Option FV
  | [], _, sum => some sum
  | t :: ts, seen, sum =>
    if t.target ≥ numStates && t.target != STATE_END && t.target != STATE_SIGNAL then none
    else if seen.contains t.target then none
    else
      let p := val32 t.prob
      if c.probBad p then none
      else transLoopWith c numStates ts (t.target :: seen) (add f32 sum p)

def transVecWith (c : Checks) (numStates : Nat) (ts : List Trans) : Bool :=
  match transLoopWith c numStates ts [] zero with
  | none => false
  | some sum => !(c.sumBad sum)

/-- `State::validate` -/
def stateWith (c : Checks) (numStates : Nat) (s : State) : Bool :=
  s.transitions.all (fun v => match v with
    | none => true
    | some ts => transVecWith c numStates ts)
  && (match s.action with | none => true | some a => action a)
  && (match s.counterA with | none => true | some c => counter c)
  && (match s.counterB with | none => true | some c => counter c)

/-- `Machine::validate` -/
def machineWith (c : Checks) (m : Machine) : Bool :=
  let pf := val64 m.maxPaddingFrac
  let bf := val64 m.maxBlockingFrac
  if c.fracBad pf then false
  else if c.fracBad bf then false
  else if m.states.length == 0 then false
  else if m.states.length > STATE_MAX then false
  else m.states.all (stateWith c m.states.length)

/-! ### The code as it is today

Written out directly (through `fracBad`, `probBad`, `sumBad`) so that proofs can unfold them
step by step; `machine_eq_with` ties them to the parametrised model above. -/

/-- the per-vector loop of `State::validate`: returns the f32 sum, or `none` on error -/
def transLoop (numStates : Nat) : List Trans → List Nat → FV → Option FV
  | [], _, sum => some sum
  | t :: ts, seen, sum =>
    if t.target ≥ numStates && t.target != STATE_END && t.target != STATE_SIGNAL then none
    else if seen.contains t.target then none
    else
      let p := val32 t.prob
      if probBad p then none
      else transLoop numStates ts (t.target :: seen) (add f32 sum p)

def transVec (numStates : Nat) (ts : List Trans) : Bool :=
  match transLoop numStates ts [] zero with
  | none => false
  | some sum => !(sumBad sum)

/-- `State::validate` -/
def state (numStates : Nat) (s : State) : Bool :=
  s.transitions.all (fun v => match v with
    | none => true
    | some ts => transVec numStates ts)
  && (match s.action with | none => true | some a => action a)
  && (match s.counterA with | none => true | some c => counter c)
  && (match s.counterB with | none => true | some c => counter c)

/-- `Machine::validate` -/
def machine (m : Machine) : Bool :=
  let pf := val64 m.maxPaddingFrac
  let bf := val64 m.maxBlockingFrac
  if fracBad pf then false
  else if fracBad bf then false
  else if m.states.length == 0 then false
  else if m.states.length > STATE_MAX then false
  else m.states.all (state m.states.length)

theorem transLoop_eq_with (n : Nat) : ∀ (ts : List Trans) (seen : List Nat) (sum : FV),
    transLoop n ts seen sum = transLoopWith checks n ts seen sum := by
  intro ts
  induction ts with
  | nil => intro _ _; rfl
  | cons t ts ih =>
    intro seen sum
    simp only [transLoop, transLoopWith, ih]
    rfl

theorem transVec_eq_with (n : Nat) (ts : List Trans) : transVec n ts = transVecWith checks n ts := by
  unfold transVec transVecWith
  rw [transLoop_eq_with]
  rfl

theorem state_eq_with (n : Nat) : state n = stateWith checks n := by
  funext s
  unfold state stateWith
  have : (fun v : Option (List Trans) => match v with | none => true | some ts => transVec n ts) =
      (fun v => match v with | none => true | some ts => transVecWith checks n ts) := by
    funext v; cases v <;> simp [transVec_eq_with]
  rw [this]

/-- today's `Machine::validate` is the parametrised model at today's range tests -/
theorem machine_eq_with (m : Machine) : machine m = machineWith checks m := by
  unfold machine machineWith
  rw [state_eq_with]
  rfl

/-- `(0.0..=1.0).contains(&x)` -/
def fracOK (x : F64) : Bool := le zero (val64 x) && le (val64 x) one

/-- the checks of `Framework::new` -/
def frameworkNew (ms : List Machine) (fp fb : F64) : Bool :=
  fracOK fp && fracOK fb && ms.all machine

end Validate
end Mb
