/-
  C05 — actions are a deterministic function of the inputs, matching the stated semantics.

  The model *is* a function of (machines, fractions, start time, oracle, history); what these
  theorems add is (a) that nothing else is an input: the run is determined by the draws it
  consumes (`C05_oracle_ext`), (b) an instance and its clone continue identically
  (`C05_clone`), and (c) the unfolding equations that are the documented operational
  semantics (`C05_order_*`): a call clears the slots, processes the events left to right and
  then delivers one signal round; global events visit the machines in index order.
  That the Rust code computes this function is the correspondence check (actions, full
  snapshot and internal log after every call).
-/
import MbVerif.Framework

namespace Mb.C05
open Mb

variable {σ : Type} (ρ : Oracle σ)

/-- Running a history in two pieces is running the second piece from the state reached by the
    first: an instance and its clone (same state, same random source) continue identically. -/
theorem C05_clone (s : Fw σ) (h₁ h₂ : List Call) :
    runCalls ρ s (h₁ ++ h₂) = runCalls ρ (runCalls ρ s h₁) h₂ := by
  simp [runCalls, List.foldl_append]

/-- The observable run of `h₁ ++ h₂` is the run of `h₁` followed by the run of `h₂` from the
    reached state. -/
theorem C05_clone_actions (s : Fw σ) (h₁ h₂ : List Call) :
    runActions ρ s (h₁ ++ h₂) = runActions ρ s h₁ ++ runActions ρ (runCalls ρ s h₁) h₂ := by
  induction h₁ generalizing s with
  | nil => simp [runActions, runStates, runCalls]
  | cons c h ih =>
    have := ih (triggerEvents ρ c.1 c.2 s)
    simp [runActions, runStates, runCalls] at this ⊢
    exact this

/-- Two oracles that are extensionally equal give the same run: the oracle values are the only
    source of randomness. -/
theorem C05_oracle_ext (ρ₁ ρ₂ : Oracle σ) (hu : ∀ x, ρ₁.u x = ρ₂.u x) (hd : ∀ d x, ρ₁.d d x = ρ₂.d d x)
    (s : Fw σ) (h : List Call) : runCalls ρ₁ s h = runCalls ρ₂ s h := by
  have : ρ₁ = ρ₂ := by
    cases ρ₁; cases ρ₂; congr
    · funext x; exact hu x
    · funext d x; exact hd d x
  rw [this]

/-- Stated semantics, call level: clear the action slots and the counter-zero flags, take the
    new time, process the events in order, then one signal round. -/
theorem C05_order_call (es : List TEvent) (t : Int) (s : Fw σ) :
    triggerEvents ρ es t s =
      signalRound ρ (es.foldl (fun s e => processEvent ρ e s) (s.callStart t)) := rfl

/-- Stated semantics, batch level: a batch is the left fold of its events. -/
theorem C05_order_batch (e : TEvent) (es : List TEvent) (s : Fw σ) :
    (e :: es).foldl (fun s e => processEvent ρ e s) s =
      es.foldl (fun s e => processEvent ρ e s) (processEvent ρ e s) := rfl

/-- Stated semantics, event level: a global event is delivered to the machines in index order,
    each transition (with its internal LimitReached / CounterZero follow-ups) completing before
    the next machine is touched. -/
theorem C05_order_global (s : Fw σ) :
    processEvent ρ .normalRecv s =
      (List.range s.rt.length).foldl (fun s mi => (transition ρ FUEL mi .normalRecv s).1) s := rfl

/-- Nothing is carried from one call to the next in the action slots: whatever a previous call
    left there (any list of the same length), the next call computes the same framework. So the
    actions of a call depend on the earlier history only through the machines' runtime and the
    framework-wide accounting. -/
theorem C05_stale_slots_irrelevant (es : List TEvent) (t : Int) (s : Fw σ)
    (a' : List (Option TAction)) (h : a'.length = s.actions.length) :
    triggerEvents ρ es t { s with actions := a' } = triggerEvents ρ es t s := by
  have : Fw.callStart { s with actions := a' } t = s.callStart t := by
    simp only [Fw.callStart, List.map_const', h]
  simp only [triggerEvents, this]

/-- The once-per-call CounterZero guard flags do not survive the call either: whatever value they
    had when the previous call returned, the next call computes the same framework. -/
theorem C05_stale_flags_irrelevant (es : List TEvent) (t : Int) (s : Fw σ) (rt' : List Runtime)
    (h : rt'.map (fun r => { r with zeroedA := false, zeroedB := false }) =
         s.rt.map (fun r => { r with zeroedA := false, zeroedB := false })) :
    triggerEvents ρ es t { s with rt := rt' } = triggerEvents ρ es t s := by
  have : Fw.callStart { s with rt := rt' } t = s.callStart t := by
    simp only [Fw.callStart, h]
  simp only [triggerEvents, this]

/-- The framework's previous clock value is not an input of a call: only the time passed to the
    call is (no wall clock, no remembered "now"). -/
theorem C05_previous_now_irrelevant (es : List TEvent) (t t' : Int) (s : Fw σ) :
    triggerEvents ρ es t { s with g := { s.g with now := t' } } = triggerEvents ρ es t s := by
  simp only [triggerEvents, Fw.callStart]

/-- One list of actions per call, in call order. -/
theorem C05_one_result_per_call (s : Fw σ) (h : List Call) :
    (runActions ρ s h).length = h.length := by
  induction h generalizing s with
  | nil => simp [runActions, runStates]
  | cons c h ih =>
    have := ih (triggerEvents ρ c.1 c.2 s)
    simp [runActions, runStates] at this ⊢
    exact this

/-- The actions of the first `n` calls do not depend on what is reported later: a prefix of the
    history returns a prefix of the results (the framework cannot look ahead). -/
theorem C05_prefix (s : Fw σ) (h₁ h₂ : List Call) :
    (runActions ρ s (h₁ ++ h₂)).take h₁.length = runActions ρ s h₁ := by
  rw [C05_clone_actions, List.take_left' (C05_one_result_per_call ρ s h₁)]

/-- A call that reports no event, on a framework with no signal pending (the state in which
    every call leaves it in the Rust code), returns no action at all, whatever the previous
    call left in the slots: an action is returned only by the call whose events caused it. -/
theorem C05_empty_call_returns_nothing (t : Int) (s : Fw σ) (h : s.signalPending = none) :
    (triggerEvents ρ [] t s).actionsOut = [] := by
  have hp : (s.callStart t).signalPending = none := by simpa [Fw.callStart] using h
  simp only [triggerEvents, List.foldl_nil, signalRound, hp]
  simp [Fw.actionsOut, Fw.callStart, List.filterMap_map]

end Mb.C05
