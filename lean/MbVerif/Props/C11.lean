/-
  C11 — machine strings round-trip exactly and hostile strings are rejected safely.

  Model: bincode 1.3 `DefaultOptions` for `Machine` (`Codec.lean`), RFC 4648 base64 as accepted by
  the `base64` crate's STANDARD engine (`Base64.lean`), `Machine::serialize` / `from_str` with
  checked string slices (`MachineStr.lean`), the legacy v1 parser with every slice, index and
  usize operation checked (`ParseV1.lean`), validation (`Validate.lean`).

  What is assumed, and where:
  * zlib is a PARAMETER `Z : MStr.Zlib` (`deflate`, and `readOnce` = the single `read` call into a
    1 MiB buffer that `from_str` makes).  The round-trip theorems (`C11_roundtrip`,
    `C11_same_string`, `C11_same_name`) take `Z.Contract` as a hypothesis: the one read returns
    the whole payload whenever it is at most `MAX_DECOMPRESSED_SIZE` bytes, and a zlib stream is
    never empty.  The safety theorems (`C11_rejects_safely`, `C11_from_str_factors`) hold for EVERY
    `Z`, with no contract.  The harness checks the contract on the real flate2 path for every
    generated machine (it does not hold there for compressed forms above 32 KiB; that is reported
    by the round-trip monitor, not hidden here).
  * Memory.  The allocator is outside the model; what the model CAN say is "no amplification",
    and that is a theorem here.  `Machine.cells` (Spec/C11.lean) counts what a decoded machine
    occupies up to a constant factor per kind: states + present transition vectors (a present but
    empty vector counts 1) + transition entries + distributions.
    - `C11_decode_no_amplification`: `decodeMachine b = some m → m.cells ≤ |b|`, with the exact
      wire weights (19 header bytes, 16 per state, 25 per `Dist`, 1 per present vector, 5 per
      entry); `C11_decode_no_amplification_rem` is the same for `decMachine` / `decState`, which
      return the unread input.  The bound is attained (`C11_no_amplification_tight`).
    - `C11_length_prefix_checked`: a `Vec` length prefix larger than the number of bytes that
      follow it makes the decode FAIL at once (the model tests `hasAtLeast n rest`, which looks
      at no more than `n` list cells, and does not iterate or build anything); an accepted vector
      is shorter than the input that held it.  bincode itself caps serde's preallocation
      (`size_hint::cautious`) and then fails at end of input or at the byte limit: same verdict.
    - `C11_fromStr_memory_model`: for every string `s` and EVERY zlib behaviour whose bounded read
      returns at most `MAX = MAX_DECOMPRESSED_SIZE` bytes (`Z.Bounded`, the stated contract of
      the read into the fixed buffer; it says nothing about how far the stream WOULD expand):
      base64 output ≤ 3/4 |s|, decompressed bytes ≤ MAX, `m.cells + 19 ≤ MAX`,
      `16 * #states + 19 ≤ MAX`, and the sum of all three is ≤ |s| + 2 * MAX.
    What this does NOT say: it is a statement about the NUMBER OF CELLS the decoder can produce
    from the bytes it is given, not about bytes on the heap.  `size_of::<State>()`, `Vec` growth
    policy (capacity up to 2x length), the zeroed `MAX`-byte read buffer, flate2's and base64's
    internal buffers and allocator overhead are constant factors (or constants) outside the
    model; with them the theorem reads "heap ≤ c1 * MAX + c2 * |s| + c3" for constants fixed by
    the type layouts, and the counting-allocator measurement on bomb streams (harness `codec-*`)
    stays as supporting evidence for those constants.
  * `WFm m`: the model keeps `u64`/`usize` fields as `Nat`; `WFm` says they fit 64 bits and every
    state has `EVENT_NUM` transition slots.  Every Rust `Machine` satisfies it, and so does
    everything the decoder returns (`C11_decoded_representable`).
  * v1: hex decoding and `read_to_end` are outside (the theorem is about the decompressed
    buffer); a buffer has fewer than 2^64 bytes.
  * No claim of canonical re-encoding of arbitrary accepted bytes: bincode accepts
    non-canonical varints (`C11_noncanonical_accepted`).
-/
import MbVerif.Spec.C11
import MbVerif.Proofs.CodecRoundtrip
import MbVerif.Proofs.CodecDecodeWF
import MbVerif.Proofs.CodecBase64
import MbVerif.Proofs.CodecStr
import MbVerif.Proofs.CodecParseV1
import MbVerif.Proofs.CodecSize

namespace Mb.C11
open Mb
open Mb.Codec (Bytes)
open Mb.MStr

/-! ### bincode -/

/-- Decoding the encoding of a representable machine, followed by any bytes `r`, returns the
    machine and exactly `r`. -/
theorem C11_bincode_roundtrip (m : Machine) (h : Codec.WFm m = true) (r : Bytes) :
    Codec.decMachine (Codec.encMachine m ++ r) = some (m, r) :=
  Codec.encMachine_RT m h r

/-- `bincoder.deserialize(bincoder.serialize(m)) = m` (trailing bytes rejected, none present). -/
theorem C11_bincode_decode_encode (m : Machine) (h : Codec.WFm m = true) :
    Codec.decodeMachine (Codec.encMachine m) = some m :=
  Codec.decodeMachine_encMachine m h

/-- Floats are carried as raw bits: every `f64`/`f32` bit pattern (NaN payloads, signed zeros,
    subnormals) survives the codec. -/
theorem C11_float_bits (x : F64) (y : F32) (r : Bytes) :
    Codec.decF64 (Codec.encF64 x ++ r) = some (x, r) ∧ Codec.decF32 (Codec.encF32 y ++ r) = some (y, r) :=
  ⟨Codec.encF64_RT x r, Codec.encF32_RT y r⟩

/-- Whatever the decoder accepts is representable: decoded integers and lengths are below 2^64,
    every state has `EVENT_NUM` transition slots. -/
theorem C11_decoded_representable (bs : Bytes) (m : Machine) (h : Codec.decodeMachine bs = some m) :
    Codec.WFm m = true :=
  Codec.decodeMachine_wf h

/-- Re-encoding is NOT canonical for arbitrary accepted input: a 37-byte string with a
    non-canonical varint decodes to a machine whose encoding is a different (shorter) string. -/
theorem C11_noncanonical_accepted :
    ∃ bs m, Codec.decodeMachine bs = some m ∧ Codec.encMachine m ≠ bs := by
  refine ⟨[251, 0, 0] ++ List.replicate 8 0 ++ [0] ++ List.replicate 8 0 ++ [1] ++ List.replicate 16 0,
    { allowedPaddingPackets := 0, maxPaddingFrac := 0, allowedBlockedMicrosec := 0, maxBlockingFrac := 0,
      states := [{ action := none, counterA := none, counterB := none, transitions := List.replicate 13 none }] },
    by decide, by decide⟩

/-! ### base64 -/

/-- The STANDARD engine decodes what it encoded. -/
theorem C11_base64_roundtrip (b : Bytes) : B64.dec (B64.enc b) = some b :=
  B64.dec_enc b

/-! ### the string form -/

/-- Round trip: under the zlib contract, parsing the serialized string of a valid, representable
    machine whose encoding fits the limit yields exactly that machine. -/
theorem C11_roundtrip (Z : Zlib) (hZ : Z.Contract) : RoundTrip Z :=
  fun m ⟨hv, hwf, hlen⟩ => fromStr_serialize Z hZ m hv hwf hlen

/-- ... and the parsed machine serializes to the identical string. -/
theorem C11_same_string (Z : Zlib) (hZ : Z.Contract) : SameString Z := by
  intro m m' hm h
  have := C11_roundtrip Z hZ m hm
  rw [this] at h
  cases h
  rfl

/-- ... hence anything computed from the string (`name()` is a hash of it) agrees. -/
theorem C11_same_name {α : Type} (name : Bytes → α) (Z : Zlib) (hZ : Z.Contract) (m m' : Machine)
    (hm : Admissible m) (h : fromStr Z (serialize Z m) = .ok m') :
    name (serialize Z m') = name (serialize Z m) := by
  rw [C11_same_string Z hZ m m' hm h]

/-- Safety, for every string and EVERY zlib behaviour: `from_str` does not panic (its string
    slices are in range and on char boundaries because of the length and ASCII tests before
    them), and whatever it returns passed validation. -/
theorem C11_rejects_safely (Z : Zlib) : RejectsSafely Z := by
  intro s
  refine ⟨fromStr_nopanic Z s, fun m h => ?_⟩
  obtain ⟨_, _, _, _, _, _, _, _, hv⟩ := fromStr_ok h
  exact hv

/-- `from_str` is exactly: length/ASCII/version checks, base64 decode of the rest, one bounded
    read, bincode decode with trailing bytes rejected, validation. -/
theorem C11_from_str_factors (Z : Zlib) (s : Bytes) (m : Machine) (h : fromStr Z s = .ok m) :
    ∃ compressed raw, 3 ≤ s.length ∧ isAscii s = true ∧ s.take 2 = versionStr ∧
      B64.dec (s.drop 2) = some compressed ∧ Z.readOnce compressed = some raw ∧
      Codec.decodeMachine raw = some m ∧ Validate.machine m = true :=
  fromStr_ok h

/-- What the model can say about sizes (heap use itself is outside the model): the compressed form
    is at most 3/4 of the string; if the read honours its buffer (`Z.Bounded`) at most
    `MAX_DECOMPRESSED_SIZE` bytes reach bincode; and the accepted machine has no more states than
    bincode was given bytes — whatever the length prefix inside the data claims. -/
theorem C11_stage_sizes (Z : Zlib) (hB : Z.Bounded) (s : Bytes) (m : Machine) (h : fromStr Z s = .ok m) :
    ∃ compressed raw, B64.dec (s.drop 2) = some compressed ∧ Z.readOnce compressed = some raw ∧
      Codec.decodeMachine raw = some m ∧ 4 * compressed.length ≤ 3 * s.length ∧ raw.length ≤ MAX ∧
      m.states.length ≤ MAX := by
  obtain ⟨c, raw, _, _, _, hc, hr, hm, _⟩ := fromStr_ok h
  have h1 := B64.dec_length _ _ hc
  have h2 := hB _ _ hr
  have h3 := Codec.decodeMachine_states_le hm
  refine ⟨c, raw, hc, hr, hm, ?_, h2, by omega⟩
  simp only [List.length_drop] at h1
  omega

/-! ### no amplification (the model's half of the memory bound) -/

/-- Whatever bincode accepts has no more cells than it was given bytes: every state costs at
    least 16 input bytes, every distribution 25, every present transition vector 1, every
    transition entry 5, and the header 19. -/
theorem C11_decode_no_amplification (b : Bytes) (m : Machine) (h : Codec.decodeMachine b = some m) :
    m.cells ≤ b.length ∧
    m.cells + 15 * m.states.length + 19 ≤ b.length ∧
    16 * m.states.length + 25 * m.distCount + m.vecCount + 5 * m.transCount + 19 ≤ b.length := by
  have h1 := Codec.decodeMachine_cells_le h
  exact ⟨by omega, h1, Codec.decodeMachine_consumes h⟩

/-- The same for the decoders that return the unread input `r`: cells built + bytes left over
    never exceed the bytes given. -/
theorem C11_decode_no_amplification_rem :
    (∀ (bs r : Bytes) (m : Machine), Codec.decMachine bs = some (m, r) →
      m.cells + 15 * m.states.length + 19 + r.length ≤ bs.length) ∧
    (∀ (bs r : Bytes) (s : State), Codec.decState bs = some (s, r) →
      1 + s.vecCount + s.transCount + s.distCount + 15 + r.length ≤ bs.length) ∧
    (∀ (bs r : Bytes) (ts : List Trans), Codec.decVec Codec.decTrans bs = some (ts, r) →
      5 * ts.length + 1 + r.length ≤ bs.length) ∧
    (∀ (bs r : Bytes) (d : Dist), Codec.decDist bs = some (d, r) → r.length + 25 ≤ bs.length) :=
  ⟨fun _ _ _ h => Codec.decMachine_cells_le h, fun _ _ _ h => Codec.decState_cells_le h,
   fun _ _ _ h => Codec.decTransVec_consumes h, fun _ _ _ h => Codec.decDist_consumes h⟩

/-- A `Vec` length prefix `n` followed by fewer than `n` bytes is rejected without calling the
    element decoder (for ANY element decoder); and an accepted vector is shorter than its input. -/
theorem C11_length_prefix_checked {α : Type} (dec : Bytes → Option (α × Bytes)) (bs : Bytes) :
    (∀ n r, Codec.decVarint bs = some (n, r) → r.length < n → Codec.decVec dec bs = none) ∧
    (∀ l r, Codec.decVec dec bs = some (l, r) → l.length + 1 ≤ bs.length) :=
  ⟨fun _ _ h hn => Codec.decVec_prefix_too_large dec h hn, fun _ _ h => Codec.decVec_length_le h⟩

/-- Everything the model of `from_str` builds is bounded by a linear function of `|s|` and `MAX`,
    for every zlib behaviour whose bounded read returns at most `MAX` bytes — whatever the
    compressed stream would expand to. -/
theorem C11_fromStr_memory_model (Z : Zlib) (hB : Z.Bounded) (s : Bytes) (m : Machine)
    (h : fromStr Z s = .ok m) :
    ∃ compressed raw, B64.dec (s.drop 2) = some compressed ∧ Z.readOnce compressed = some raw ∧
      Codec.decodeMachine raw = some m ∧
      4 * compressed.length + 6 ≤ 3 * s.length ∧
      raw.length ≤ MAX ∧
      m.cells + 15 * m.states.length + 19 ≤ raw.length ∧
      m.cells + 19 ≤ MAX ∧
      16 * m.states.length + 19 ≤ MAX ∧
      compressed.length + raw.length + m.cells ≤ s.length + 2 * MAX := by
  obtain ⟨c, raw, hc, hr, hm, h1, h2, h3⟩ := fromStr_sizes hB h
  have h4 := Codec.decodeMachine_consumes hm
  exact ⟨c, raw, hc, hr, hm, h1, h2, h3, by omega, by omega, by omega⟩

/-- The checked slices of `from_str` never fail: it computes the slice-free `fromStrPure`. -/
theorem C11_from_str_slices_in_range (Z : Zlib) (s : Bytes) : fromStr Z s = fromStrPure Z s :=
  fromStr_eq_pure Z s

/-! ### the legacy parser -/

/-- `parse_v1_machine` on any decompressed buffer: no slice, index or usize operation of
    parsing.rs is out of range (no panic), and whatever is returned passed validation. -/
theorem C11_v1_safe : V1Safe :=
  fun buf hlen => ⟨fun f => V1.parseV1Machine_nofault buf hlen f, fun m h => V1.parseV1Machine_valid buf hlen m h⟩

/-- `parse_state` on any buffer, for every state count below 2^50 (the reader passes a `u16`). -/
theorem C11_v1_state_safe (buf : Bytes) (n : Nat) (hn : n < 2 ^ 50) (hlen : buf.length < V1.USIZE) (f : V1.Fault) :
    V1.parseState buf n ≠ .error (.fault f) :=
  V1.Good_nofault (V1.parseState_good buf n hn hlen) f

/-- The bound on the state count is needed: `parse_state` is public, and with a count of
    `usize::MAX` its length expression overflows (a panic with overflow checks on). No string can
    reach this through `parse_v1_machine`. -/
theorem C11_v1_state_overflow_witness : V1.parseState [] (2 ^ 64 - 1) = .error (.fault .overflow) := by
  rfl

/-! ### monitors -/

theorem C11_monitor_roundtrip (o : RtObs) :
    monRoundTrip o = true ↔ o.parsed = true ∧ o.sameString = true ∧ o.sameName = true ∧ o.sameMachine = true :=
  monRoundTrip_iff o

theorem C11_monitor_parse (o : ParseObs) :
    monParse o = true ↔ o = .rejected ∨ ∃ m, o = .accepted (some m) ∧ Validate.machine m = true :=
  monParse_iff o

/-! ### non-vacuity -/

/-- a two-state machine with a padding action, a counter and transitions to a state, END and SIGNAL -/
def sample : Machine :=
  let d : Dist := { dist := .uniform 0x3FF0000000000000 0x4000000000000000, start := 0x7FF8000000000123, max := 0 }
  { allowedPaddingPackets := 2 ^ 64 - 1, maxPaddingFrac := 0x3FE0000000000000,
    allowedBlockedMicrosec := 1000, maxBlockingFrac := 0,
    states := [
      { action := some (.sendPadding true false d (some d)), counterA := some { operation := .set, dist := some d, copy := false },
        counterB := none,
        transitions := [some [{ target := 1, prob := 0x3F000000 }, { target := STATE_END, prob := 0x3E800000 }]] ++ List.replicate 12 none },
      { action := none, counterA := none, counterB := none,
        transitions := List.replicate 12 none ++ [some [{ target := STATE_SIGNAL, prob := 0x3F800000 }]] }] }

/-- a zlib that satisfies the contract (store with a one-byte header) -/
def storeZ : Zlib :=
  { deflate := fun x => 120 :: x, readOnce := fun y => match y with | [] => none | _ :: x => some x }

example : storeZ.Contract := ⟨fun _ _ => rfl, fun _ h => by simp [storeZ] at h⟩

theorem sample_admissible : Admissible sample := by
  exact ⟨by decide +kernel, by decide +kernel, by decide +kernel⟩

example : Admissible sample := sample_admissible

example : fromStr storeZ (serialize storeZ sample) = .ok sample :=
  C11_roundtrip storeZ ⟨fun _ _ => rfl, fun _ h => by simp [storeZ] at h⟩ sample sample_admissible

/-! ### non-vacuity of the size theorems -/

/-- the sample has 2 states, 2 present vectors, 3 transition entries and 3 distributions -/
example : sample.cells = 10 ∧ sample.states.length = 2 ∧ sample.vecCount = 2 ∧ sample.transCount = 3 ∧
    sample.distCount = 3 := by decide +kernel

/-- ... and its encoding is 192 bytes, above the guaranteed `10 + 15 * 2 + 19` -/
example : (Codec.encMachine sample).length = 192 := by decide +kernel

/-- the smallest one-state machine: 35 bytes -/
def minimalBytes : Bytes := List.replicate 18 0 ++ [1] ++ List.replicate 16 0

def minimalMachine : Machine :=
  { allowedPaddingPackets := 0, maxPaddingFrac := 0, allowedBlockedMicrosec := 0, maxBlockingFrac := 0,
    states := [{ action := none, counterA := none, counterB := none, transitions := List.replicate 13 none }] }

/-- The bound of `C11_decode_no_amplification` is attained: no constant in it can be raised. -/
theorem C11_no_amplification_tight :
    Codec.decodeMachine minimalBytes = some minimalMachine ∧
      minimalMachine.cells + 15 * minimalMachine.states.length + 19 = minimalBytes.length := by
  decide +kernel

/-- a state-count prefix of 2^64 - 1 (varint tag 253, eight 0xFF bytes) in front of 40 bytes: rejected -/
example : Codec.decodeMachine (List.replicate 18 0 ++ [253] ++ List.replicate 8 255 ++ List.replicate 40 0) = none ∧
    Codec.decVarint ([253] ++ List.replicate 8 255 ++ List.replicate 40 0) = some (2 ^ 64 - 1, List.replicate 40 0) ∧
    Codec.decVec Codec.decState ([253] ++ List.replicate 8 255 ++ List.replicate 40 0) = none := by
  decide +kernel

/-- a transition-vector prefix of 65535 entries with 30 bytes left: rejected -/
example : Codec.decodeMachine
    (List.replicate 18 0 ++ [1] ++ [0, 0, 0] ++ [1, 251, 255, 255] ++ List.replicate 30 0) = none := by
  decide +kernel

/-- a zlib that honours the contract AND the buffer bound (store, read truncated to `MAX`) -/
def storeZB : Zlib :=
  { deflate := fun x => 120 :: x,
    readOnce := fun y => match y with | [] => none | _ :: x => some (x.take MAX) }

theorem storeZB_bounded : storeZB.Bounded := by
  intro y x h
  cases y with
  | nil => simp [storeZB] at h
  | cons b y => simp [storeZB] at h; rw [← h]; simp [List.length_take]; omega

theorem storeZB_contract : storeZB.Contract :=
  ⟨fun x hx => by simp [storeZB, List.take_of_length_le hx], fun _ h => by simp [storeZB] at h⟩

/-- the hypotheses of `C11_fromStr_memory_model` are satisfiable with an accepted machine -/
example : ∃ s, fromStr storeZB s = .ok sample :=
  ⟨serialize storeZB sample, C11_roundtrip storeZB storeZB_contract sample sample_admissible⟩

/-- a "bomb": every compressed input claims to expand to 256^|y| zero bytes (never materialised
    here); the bounded read hands over at most `MAX` of them, so the theorem applies to it -/
def bombZ : Zlib :=
  { deflate := fun x => x,
    readOnce := fun y => some (List.replicate (min (256 ^ y.length) MAX) 0) }

theorem bombZ_bounded : bombZ.Bounded := by
  intro y x h
  simp [bombZ] at h
  rw [← h]; simp [List.length_replicate]; omega

example (s : Bytes) (m : Machine) (h : fromStr bombZ s = .ok m) : m.cells + 19 ≤ MAX := by
  obtain ⟨_, _, _, _, _, _, _, _, h7, _⟩ := C11_fromStr_memory_model bombZ bombZ_bounded s m h
  exact h7

end Mb.C11
