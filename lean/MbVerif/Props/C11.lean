/-
  C11 — machine strings round-trip exactly and hostile strings are rejected safely.

  Model: bincode 1.3 `DefaultOptions` for `Machine` (`Codec.lean`), RFC 4648 base64 as accepted by
  the `base64` crate's STANDARD engine (`Base64.lean`), `Machine::serialize` / `from_str` with
  checked string slices (`MachineStr.lean`), the legacy v1 parser with every slice, index and
  usize operation checked (`ParseV1.lean`), validation (`Validate.lean`).

  What is assumed, and where:
  * zlib is a PARAMETER `Z : MStr.Zlib` (`deflate`, and `readOnce` = the single `read` call into a
    1 MiB buffer that `from_str` makes).  The round-trip theorems (`C11_roundtrip`,
    `C11_same_string`, `C11_same_name`) take `Z.Contract` as a hypothesis: the one read returns
    the whole payload whenever it is at most `MAX_DECOMPRESSED_SIZE` bytes, and a zlib stream is
    never empty.  The safety theorems (`C11_rejects_safely`, `C11_from_str_factors`) hold for EVERY
    `Z`, with no contract.  The harness checks the contract on the real flate2 path for every
    generated machine (it does not hold there for compressed forms above 32 KiB; that is reported
    by the round-trip monitor, not hidden here).
  * Heap use is outside the model (measured by the harness, supporting evidence only).
  * `WFm m`: the model keeps `u64`/`usize` fields as `Nat`; `WFm` says they fit 64 bits and every
    state has `EVENT_NUM` transition slots.  Every Rust `Machine` satisfies it, and so does
    everything the decoder returns (`C11_decoded_representable`).
  * v1: hex decoding and `read_to_end` are outside (the theorem is about the decompressed
    buffer); a buffer has fewer than 2^64 bytes.
  * No claim of canonical re-encoding of arbitrary accepted bytes: bincode accepts
    non-canonical varints (`C11_noncanonical_accepted`).
-/
import MbVerif.Spec.C11
import MbVerif.Proofs.CodecRoundtrip
import MbVerif.Proofs.CodecDecodeWF
import MbVerif.Proofs.CodecBase64
import MbVerif.Proofs.CodecStr
import MbVerif.Proofs.CodecParseV1

namespace Mb.C11
open Mb
open Mb.Codec (Bytes)
open Mb.MStr

/-! ### bincode -/

/-- Decoding the encoding of a representable machine, followed by any bytes `r`, returns the
    machine and exactly `r`. -/
theorem C11_bincode_roundtrip (m : Machine) (h : Codec.WFm m = true) (r : Bytes) :
    Codec.decMachine (Codec.encMachine m ++ r) = some (m, r) :=
  Codec.encMachine_RT m h r

/-- `bincoder.deserialize(bincoder.serialize(m)) = m` (trailing bytes rejected, none present). -/
theorem C11_bincode_decode_encode (m : Machine) (h : Codec.WFm m = true) :
    Codec.decodeMachine (Codec.encMachine m) = some m :=
  Codec.decodeMachine_encMachine m h

/-- Floats are carried as raw bits: every `f64`/`f32` bit pattern (NaN payloads, signed zeros,
    subnormals) survives the codec. -/
theorem C11_float_bits (x : F64) (y : F32) (r : Bytes) :
    Codec.decF64 (Codec.encF64 x ++ r) = some (x, r) ∧ Codec.decF32 (Codec.encF32 y ++ r) = some (y, r) :=
  ⟨Codec.encF64_RT x r, Codec.encF32_RT y r⟩

/-- Whatever the decoder accepts is representable: decoded integers and lengths are below 2^64,
    every state has `EVENT_NUM` transition slots. -/
theorem C11_decoded_representable (bs : Bytes) (m : Machine) (h : Codec.decodeMachine bs = some m) :
    Codec.WFm m = true :=
  Codec.decodeMachine_wf h

/-- Re-encoding is NOT canonical for arbitrary accepted input: a 37-byte string with a
    non-canonical varint decodes to a machine whose encoding is a different (shorter) string. -/
theorem C11_noncanonical_accepted :
    ∃ bs m, Codec.decodeMachine bs = some m ∧ Codec.encMachine m ≠ bs := by
  refine ⟨[251, 0, 0] ++ List.replicate 8 0 ++ [0] ++ List.replicate 8 0 ++ [1] ++ List.replicate 16 0,
    { allowedPaddingPackets := 0, maxPaddingFrac := 0, allowedBlockedMicrosec := 0, maxBlockingFrac := 0,
      states := [{ action := none, counterA := none, counterB := none, transitions := List.replicate 13 none }] },
    by decide, by decide⟩

/-! ### base64 -/

/-- The STANDARD engine decodes what it encoded. -/
theorem C11_base64_roundtrip (b : Bytes) : B64.dec (B64.enc b) = some b :=
  B64.dec_enc b

/-! ### the string form -/

/-- Round trip: under the zlib contract, parsing the serialized string of a valid, representable
    machine whose encoding fits the limit yields exactly that machine. -/
theorem C11_roundtrip (Z : Zlib) (hZ : Z.Contract) : RoundTrip Z :=
  fun m ⟨hv, hwf, hlen⟩ => fromStr_serialize Z hZ m hv hwf hlen

/-- ... and the parsed machine serializes to the identical string. -/
theorem C11_same_string (Z : Zlib) (hZ : Z.Contract) : SameString Z := by
  intro m m' hm h
  have := C11_roundtrip Z hZ m hm
  rw [this] at h
  cases h
  rfl

/-- ... hence anything computed from the string (`name()` is a hash of it) agrees. -/
theorem C11_same_name {α : Type} (name : Bytes → α) (Z : Zlib) (hZ : Z.Contract) (m m' : Machine)
    (hm : Admissible m) (h : fromStr Z (serialize Z m) = .ok m') :
    name (serialize Z m') = name (serialize Z m) := by
  rw [C11_same_string Z hZ m m' hm h]

/-- Safety, for every string and EVERY zlib behaviour: `from_str` does not panic (its string
    slices are in range and on char boundaries because of the length and ASCII tests before
    them), and whatever it returns passed validation. -/
theorem C11_rejects_safely (Z : Zlib) : RejectsSafely Z := by
  intro s
  refine ⟨fromStr_nopanic Z s, fun m h => ?_⟩
  obtain ⟨_, _, _, _, _, _, _, _, hv⟩ := fromStr_ok h
  exact hv

/-- `from_str` is exactly: length/ASCII/version checks, base64 decode of the rest, one bounded
    read, bincode decode with trailing bytes rejected, validation. -/
theorem C11_from_str_factors (Z : Zlib) (s : Bytes) (m : Machine) (h : fromStr Z s = .ok m) :
    ∃ compressed raw, 3 ≤ s.length ∧ isAscii s = true ∧ s.take 2 = versionStr ∧
      B64.dec (s.drop 2) = some compressed ∧ Z.readOnce compressed = some raw ∧
      Codec.decodeMachine raw = some m ∧ Validate.machine m = true :=
  fromStr_ok h

/-- What the model can say about sizes (heap use itself is outside the model): the compressed form
    is at most 3/4 of the string; if the read honours its buffer (`Z.Bounded`) at most
    `MAX_DECOMPRESSED_SIZE` bytes reach bincode; and the accepted machine has no more states than
    bincode was given bytes — whatever the length prefix inside the data claims. -/
theorem C11_stage_sizes (Z : Zlib) (hB : Z.Bounded) (s : Bytes) (m : Machine) (h : fromStr Z s = .ok m) :
    ∃ compressed raw, B64.dec (s.drop 2) = some compressed ∧ Z.readOnce compressed = some raw ∧
      Codec.decodeMachine raw = some m ∧ 4 * compressed.length ≤ 3 * s.length ∧ raw.length ≤ MAX ∧
      m.states.length ≤ MAX := by
  obtain ⟨c, raw, _, _, _, hc, hr, hm, _⟩ := fromStr_ok h
  have h1 := B64.dec_length _ _ hc
  have h2 := hB _ _ hr
  have h3 := Codec.decodeMachine_states_le hm
  refine ⟨c, raw, hc, hr, hm, ?_, h2, by omega⟩
  simp only [List.length_drop] at h1
  omega

/-- The checked slices of `from_str` never fail: it computes the slice-free `fromStrPure`. -/
theorem C11_from_str_slices_in_range (Z : Zlib) (s : Bytes) : fromStr Z s = fromStrPure Z s :=
  fromStr_eq_pure Z s

/-! ### the legacy parser -/

/-- `parse_v1_machine` on any decompressed buffer: no slice, index or usize operation of
    parsing.rs is out of range (no panic), and whatever is returned passed validation. -/
theorem C11_v1_safe : V1Safe :=
  fun buf hlen => ⟨fun f => V1.parseV1Machine_nofault buf hlen f, fun m h => V1.parseV1Machine_valid buf hlen m h⟩

/-- `parse_state` on any buffer, for every state count below 2^50 (the reader passes a `u16`). -/
theorem C11_v1_state_safe (buf : Bytes) (n : Nat) (hn : n < 2 ^ 50) (hlen : buf.length < V1.USIZE) (f : V1.Fault) :
    V1.parseState buf n ≠ .error (.fault f) :=
  V1.Good_nofault (V1.parseState_good buf n hn hlen) f

/-- The bound on the state count is needed: `parse_state` is public, and with a count of
    `usize::MAX` its length expression overflows (a panic with overflow checks on). No string can
    reach this through `parse_v1_machine`. -/
theorem C11_v1_state_overflow_witness : V1.parseState [] (2 ^ 64 - 1) = .error (.fault .overflow) := by
  rfl

/-! ### monitors -/

theorem C11_monitor_roundtrip (o : RtObs) :
    monRoundTrip o = true ↔ o.parsed = true ∧ o.sameString = true ∧ o.sameName = true ∧ o.sameMachine = true :=
  monRoundTrip_iff o

theorem C11_monitor_parse (o : ParseObs) :
    monParse o = true ↔ o = .rejected ∨ ∃ m, o = .accepted (some m) ∧ Validate.machine m = true :=
  monParse_iff o

/-! ### non-vacuity -/

/-- a two-state machine with a padding action, a counter and transitions to a state, END and SIGNAL -/
def sample : Machine :=
  let d : Dist := { dist := .uniform 0x3FF0000000000000 0x4000000000000000, start := 0x7FF8000000000123, max := 0 }
  { allowedPaddingPackets := 2 ^ 64 - 1, maxPaddingFrac := 0x3FE0000000000000,
    allowedBlockedMicrosec := 1000, maxBlockingFrac := 0,
    states := [
      { action := some (.sendPadding true false d (some d)), counterA := some { operation := .set, dist := some d, copy := false },
        counterB := none,
        transitions := [some [{ target := 1, prob := 0x3F000000 }, { target := STATE_END, prob := 0x3E800000 }]] ++ List.replicate 12 none },
      { action := none, counterA := none, counterB := none,
        transitions := List.replicate 12 none ++ [some [{ target := STATE_SIGNAL, prob := 0x3F800000 }]] }] }

/-- a zlib that satisfies the contract (store with a one-byte header) -/
def storeZ : Zlib :=
  { deflate := fun x => 120 :: x, readOnce := fun y => match y with | [] => none | _ :: x => some x }

example : storeZ.Contract := ⟨fun _ _ => rfl, fun _ h => by simp [storeZ] at h⟩

theorem sample_admissible : Admissible sample := by
  exact ⟨by decide +kernel, by decide +kernel, by decide +kernel⟩

example : Admissible sample := sample_admissible

example : fromStr storeZ (serialize storeZ sample) = .ok sample :=
  C11_roundtrip storeZ ⟨fun _ _ => rfl, fun _ h => by simp [storeZ] at h⟩ sample sample_admissible

end Mb.C11
