/-
  C13 — sampling a validated distribution returns promptly with a value in range.

  The family samplers of rand_distr are an oracle: the value `raw` they return is ANY f64
  (NaN and ±inf included).  Proved here, for all `raw`, `start`, `max`:

  * `C13_clamp_in_range` (+ IEEE-comparison corollaries): the value returned by `Dist::sample`
    is not NaN, is ≥ 0 (possibly `+inf`), and is ≤ `max` whenever `max > 0`.
  * consumers: timeouts and durations are ≤ the day constants, limits and counter values are
    `< 2^64`, for every oracle.
  * `C13_ctor_ok`: `Dist::validate` accepting `d` implies that every precondition of the
    constructor (or `gen_range`) call made by `dist_sample` holds — none of the eleven `unwrap`s
    and none of the `gen_range` assertions can fire.
  * Uniform: the constant fast path and the range facts `gen_range` relies on.
  * Uniform promptness: `C13_uniform_quarter_terminates` — for every validated range with
    `low ≠ high` and EVERY word whose unit value `v = (w >> 12)·2^-52` is `≤ 1/4` the
    `sample_single` retry loop ends at once (`fl(fl(v·fl(high−low)) + low) < high`, all three
    roundings, subnormal and mixed-sign ranges included); `C13_uniform_prompt`: at least
    `2^50 + 1` of the `2^52` equally likely mantissa values end an iteration, whatever the 12
    discarded bits are, so under a fair stream each iteration ends with probability `> 1/4` and
    the expected number of iterations is `< 4`.  The constant is sharp
    (`C13_uniform_quarter_sharp`: `v = 1/4 + 2^-52` is rejected for a pair of adjacent doubles).

  Not covered by any theorem (stated in DESIGN §6/§11): termination and panic-freedom INSIDE
  rand_distr's samplers; they are exercised by the harness under a watchdog.
-/
import MbVerif.Proofs.Sample
import MbVerif.Proofs.Validate
import MbVerif.Proofs.UniformPrompt

namespace Mb.C13
open Mb Mb.Fp

/-- `Dist::sample` returns a value in range whatever the family sampler produced -/
theorem C13_clamp_in_range (d : Dist) (raw : F64) : InRange (val64 d.max) (d.clamp raw) := by
  rw [clamp_eq]; exact clampCore_inRange _ _

theorem C13_clamp_not_nan (d : Dist) (raw : F64) : d.clamp raw ≠ .nan :=
  nonNeg_ne_nan (C13_clamp_in_range d raw).1

/-- `sample >= 0.0` as the IEEE comparison -/
theorem C13_clamp_nonneg (d : Dist) (raw : F64) : le (.fin 0) (d.clamp raw) = true :=
  le_zero_of_nonNeg (C13_clamp_in_range d raw).1

/-- `max > 0.0 → sample <= max` as IEEE comparisons -/
theorem C13_clamp_le_max (d : Dist) (raw : F64) (h : gt (val64 d.max) (.fin 0) = true) :
    le (d.clamp raw) (val64 d.max) = true :=
  le_of_atMost ((C13_clamp_in_range d raw).2 (gt_zero_iff_maxSet.mp h))

/-- the monitor decides the range predicate -/
theorem C13_monitor_iff (mx v : FV) : inRangeB mx v = true ↔ InRange mx v := by
  simp [inRangeB]

/-! ### consumers (action.rs:85-120, counter.rs:84-90) -/

theorem C13_toMicros_le (M : Nat) (v : FV) : toMicros M v ≤ M := toMicros_le M v

section
variable {σ : Type} (ρ : Oracle σ)

theorem C13_timeout_le_day (a : Action) (s : Fw σ) :
    (sampleTimeout ρ a s).1 ≤ Gen.MAX_SAMPLED_TIMEOUT := by
  unfold sampleTimeout
  split
  · exact toMicros_le _ _
  · exact toMicros_le _ _
  · exact Nat.zero_le _

theorem C13_duration_le_day (a : Action) (s : Fw σ) :
    (sampleDuration ρ a s).1 ≤ max Gen.MAX_SAMPLED_BLOCK_DURATION Gen.MAX_SAMPLED_TIMER_DURATION := by
  unfold sampleDuration
  split
  · exact le_trans (toMicros_le _ _) (le_max_left _ _)
  · exact le_trans (toMicros_le _ _) (le_max_right _ _)
  · exact Nat.zero_le _

theorem C13_limit_lt (a : Action) (s : Fw σ) : (sampleLimit ρ a s).1 < 2 ^ 64 := by
  unfold sampleLimit
  split
  · show STATE_LIMIT_MAX < 2 ^ 64; decide
  · exact toU64_lt _

theorem C13_value_lt (c : Counter) (s : Fw σ) : (sampleValue ρ c s).1 < 2 ^ 64 := by
  unfold sampleValue
  split
  · show 1 < 2 ^ 64; decide
  · exact toU64_lt _

/-- the value handed to the consumers is the clamp of the oracle's value (or of `low` on the
    constant fast path), hence always in range -/
theorem C13_distSample_in_range (d : Dist) (s : Fw σ) :
    InRange (val64 d.max) (distSample ρ d s).1 := by
  unfold distSample
  exact C13_clamp_in_range d _

end

/-! ### constructors cannot fail after validation -/

theorem C13_ctor_ok (d : Dist) (h : Validate.dist d = true) : ctorOK d.dist = true :=
  ctorOK_of_validate h

/-- non-vacuity: `Poisson { lambda: 1e42 }` and `Uniform { low: 0, high: f64::MAX }` pass validation -/
example : Validate.dist ⟨.poisson 0x48a6f578c4e0a061, 0, 0⟩ = true ∧
    Validate.dist ⟨.uniform 0 0x7fefffffffffffff, 0, 0⟩ = true := by
  refine ⟨by decide +kernel, by decide +kernel⟩

/-- Uniform: validation gives real bounds with `low ≤ high` and a finite f64 range; when the
    constant fast path is not taken (`low ≠ high`) the `gen_range` preconditions hold -/
theorem C13_uniform_validated (lo hi : F64) (h : Validate.distType (.uniform lo hi) = true) :
    ∃ l u : ℚ, val64 lo = .fin l ∧ val64 hi = .fin u ∧ l ≤ u ∧
      finite (sub f64 (val64 hi) (val64 lo)) = true ∧ (l ≠ u → lt (val64 lo) (val64 hi) = true) := by
  have hw := Validate.distType_sound h
  simp only [C12.DistParamOK] at hw
  generalize val64 lo = a at hw ⊢
  generalize val64 hi = b at hw ⊢
  rcases a with _ | _ | l <;> rcases b with _ | _ | u <;> simp only [C12.UniformOK] at hw
  refine ⟨l, u, rfl, rfl, hw.1, ?_, ?_⟩
  · have hs : sub f64 (.fin u) (.fin l) = f64.round (u - l) := by simp [sub, neg, add, sub_eq_add_neg]
    rw [hs]
    have := hw.2
    generalize f64.round (u - l) = r at this ⊢
    cases r <;> simp_all [C12.Finite, finite]
  · intro hne
    simp only [lt_fin_fin, decide_eq_true_eq]
    exact lt_of_le_of_ne hw.1 hne

/-- a value returned by the `gen_range` loop is strictly below `high` -/
theorem C13_uniform_lt_high (lo hi : F64) (w : UInt64) (v : FV) (h : uniformF64 lo hi w = some v) :
    lt v (val64 hi) = true := by
  unfold uniformF64 at h
  split at h
  · rename_i hlt
    injection h with h; subst h; exact hlt
  · exact absurd h (by simp)

/-- the constant fast path `low == high` never consults the random source's value -/
theorem C13_uniform_const {σ : Type} (ρ : Oracle σ) (lo hi : F64) (start mx : F64) (s : Fw σ)
    (h : feq (val64 lo) (val64 hi) = true) :
    (distSample ρ ⟨.uniform lo hi, start, mx⟩ s).1 = Dist.clamp ⟨.uniform lo hi, start, mx⟩ lo := by
  simp [distSample, Dist.constUniform, h]

/-- `debug_assert!(low <= res)` in the `gen_range` loop holds for every word -/
theorem C13_uniform_ge_low (lo hi : F64) (h : Validate.distType (.uniform lo hi) = true)
    (hne : feq (val64 lo) (val64 hi) = false) (w : UInt64) :
    le (val64 lo) (uniformRes lo hi w) = true :=
  uniformRes_ge_low h hne w

/-- **termination witness**: every word whose mantissa bits `w >> 12` are zero ends the retry
    loop at once (with `low`), so under a fair stream every iteration ends with positive
    probability and the loop ends almost surely -/
theorem C13_uniform_zero_word (lo hi : F64) (h : Validate.distType (.uniform lo hi) = true)
    (hne : feq (val64 lo) (val64 hi) = false) (w : UInt64) (hw : w.toNat / 2 ^ 12 = 0) :
    uniformF64 lo hi w = some (val64 lo) :=
  uniformF64_zero_word h hne w hw

/-- the stronger claim planned in DESIGN §6 ("any word whose top mantissa bit is clear ends the
    loop") is FALSE: for the adjacent doubles `low = 2^-1021·(1+2^-52)`, `high = 2^-1021·(1+2^-51)`
    the product `v·scale` is rounded on the subnormal grid, `res` lands on the midpoint and ties
    to `high`; the word with `v = 3/8` is rejected (only `v ≤ 1/4` is accepted for this range) -/
theorem C13_uniform_top_bit_claim_false :
    Validate.distType (.uniform 0x0020000000000001 0x0020000000000002) = true ∧
    unit64 0x6000000000000000 = 3 / 8 ∧
    uniformF64 0x0020000000000001 0x0020000000000002 0x6000000000000000 = none ∧
    uniformF64 0x0020000000000001 0x0020000000000002 0x4000000000000000 =
      some (val64 0x0020000000000001) := by
  refine ⟨by decide +kernel, by decide +kernel, by decide +kernel, by decide +kernel⟩

/-! ### Uniform: a real promptness bound -/

/-- **promptness**: for every Uniform range accepted by validation with `low ≠ high` and EVERY
    64-bit word whose unit value `unit64 w = (w >> 12)·2^-52` is at most `1/4`, the
    `sample_single` retry loop ends at once -/
theorem C13_uniform_quarter_terminates (lo hi : F64)
    (h : Validate.distType (.uniform lo hi) = true)
    (hne : feq (val64 lo) (val64 hi) = false) (w : UInt64) (hw : unit64 w ≤ 1 / 4) :
    (uniformF64 lo hi w).isSome = true :=
  uniformF64_quarter h hne w hw

/-- the same on the retry loop: such a word is the last one consumed, and the value returned is
    in `[low, high)` -/
theorem C13_uniform_quarter_loop (lo hi : F64) (h : Validate.distType (.uniform lo hi) = true)
    (hne : feq (val64 lo) (val64 hi) = false) (w : UInt64) (hw : unit64 w ≤ 1 / 4)
    (ws : List UInt64) (n : Nat) :
    ∃ v, uniformF64Loop lo hi (w :: ws) n = some (v, n + 1) ∧
      le (val64 lo) v = true ∧ lt v (val64 hi) = true := by
  have hsome := C13_uniform_quarter_terminates lo hi h hne w hw
  obtain ⟨v, hv⟩ := Option.isSome_iff_exists.mp hsome
  refine ⟨v, by simp [uniformF64Loop, hv], ?_, C13_uniform_lt_high lo hi w v hv⟩
  have hge := C13_uniform_ge_low lo hi h hne w
  unfold uniformF64 at hv
  split at hv
  · injection hv with hv; rw [← hv]; exact hge
  · exact absurd hv (by simp)

/-- every mantissa value `m ≤ 2^50` ends the loop, whatever the 12 discarded bits `r` are -/
theorem C13_uniform_prompt_words (lo hi : F64) (h : Validate.distType (.uniform lo hi) = true)
    (hne : feq (val64 lo) (val64 hi) = false) (m r : Nat) (hm : m ≤ 2 ^ 50) (hr : r < 2 ^ 12) :
    (uniformF64 lo hi (UInt64.ofNat (m * 2 ^ 12 + r))).isSome = true := by
  apply C13_uniform_quarter_terminates lo hi h hne
  rw [unit64_word m r (by omega) hr]
  rw [div_le_iff₀ (by positivity)]
  have : (m : ℚ) ≤ ((2 ^ 50 : Nat) : ℚ) := by exact_mod_cast hm
  push_cast at this
  linarith

/-- **counting form**: for every valid non-constant range, and whatever the 12 discarded low
    bits `r` of the word are, at least `2^50 + 1` of the `2^52` equally likely mantissa values end
    the iteration — more than a quarter of them, so under a fair stream every iteration ends with
    probability `> 1/4` and the expected number of iterations is `< 4` -/
theorem C13_uniform_prompt (lo hi : F64) (h : Validate.distType (.uniform lo hi) = true)
    (hne : feq (val64 lo) (val64 hi) = false) (r : Nat) (hr : r < 2 ^ 12) :
    2 ^ 50 + 1 ≤ ((Finset.range (2 ^ 52)).filter
      (fun m => (uniformF64 lo hi (UInt64.ofNat (m * 2 ^ 12 + r))).isSome = true)).card ∧
    2 ^ 52 < 4 * ((Finset.range (2 ^ 52)).filter
      (fun m => (uniformF64 lo hi (UInt64.ofNat (m * 2 ^ 12 + r))).isSome = true)).card := by
  have hsub : Finset.range (2 ^ 50 + 1) ⊆ (Finset.range (2 ^ 52)).filter
      (fun m => (uniformF64 lo hi (UInt64.ofNat (m * 2 ^ 12 + r))).isSome = true) := by
    intro m hm
    rw [Finset.mem_range] at hm
    rw [Finset.mem_filter, Finset.mem_range]
    exact ⟨by omega, C13_uniform_prompt_words lo hi h hne m r (by omega) hr⟩
  have hcard := Finset.card_le_card hsub
  rw [Finset.card_range] at hcard
  exact ⟨hcard, by omega⟩

/-- non-vacuity on concrete ranges (kernel evaluation of the model): the word with `v = 1/4` is
    accepted by validated ranges of adjacent subnormal-grid doubles, of mixed sign (`-1.0..2.0`)
    and of full width (`0.0..f64::MAX`) -/
example :
    unit64 0x4000000000000000 = 1 / 4 ∧
    Validate.distType (.uniform 0x0020000000000001 0x0020000000000002) = true ∧
    (uniformF64 0x0020000000000001 0x0020000000000002 0x4000000000000000).isSome = true ∧
    Validate.distType (.uniform 0xbff0000000000000 0x4000000000000000) = true ∧
    uniformF64 0xbff0000000000000 0x4000000000000000 0x4000000000000000 = some (.fin (-1 / 4)) ∧
    Validate.distType (.uniform 0 0x7fefffffffffffff) = true ∧
    (uniformF64 0 0x7fefffffffffffff 0x4000000000000000).isSome = true := by
  refine ⟨by decide +kernel, by decide +kernel, by decide +kernel, by decide +kernel,
    by decide +kernel, by decide +kernel, by decide +kernel⟩

/-- the constant `1/4` is sharp: for the adjacent doubles `2^-1021·(1+2^-52)`, `2^-1021·(1+2^-51)`
    the very next mantissa value `v = 1/4 + 2^-52` is rejected (`v·scale` rounds up to one
    subnormal step, `res` lands on the midpoint and ties to the even neighbour `high`) -/
theorem C13_uniform_quarter_sharp :
    Validate.distType (.uniform 0x0020000000000001 0x0020000000000002) = true ∧
    unit64 0x4000000000001000 = 1 / 4 + 1 / 2 ^ 52 ∧
    uniformF64 0x0020000000000001 0x0020000000000002 0x4000000000001000 = none := by
  refine ⟨by decide +kernel, by decide +kernel, by decide +kernel⟩

end Mb.C13
