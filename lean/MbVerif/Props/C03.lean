/-
  C03 — blocking budgets hold.

  `C03_single`: for every machine set, fractions, start time, oracle, every prior history `h`
  with ARBITRARY time values (standing still, jumping, running backwards) and every further
  single-event call `([e], t)`: if that call returns BlockOutgoing for machine `mi` then, with
  the blocked time recomputed from the BlockingBegin/BlockingEnd reports and call timestamps
  alone (`C03.blockHistory`, an ongoing block counted up to `t`, negative spans counted as 0),
  `C03.blockOK` holds: the action has the replace flag and blocking is active; or the blocked
  time is below the machine's `allowed_blocked_microsec`; or the blocked share of the time since
  start is below both the machine's and the framework's `max_blocking_frac` (if set).
  The share is the double the code computes (`Duration::as_secs_f64` of both, one division);
  `0/0` (NaN) and comparisons with NaN count as below, as in the code.
  The same `C03.blockOK` is the monitor run on the implementation's traces.
  `C03_share_exact` / `C03_share_band`: what the double comparison means for the exact rational
  share blocked/elapsed, for durations below 2^53 s: "below the limit q" in doubles implies
  blocked/elapsed < q (1 + 2^-49), and the double test can only differ from the exact test inside
  the band q (1 ± 2^-50) (`Proofs/C03Exact.lean`: `Duration::as_secs_f64` is accurate to 2^-52 and
  the quotient to 2^-50, by composing the half-ulp error of each of the five roundings).

  `C03_monitor_accepts_model`: the executable monitor `C03.monitor` (Spec/C03.lean, the one the
  driver runs on the implementation's traces) returns `none` on the model's OWN trace
  `LL.modelTrace` for every machine set, configuration, oracle and history (single events and
  batches, arbitrary clocks, faulting calls: the monitor stops at the first call that did not
  return ok). No hypothesis is needed: the monitor's recount `blockCall` is the model's blocking
  accounting (`BlkRel`), and its test `blockOK` uses the same double share as the code.
-/
import MbVerif.Proofs.C03
import MbVerif.Proofs.C03Exact
import MbVerif.Proofs.MonitorAcceptC

namespace Mb.C03
open Mb

variable {σ : Type} (ρ : Oracle σ)

theorem C03_single (ms : List Machine) (fp fb : F64) (t0 : Int) (rng : σ) (h : List Call) (e : TEvent) (t : Int) :
    ∀ tmo dur b rp mi, TAction.blockOutgoing tmo dur b rp mi ∈
        (triggerEvents ρ [e] t (runCalls ρ (Fw.init ρ ms fp fb t0 rng) h)).actionsOut →
      ∃ m, ms[mi]? = some m ∧
        blockOK m.allowedBlockedMicrosec m.maxBlockingFrac fb rp t0 t (blockHistory t0 (h ++ [([e], t)])) = true := by
  intro tmo dur b rp mi hmem
  generalize hs1 : runCalls ρ (Fw.init ρ ms fp fb t0 rng) h = s1 at hmem
  generalize hs : triggerEvents ρ [e] t s1 = s at hmem
  have hrun1 : Run (Fw.init ρ ms fp fb t0 rng) s1 := by rw [← hs1]; exact runCalls_run ρ _ h
  have hrun : Run (Fw.init0 ms fp fb t0 rng) s := by
    rw [← hs]; exact ((init_run ρ ms fp fb t0 rng).trans hrun1).trans (triggerEvents_run ρ [e] t s1)
  have hI : Inv04 s := (Inv04.init0 ms fp fb t0 rng).run hrun
  have hm : s.machines = ms := by
    have := Run.inv (fun t : Fw σ => t.machines = (Fw.init0 ms fp fb t0 rng).machines)
      (fun a b ha hp => by
        cases hp with
        | step mi st => rw [st.frame.machines]; exact ha
        | setG => exact ha
        | setAcct => simpa using ha
        | callStart => exact ha) hrun rfl
    simpa [Fw.init0] using this
  have hslot : SlotInv QBlock s := by rw [← hs]; exact triggerEvents_single_slotInv ρ gateConseq_QBlock e t s1
  unfold Fw.actionsOut at hmem
  rw [List.mem_filterMap] at hmem
  obtain ⟨x, hx, hxa⟩ := hmem
  simp only [id] at hxa
  subst hxa
  obtain ⟨i, hi⟩ := List.getElem?_of_mem hx
  have hmi : i = mi := ((hI.slots i _ hi).1).symm
  subst hmi
  obtain ⟨m, rr, hmm, hrr, hq⟩ := hslot i _ hi
  refine ⟨m, by rw [← hm]; exact hmm, ?_⟩
  -- accounting = recount of the blocking reports
  have hacct : Acct.ofFw s = Acct.call [e] t (Acct.history h (Acct.ofFw (Fw.init0 ms fp fb t0 rng))) := by
    rw [← hs, triggerEvents_acct, ← hs1, runCalls_acct, init_acct]
  have hrel0 : BlkRel t0 fb (fun i => (ms[i]?.map (·.allowedBlockedMicrosec * 1000)).getD 0)
      { active := false, started := t0, total := 0 } (Acct.ofFw (Fw.init0 ms fp fb t0 rng)) := by
    refine ⟨rfl, rfl, rfl, rfl, rfl, ?_⟩
    intro j a ha
    simp only [Acct.ofFw, Fw.init0, List.getElem?_map] at ha
    cases hmj : ms[j]? with
    | none => rw [hmj] at ha; simp at ha
    | some mj =>
      rw [hmj] at ha
      simp only [Option.map_some, Option.some.injEq] at ha
      subst ha
      simp [hmj]
  have hrel := ((BlkRel.history h _ _ hrel0).call ([e], t))
  rw [← hacct] at hrel
  obtain ⟨hrel, hnow⟩ := hrel
  have hbh : blockHistory t0 (h ++ [([e], t)]) =
      blockCall ([e], t) (h.foldl (fun b c => blockCall c b) { active := false, started := t0, total := 0 }) := by
    simp [blockHistory, List.foldl_append]
  rw [hbh]
  generalize blockCall ([e], t) (h.foldl (fun b c => blockCall c b) { active := false, started := t0, total := 0 }) = B
    at hrel ⊢
  -- transfer
  have hra : (Acct.ofFw s).2[i]? = some rr.acct := by simp [Acct.ofFw, List.getElem?_map, hrr]
  obtain ⟨hp1, hp2, hp3⟩ := hrel.per i rr.acct hra
  have hal : rr.acct.allowedBlocked = m.allowedBlockedMicrosec * 1000 := by
    rw [hp3]
    have : ms[i]? = some m := by rw [← hm]; exact hmm
    simp [this]
  have hA := hrel.active
  have hS := hrel.started
  have hT := hrel.total
  have hSt := hrel.start
  have hF := hrel.frac
  simp only [Acct.ofFw] at hA hS hT hSt hF hnow
  simp only [QBlock, blockOKF] at hq
  rw [hp1, hp2, hal, hA, hS, hT, hSt, hF, hnow] at hq
  unfold blockOK blockedNow
  simp only [Bool.or_eq_true, Bool.and_eq_true, decide_eq_true_eq]
  rcases hq with ⟨h1, h2⟩ | h2 | ⟨h2, h3⟩
  · left; left; exact ⟨h1, h2⟩
  · left; right; exact h2
  · right; exact ⟨h2, h3⟩

/-- the double test "share below the limit" implies the exact rational share is below the limit
    up to a relative 2^-49 (durations below 2^53 s, elapsed time positive, limit q > 0) -/
theorem C03_share_exact (a b : Nat) (f : F64) (q : ℚ) (ha : a < 2 ^ 53 * 10 ^ 9)
    (hb : b < 2 ^ 53 * 10 ^ 9) (hb0 : 0 < b) (hv : Fp.val64 f = .fin q) (hq : 0 < q)
    (h : belowShare a b f = true) : (a : ℚ) / b < q * (1 + 1 / 2 ^ 49) :=
  C03_exact' a b f q ha hb hb0 hv hq h

/-- outside the band q (1 ± 2^-50) the double test and the exact test agree -/
theorem C03_share_band (a b : Nat) (f : F64) (q : ℚ) (ha : a < 2 ^ 53 * 10 ^ 9)
    (hb : b < 2 ^ 53 * 10 ^ 9) (hb0 : 0 < b) (hv : Fp.val64 f = .fin q) (hq : 0 < q) :
    ((a : ℚ) / b * (1 + 1 / 2 ^ 50) < q → belowShare a b f = true) ∧
    (q ≤ (a : ℚ) / b * (1 - 1 / 2 ^ 50) → belowShare a b f = false) :=
  C03_exact_band a b f q ha hb hb0 hv hq

/-- Non-vacuity: the recount of a history with a backwards clock (begin at 10, end at 5) gives a
    blocked time of 0. -/
example : blockHistory 0 [([.blockingBegin 0], 10), ([.blockingEnd], 5)] =
    { active := false, started := 10, total := 0 } := by decide

/-! ### the monitor on the model's own trace -/

/-- **`C03.monitor` accepts the model's own trace**: for every machine set, fractions, start time,
    oracle and history of calls (single events and batches, arbitrary clock values, faulting calls)
    the monitor applied to the trace of the model (`LL.modelTrace`: per call the events, outcome,
    returned actions, snapshot and log, as the driver records them) reports no violation. So the
    monitor cannot raise a false alarm on an implementation that agrees with the model, and the
    model satisfies the property in the monitor's own vocabulary. No hypotheses: machines need not
    be validated; a call in which the model faults (checked `Duration` add) is reported as not ok
    and ends the monitor's walk. -/
theorem C03_monitor_accepts_model (ms : List Machine) (fp fb : F64) (t0 : Int) (rng : σ) (h : List Call) :
    monitor (LL.modelTrace ρ ms fp fb t0 rng h) = none :=
  C03acc.monitor_model ρ ms fp fb t0 rng h

section MonitorDemo

private def dZero : Dist := { dist := .uniform 0 0, start := 0, max := 0 }
/-- the doubles 0.5 and 0.1 -/
private def half : F64 := 4602678819172646912
private def tenth : F64 := 4591870180066957722
/-- one state: BlockOutgoing with the given replace flag; NormalSent (3), BlockingBegin (6) and
    BlockingEnd (7) lead back to it -/
private def bSt (rp : Bool) : State :=
  { action := some (.blockOutgoing false rp dZero dZero none), counterA := none, counterB := none,
    transitions := (((List.replicate 13 none).set 3 (some [{ target := 0, prob := 1065353216 }])).set 6
      (some [{ target := 0, prob := 1065353216 }])).set 7 (some [{ target := 0, prob := 1065353216 }]) }
/-- budget 1 us, blocking share 0.5, no replace -/
private def bM : Machine :=
  { allowedPaddingPackets := 0, maxPaddingFrac := 0, allowedBlockedMicrosec := 1, maxBlockingFrac := half,
    states := [bSt false] }
/-- no budget, blocking share 0.1, replace -/
private def rM : Machine :=
  { allowedPaddingPackets := 0, maxPaddingFrac := 0, allowedBlockedMicrosec := 0, maxBlockingFrac := tenth,
    states := [bSt true] }
private def dρ : Oracle Unit := { u := fun _ => (0, ()), d := fun _ _ => (0, ()) }
/-- times in ns; the clock runs backwards once -/
private def bTrace : FwTrace :=
  LL.modelTrace dρ [bM, rM] 0 0 0 () [([.normalSent], 1000), ([.blockingBegin 0], 2000), ([.normalSent], 3000),
    ([.blockingEnd], 5000), ([.normalSent, .normalSent], 6000), ([.normalSent], 10000), ([.normalSent], 9000),
    ([.normalSent], 100000)]

/-- Non-vacuity of `C03_monitor_accepts_model`: no call faults, so the monitor walks all eight.
    Call 1: machine 0 blocks within its budget, machine 1 on the share branch (0/1000). Calls 2, 3
    (blocking active since 2000): machine 0 on budget / share 1000/3000, machine 1 only by its
    replace flag. Call 4 (BlockingEnd at 5000: 3000 ns blocked, share 0.6): nobody may block.
    Call 5 is a batch (share exactly 0.5: denied by the model, not tested by the monitor). Calls 6
    and 7 (clock back from 10000 to 9000): machine 0 on the share branch (0.3, 0.33), machine 1
    denied. Call 8: both below their shares. The monitor accepts; it rejects the same trace when
    call 4 is made to return a BlockOutgoing and does not test that action in the batch call 5. -/
example : bTrace.calls.map (·.res) = [.ok, .ok, .ok, .ok, .ok, .ok, .ok, .ok] ∧
    bTrace.calls.map (·.actions) =
      [[.blockOutgoing 0 0 false false 0, .blockOutgoing 0 0 false true 1],
       [.blockOutgoing 0 0 false false 0, .blockOutgoing 0 0 false true 1],
       [.blockOutgoing 0 0 false false 0, .blockOutgoing 0 0 false true 1],
       [], [],
       [.blockOutgoing 0 0 false false 0], [.blockOutgoing 0 0 false false 0],
       [.blockOutgoing 0 0 false false 0, .blockOutgoing 0 0 false true 1]] ∧
    monitor bTrace = none ∧
    blockHistory 0 [([.normalSent], 1000), ([.blockingBegin 0], 2000), ([.normalSent], 3000), ([.blockingEnd], 5000)] =
      { active := false, started := 2000, total := 3000 } ∧
    (monitor { bTrace with calls := bTrace.calls.mapIdx (fun i c =>
        if i = 3 then { c with actions := [.blockOutgoing 0 0 false false 0] } else c) }).isSome = true ∧
    monitor { bTrace with calls := bTrace.calls.mapIdx (fun i c =>
        if i = 4 then { c with actions := [.blockOutgoing 0 0 false false 0] } else c) } = none := by
  decide +kernel

end MonitorDemo

end Mb.C03
