/-
  C07 — per-state limits.

  Proved on the model (decision logic stated outright):
  * `C07_gate`: the limit predicates allow an action of a limitable kind (SendPadding,
    BlockOutgoing, UpdateTimer) only while the state limit is > 0 — on every path, including the
    "fraction over zero packets" path (fix 018bd02) and the "replace while blocking is active"
    path. Hence a sampled limit of zero yields no action, and after the limit is used up no
    further limited action is scheduled from that state.
  * `C07_sched_positive`: every action of a limitable kind that is ever put into a slot was gated
    by a runtime whose state limit was positive (stated on the primitive `sched` step, so it holds
    for every reachable execution).
  * `C07_enter`: the limit is resampled exactly when the sampled state differs from the current
    one; a self-transition leaves it alone.
  * `C07_decrement`: a completion decrements the limit by one (never below 0); if it thereby is 0
    and the state's action has a limit, the pending action is withdrawn and LimitReached is
    delivered to that machine at once; otherwise nothing else happens.
  * `C07_other_machines`: transitions and limit decrements of other machines never change this
    machine's state limit (frame).
  * `C07_exhausted` / `C07_exhausted_history` (whole calls and histories, every machine set, every
    oracle, no well-formedness needed): once a machine's state limit is 0, every later call returns
    for it at most a Cancel and leaves the limit at 0 — through self-transitions, CounterZero round
    trips, LimitReached deliveries, batches, completions for it and for others — until the ghost
    log records a resampling of its limit, which `enterState` writes only when the state index
    changes (`C07_enter`). This is "no further limited action from that state until the machine
    re-enters it from another state" (`Proofs/Exhausted.lean`, a fifth induction over the mutual
    recursion).
  * the exact COUNT over calls (`Proofs/Countdown.lean`), for a machine whose current state has no
    transition on the completion event (so that the completion cannot change the state):
    `C07_completion_step` (one PaddingSent in a single-event call: either the limit goes down by
    exactly one, nothing is returned and LimitReached is not delivered, or — limit at most 1 and
    the action has a limit — the decrement to 0 is directly followed by the delivery of
    LimitReached in the same call), the complete effect on the framework in both cases
    (`C07_paddingSent_keep` / `_fire`, `C07_timerBegin_keep` / `_fire`, and for BlockingBegin, which
    is delivered to every machine but counted for one, `C07_blockingBegin_keep` / `_fire`),
    `C07_countdown` / `C07_countdown_timerBegin` / `C07_countdown_blockingBegin` (after `k`
    completions in `k` calls the limit is `L - k`, the state is unchanged, LimitReached was never
    delivered, the limit never resampled), `C07_countdown_fire` / `C07_countdown_blockingBegin_fire`
    (the `L`-th completion delivers LimitReached), and `C07_other_machine_completion` (a
    completion reported for another machine or an unknown id never consumes the limit), and,
    for ANY history of ANY batches, machines and oracle, with no assumption at all:
    `C07_decrements_le_completions` (the limit of a machine is decremented at most as often as
    completions for that machine are reported; the decrement is logged by `decrementLimit` only)
    and `C07_no_completion_no_decrement`.
  * THE MONITOR ON THE MODEL'S OWN LOG (`Proofs/LimitLog.lean`, `LimitStep.lean`, `LimitMonitor.lean`;
    any machines, any oracle, any batch, any state; the only hypothesis is that the call ends without
    a fault, which is exactly when the driver hands a call to the monitor):
    `C07_log_accepted`: the ghost log segment of a call, read chronologically, passes the monitor's
    walk `C07.checkLog` started from the (limit, state) pairs of the snapshot before the call: a
    sampled state different from the tracked one is DIRECTLY followed by the assignment of a fresh
    limit to that machine (after the draw of the limit distribution, if any), a self-transition is
    not; every decrement logs the tracked limit minus one (0 stays 0) and is DIRECTLY followed by the
    LimitReached delivery to that machine exactly when it logs 0 in a state whose action carries a
    limit (in plain terms: `C07_log_resample_exact`, `C07_log_decrement_exact`).
    `C07_log_own_completions` (per call, decrements of `j` <= completions reported for `j`),
    `C07_log_single_completion` (single-event call reporting a completion for a live machine: its
    pre-signal log holds no decrement and a change of the machine's state, or exactly one decrement
    and no change of its state before it — whatever the kind of the completion; rests on
    `LL.main2`: the Boolean `Changed` returned by `transition` IS the monitor's `changedState`
    folded over the transition's log segment), `C07_log_no_limited_action` (limit 0 before the call
    and no limit entry for the machine in the call's log: every returned action for it is a Cancel).
    `C07_monitor_accepts_model`: hence `C07.monitor` returns `none` on the trace the model produces
    (`LL.modelTrace`: per call the events, outcome, returned actions, snapshot and the call's log,
    as the driver records them) for EVERY machine set, oracle, configuration and history — the
    monitor raises no false alarm on any implementation that agrees with the model on these
    observables, and the model satisfies the property in the monitor's own vocabulary. The
    invariants needed (`Inv04`: one slot and one runtime per machine, slot `i` holds only actions of
    machine `i`; the machine list never changes) are established by `Fw.init` and preserved by calls.
  The implementation is tied to this by the correspondence on (state, limit) after every call
  (tag RS), the internal log with the hook's limit entries (tag L) and `C07.monitor`.
-/
import MbVerif.Proofs.SafeCall
import MbVerif.Proofs.Exhausted
import MbVerif.Proofs.Countdown
import MbVerif.Proofs.LimitMonitor

namespace Mb.C07
open Mb Mb.Countdown

variable {σ : Type} (ρ : Oracle σ)

/-- the action kinds that carry a per-state limit -/
def limitable : Action → Bool
  | .cancel _ => false
  | _ => true

theorem belowLimitPadding_limit (g : Globals) (r : Runtime) (m : Machine) (h : belowLimitPadding g r m = true) :
    r.stateLimit > 0 := by
  unfold belowLimitPadding at h
  split at h
  · simpa using h
  · simp only [] at h
    split at h
    · cases h
    · split at h
      · cases h
      · simpa using h

theorem belowLimitBlocking_limit (g : Globals) (r : Runtime) (m : Machine) (rp : Bool)
    (h : belowLimitBlocking g r m rp = some true) : r.stateLimit > 0 := by
  unfold belowLimitBlocking at h
  by_cases h1 : (rp && g.blockingActive) = true
  · rw [if_pos h1] at h; simpa using h
  · rw [if_neg h1] at h
    simp only [] at h
    generalize (if g.blockingActive = true then durSince g.now g.blockingStarted else 0) = ongoing at h
    split at h
    · cases h
    · split at h
      · simpa using h
      · split at h
        · cases h
        · split at h
          · cases h
          · simpa using h

/-- no limitable action passes the limit predicates unless the state limit is positive -/
theorem C07_gate (g : Globals) (r : Runtime) (m : Machine) (st : State) (act : Action)
    (hst : m.states[r.currentState]? = some st) (hact : st.action = some act) (hl : limitable act = true)
    (h : belowActionLimits g r m = some true) : r.stateLimit > 0 := by
  unfold belowActionLimits at h
  rw [hst] at h
  simp only [hact] at h
  cases act with
  | cancel t => cases hl
  | sendPadding b rp tmo' lim => exact belowLimitPadding_limit g r m (by simpa using h)
  | blockOutgoing b rp tmo' du lim => exact belowLimitBlocking_limit g r m rp h
  | updateTimer rp du lim => simpa using h

/-- every limitable action that is put into a slot was gated at a positive state limit -/
theorem C07_sched_positive {g : Globals} {m : Machine} {acct : RtAcct} {next : Nat} {act : Action}
    (hg : Gate g m acct next act) (hl : limitable act = true) :
    ∃ r₁ : Runtime, r₁.currentState = next ∧ r₁.acct = acct ∧ r₁.stateLimit > 0 := by
  obtain ⟨r₁, st, hacct, hcur, hst, hact, hb⟩ := hg
  exact ⟨r₁, hcur, hacct, C07_gate g r₁ m st act (by rw [hcur]; exact hst) hact hl hb⟩

/-- self-transitions do not refresh the limit; a change of state index does -/
theorem C07_enter (mi : Nat) (m : Machine) (cur next : Nat) (s : Fw σ) :
    (cur = next → enterState ρ mi m cur next s = s) ∧
    (cur ≠ next → ∀ st a, m.states[next]? = some st → st.action = some a →
      enterState ρ mi m cur next s =
        ((sampleLimit ρ a (s.modRt mi (fun r => { r with currentState := next }))).2.modRt mi
          (fun r => { r with stateLimit := (sampleLimit ρ a (s.modRt mi (fun r => { r with currentState := next }))).1 })).push
          (.limit mi (sampleLimit ρ a (s.modRt mi (fun r => { r with currentState := next }))).1 false)) := by
  constructor
  · intro h; unfold enterState; simp [h]
  · intro h st a hst ha
    unfold enterState
    simp [h, hst, ha]

/-- the decrement performed for a completion -/
theorem C07_decrement (mi : Nat) (s : Fw σ) (r : Runtime) (m : Machine) (st : State)
    (hr : s.rt[mi]? = some r) (hm : s.machines[mi]? = some m) (hst : m.states[r.currentState]? = some st)
    (hlen : mi < s.actions.length) :
    let lim := r.stateLimit - 1
    let s1 := (s.modRt mi (fun r' => { r' with stateLimit := lim })).push (.limit mi lim true)
    decrementLimit ρ mi s =
      match st.action with
      | none => s1
      | some a =>
        if lim = 0 ∧ a.hasLimit = true then
          (transition ρ FUEL mi .limitReached { s1 with actions := s1.actions.set mi none }).1
        else s1 := by
  unfold decrementLimit
  rw [hr, hm]
  simp only [hst]
  have hlim : (if r.stateLimit > 0 then r.stateLimit - 1 else r.stateLimit) = r.stateLimit - 1 := by
    split <;> omega
  rw [hlim]
  cases hact : st.action with
  | none => rfl
  | some a =>
    simp only []
    by_cases hc : (r.stateLimit - 1 = 0 ∧ a.hasLimit = true)
    · have hc' : (decide (r.stateLimit - 1 = 0) && a.hasLimit) = true := by simp [hc.1, hc.2]
      rw [if_pos hc', if_pos hc]
      have : ¬ mi ≥ ((s.modRt mi (fun r' => { r' with stateLimit := r.stateLimit - 1 })).push
          (.limit mi (r.stateLimit - 1) true)).actions.length := by simpa using hlen
      rw [if_neg this]
    · have hc' : ¬ (decide (r.stateLimit - 1 = 0) && a.hasLimit) = true := by
        simp only [Bool.and_eq_true, decide_eq_true_eq]; exact hc
      rw [if_neg hc', if_neg hc]

/-- other machines never touch this machine's limit (nor any other part of its runtime) -/
theorem C07_other_machines (fuel i j : Nat) (ev : Event) (s : Fw σ) (hij : j ≠ i) :
    (transition ρ fuel j ev s).1.rt[i]? = s.rt[i]? ∧ (decrementLimit ρ j s).rt[i]? = s.rt[i]? :=
  ⟨(transition_reach ρ fuel j ev s).frame.rtOther i (Ne.symm hij),
   (decrementLimit_reach ρ j s).frame.rtOther i (Ne.symm hij)⟩

/-- Non-vacuity: with a state limit of 0, UpdateTimer is denied. -/
example : belowActionLimits
    { now := 0, maxPaddingFrac := 0, maxBlockingFrac := 0, normalSent := 0, paddingSent := 0, blockingDur := 0,
      blockingStarted := 0, blockingActive := false, start := 0 }
    { currentState := 0, stateLimit := 0, counterA := 0, counterB := 0, zeroedA := false, zeroedB := false,
      acct := { paddingSent := 0, normalSent := 0, blockingDur := 0, machineStart := 0, allowedBlocked := 0 } }
    { allowedPaddingPackets := 0, maxPaddingFrac := 0, allowedBlockedMicrosec := 0, maxBlockingFrac := 0,
      states := [{ action := some (.updateTimer false { dist := .uniform 0 0, start := 0, max := 0 } none),
                   counterA := none, counterB := none, transitions := [] }] } = some false := by decide

/-- once the limit is 0: until the machine changes its state index (a resampling is logged), a
    call leaves the limit at 0 and returns at most a Cancel for the machine -/
theorem C07_exhausted (mi : Nat) (es : List TEvent) (t : Int) (s : Fw σ)
    (hz : ∀ r, s.rt[mi]? = some r → r.stateLimit = 0) :
    ∃ l, (triggerEvents ρ es t s).log = l ++ s.log ∧
      ((∃ x, LogEntry.limit mi x false ∈ l) ∨
       ((∀ r, (triggerEvents ρ es t s).rt[mi]? = some r → r.stateLimit = 0) ∧
        (∀ a, (triggerEvents ρ es t s).actions[mi]? = some (some a) → a.isCancel = true))) := by
  obtain ⟨l, e, p⟩ := exhausted_call ρ (mi := mi) es t s hz
  exact ⟨l, e, p.imp id (fun h => ⟨h.lim, h.slot⟩)⟩

/-- the same over a whole history: as long as no resampling for the machine is logged, every call
    of the history returned at most a Cancel for it and the limit stayed 0 -/
theorem C07_exhausted_history (mi : Nat) (h : List Call) (s : Fw σ)
    (hz : ∀ r, s.rt[mi]? = some r → r.stateLimit = 0) :
    ∃ l, (runCalls ρ s h).log = l ++ s.log ∧
      ((∃ x, LogEntry.limit mi x false ∈ l) ∨
       ((∀ r, (runCalls ρ s h).rt[mi]? = some r → r.stateLimit = 0) ∧
        (h ≠ [] → ∀ a, (runCalls ρ s h).actions[mi]? = some (some a) → a.isCancel = true))) := by
  unfold runCalls
  induction h generalizing s with
  | nil => exact ⟨[], rfl, Or.inr ⟨hz, fun hne => absurd rfl hne⟩⟩
  | cons c cs ih =>
    simp only [List.foldl_cons]
    obtain ⟨l1, e1, p1⟩ := C07_exhausted ρ mi c.1 c.2 s hz
    rcases p1 with ⟨x, hx⟩ | ⟨hz1, hs1⟩
    · -- resampled in the first call: only the log extension is needed for the rest
      obtain ⟨l2, e2⟩ := runCalls_logExt ρ cs (triggerEvents ρ c.1 c.2 s)
      unfold runCalls at e2
      exact ⟨l2 ++ l1, by rw [e2, e1, List.append_assoc], Or.inl ⟨x, by simp [hx]⟩⟩
    · obtain ⟨l2, e2, p2⟩ := ih (triggerEvents ρ c.1 c.2 s) hz1
      refine ⟨l2 ++ l1, by rw [e2, e1, List.append_assoc], ?_⟩
      rcases p2 with ⟨x, hx⟩ | ⟨hz2, hs2⟩
      · exact Or.inl ⟨x, by simp [hx]⟩
      · refine Or.inr ⟨hz2, fun _ a ha => ?_⟩
        cases cs with
        | nil => exact hs1 a ha
        | cons d ds => exact hs2 (by simp) a ha

/-! ### the exact count over calls -/

/-- **One completion in a single-event call.** Machine `mi` is in a state `st` (not END) that has
    no transition on PaddingSent, no signal is pending, and the call reports one PaddingSent for
    `mi`. Then
    (a) if the limit is at least 2, or the state's action carries no limit: afterwards the machine's
        runtime is the old one with the limit one lower (never below 0), one more padding packet
        accounted and the per-call CounterZero flags reset; its slot is empty; the call logged
        exactly the delivery and the decrement — in particular no LimitReached;
    (b) if the limit is at most 1 and the state's action carries a limit: the call's log segment is
        the delivery of PaddingSent, the decrement to 0, then at once the delivery of LimitReached
        to the machine in its unchanged state, then whatever that causes (the log is newest
        first). -/
theorem C07_completion_step (mi : Nat) (t : Int) (s : Fw σ) (r : Runtime) (m : Machine) (st : State)
    (hr : s.rt[mi]? = some r) (hm : s.machines[mi]? = some m) (hst : m.states[r.currentState]? = some st)
    (hne : r.currentState ≠ STATE_END) (hsig : s.signalPending = none) (hlen : mi < s.actions.length)
    (htr : st.transitions[Event.paddingSent.toNat]? = some none) :
    (2 ≤ r.stateLimit ∨ st.action = none ∨ (∃ a, st.action = some a ∧ a.hasLimit = false) →
      (triggerEvents ρ [.paddingSent mi] t s).rt[mi]? =
        some { r with stateLimit := r.stateLimit - 1, zeroedA := false, zeroedB := false,
                      acct := { r.acct with paddingSent := r.acct.paddingSent + 1 } } ∧
      (triggerEvents ρ [.paddingSent mi] t s).actions[mi]? = some none ∧
      (triggerEvents ρ [.paddingSent mi] t s).log =
        .limit mi (r.stateLimit - 1) true :: .trans mi Event.paddingSent.toNat r.currentState :: s.log ∧
      ∃ l, (triggerEvents ρ [.paddingSent mi] t s).log = l ++ s.log ∧
        ∀ st', LogEntry.trans mi Event.limitReached.toNat st' ∉ l) ∧
    (r.stateLimit ≤ 1 → ∀ a, st.action = some a → a.hasLimit = true →
      ∃ l, (triggerEvents ρ [.paddingSent mi] t s).log =
        l ++ .trans mi Event.limitReached.toNat r.currentState :: .limit mi 0 true ::
          .trans mi Event.paddingSent.toNat r.currentState :: s.log) := by
  refine ⟨fun h => ?_, fun h1 a hact hl => ?_⟩
  · have hk : ∀ a, st.action = some a → a.hasLimit = true → 2 ≤ r.stateLimit := by
      intro a ha hl
      rcases h with h | h | ⟨a', ha', hl'⟩
      · exact h
      · rw [h] at ha; cases ha
      · rw [ha'] at ha; cases ha; rw [hl] at hl'; cases hl'
    have hc := call_paddingSent_keep ρ mi t s r m st hr hm hne hst htr hsig hk
    exact ⟨hc.rt, hc.slot hlen, hc.log, hc.noLimitReached (by decide)⟩
  · exact (call_paddingSent_fire ρ mi t s r m st a hr hm hne hst htr hsig hlen hact hl h1).log

/-- PaddingSent, case (a), the complete effect of the call on the framework (`CallKeep`: the
    machine's runtime, every other runtime, the exact log, all slots empty, machines, pending
    signal, fault flag, random state and framework-wide accounting) -/
theorem C07_paddingSent_keep (mi : Nat) (t : Int) (s : Fw σ) (r : Runtime) (m : Machine) (st : State)
    (hr : s.rt[mi]? = some r) (hm : s.machines[mi]? = some m) (hne : r.currentState ≠ STATE_END)
    (hst : m.states[r.currentState]? = some st) (htr : st.transitions[Event.paddingSent.toNat]? = some none)
    (hsig : s.signalPending = none)
    (hk : ∀ a, st.action = some a → a.hasLimit = true → 2 ≤ r.stateLimit) :
    CallKeep mi .paddingSent r
      { r with stateLimit := r.stateLimit - 1, zeroedA := false, zeroedB := false,
               acct := { r.acct with paddingSent := r.acct.paddingSent + 1 } }
      { s.g with now := t, paddingSent := s.g.paddingSent + 1 } s
      (triggerEvents ρ [.paddingSent mi] t s) :=
  call_paddingSent_keep ρ mi t s r m st hr hm hne hst htr hsig hk

/-- PaddingSent, case (b), in full (`CallFire`): LimitReached is delivered to a framework in which
    the machine's limit is 0 and every slot is empty -/
theorem C07_paddingSent_fire (mi : Nat) (t : Int) (s : Fw σ) (r : Runtime) (m : Machine) (st : State) (a : Action)
    (hr : s.rt[mi]? = some r) (hm : s.machines[mi]? = some m) (hne : r.currentState ≠ STATE_END)
    (hst : m.states[r.currentState]? = some st) (htr : st.transitions[Event.paddingSent.toNat]? = some none)
    (hsig : s.signalPending = none) (hlen : mi < s.actions.length)
    (hact : st.action = some a) (hl : a.hasLimit = true) (h1 : r.stateLimit ≤ 1) :
    CallFire ρ mi .paddingSent r
      { r with stateLimit := 0, zeroedA := false, zeroedB := false,
               acct := { r.acct with paddingSent := r.acct.paddingSent + 1 } }
      { s.g with now := t, paddingSent := s.g.paddingSent + 1 } s
      (triggerEvents ρ [.paddingSent mi] t s) :=
  call_paddingSent_fire ρ mi t s r m st a hr hm hne hst htr hsig hlen hact hl h1

/-- TimerBegin, case (a) -/
theorem C07_timerBegin_keep (mi : Nat) (t : Int) (s : Fw σ) (r : Runtime) (m : Machine) (st : State)
    (hr : s.rt[mi]? = some r) (hm : s.machines[mi]? = some m) (hne : r.currentState ≠ STATE_END)
    (hst : m.states[r.currentState]? = some st) (htr : st.transitions[Event.timerBegin.toNat]? = some none)
    (hsig : s.signalPending = none)
    (hk : ∀ a, st.action = some a → a.hasLimit = true → 2 ≤ r.stateLimit) :
    CallKeep mi .timerBegin r
      { r with stateLimit := r.stateLimit - 1, zeroedA := false, zeroedB := false }
      { s.g with now := t } s
      (triggerEvents ρ [.timerBegin mi] t s) :=
  call_timerBegin_keep ρ mi t s r m st hr hm hne hst htr hsig hk

/-- TimerBegin, case (b) -/
theorem C07_timerBegin_fire (mi : Nat) (t : Int) (s : Fw σ) (r : Runtime) (m : Machine) (st : State) (a : Action)
    (hr : s.rt[mi]? = some r) (hm : s.machines[mi]? = some m) (hne : r.currentState ≠ STATE_END)
    (hst : m.states[r.currentState]? = some st) (htr : st.transitions[Event.timerBegin.toNat]? = some none)
    (hsig : s.signalPending = none) (hlen : mi < s.actions.length)
    (hact : st.action = some a) (hl : a.hasLimit = true) (h1 : r.stateLimit ≤ 1) :
    CallFire ρ mi .timerBegin r
      { r with stateLimit := 0, zeroedA := false, zeroedB := false }
      { s.g with now := t } s
      (triggerEvents ρ [.timerBegin mi] t s) :=
  call_timerBegin_fire ρ mi t s r m st a hr hm hne hst htr hsig hlen hact hl h1

/-- BlockingBegin, case (a). The event is delivered to every machine, the decrement is applied to
    `mi` only. The other machines may do anything with it (change state, schedule, signal), so
    the statement is about `mi`'s component and the log; because a neighbour may signal, `mi`'s
    state must have no transition on Signal. No assumption on the pending-signal slot. -/
theorem C07_blockingBegin_keep (mi : Nat) (t : Int) (s : Fw σ) (r : Runtime) (m : Machine) (st : State)
    (hr : s.rt[mi]? = some r) (hm : s.machines[mi]? = some m) (hne : r.currentState ≠ STATE_END)
    (hst : m.states[r.currentState]? = some st) (htr : st.transitions[Event.blockingBegin.toNat]? = some none)
    (hns : ∀ vec, st.transitions[Event.signal.toNat]? ≠ some (some vec))
    (hk : ∀ a, st.action = some a → a.hasLimit = true → 2 ≤ r.stateLimit) :
    (triggerEvents ρ [.blockingBegin mi] t s).rt[mi]? =
      some { r with stateLimit := r.stateLimit - 1, zeroedA := false, zeroedB := false } ∧
    (triggerEvents ρ [.blockingBegin mi] t s).actions[mi]? = (s.actions[mi]?).map (fun _ => none) ∧
    (triggerEvents ρ [.blockingBegin mi] t s).machines[mi]? = some m ∧
    ∃ l, (triggerEvents ρ [.blockingBegin mi] t s).log = l ++ s.log ∧
      (∀ st', LogEntry.trans mi Event.limitReached.toNat st' ∉ l) ∧
      ∃ l1 l2, l = l1 ++ .limit mi (r.stateLimit - 1) true :: .trans mi Event.blockingBegin.toNat r.currentState :: l2 :=
  call_blockingBegin_keep ρ mi t s r m st hr hm hne hst htr hns hk

/-- BlockingBegin, case (b): no assumption on signals at all -/
theorem C07_blockingBegin_fire (mi : Nat) (t : Int) (s : Fw σ) (r : Runtime) (m : Machine) (st : State) (a : Action)
    (hr : s.rt[mi]? = some r) (hm : s.machines[mi]? = some m) (hne : r.currentState ≠ STATE_END)
    (hst : m.states[r.currentState]? = some st) (htr : st.transitions[Event.blockingBegin.toNat]? = some none)
    (hlen : mi < s.actions.length)
    (hact : st.action = some a) (hl : a.hasLimit = true) (h1 : r.stateLimit ≤ 1) :
    ∃ l1 l2, (triggerEvents ρ [.blockingBegin mi] t s).log =
      l1 ++ .trans mi Event.limitReached.toNat r.currentState :: .limit mi 0 true ::
        .trans mi Event.blockingBegin.toNat r.currentState :: l2 ++ s.log :=
  call_blockingBegin_fire ρ mi t s r m st a hr hm hne hst htr hlen hact hl h1

/-- **Countdown.** Starting from a sampled limit `L = r.stateLimit`, `k = ts.length` consecutive
    calls at arbitrary times `ts`, each reporting one PaddingSent for `mi`, in a state without a
    transition on PaddingSent: if the state's action has a limit then `k < L` is required (the
    `L`-th completion is `C07_countdown_fire`), otherwise `k` is arbitrary. Afterwards
    `stateLimit = L - k`, `currentState` (and both counters) unchanged, `k` more padding packets
    accounted; machines, pending signal, fault flag and random state are unchanged, LimitReached
    was never delivered to the machine and its limit was never resampled (`Counted`); and (if
    `k > 0`) every slot is empty. -/
theorem C07_countdown (mi : Nat) (m : Machine) (st : State) (ts : List Int) (s : Fw σ) (r : Runtime)
    (hr : s.rt[mi]? = some r) (hm : s.machines[mi]? = some m) (hne : r.currentState ≠ STATE_END)
    (hst : m.states[r.currentState]? = some st) (htr : st.transitions[Event.paddingSent.toNat]? = some none)
    (hsig : s.signalPending = none)
    (hk : ∀ a, st.action = some a → a.hasLimit = true → ts.length < r.stateLimit) :
    Counted mi
      { r with stateLimit := r.stateLimit - ts.length, zeroedA := r.zeroedA && ts.isEmpty,
               zeroedB := r.zeroedB && ts.isEmpty,
               acct := { r.acct with paddingSent := r.acct.paddingSent + ts.length } }
      s (runCalls ρ s (ts.map (fun t => ([TEvent.paddingSent mi], t)))) ∧
    (ts ≠ [] → (runCalls ρ s (ts.map (fun t => ([TEvent.paddingSent mi], t)))).actions = s.actions.map (fun _ => none)) :=
  countdown_paddingSent ρ mi m st ts s r hr hm hne hst htr hsig hk

/-- the projection of `C07_countdown` asked for: limit `L - k`, state unchanged -/
theorem C07_countdown_limit (mi : Nat) (m : Machine) (st : State) (ts : List Int) (s : Fw σ) (r : Runtime)
    (hr : s.rt[mi]? = some r) (hm : s.machines[mi]? = some m) (hne : r.currentState ≠ STATE_END)
    (hst : m.states[r.currentState]? = some st) (htr : st.transitions[Event.paddingSent.toNat]? = some none)
    (hsig : s.signalPending = none)
    (hk : ∀ a, st.action = some a → a.hasLimit = true → ts.length < r.stateLimit) :
    ∃ r', (runCalls ρ s (ts.map (fun t => ([TEvent.paddingSent mi], t)))).rt[mi]? = some r' ∧
      r'.stateLimit = r.stateLimit - ts.length ∧ r'.currentState = r.currentState :=
  ⟨_, (countdown_paddingSent ρ mi m st ts s r hr hm hne hst htr hsig hk).1.rt, rfl, rfl⟩

/-- **The `L`-th completion delivers LimitReached.** After `L - 1` counted completions (`L` the
    sampled limit of a state whose action has a limit; `L = 0` is covered with `ts = []`), the next
    PaddingSent for the machine is case (b): in that call the decrement to 0 is directly followed by
    the delivery of LimitReached to the machine, still in the same state. -/
theorem C07_countdown_fire (mi : Nat) (m : Machine) (st : State) (a : Action) (ts : List Int) (t : Int)
    (s : Fw σ) (r : Runtime)
    (hr : s.rt[mi]? = some r) (hm : s.machines[mi]? = some m) (hne : r.currentState ≠ STATE_END)
    (hst : m.states[r.currentState]? = some st) (htr : st.transitions[Event.paddingSent.toNat]? = some none)
    (hsig : s.signalPending = none) (hlen : mi < s.actions.length)
    (hact : st.action = some a) (hl : a.hasLimit = true) (hL : ts.length = r.stateLimit - 1) :
    ∃ l, (runCalls ρ s ((ts ++ [t]).map (fun t => ([TEvent.paddingSent mi], t)))).log =
      l ++ .trans mi Event.limitReached.toNat r.currentState :: .limit mi 0 true ::
        .trans mi Event.paddingSent.toNat r.currentState ::
        (runCalls ρ s (ts.map (fun t => ([TEvent.paddingSent mi], t)))).log := by
  obtain ⟨h1, h2⟩ := countdown_paddingSent_fire ρ mi m st a ts t s r hr hm hne hst htr hsig hlen hact hl hL
  rw [h1]
  exact h2.log

/-- `C07_countdown_fire` in full (`CallFire` for the last call) -/
theorem C07_countdown_fire_full (mi : Nat) (m : Machine) (st : State) (a : Action) (ts : List Int) (t : Int)
    (s : Fw σ) (r : Runtime)
    (hr : s.rt[mi]? = some r) (hm : s.machines[mi]? = some m) (hne : r.currentState ≠ STATE_END)
    (hst : m.states[r.currentState]? = some st) (htr : st.transitions[Event.paddingSent.toNat]? = some none)
    (hsig : s.signalPending = none) (hlen : mi < s.actions.length)
    (hact : st.action = some a) (hl : a.hasLimit = true) (hL : ts.length = r.stateLimit - 1) :
    runCalls ρ s ((ts ++ [t]).map (fun t => ([TEvent.paddingSent mi], t))) =
      triggerEvents ρ [.paddingSent mi] t (runCalls ρ s (ts.map (fun t => ([TEvent.paddingSent mi], t)))) ∧
    CallFire ρ mi .paddingSent
      { r with stateLimit := r.stateLimit - ts.length, zeroedA := r.zeroedA && ts.isEmpty,
               zeroedB := r.zeroedB && ts.isEmpty,
               acct := { r.acct with paddingSent := r.acct.paddingSent + ts.length } }
      { r with stateLimit := 0, zeroedA := false, zeroedB := false,
               acct := { r.acct with paddingSent := r.acct.paddingSent + ts.length + 1 } }
      { (runCalls ρ s (ts.map (fun t => ([TEvent.paddingSent mi], t)))).g with
          now := t, paddingSent := (runCalls ρ s (ts.map (fun t => ([TEvent.paddingSent mi], t)))).g.paddingSent + 1 }
      (runCalls ρ s (ts.map (fun t => ([TEvent.paddingSent mi], t))))
      (triggerEvents ρ [.paddingSent mi] t (runCalls ρ s (ts.map (fun t => ([TEvent.paddingSent mi], t))))) :=
  countdown_paddingSent_fire ρ mi m st a ts t s r hr hm hne hst htr hsig hlen hact hl hL

/-- the countdown for TimerBegin completions -/
theorem C07_countdown_timerBegin (mi : Nat) (m : Machine) (st : State) (ts : List Int) (s : Fw σ) (r : Runtime)
    (hr : s.rt[mi]? = some r) (hm : s.machines[mi]? = some m) (hne : r.currentState ≠ STATE_END)
    (hst : m.states[r.currentState]? = some st) (htr : st.transitions[Event.timerBegin.toNat]? = some none)
    (hsig : s.signalPending = none)
    (hk : ∀ a, st.action = some a → a.hasLimit = true → ts.length < r.stateLimit) :
    Counted mi
      { r with stateLimit := r.stateLimit - ts.length, zeroedA := r.zeroedA && ts.isEmpty,
               zeroedB := r.zeroedB && ts.isEmpty }
      s (runCalls ρ s (ts.map (fun t => ([TEvent.timerBegin mi], t)))) ∧
    (ts ≠ [] → (runCalls ρ s (ts.map (fun t => ([TEvent.timerBegin mi], t)))).actions = s.actions.map (fun _ => none)) :=
  countdown_timerBegin ρ mi m st ts s r hr hm hne hst htr hsig hk

/-- the countdown for BlockingBegin completions, whatever the other machines do with the
    BlockingBegin events they receive (the machine's state has no transition on Signal either) -/
theorem C07_countdown_blockingBegin (mi : Nat) (m : Machine) (st : State) (ts : List Int) (s : Fw σ) (r : Runtime)
    (hr : s.rt[mi]? = some r) (hm : s.machines[mi]? = some m) (hne : r.currentState ≠ STATE_END)
    (hst : m.states[r.currentState]? = some st) (htr : st.transitions[Event.blockingBegin.toNat]? = some none)
    (hns : ∀ vec, st.transitions[Event.signal.toNat]? ≠ some (some vec))
    (hk : ∀ a, st.action = some a → a.hasLimit = true → ts.length < r.stateLimit) :
    (runCalls ρ s (ts.map (fun t => ([TEvent.blockingBegin mi], t)))).rt[mi]? =
      some { r with stateLimit := r.stateLimit - ts.length, zeroedA := r.zeroedA && ts.isEmpty,
                    zeroedB := r.zeroedB && ts.isEmpty } ∧
    (runCalls ρ s (ts.map (fun t => ([TEvent.blockingBegin mi], t)))).machines[mi]? = some m ∧
    (mi < s.actions.length → mi < (runCalls ρ s (ts.map (fun t => ([TEvent.blockingBegin mi], t)))).actions.length) ∧
    (ts ≠ [] → mi < s.actions.length →
      (runCalls ρ s (ts.map (fun t => ([TEvent.blockingBegin mi], t)))).actions[mi]? = some none) ∧
    ∃ l, (runCalls ρ s (ts.map (fun t => ([TEvent.blockingBegin mi], t)))).log = l ++ s.log ∧
      ∀ st', LogEntry.trans mi Event.limitReached.toNat st' ∉ l :=
  countdown_blockingBegin ρ mi m st r.currentState hne hst htr hns ts s r hr hm rfl hk

/-- the `L`-th BlockingBegin completion delivers LimitReached -/
theorem C07_countdown_blockingBegin_fire (mi : Nat) (m : Machine) (st : State) (a : Action) (ts : List Int) (t : Int)
    (s : Fw σ) (r : Runtime)
    (hr : s.rt[mi]? = some r) (hm : s.machines[mi]? = some m) (hne : r.currentState ≠ STATE_END)
    (hst : m.states[r.currentState]? = some st) (htr : st.transitions[Event.blockingBegin.toNat]? = some none)
    (hns : ∀ vec, st.transitions[Event.signal.toNat]? ≠ some (some vec))
    (hlen : mi < s.actions.length)
    (hact : st.action = some a) (hl : a.hasLimit = true) (hL : ts.length = r.stateLimit - 1) :
    ∃ l1 l2, (runCalls ρ s ((ts ++ [t]).map (fun t => ([TEvent.blockingBegin mi], t)))).log =
      l1 ++ .trans mi Event.limitReached.toNat r.currentState :: .limit mi 0 true ::
        .trans mi Event.blockingBegin.toNat r.currentState :: l2 ++
        (runCalls ρ s (ts.map (fun t => ([TEvent.blockingBegin mi], t)))).log :=
  countdown_blockingBegin_fire ρ mi m st a ts t s r hr hm hne hst htr hns hlen hact hl hL

/-- **Completions reported for other machines never consume the limit.** `E` is PaddingSent,
    BlockingBegin or TimerBegin for a machine `j ≠ mi` (or an unknown id `j`). In the single-event
    call reporting it machine `mi` keeps its state, limit, counters and accounting (only the
    per-call CounterZero flags are reset by the start of the call), its slot is empty and
    LimitReached is not delivered to it — provided its current state has no transition on Signal
    (machine `j` may signal) and, for BlockingBegin (delivered to every machine), none on
    BlockingBegin. Nothing is assumed about the pending-signal slot or the other machines. -/
theorem C07_other_machine_completion (mi j : Nat) (hj : j ≠ mi) (E : TEvent) (hE : CompletionFor j E)
    (t : Int) (s : Fw σ) (r : Runtime) (m : Machine)
    (hr : s.rt[mi]? = some r) (hm : s.machines[mi]? = some m)
    (hns : ∀ st vec, m.states[r.currentState]? = some st → st.transitions[Event.signal.toNat]? ≠ some (some vec))
    (hbb : E = .blockingBegin j →
      ∀ st vec, m.states[r.currentState]? = some st → st.transitions[Event.blockingBegin.toNat]? ≠ some (some vec)) :
    (triggerEvents ρ [E] t s).rt[mi]? = some { r with zeroedA := false, zeroedB := false } ∧
    (triggerEvents ρ [E] t s).actions[mi]? = (s.actions[mi]?).map (fun _ => none) ∧
    (triggerEvents ρ [E] t s).machines[mi]? = some m ∧
    ∃ l, (triggerEvents ρ [E] t s).log = l ++ s.log ∧ ∀ st', LogEntry.trans mi Event.limitReached.toNat st' ∉ l :=
  other_machine_completion ρ mi j hj E hE t s r m hr hm hns hbb

/-- **Only a machine's own completions consume its limit** — for any history of calls with any
    batches of events, any machines, any oracle, any starting framework: the log segment added by
    the history holds at most as many decrements of `mi`'s limit (`limit mi _ true`, written by
    `decrementLimit` and by nothing else) as the history reports completions for `mi`
    (PaddingSent / BlockingBegin / TimerBegin carrying the id `mi`). Fewer are possible: a
    completion that changes the machine's state, or reaches a machine in END, is not counted. -/
theorem C07_decrements_le_completions (mi : Nat) (h : List Call) (s : Fw σ) :
    ∃ l, (runCalls ρ s h).log = l ++ s.log ∧
      l.countP (isDecrementOf mi) ≤ (h.map (fun c => c.1.countP (TEvent.completes mi))).sum :=
  decrements_le_completions ρ mi h s

/-- in particular: completions reported for other machines (and all other events) never
    decrement the machine's limit -/
theorem C07_no_completion_no_decrement (mi : Nat) (h : List Call) (s : Fw σ)
    (hno : ∀ c ∈ h, ∀ e ∈ c.1, TEvent.completes mi e = false) :
    ∃ l, (runCalls ρ s h).log = l ++ s.log ∧ ∀ x, LogEntry.limit mi x true ∉ l :=
  no_completion_no_decrement ρ mi h s hno

/-! ### the monitor on the model's own log -/

/-- **The monitor's log walk accepts the model's log of every fault-free call.** For every machine
    set, oracle, batch of events, time and state: if the call ends without a fault, the segment `l`
    it adds to the ghost log (newest first), read chronologically, is accepted by `C07.checkLog`
    started from the limits and states of the snapshot taken before the call (`LL.limOf`, `LL.stOf`:
    the maps `C07.monitor` builds; 0 for an id without a runtime). -/
theorem C07_log_accepted (es : List TEvent) (t : Int) (s : Fw σ) (hok : (triggerEvents ρ es t s).fault = none)
    (l : List LogEntry) (hl : (triggerEvents ρ es t s).log = l ++ s.log) :
    checkLog s.machines (LL.limOf s.snap) (LL.stOf s.snap) (fun _ => none) l.reverse = none :=
  LL.call_accepted ρ es t s hok l hl _

/-- the decrement rule in plain terms. In the chronological log of a fault-free call, at a decrement
    entry `limit mi v true` (`f` = the limits and states the monitor tracks up to that point:
    the snapshot before the call, updated by the limit entries and sampled states of the prefix):
    `v` is the tracked limit minus one (0 stays 0), and the entry is IMMEDIATELY followed by the
    LimitReached delivery to `mi` exactly when `v = 0` and the action of `mi`'s tracked state
    carries a limit. -/
theorem C07_log_decrement_exact (es : List TEvent) (t : Int) (s : Fw σ) (hok : (triggerEvents ρ es t s).fault = none)
    (l : List LogEntry) (hl : (triggerEvents ρ es t s).log = l ++ s.log)
    (pre rest : List LogEntry) (mi v : Nat) (hsplit : l.reverse = pre ++ .limit mi v true :: rest) :
    v = (if (LL.after (LL.limOf s.snap, LL.stOf s.snap) pre).1 mi > 0
          then (LL.after (LL.limOf s.snap, LL.stOf s.snap) pre).1 mi - 1 else 0) ∧
    ((∃ st rest', rest = .trans mi Gen.EV_LimitReached st :: rest') ↔
      (v = 0 ∧ hasLimitAt s.machines mi ((LL.after (LL.limOf s.snap, LL.stOf s.snap) pre).2 mi) = true)) := by
  have h := C07_log_accepted ρ es t s hok l hl
  rw [hsplit] at h
  obtain ⟨h1, h2, _⟩ := LL.checkLog_limitT_none _ _ _ _ mi v rest (LL.checkLog_split _ pre _ _ _ _ h)
  refine ⟨h1, ?_⟩
  rw [← LL.nextLR_iff, h2]
  simp

/-- the resampling rule in plain terms. In the chronological log of a fault-free call, a sampled
    regular state `next` of machine `mi` is IMMEDIATELY followed by the assignment of a fresh limit
    to `mi` — directly or after exactly one distribution draw — exactly when `next` differs from the
    state tracked for `mi` up to that point; a self-transition is never followed by one. -/
theorem C07_log_resample_exact (es : List TEvent) (t : Int) (s : Fw σ) (hok : (triggerEvents ρ es t s).fault = none)
    (l : List LogEntry) (hl : (triggerEvents ρ es t s).log = l ++ s.log)
    (pre rest : List LogEntry) (mi ev next : Nat) (hsplit : l.reverse = pre ++ .sampled mi ev next :: rest)
    (hreg : isRegular next = true) :
    ((∃ x rest', rest = .limit mi x false :: rest') ∨ (∃ b x rest', rest = .distRaw b :: .limit mi x false :: rest')) ↔
      next ≠ (LL.after (LL.limOf s.snap, LL.stOf s.snap) pre).2 mi := by
  have h := C07_log_accepted ρ es t s hok l hl
  rw [hsplit] at h
  have h1 := (LL.checkLog_sampled_none _ _ _ _ mi ev next rest (LL.checkLog_split _ pre _ _ _ _ h)).1 hreg
  rw [← LL.followsB_iff, h1]
  simp

/-- rule 2 of the monitor, per call (no hypothesis at all): the call's log holds at most as many
    decrements of `j`'s limit as the call reports completions for `j` -/
theorem C07_log_own_completions (j : Nat) (es : List TEvent) (t : Int) (s : Fw σ)
    (l : List LogEntry) (hl : (triggerEvents ρ es t s).log = l ++ s.log) :
    decrements j l.reverse ≤ completions j es :=
  LL.decrements_le_call ρ j es t s l hl

/-- rule 3 of the monitor: a single-event call reporting a completion (of any of the three kinds)
    for a machine `m` that has a runtime and has not ended, ending without a fault. The part `pre`
    of the call's chronological log before the signal round either holds no decrement of `m` and a
    change of `m`'s state (a sampled END or a sampled regular state different from the tracked one),
    or exactly one decrement of `m` and no change of `m`'s state before that decrement. -/
theorem C07_log_single_completion (m : Nat) (e : TEvent)
    (he : e = .paddingSent m ∨ e = .blockingBegin m ∨ e = .timerBegin m)
    (t : Int) (s : Fw σ) (r : Runtime) (hr : s.rt[m]? = some r) (hne : r.currentState ≠ STATE_END)
    (hok : (triggerEvents ρ [e] t s).fault = none)
    (l : List LogEntry) (hl : (triggerEvents ρ [e] t s).log = l ++ s.log) :
    (decrements m (beforeSignals l.reverse) = 0 ∧ changedState m r.currentState (beforeSignals l.reverse) = true) ∨
    (decrements m (beforeSignals l.reverse) = 1 ∧
      changedState m r.currentState ((beforeSignals l.reverse).takeWhile (LL.notDec m)) = false) :=
  LL.ruleC_call ρ m e he t s r hr hne hok l hl

/-- rule 4 of the monitor (`LL.badAct` is its test): in a state satisfying the slot invariant, no
    returned action is of a limitable kind for a machine whose limit was 0 before the call and
    whose limit the call's log never touches -/
theorem C07_log_no_limited_action (es : List TEvent) (t : Int) (s : Fw σ) (hI : Inv04 s)
    (l : List LogEntry) (hl : (triggerEvents ρ es t s).log = l ++ s.log)
    (a : TAction) (ha : a ∈ (triggerEvents ρ es t s).actionsOut) :
    LL.badAct (LL.limOf s.snap) l.reverse a = false :=
  LL.no_limited_action ρ es t s hI l hl a ha

/-- the slot invariant holds after `Framework::new` and is preserved by every call -/
theorem C07_slot_invariant (ms : List Machine) (fp fb : F64) (t0 : Int) (rng : σ) :
    Inv04 (Fw.init ρ ms fp fb t0 rng) ∧
    ∀ (s : Fw σ), Inv04 s → ∀ es t, Inv04 (triggerEvents ρ es t s) :=
  ⟨Inv04.init ρ ms fp fb t0 rng, fun s hI es t => hI.run (triggerEvents_run ρ es t s)⟩

/-- **`C07.monitor` accepts the model's own trace of every history**: for every machine set,
    configuration, oracle and history of calls, the monitor applied to the trace of the model
    (`LL.modelTrace`: the records the driver builds — events, outcome, returned actions, snapshot and
    the call's log) reports no violation. -/
theorem C07_monitor_accepts_model (ms : List Machine) (fp fb : F64) (t0 : Int) (rng : σ) (h : List Call) :
    monitor (LL.modelTrace ρ ms fp fb t0 rng h) = none :=
  LL.monitor_model ρ ms fp fb t0 rng h

/-! ### Non-vacuity: the hypotheses are satisfiable and the model computes what the theorems say -/

section Demo

/-- a state with a limited UpdateTimer action and no transitions at all -/
private def demoSt : State :=
  { action := some (.updateTimer false { dist := .uniform 0 0, start := 0, max := 0 }
      (some { dist := .uniform 0 0, start := 0, max := 0 })),
    counterA := none, counterB := none, transitions := List.replicate 13 none }
private def demoM : Machine :=
  { allowedPaddingPackets := 0, maxPaddingFrac := 0, allowedBlockedMicrosec := 0, maxBlockingFrac := 0,
    states := [demoSt] }
/-- in state 0 with a sampled limit of 3 -/
private def demoR : Runtime :=
  { currentState := 0, stateLimit := 3, counterA := 0, counterB := 0, zeroedA := false, zeroedB := false,
    acct := { paddingSent := 0, normalSent := 0, blockingDur := 0, machineStart := 0, allowedBlocked := 0 } }
/-- two copies of the machine -/
private def demoS : Fw Unit :=
  { machines := [demoM, demoM], rt := [demoR, demoR], actions := [none, none],
    g := { now := 0, maxPaddingFrac := 0, maxBlockingFrac := 0, normalSent := 0, paddingSent := 0, blockingDur := 0,
           blockingStarted := 0, blockingActive := false, start := 0 },
    signalPending := none, rng := (), fault := none, log := [] }
private def demoρ : Oracle Unit := { u := fun _ => (0, ()), d := fun _ _ => (0, ()) }

/-- the hypotheses of `C07_completion_step`, `C07_countdown` and `C07_countdown_fire` hold here
    (machine 0, `L = 3`, two earlier calls) -/
example : demoS.rt[0]? = some demoR ∧ demoS.machines[0]? = some demoM ∧ demoR.currentState ≠ STATE_END ∧
    demoM.states[demoR.currentState]? = some demoSt ∧ demoSt.transitions[Event.paddingSent.toNat]? = some none ∧
    demoS.signalPending = none ∧ 0 < demoS.actions.length ∧
    (∃ a, demoSt.action = some a ∧ a.hasLimit = true) ∧ [10, 20].length = demoR.stateLimit - 1 := by
  refine ⟨rfl, rfl, by decide, rfl, by decide, rfl, by decide, ⟨_, rfl, rfl⟩, rfl⟩

/-- two PaddingSent completions: the limit is 3 - 2 -/
example : ((runCalls demoρ demoS ([10, 20].map (fun t => ([TEvent.paddingSent 0], t)))).rt[0]?).map (·.stateLimit) =
    some 1 := by decide

/-- the third one delivers LimitReached (event 8) right after the decrement to 0 (newest first) -/
example : (runCalls demoρ demoS ([10, 20, 30].map (fun t => ([TEvent.paddingSent 0], t)))).log =
    [.trans 0 8 0, .limit 0 0 true, .trans 0 4 0, .limit 0 1 true, .trans 0 4 0, .limit 0 2 true, .trans 0 4 0] := by
  decide

/-- completions for machine 1 and for the unknown id 7 do not consume machine 0's limit; a
    BlockingBegin for machine 0 is delivered to both machines and counted for machine 0 only -/
example : ((runCalls demoρ demoS [([.paddingSent 1], 10), ([.timerBegin 7], 20), ([.blockingBegin 1], 30),
      ([.blockingBegin 0], 40)]).rt.map (·.stateLimit)) = [2, 1] := by decide

end Demo

section MonitorDemo

private def dZero : Dist := { dist := .uniform 0 0, start := 0, max := 0 }
/-- the constant 2.0 -/
private def dTwo : Dist := { dist := .uniform 4611686018427387904 4611686018427387904, start := 0, max := 0 }
/-- state 0: no action; NormalSent leads to state 1 with probability 1 -/
private def mSt0 : State :=
  { action := none, counterA := none, counterB := none,
    transitions := (List.replicate 13 none).set 3 (some [{ target := 1, prob := 1065353216 }]) }
/-- state 1: UpdateTimer with a limit of 2; LimitReached leads back to state 0 -/
private def mSt1 : State :=
  { action := some (.updateTimer false dZero (some dTwo)), counterA := none, counterB := none,
    transitions := (List.replicate 13 none).set 8 (some [{ target := 0, prob := 1065353216 }]) }
private def mM : Machine :=
  { allowedPaddingPackets := 0, maxPaddingFrac := 0, allowedBlockedMicrosec := 0, maxBlockingFrac := 0,
    states := [mSt0, mSt1] }
private def mρ : Oracle Unit := { u := fun _ => (0, ()), d := fun _ _ => (0, ()) }
private def mTrace : FwTrace :=
  LL.modelTrace mρ [mM] 0 0 0 () [([.normalSent], 10), ([.timerBegin 0], 20), ([.timerBegin 0], 30), ([.timerBegin 0], 40)]

/-- Non-vacuity of `C07_monitor_accepts_model`: no call faults (the monitor walks all four), and the
    logs hold a resampling after the draw of the limit distribution, two decrements, the
    LimitReached delivery (event 8) right after the decrement to 0, and a resampling without a draw. -/
example : mTrace.calls.map (·.res) = [.ok, .ok, .ok, .ok] ∧
    mTrace.calls.map (·.log) =
      [[.trans 0 3 0, .draw 0, .sampled 0 3 1, .distRaw 4611686018427387904, .limit 0 2 false, .counter 0 0 0 0 0,
        .distRaw 0],
       [.trans 0 10 1, .limit 0 1 true],
       [.trans 0 10 1, .limit 0 0 true, .trans 0 8 1, .draw 0, .sampled 0 8 0, .limit 0 18446744073709551615 false,
        .counter 0 0 0 0 0],
       [.trans 0 10 0, .limit 0 18446744073709551614 true]] ∧
    mTrace.calls.map (·.actions) = [[.updateTimer 0 false 0], [], [], []] ∧
    monitor mTrace = none := by decide +kernel

/-- Non-vacuity of the rules of `checkLog` (machine in state 1 with limit 1 / state 0): a change of
    state without a resampling, a refreshed self-transition, a wrong decrement, a decrement to 0
    without LimitReached and a LimitReached delivery above 0 are all rejected; the model's third
    call is accepted. -/
example :
    (checkLog [mM] (fun _ => 0) (fun _ => 0) (fun _ => none) [.sampled 0 3 1, .counter 0 0 0 0 0]).isSome = true ∧
    (checkLog [mM] (fun _ => 1) (fun _ => 1) (fun _ => none) [.sampled 0 3 1, .limit 0 2 false]).isSome = true ∧
    (checkLog [mM] (fun _ => 2) (fun _ => 1) (fun _ => none) [.limit 0 0 true, .trans 0 8 1]).isSome = true ∧
    (checkLog [mM] (fun _ => 1) (fun _ => 1) (fun _ => none) [.limit 0 0 true]).isSome = true ∧
    (checkLog [mM] (fun _ => 2) (fun _ => 1) (fun _ => none) [.limit 0 1 true, .trans 0 8 1]).isSome = true ∧
    checkLog [mM] (fun _ => 1) (fun _ => 1) (fun _ => none)
      [.trans 0 10 1, .limit 0 0 true, .trans 0 8 1, .draw 0, .sampled 0 8 0, .limit 0 18446744073709551615 false,
       .counter 0 0 0 0 0] = none := by decide +kernel

end MonitorDemo

end Mb.C07
