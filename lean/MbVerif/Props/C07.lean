/-
  C07 — per-state limits.

  Proved on the model (decision logic stated outright):
  * `C07_gate`: the limit predicates allow an action of a limitable kind (SendPadding,
    BlockOutgoing, UpdateTimer) only while the state limit is > 0 — on every path, including the
    "fraction over zero packets" path (fix 018bd02) and the "replace while blocking is active"
    path. Hence a sampled limit of zero yields no action, and after the limit is used up no
    further limited action is scheduled from that state.
  * `C07_sched_positive`: every action of a limitable kind that is ever put into a slot was gated
    by a runtime whose state limit was positive (stated on the primitive `sched` step, so it holds
    for every reachable execution).
  * `C07_enter`: the limit is resampled exactly when the sampled state differs from the current
    one; a self-transition leaves it alone.
  * `C07_decrement`: a completion decrements the limit by one (never below 0); if it thereby is 0
    and the state's action has a limit, the pending action is withdrawn and LimitReached is
    delivered to that machine at once; otherwise nothing else happens.
  * `C07_other_machines`: transitions and limit decrements of other machines never change this
    machine's state limit (frame).
  * `C07_exhausted` / `C07_exhausted_history` (whole calls and histories, every machine set, every
    oracle, no well-formedness needed): once a machine's state limit is 0, every later call returns
    for it at most a Cancel and leaves the limit at 0 — through self-transitions, CounterZero round
    trips, LimitReached deliveries, batches, completions for it and for others — until the ghost
    log records a resampling of its limit, which `enterState` writes only when the state index
    changes (`C07_enter`). This is "no further limited action from that state until the machine
    re-enters it from another state" (`Proofs/Exhausted.lean`, a fifth induction over the mutual
    recursion).
  The implementation is tied to this by the correspondence on (state, limit) after every call
  (tag RS), the internal log with the hook's limit entries (tag L) and `C07.monitor`.
-/
import MbVerif.Proofs.SafeCall
import MbVerif.Proofs.Exhausted

namespace Mb.C07
open Mb

variable {σ : Type} (ρ : Oracle σ)

/-- the action kinds that carry a per-state limit -/
def limitable : Action → Bool
  | .cancel _ => false
  | _ => true

theorem belowLimitPadding_limit (g : Globals) (r : Runtime) (m : Machine) (h : belowLimitPadding g r m = true) :
    r.stateLimit > 0 := by
  unfold belowLimitPadding at h
  split at h
  · simpa using h
  · simp only [] at h
    split at h
    · cases h
    · split at h
      · cases h
      · simpa using h

theorem belowLimitBlocking_limit (g : Globals) (r : Runtime) (m : Machine) (rp : Bool)
    (h : belowLimitBlocking g r m rp = some true) : r.stateLimit > 0 := by
  unfold belowLimitBlocking at h
  by_cases h1 : (rp && g.blockingActive) = true
  · rw [if_pos h1] at h; simpa using h
  · rw [if_neg h1] at h
    simp only [] at h
    generalize (if g.blockingActive = true then durSince g.now g.blockingStarted else 0) = ongoing at h
    split at h
    · cases h
    · split at h
      · simpa using h
      · split at h
        · cases h
        · split at h
          · cases h
          · simpa using h

/-- no limitable action passes the limit predicates unless the state limit is positive -/
theorem C07_gate (g : Globals) (r : Runtime) (m : Machine) (st : State) (act : Action)
    (hst : m.states[r.currentState]? = some st) (hact : st.action = some act) (hl : limitable act = true)
    (h : belowActionLimits g r m = some true) : r.stateLimit > 0 := by
  unfold belowActionLimits at h
  rw [hst] at h
  simp only [hact] at h
  cases act with
  | cancel t => cases hl
  | sendPadding b rp tmo' lim => exact belowLimitPadding_limit g r m (by simpa using h)
  | blockOutgoing b rp tmo' du lim => exact belowLimitBlocking_limit g r m rp h
  | updateTimer rp du lim => simpa using h

/-- every limitable action that is put into a slot was gated at a positive state limit -/
theorem C07_sched_positive {g : Globals} {m : Machine} {acct : RtAcct} {next : Nat} {act : Action}
    (hg : Gate g m acct next act) (hl : limitable act = true) :
    ∃ r₁ : Runtime, r₁.currentState = next ∧ r₁.acct = acct ∧ r₁.stateLimit > 0 := by
  obtain ⟨r₁, st, hacct, hcur, hst, hact, hb⟩ := hg
  exact ⟨r₁, hcur, hacct, C07_gate g r₁ m st act (by rw [hcur]; exact hst) hact hl hb⟩

/-- self-transitions do not refresh the limit; a change of state index does -/
theorem C07_enter (mi : Nat) (m : Machine) (cur next : Nat) (s : Fw σ) :
    (cur = next → enterState ρ mi m cur next s = s) ∧
    (cur ≠ next → ∀ st a, m.states[next]? = some st → st.action = some a →
      enterState ρ mi m cur next s =
        ((sampleLimit ρ a (s.modRt mi (fun r => { r with currentState := next }))).2.modRt mi
          (fun r => { r with stateLimit := (sampleLimit ρ a (s.modRt mi (fun r => { r with currentState := next }))).1 })).push
          (.limit mi (sampleLimit ρ a (s.modRt mi (fun r => { r with currentState := next }))).1 false)) := by
  constructor
  · intro h; unfold enterState; simp [h]
  · intro h st a hst ha
    unfold enterState
    simp [h, hst, ha]

/-- the decrement performed for a completion -/
theorem C07_decrement (mi : Nat) (s : Fw σ) (r : Runtime) (m : Machine) (st : State)
    (hr : s.rt[mi]? = some r) (hm : s.machines[mi]? = some m) (hst : m.states[r.currentState]? = some st)
    (hlen : mi < s.actions.length) :
    let lim := r.stateLimit - 1
    let s1 := (s.modRt mi (fun r' => { r' with stateLimit := lim })).push (.limit mi lim true)
    decrementLimit ρ mi s =
      match st.action with
      | none => s1
      | some a =>
        if lim = 0 ∧ a.hasLimit = true then
          (transition ρ FUEL mi .limitReached { s1 with actions := s1.actions.set mi none }).1
        else s1 := by
  unfold decrementLimit
  rw [hr, hm]
  simp only [hst]
  have hlim : (if r.stateLimit > 0 then r.stateLimit - 1 else r.stateLimit) = r.stateLimit - 1 := by
    split <;> omega
  rw [hlim]
  cases hact : st.action with
  | none => rfl
  | some a =>
    simp only []
    by_cases hc : (r.stateLimit - 1 = 0 ∧ a.hasLimit = true)
    · have hc' : (decide (r.stateLimit - 1 = 0) && a.hasLimit) = true := by simp [hc.1, hc.2]
      rw [if_pos hc', if_pos hc]
      have : ¬ mi ≥ ((s.modRt mi (fun r' => { r' with stateLimit := r.stateLimit - 1 })).push
          (.limit mi (r.stateLimit - 1) true)).actions.length := by simpa using hlen
      rw [if_neg this]
    · have hc' : ¬ (decide (r.stateLimit - 1 = 0) && a.hasLimit) = true := by
        simp only [Bool.and_eq_true, decide_eq_true_eq]; exact hc
      rw [if_neg hc', if_neg hc]

/-- other machines never touch this machine's limit (nor any other part of its runtime) -/
theorem C07_other_machines (fuel i j : Nat) (ev : Event) (s : Fw σ) (hij : j ≠ i) :
    (transition ρ fuel j ev s).1.rt[i]? = s.rt[i]? ∧ (decrementLimit ρ j s).rt[i]? = s.rt[i]? :=
  ⟨(transition_reach ρ fuel j ev s).frame.rtOther i (Ne.symm hij),
   (decrementLimit_reach ρ j s).frame.rtOther i (Ne.symm hij)⟩

/-- Non-vacuity: with a state limit of 0, UpdateTimer is denied. -/
example : belowActionLimits
    { now := 0, maxPaddingFrac := 0, maxBlockingFrac := 0, normalSent := 0, paddingSent := 0, blockingDur := 0,
      blockingStarted := 0, blockingActive := false, start := 0 }
    { currentState := 0, stateLimit := 0, counterA := 0, counterB := 0, zeroedA := false, zeroedB := false,
      acct := { paddingSent := 0, normalSent := 0, blockingDur := 0, machineStart := 0, allowedBlocked := 0 } }
    { allowedPaddingPackets := 0, maxPaddingFrac := 0, allowedBlockedMicrosec := 0, maxBlockingFrac := 0,
      states := [{ action := some (.updateTimer false { dist := .uniform 0 0, start := 0, max := 0 } none),
                   counterA := none, counterB := none, transitions := [] }] } = some false := by decide

/-- once the limit is 0: until the machine changes its state index (a resampling is logged), a
    call leaves the limit at 0 and returns at most a Cancel for the machine -/
theorem C07_exhausted (mi : Nat) (es : List TEvent) (t : Int) (s : Fw σ)
    (hz : ∀ r, s.rt[mi]? = some r → r.stateLimit = 0) :
    ∃ l, (triggerEvents ρ es t s).log = l ++ s.log ∧
      ((∃ x, LogEntry.limit mi x false ∈ l) ∨
       ((∀ r, (triggerEvents ρ es t s).rt[mi]? = some r → r.stateLimit = 0) ∧
        (∀ a, (triggerEvents ρ es t s).actions[mi]? = some (some a) → a.isCancel = true))) := by
  obtain ⟨l, e, p⟩ := exhausted_call ρ (mi := mi) es t s hz
  exact ⟨l, e, p.imp id (fun h => ⟨h.lim, h.slot⟩)⟩

/-- the same over a whole history: as long as no resampling for the machine is logged, every call
    of the history returned at most a Cancel for it and the limit stayed 0 -/
theorem C07_exhausted_history (mi : Nat) (h : List Call) (s : Fw σ)
    (hz : ∀ r, s.rt[mi]? = some r → r.stateLimit = 0) :
    ∃ l, (runCalls ρ s h).log = l ++ s.log ∧
      ((∃ x, LogEntry.limit mi x false ∈ l) ∨
       ((∀ r, (runCalls ρ s h).rt[mi]? = some r → r.stateLimit = 0) ∧
        (h ≠ [] → ∀ a, (runCalls ρ s h).actions[mi]? = some (some a) → a.isCancel = true))) := by
  unfold runCalls
  induction h generalizing s with
  | nil => exact ⟨[], rfl, Or.inr ⟨hz, fun hne => absurd rfl hne⟩⟩
  | cons c cs ih =>
    simp only [List.foldl_cons]
    obtain ⟨l1, e1, p1⟩ := C07_exhausted ρ mi c.1 c.2 s hz
    rcases p1 with ⟨x, hx⟩ | ⟨hz1, hs1⟩
    · -- resampled in the first call: only the log extension is needed for the rest
      obtain ⟨l2, e2⟩ := runCalls_logExt ρ cs (triggerEvents ρ c.1 c.2 s)
      unfold runCalls at e2
      exact ⟨l2 ++ l1, by rw [e2, e1, List.append_assoc], Or.inl ⟨x, by simp [hx]⟩⟩
    · obtain ⟨l2, e2, p2⟩ := ih (triggerEvents ρ c.1 c.2 s) hz1
      refine ⟨l2 ++ l1, by rw [e2, e1, List.append_assoc], ?_⟩
      rcases p2 with ⟨x, hx⟩ | ⟨hz2, hs2⟩
      · exact Or.inl ⟨x, by simp [hx]⟩
      · refine Or.inr ⟨hz2, fun _ a ha => ?_⟩
        cases cs with
        | nil => exact hs1 a ha
        | cons d ds => exact hs2 (by simp) a ha

end Mb.C07
