/-
  C07 — per-state limits.

  Proved on the model (decision logic stated outright):
  * `C07_gate`: the limit predicates allow an action of a limitable kind (SendPadding,
    BlockOutgoing, UpdateTimer) only while the state limit is > 0 — on every path, including the
    "fraction over zero packets" path (fix 018bd02) and the "replace while blocking is active"
    path. Hence a sampled limit of zero yields no action, and after the limit is used up no
    further limited action is scheduled from that state.
  * `C07_sched_positive`: every action of a limitable kind that is ever put into a slot was gated
    by a runtime whose state limit was positive (stated on the primitive `sched` step, so it holds
    for every reachable execution).
  * `C07_enter`: the limit is resampled exactly when the sampled state differs from the current
    one; a self-transition leaves it alone.
  * `C07_decrement`: a completion decrements the limit by one (never below 0); if it thereby is 0
    and the state's action has a limit, the pending action is withdrawn and LimitReached is
    delivered to that machine at once; otherwise nothing else happens.
  * `C07_other_machines`: transitions and limit decrements of other machines never change this
    machine's state limit (frame).
  The implementation is tied to this by the correspondence on (state, limit) after every call
  (tag RS), the internal log with the hook's limit entries (tag L) and `C07.monitor`.
-/
import MbVerif.Proofs.SafeCall

namespace Mb.C07
open Mb

variable {σ : Type} (ρ : Oracle σ)

/-- the action kinds that carry a per-state limit -/
def limitable : Action → Bool
  | .cancel _ => false
  | _ => true

theorem belowLimitPadding_limit (g : Globals) (r : Runtime) (m : Machine) (h : belowLimitPadding g r m = true) :
    r.stateLimit > 0 := by
  unfold belowLimitPadding at h
  split at h
  · simpa using h
  · simp only [] at h
    split at h
    · cases h
    · split at h
      · cases h
      · simpa using h

theorem belowLimitBlocking_limit (g : Globals) (r : Runtime) (m : Machine) (rp : Bool)
    (h : belowLimitBlocking g r m rp = some true) : r.stateLimit > 0 := by
  unfold belowLimitBlocking at h
  by_cases h1 : (rp && g.blockingActive) = true
  · rw [if_pos h1] at h; simpa using h
  · rw [if_neg h1] at h
    simp only [] at h
    generalize (if g.blockingActive = true then durSince g.now g.blockingStarted else 0) = ongoing at h
    split at h
    · cases h
    · split at h
      · simpa using h
      · split at h
        · cases h
        · split at h
          · cases h
          · simpa using h

/-- no limitable action passes the limit predicates unless the state limit is positive -/
theorem C07_gate (g : Globals) (r : Runtime) (m : Machine) (st : State) (act : Action)
    (hst : m.states[r.currentState]? = some st) (hact : st.action = some act) (hl : limitable act = true)
    (h : belowActionLimits g r m = some true) : r.stateLimit > 0 := by
  unfold belowActionLimits at h
  rw [hst] at h
  simp only [hact] at h
  cases act with
  | cancel t => cases hl
  | sendPadding b rp tmo' lim => exact belowLimitPadding_limit g r m (by simpa using h)
  | blockOutgoing b rp tmo' du lim => exact belowLimitBlocking_limit g r m rp h
  | updateTimer rp du lim => simpa using h

/-- every limitable action that is put into a slot was gated at a positive state limit -/
theorem C07_sched_positive {g : Globals} {m : Machine} {acct : RtAcct} {next : Nat} {act : Action}
    (hg : Gate g m acct next act) (hl : limitable act = true) :
    ∃ r₁ : Runtime, r₁.currentState = next ∧ r₁.acct = acct ∧ r₁.stateLimit > 0 := by
  obtain ⟨r₁, st, hacct, hcur, hst, hact, hb⟩ := hg
  exact ⟨r₁, hcur, hacct, C07_gate g r₁ m st act (by rw [hcur]; exact hst) hact hl hb⟩

/-- self-transitions do not refresh the limit; a change of state index does -/
theorem C07_enter (mi : Nat) (m : Machine) (cur next : Nat) (s : Fw σ) :
    (cur = next → enterState ρ mi m cur next s = s) ∧
    (cur ≠ next → ∀ st a, m.states[next]? = some st → st.action = some a →
      enterState ρ mi m cur next s =
        ((sampleLimit ρ a (s.modRt mi (fun r => { r with currentState := next }))).2.modRt mi
          (fun r => { r with stateLimit := (sampleLimit ρ a (s.modRt mi (fun r => { r with currentState := next }))).1 })).push
          (.limit mi (sampleLimit ρ a (s.modRt mi (fun r => { r with currentState := next }))).1 false)) := by
  constructor
  · intro h; unfold enterState; simp [h]
  · intro h st a hst ha
    unfold enterState
    simp [h, hst, ha]

/-- the decrement performed for a completion -/
theorem C07_decrement (mi : Nat) (s : Fw σ) (r : Runtime) (m : Machine) (st : State)
    (hr : s.rt[mi]? = some r) (hm : s.machines[mi]? = some m) (hst : m.states[r.currentState]? = some st)
    (hlen : mi < s.actions.length) :
    let lim := r.stateLimit - 1
    let s1 := (s.modRt mi (fun r' => { r' with stateLimit := lim })).push (.limit mi lim true)
    decrementLimit ρ mi s =
      match st.action with
      | none => s1
      | some a =>
        if lim = 0 ∧ a.hasLimit = true then
          (transition ρ FUEL mi .limitReached { s1 with actions := s1.actions.set mi none }).1
        else s1 := by
  unfold decrementLimit
  rw [hr, hm]
  simp only [hst]
  have hlim : (if r.stateLimit > 0 then r.stateLimit - 1 else r.stateLimit) = r.stateLimit - 1 := by
    split <;> omega
  rw [hlim]
  cases hact : st.action with
  | none => rfl
  | some a =>
    simp only []
    by_cases hc : (r.stateLimit - 1 = 0 ∧ a.hasLimit = true)
    · have hc' : (decide (r.stateLimit - 1 = 0) && a.hasLimit) = true := by simp [hc.1, hc.2]
      rw [if_pos hc', if_pos hc]
      have : ¬ mi ≥ ((s.modRt mi (fun r' => { r' with stateLimit := r.stateLimit - 1 })).push
          (.limit mi (r.stateLimit - 1) true)).actions.length := by simpa using hlen
      rw [if_neg this]
    · have hc' : ¬ (decide (r.stateLimit - 1 = 0) && a.hasLimit) = true := by
        simp only [Bool.and_eq_true, decide_eq_true_eq]; exact hc
      rw [if_neg hc', if_neg hc]

/-- other machines never touch this machine's limit (nor any other part of its runtime) -/
theorem C07_other_machines (fuel i j : Nat) (ev : Event) (s : Fw σ) (hij : j ≠ i) :
    (transition ρ fuel j ev s).1.rt[i]? = s.rt[i]? ∧ (decrementLimit ρ j s).rt[i]? = s.rt[i]? :=
  ⟨(transition_reach ρ fuel j ev s).frame.rtOther i (Ne.symm hij),
   (decrementLimit_reach ρ j s).frame.rtOther i (Ne.symm hij)⟩

/-- Non-vacuity: with a state limit of 0, UpdateTimer is denied. -/
example : belowActionLimits
    { now := 0, maxPaddingFrac := 0, maxBlockingFrac := 0, normalSent := 0, paddingSent := 0, blockingDur := 0,
      blockingStarted := 0, blockingActive := false, start := 0 }
    { currentState := 0, stateLimit := 0, counterA := 0, counterB := 0, zeroedA := false, zeroedB := false,
      acct := { paddingSent := 0, normalSent := 0, blockingDur := 0, machineStart := 0, allowedBlocked := 0 } }
    { allowedPaddingPackets := 0, maxPaddingFrac := 0, allowedBlockedMicrosec := 0, maxBlockingFrac := 0,
      states := [{ action := some (.updateTimer false { dist := .uniform 0 0, start := 0, max := 0 } none),
                   counterA := none, counterB := none, transitions := [] }] } = some false := by decide

end Mb.C07
