/-
  C04 — output contract: at most one well-formed action per machine per call.

  For every set of machines (validated or not), every pair of fractions, every start time,
  EVERY oracle (so every seed and every value a distribution sampler can return, NaN and ±inf
  included) and every history of calls with arbitrary batches:
  * each call returns actions whose machine ids are strictly increasing and name existing
    machines (hence distinct, at most one per machine, none for a framework without machines),
  * each action has exactly the kind and flags of an action defined in some state of the
    machine it names, and every timeout/duration is at most the configured maximum (24 h),
  * a machine that is in END after a call never yields an action in any later call.
  The specification predicates (`C04.outOK`, …) are the ones the monitor runs on the
  implementation's traces (MbVerif/Spec/C04.lean).
  `C04_monitor_accepts_model` (`Proofs/MonitorAcceptA.lean`): the monitor itself, applied to the trace
  the model produces (`LL.modelTrace`: per call the events, outcome, returned actions and snapshot, as
  the driver records them), returns `none` for EVERY machine set, configuration, oracle and history —
  no false alarm on an implementation that agrees with the model on returned actions and on which
  machines are in END after each call; both rules of the monitor (per-call contract, no action for a
  machine the previous snapshot shows in END) are discharged, no hypothesis is needed.
-/
import MbVerif.Proofs.C04
import MbVerif.Proofs.EndAbs
import MbVerif.Proofs.MonitorAcceptA

namespace Mb.C04
open Mb

variable {σ : Type} (ρ : Oracle σ)

/-- Output contract for every call of every history. -/
theorem C04_out (ms : List Machine) (fp fb : F64) (t0 : Int) (rng : σ) (h : List Call) :
    ∀ s ∈ runStates ρ (Fw.init ρ ms fp fb t0 rng) h, outOK ms s.actionsOut = true := by
  intro s hs
  have hrun := runStates_run ρ _ h s hs
  have hI : Inv04 s := (Inv04.init ρ ms fp fb t0 rng).run hrun
  have hm : s.machines = ms := by
    have h1 := (Run.inv (fun t : Fw σ => t.machines = (Fw.init ρ ms fp fb t0 rng).machines)
      (fun a b ha hp => by
        cases hp with
        | step mi st => rw [st.frame.machines]; exact ha
        | setG => exact ha
        | setAcct => simpa using ha
        | callStart => exact ha) hrun rfl)
    have h2 := (Run.inv (fun t : Fw σ => t.machines = (Fw.init0 ms fp fb t0 rng).machines)
      (fun a b ha hp => by
        cases hp with
        | step mi st => rw [st.frame.machines]; exact ha
        | setG => exact ha
        | setAcct => simpa using ha
        | callStart => exact ha) (init_run ρ ms fp fb t0 rng) rfl)
    rw [h1, h2]; rfl
  rw [← hm]; exact hI.outOK

/-- Ids strictly increasing implies the number of actions is at most the number of machines:
    stated directly on the slots. -/
theorem C04_count (ms : List Machine) (fp fb : F64) (t0 : Int) (rng : σ) (h : List Call) :
    ∀ s ∈ runStates ρ (Fw.init ρ ms fp fb t0 rng) h, s.actionsOut.length ≤ ms.length := by
  intro s hs
  have hrun := runStates_run ρ _ h s hs
  have hI : Inv04 s := (Inv04.init ρ ms fp fb t0 rng).run hrun
  have hI0 := Inv04.init ρ ms fp fb t0 rng
  have hlen : s.actions.length = ms.length := by
    have h1 := Run.inv (fun t : Fw σ => t.actions.length = (Fw.init0 ms fp fb t0 rng).actions.length)
      (fun a b ha hp => by
        cases hp with
        | step mi st => rw [st.frame.actLen]; exact ha
        | setG => exact ha
        | setAcct => simpa using ha
        | callStart => simpa [Fw.callStart] using ha) ((init_run ρ ms fp fb t0 rng).trans hrun) rfl
    simpa [Fw.init0] using h1
  unfold Fw.actionsOut
  exact Nat.le_trans (List.length_filterMap_le _ _) (Nat.le_of_eq hlen)

/-- A framework without machines never returns an action. -/
theorem C04_no_machines (fp fb : F64) (t0 : Int) (rng : σ) (h : List Call) :
    ∀ s ∈ runStates ρ (Fw.init ρ [] fp fb t0 rng) h, s.actionsOut = [] := by
  intro s hs
  have := C04_count ρ [] fp fb t0 rng h s hs
  simpa using this

/-- END is absorbing across calls: if machine `mi` is in END in state `s`, then after any
    further history every reached state still has it in END and returns no action for it. -/
theorem C04_end_absorbing (s : Fw σ) (hI : Inv04 s) (mi : Nat) (hend : Ended mi s) (h : List Call) :
    ∀ s' ∈ runStates ρ s h, Ended mi s' ∧ ∀ a ∈ s'.actionsOut, a.machine ≠ mi := by
  induction h generalizing s with
  | nil => intro s' hs'; simp [runStates] at hs'
  | cons c h ih =>
    intro s' hs'
    have hq := triggerEvents_quiet ρ mi c.1 c.2 s hend
    have hI' : Inv04 (triggerEvents ρ c.1 c.2 s) := hI.run (triggerEvents_run ρ c.1 c.2 s)
    simp only [runStates, List.mem_cons] at hs'
    rcases hs' with rfl | hs'
    · refine ⟨hq.1, ?_⟩
      intro a ha hm
      unfold Fw.actionsOut at ha
      rw [List.mem_filterMap] at ha
      obtain ⟨x, hx, hxa⟩ := ha
      simp only [id] at hxa
      subst hxa
      obtain ⟨i, hi⟩ := List.getElem?_of_mem hx
      have := (hI'.slots i a hi).1
      rw [hm] at this
      subst this
      exact hq.2 a hi
    · exact ih _ hI' hq.1 s' hs'

/-- Non-vacuity: a concrete machine with an action, and the invariant holds initially. -/
example : Inv04 (Fw.init0 (σ := Unit)
    [{ allowedPaddingPackets := 0, maxPaddingFrac := 0, allowedBlockedMicrosec := 0, maxBlockingFrac := 0,
       states := [{ action := some (.cancel .all), counterA := none, counterB := none, transitions := [] }] }]
    0 0 0 ()) := Inv04.init0 _ _ _ _ _

/-- **The monitor accepts the model.** For every machine set (validated or not), configuration,
    oracle and history of calls, `C04.monitor` applied to the trace of the model reports no violation. -/
theorem C04_monitor_accepts_model (ms : List Machine) (fp fb : F64) (t0 : Int) (rng : σ) (h : List Call) :
    monitor (LL.modelTrace ρ ms fp fb t0 rng h) = none :=
  MA.c04_monitor_model ρ ms fp fb t0 rng h

section MonitorDemo

/-- state 0: no action, NormalSent leads to state 1 with probability 1 -/
private def dSt0 : State :=
  { action := none, counterA := none, counterB := none,
    transitions := (List.replicate 13 none).set 3 (some [{ target := 1, prob := 1065353216 }]) }
/-- state 1: Cancel(All); NormalRecv leads to END with probability 1 -/
private def dSt1 : State :=
  { action := some (.cancel .all), counterA := none, counterB := none,
    transitions := (List.replicate 13 none).set 0 (some [{ target := STATE_END, prob := 1065353216 }]) }
private def dM : Machine :=
  { allowedPaddingPackets := 0, maxPaddingFrac := 0, allowedBlockedMicrosec := 0, maxBlockingFrac := 0,
    states := [dSt0, dSt1] }
private def dρ : Oracle Unit := { u := fun _ => (0, ()), d := fun _ _ => (0, ()) }
private def dTrace : FwTrace :=
  LL.modelTrace dρ [dM, dM] 0 0 0 () [([.normalSent], 10), ([.normalRecv], 20), ([.normalSent, .normalRecv], 30)]

/-- the same trace with the actions of call `k` replaced -/
private def tamper (t : FwTrace) (k : Nat) (acts : List TAction) : FwTrace :=
  { t with calls := t.calls.modify k (fun c => { c with actions := acts }) }

/-- Non-vacuity of `C04_monitor_accepts_model`: no call faults (the monitor walks all three), the
    first call returns one action per machine, the second moves both machines to END, the third
    returns nothing — and the monitor's rules are live: an action for an ended machine, ids out of
    order, an unknown machine id, a kind the machine does not define are all rejected. -/
example : dTrace.calls.map (·.res) = [.ok, .ok, .ok] ∧
    dTrace.calls.map (·.actions) = [[.cancel 0 .all, .cancel 1 .all], [], []] ∧
    dTrace.calls.map (fun c => endedOf c.snap) = [[], [0, 1], [0, 1]] ∧
    monitor dTrace = none ∧
    (monitor (tamper dTrace 2 [.cancel 1 .all])).isSome = true ∧
    (monitor (tamper dTrace 0 [.cancel 1 .all, .cancel 0 .all])).isSome = true ∧
    (monitor (tamper dTrace 0 [.cancel 2 .all])).isSome = true ∧
    (monitor (tamper dTrace 0 [.cancel 0 .action])).isSome = true := by decide +kernel

end MonitorDemo

end Mb.C04
