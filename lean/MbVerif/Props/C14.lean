/-
  C14 — without machines the simulator reproduces the input trace.  Theorems about the model
  (the composed identity statement is `C14.holds` in Spec/C14.lean, checked by the monitor on
  every generated run through `sim` and `sim_advanced` with every filter combination; what is
  proved here are the lemmas of DESIGN section 7 that the composition needs):

  * `C14_S2_normalSent`, `C14_S2_tunnelSent`, `C14_S2_tunnelRecv`: each input packet moves
    NormalSent → TunnelSent (same side, same time) → TunnelRecv (other side, ≥ one delay later,
    and exactly one delay later when the bottleneck adds nothing) → NormalRecv (same time);
    none of these steps produces padding;
  * `C14_only_packets`: composed and unconditional — without machines the returned trace holds
    only plain packet events (the "nothing else, no padding" half of `C14.holds`);
  * `C14_identity` (and `_raw`, `_sim`): **the composed property** — for every time-ordered parsed
    trace (times within `Duration::MAX`), every delay, every filter combination, `sim` and
    `sim_advanced` without an explicit packets-per-second limit, a run without machines that ends
    because all normal packets were processed returns a trace for which `C14.holds` is true: only
    packets, TunnelSent at exactly the trace's `s` times, TunnelRecv at exactly its `r` times, the
    server's view shifted by the delay, ordered by time.  It composes the heap-order lemma (the
    served event is a minimum of all queued events, `Proofs/HeapOrder.lean`), the window-covering
    lemma and the hop lemmas over the main loop (`Proofs/SimExact.lean`, `Proofs/SimIdentity.lean`);
  * `C14_progress` (and `_raw`): **progress** — for a non-empty such trace with times strictly
    within `Duration::MAX`, valid limit fractions, `continue_after_all_normal` off, and caps and
    loop fuel of at least `4·|trace|` (`max_sim_iterations`, `max_trace_length` zero or ≥ 4n,
    fuel ≥ 4n − 1), the run does not fault, does not stop early and ends because all normal
    packets were processed; it performs exactly `4n − k` iterations, `k ≤ n` the number of
    NormalRecv events still queued when the third stop test fires (so between `3n` and `4n − 1`:
    the last packet's NormalRecv is never served).  Proof in `Proofs/SimProgress.lean`;
  * `C14_identity_total` (and `_raw_total`, `_sim_total`): the composed property **without** the
    hypothesis on the stop reason, under the explicit cap hypotheses of `C14_progress`;
    `C14_strict_bound_needed` shows that "strictly within" cannot be weakened: with delay 0 a packet
    exactly `Duration::MAX` after the first one is never served (`pick_next` reads the offset
    `Duration::MAX` as "nothing to do") and the run ends with an empty-queue stop instead;
  * `C14_identity_partial`: the earlier composed statement in count form (kept: it does not need
    the time-ordering and range hypotheses);
  * `C14_S1_parsed_limit_never_exceeded`: the window-covering lemma — the limit `parse_trace`
    derives (10 × the largest 100 ms count) is never exceeded by the 1 s window fed with the same
    time-ordered times, also when shifted by the delay (all constants come from the translator);
  * `C14_S1_no_bottleneck_partial`: as long as the window count stays within the limit, the
    sampled network delay is exactly the configured delay and no aggregate delay is queued;
  * `C14_S2_no_machines_no_actions`, `C14_S2_init_quiet`, `C14_S2_trigger_update_inert`: with no
    machines the framework returns no actions and draws no randomness, so `trigger_update` never
    sets a slot, a timer or blocking and never queues a TimerBegin.
  * `C14_monitor_accepts_model`: **the monitor accepts the model's own observation** — under the
    hypotheses of `C14_identity_total` on the trace, the fractions, the stop setting and the
    model's budget, and for EVERY setting of the two caps (a binding cap makes the monitor skip
    the run; it never makes the model panic), `C14.monitor` returns `none` on the model's
    observation of a `sim` or `sim_advanced` run; `C14_monitor_hypotheses_needed` gives, for each
    hypothesis on the inputs, a model observation the monitor rejects without it.
-/
import MbVerif.Proofs.SimNoMachines
import MbVerif.Proofs.SimWindow
import MbVerif.Proofs.SimOnlyPackets
import MbVerif.Proofs.SimMatch
import MbVerif.Proofs.SimRaw
import MbVerif.Proofs.SimIdentity
import MbVerif.Proofs.SimProgress
import MbVerif.Props.C15
import MbVerif.Spec.C14

namespace Mb.C14
open Mb Mb.Sim

/-- **S2, first hop.** -/
theorem C14_S2_normalSent (next : SimEvent) (sq sq' : SimQueue) (byp : Bool) (net net' : Bottleneck) (now : Int)
    (na : Bool) (hev : next.event = .normalSent)
    (h : simNetworkStack next sq byp net now = .ok (na, sq', net')) :
    sq' = sq.pushSim ⟨.tunnelSent, next.time, next.client, false, false, false⟩ ∧ net' = net ∧ na = false := by
  unfold simNetworkStack at h
  simp only [hev] at h
  cases h
  exact ⟨rfl, rfl, rfl⟩

/-- **S1 (per packet)**: within the packets-per-second limit the network delay is exactly the
    configured one and no aggregate delay is queued. -/
theorem C14_S1_no_bottleneck_partial (b b' : Bottleneck) (now : Int) (c : Bool) (r : Nat × Option Nat)
    (hcount : ((if c then b.clientWindow else b.serverWindow).add now).1 ≤ b.ppsLimit)
    (h : b.sample now c = .ok (r, b')) :
    r = (b.network.delay, none) ∧ b'.aggQueue = b.aggQueue ∧ b'.clientAgg = b.clientAgg ∧ b'.serverAgg = b.serverAgg := by
  unfold Bottleneck.sample at h
  simp only [] at h
  rw [bind_ok_iff] at h
  obtain ⟨delay, hd, h⟩ := h
  have hd0 : delay = 0 := by
    unfold Bottleneck.ppsDelay at hd
    have hle : ¬ ((if c then b.clientWindow else b.serverWindow).add now).1 >
        (if c then { b with clientWindow := ((if c then b.clientWindow else b.serverWindow).add now).2 }
          else { b with serverWindow := ((if c then b.clientWindow else b.serverWindow).add now).2 }).ppsLimit := by
      cases c <;> simp at hcount ⊢ <;> omega
    simp only [hle, if_false, pure, Except.pure] at hd
    cases hd; rfl
  subst hd0
  unfold Bottleneck.sampleResult at h
  simp only [Nat.lt_irrefl, if_false, pure, Except.pure, gt_iff_lt] at h
  cases h
  cases c <;> simp

/-- **S1 (window covering), complete at the level of the windows.**  For every time-ordered
    trace: feed the bottleneck's window (length `SIM_BOTTLENECK_WINDOW_NS`) with the client's
    send times, or with the client's receive times shifted by any constant (the server sends them
    one network delay earlier): no count ever exceeds the limit `parse_trace` derived from the
    same trace.  So as long as the tunnel-sent events of a side happen at that side's trace times
    — which is what S2 maintains — `NetworkBottleneck::sample` adds nothing
    (`C14_S1_no_bottleneck_partial`).  Missing for the composed identity: the induction that ties
    the two together over the main loop (it needs the heap-ordering lemma, see the report). -/
theorem C14_S1_parsed_limit_never_exceeded (trace : List TraceLine) (delay : Nat) (shift : Int)
    (hs : Asc (sTimes trace)) (hr : Asc (rTimes trace)) :
    ∃ lim, (parseTrace trace delay).maxPps = some lim ∧
      (∀ c ∈ feedCounts ⟨Gen.SIM_BOTTLENECK_WINDOW_NS, []⟩ (sTimes trace), c ≤ lim) ∧
      (∀ c ∈ feedCounts ⟨Gen.SIM_BOTTLENECK_WINDOW_NS, []⟩ ((rTimes trace).map (· + shift)), c ≤ lim) := by
  obtain ⟨lim, hlim, h1, h2⟩ := parseTrace_limit trace delay
  refine ⟨lim, hlim, ?_, ?_⟩
  · intro c hc
    -- the bottleneck window is `PPS_FACTOR` parse windows
    have hw : Gen.SIM_BOTTLENECK_WINDOW_NS = (9 + 1) * Gen.SIM_PARSE_WINDOW_NS := by decide
    rw [hw] at hc
    -- bound every parse-window count by the largest one
    have hmax : ∀ c' ∈ feedCounts ⟨Gen.SIM_PARSE_WINDOW_NS, []⟩ (sTimes trace), c' ≤ lim / Gen.SIM_PARSE_PPS_FACTOR := by
      intro c' hc'
      have := h1 c' hc'
      have hf : Gen.SIM_PARSE_PPS_FACTOR = 10 := by decide
      rw [hf] at this ⊢
      omega
    have := feedCounts_covering Gen.SIM_PARSE_WINDOW_NS (lim / Gen.SIM_PARSE_PPS_FACTOR) 9 (sTimes trace) hs
      (by decide) hmax c hc
    have hf : Gen.SIM_PARSE_PPS_FACTOR = 10 := by decide
    rw [hf] at this
    omega
  · intro c hc
    have hshift := feedCounts_shift Gen.SIM_BOTTLENECK_WINDOW_NS shift (rTimes trace) []
    simp only [List.map_nil] at hshift
    rw [hshift] at hc
    have hw : Gen.SIM_BOTTLENECK_WINDOW_NS = (9 + 1) * Gen.SIM_PARSE_WINDOW_NS := by decide
    rw [hw] at hc
    have hmax : ∀ c' ∈ feedCounts ⟨Gen.SIM_PARSE_WINDOW_NS, []⟩ (rTimes trace), c' ≤ lim / Gen.SIM_PARSE_PPS_FACTOR := by
      intro c' hc'
      have := h2 c' hc'
      have hf : Gen.SIM_PARSE_PPS_FACTOR = 10 := by decide
      rw [hf] at this ⊢
      omega
    have := feedCounts_covering Gen.SIM_PARSE_WINDOW_NS (lim / Gen.SIM_PARSE_PPS_FACTOR) 9 (rTimes trace) hr
      (by decide) hmax c hc
    have hf : Gen.SIM_PARSE_PPS_FACTOR = 10 := by decide
    rw [hf] at this
    omega

/-- **"…and nothing else": only plain packets** (composed, trace level).  For every parsed trace,
    delay, argument record (any filters, caps, explicit pps or not) and oracle, without machines
    on either side, every event of the returned trace is a NormalSent, TunnelSent, TunnelRecv or
    NormalRecv without padding, bypass or replace flag: the `onlyPackets` conjunct of
    `C14.holds`.  No PaddingSent, no blocking and no timer event can appear. -/
theorem C14_only_packets {σ : Type} (ρ : Oracle σ) (budget : Nat) (trace : List TraceLine) (delay : Nat) (a : Args) (orc : σ) :
    onlyPackets (simAdvanced ρ budget [] [] (parseTrace trace delay) a orc).trace = true := by
  unfold simAdvanced
  cases hi : initState ρ [] [] (parseTrace trace delay) a orc with
  | error f => simp [onlyPackets]
  | ok st =>
    simp only []
    have hn := initState_nomach ρ hi
    have hall := loop_nomach ρ a (loopFuel a budget) st 0 0 hn
    have hgood := loop_stream_sorted ρ a (loopFuel a budget) st 0 0
    rw [finish_trace a _ hgood.2]
    split
    · simp [onlyPackets]
    · unfold onlyPackets
      rw [List.all_eq_true]
      intro e he
      simp only [List.mem_map, List.mem_filter] at he
      obtain ⟨r, ⟨hr, _⟩, hre⟩ := he
      have := hall r hr
      rw [hre] at this
      simpa [pktOK, Bool.and_assoc] using this

/-- **Composed, partial**: without machines, on the returned unfiltered trace of a run that ended
    because all normal packets were processed, (i) only plain packets occur, (ii) the trace is
    ordered by time, (iii) each side has exactly as many TunnelSent events as the input trace
    has lines of its direction, and (iv) every TunnelRecv is matched with a distinct TunnelSent
    of the other side at least one network delay earlier.  What is still missing for
    `C14.holds`: that the TunnelSent *times* are exactly the trace's times (the composition of
    the window-covering lemma `C14_S1_parsed_limit_never_exceeded` with the hop lemmas over the
    main loop, which needs the heap-ordering lemma: the popped event is a minimum). -/
theorem C14_identity_partial {σ : Type} (ρ : Oracle σ) (budget : Nat) (trace : List TraceLine) (delay : Nat) (a : Args)
    (orc : σ) (hd : a.network.delay = delay) (hoc : a.onlyClientEvents = false) (hon : a.onlyNetworkActivity = false)
    (hstop : (simAdvanced ρ budget [] [] (parseTrace trace delay) a orc).stop = .noNormal) :
    let tr := (simAdvanced ρ budget [] [] (parseTrace trace delay) a orc).trace
    onlyPackets tr = true ∧ tr.Pairwise (fun x y => x.time ≤ y.time) ∧
    (∀ c, C15.normalSentCount tr c = C15.share trace c) ∧ C15.causality delay tr = true := by
  have hok : ∀ f, (simAdvanced ρ budget [] [] (parseTrace trace delay) a orc).stop ≠ .fault f := by
    intro f hf; rw [hstop] at hf; cases hf
  refine ⟨C14_only_packets ρ budget trace delay a orc, C15.C15_trace_sorted ρ budget [] [] _ a orc, ?_,
    C15.C15_causality_matching ρ budget [] [] trace delay a orc hd hoc hon hok⟩
  intro c
  exact (C15.C15_conservation_trace ρ budget [] [] trace delay a orc hoc hon hok c).2 hstop

/-! ### raw input traces: padding lines `sp` / `rp` are not packets of the trace -/

/-- only plain packets, for raw traces with all direction tokens -/
theorem C14_only_packets_raw {σ : Type} (ρ : Oracle σ) (budget : Nat) (raw : List RawLine) (delay : Nat) (a : Args) (orc : σ) :
    onlyPackets (simAdvanced ρ budget [] [] (parseTraceRaw raw delay) a orc).trace = true := by
  rw [parseTraceRaw_eq]
  exact C14_only_packets ρ budget (normalLines raw) delay a orc

/-- the composed partial identity for raw traces: the expected trace is built from the normal
    lines only -/
theorem C14_identity_partial_raw {σ : Type} (ρ : Oracle σ) (budget : Nat) (raw : List RawLine) (delay : Nat) (a : Args)
    (orc : σ) (hd : a.network.delay = delay) (hoc : a.onlyClientEvents = false) (hon : a.onlyNetworkActivity = false)
    (hstop : (simAdvanced ρ budget [] [] (parseTraceRaw raw delay) a orc).stop = .noNormal) :
    let tr := (simAdvanced ρ budget [] [] (parseTraceRaw raw delay) a orc).trace
    onlyPackets tr = true ∧ tr.Pairwise (fun x y => x.time ≤ y.time) ∧
    (∀ c, C15.normalSentCount tr c = C15.share (normalLines raw) c) ∧ C15.causality delay tr = true := by
  rw [parseTraceRaw_eq] at hstop ⊢
  exact C14_identity_partial ρ budget (normalLines raw) delay a orc hd hoc hon hstop

/-- window covering for raw traces: the limit is derived from the normal lines only -/
theorem C14_S1_parsed_limit_never_exceeded_raw (raw : List RawLine) (delay : Nat) (shift : Int)
    (hs : Asc (sTimes (normalLines raw))) (hr : Asc (rTimes (normalLines raw))) :
    ∃ lim, (parseTraceRaw raw delay).maxPps = some lim ∧
      (∀ c ∈ feedCounts ⟨Gen.SIM_BOTTLENECK_WINDOW_NS, []⟩ (sTimes (normalLines raw)), c ≤ lim) ∧
      (∀ c ∈ feedCounts ⟨Gen.SIM_BOTTLENECK_WINDOW_NS, []⟩ ((rTimes (normalLines raw)).map (· + shift)), c ≤ lim) := by
  rw [parseTraceRaw_eq]
  exact C14_S1_parsed_limit_never_exceeded (normalLines raw) delay shift hs hr

/-- **C14, composed: without machines the simulator reproduces the input trace.**  For every
    parsed trace whose `s` times and `r` times are in time order and within `Duration::MAX`
    (with two network delays to spare), every network delay, every argument record without an
    explicit packets-per-second limit (any filters, any caps) and every oracle: if the run ended
    because all normal packets were processed (the caps did not bind), then the returned trace,
    on the observation time axis (offsets from the first base event), satisfies `C14.holds` —
    the predicate the monitor evaluates on the implementation's output: only plain packet events;
    from the client's perspective a TunnelSent at exactly every `s` time and a TunnelRecv at
    exactly every `r` time; unless only client events are kept, the server's TunnelSent at the
    `r` times minus the delay and its TunnelRecv at the `s` times plus the delay; ordered by
    time.  So nothing is delayed by the trace-derived bottleneck, nothing is served late, and
    nothing else happens. -/
theorem C14_identity {σ : Type} (ρ : Oracle σ) (budget : Nat) (trace : List TraceLine) (delay : Nat) (a : Args) (orc : σ)
    (hnet : a.network = ⟨delay, none⟩) (hs : Asc (sTimes trace)) (hr : Asc (rTimes trace))
    (hB : ∀ l ∈ trace, ((l.1 : Nat) : Int) + 2 * (delay : Int) ≤ durMax)
    (hstop : (simAdvanced ρ budget [] [] (parseTrace trace delay) a orc).stop = .noNormal) :
    C14.holds trace delay a.onlyClientEvents
      ((simAdvanced ρ budget [] [] (parseTrace trace delay) a orc).trace.map
        (SimEvent.shift ((parseTrace trace delay).firstTime.getD 0))) = true := by
  obtain ⟨lim, hlim, hfs, hfr⟩ := C14_S1_parsed_limit_never_exceeded trace delay (-(delay : Int)) hs hr
  exact sim_identity ρ budget trace delay lim a orc hnet hlim hs hr hfs hfr hB hstop

/-- the same for raw input traces with all direction tokens: the expected trace consists of the
    normal lines (`s`, `sn`, `r`, `rn`); padding lines are not packets of the trace -/
theorem C14_identity_raw {σ : Type} (ρ : Oracle σ) (budget : Nat) (raw : List RawLine) (delay : Nat) (a : Args) (orc : σ)
    (hnet : a.network = ⟨delay, none⟩) (hs : Asc (sTimes (normalLines raw))) (hr : Asc (rTimes (normalLines raw)))
    (hB : ∀ l ∈ normalLines raw, ((l.1 : Nat) : Int) + 2 * (delay : Int) ≤ durMax)
    (hstop : (simAdvanced ρ budget [] [] (parseTraceRaw raw delay) a orc).stop = .noNormal) :
    C14.holds (normalLines raw) delay a.onlyClientEvents
      ((simAdvanced ρ budget [] [] (parseTraceRaw raw delay) a orc).trace.map
        (SimEvent.shift ((parseTraceRaw raw delay).firstTime.getD 0))) = true := by
  rw [parseTraceRaw_eq] at hstop ⊢
  exact C14_identity ρ budget (normalLines raw) delay a orc hnet hs hr hB hstop

/-- the same for `sim` (which fixes the network to the delay without a packets-per-second limit
    and keeps both sides) -/
theorem C14_identity_sim {σ : Type} (ρ : Oracle σ) (budget : Nat) (raw : List RawLine) (delay maxLen : Nat) (on : Bool) (orc : σ)
    (hs : Asc (sTimes (normalLines raw))) (hr : Asc (rTimes (normalLines raw)))
    (hB : ∀ l ∈ normalLines raw, ((l.1 : Nat) : Int) + 2 * (delay : Int) ≤ durMax)
    (hstop : (sim ρ budget [] [] (parseTraceRaw raw delay) delay maxLen on orc).stop = .noNormal) :
    C14.holds (normalLines raw) delay false
      ((sim ρ budget [] [] (parseTraceRaw raw delay) delay maxLen on orc).trace.map
        (SimEvent.shift ((parseTraceRaw raw delay).firstTime.getD 0))) = true :=
  C14_identity_raw ρ budget raw delay _ orc rfl hs hr hB hstop

/-! ### progress: non-binding caps imply the stop reason -/

/-- **C14, progress.**  A run without machines on a non-empty parsed trace whose `s` times and
    `r` times are in time order and *strictly* within `Duration::MAX` (two network delays to
    spare), with a network without explicit packets-per-second limit, limit fractions that
    `Framework::new` accepts, `continue_after_all_normal` off, `max_sim_iterations` and
    `max_trace_length` each zero (unlimited) or at least `4·|trace|`, and model loop fuel of at
    least `4·|trace| − 1`: the run ends because all normal packets were processed (so: no fault,
    no cap, no early empty queue, fuel not exhausted).  The loop performs at least `3·|trace|`
    and at most `4·|trace| − 1` iterations — exactly `4·|trace|` minus the number of NormalRecv
    events still queued in the final state, in which no normal packet is queued. -/
theorem C14_progress {σ : Type} (ρ : Oracle σ) (budget : Nat) (trace : List TraceLine) (delay : Nat) (a : Args) (orc : σ)
    (hne : trace ≠ []) (hnet : a.network = ⟨delay, none⟩) (hs : Asc (sTimes trace)) (hr : Asc (rTimes trace))
    (hB : ∀ l ∈ trace, ((l.1 : Nat) : Int) + 2 * (delay : Int) < durMax)
    (hfrac : Validate.fracOK a.fpClient = true ∧ Validate.fracOK a.fbClient = true ∧
      Validate.fracOK a.fpServer = true ∧ Validate.fracOK a.fbServer = true)
    (hcont : a.continueAfterAllNormal = false)
    (hit : a.maxSimIterations = 0 ∨ 4 * trace.length ≤ a.maxSimIterations)
    (hlen : a.maxTraceLength = 0 ∨ 4 * trace.length ≤ a.maxTraceLength)
    (hbud : 4 * trace.length ≤ budget + 1) :
    (simAdvanced ρ budget [] [] (parseTrace trace delay) a orc).stop = .noNormal ∧
    3 * trace.length ≤ (simAdvanced ρ budget [] [] (parseTrace trace delay) a orc).stream.length ∧
    (simAdvanced ρ budget [] [] (parseTrace trace delay) a orc).stream.length + 1 ≤ 4 * trace.length ∧
    ∃ stf, (simAdvanced ρ budget [] [] (parseTrace trace delay) a orc).final = some stf ∧
      stf.sq.noNormalPackets = true ∧
      (simAdvanced ρ budget [] [] (parseTrace trace delay) a orc).stream.length + tcount isNR stf.sq = 4 * trace.length := by
  obtain ⟨lim, hlim, hfs, hfr⟩ := C14_S1_parsed_limit_never_exceeded trace delay (-(delay : Int)) hs hr
  obtain ⟨hstop, stf, hfin, hnn, hcnt, hge, hle⟩ :=
    sim_progress ρ budget trace delay lim a orc hne hnet hlim hs hr hfs hfr hB hfrac hcont hit hlen hbud
  exact ⟨hstop, by omega, by omega, stf, hfin, hnn, hcnt⟩

/-- progress for raw input traces with all direction tokens (padding lines are not packets) -/
theorem C14_progress_raw {σ : Type} (ρ : Oracle σ) (budget : Nat) (raw : List RawLine) (delay : Nat) (a : Args) (orc : σ)
    (hne : normalLines raw ≠ []) (hnet : a.network = ⟨delay, none⟩)
    (hs : Asc (sTimes (normalLines raw))) (hr : Asc (rTimes (normalLines raw)))
    (hB : ∀ l ∈ normalLines raw, ((l.1 : Nat) : Int) + 2 * (delay : Int) < durMax)
    (hfrac : Validate.fracOK a.fpClient = true ∧ Validate.fracOK a.fbClient = true ∧
      Validate.fracOK a.fpServer = true ∧ Validate.fracOK a.fbServer = true)
    (hcont : a.continueAfterAllNormal = false)
    (hit : a.maxSimIterations = 0 ∨ 4 * (normalLines raw).length ≤ a.maxSimIterations)
    (hlen : a.maxTraceLength = 0 ∨ 4 * (normalLines raw).length ≤ a.maxTraceLength)
    (hbud : 4 * (normalLines raw).length ≤ budget + 1) :
    (simAdvanced ρ budget [] [] (parseTraceRaw raw delay) a orc).stop = .noNormal ∧
    3 * (normalLines raw).length ≤ (simAdvanced ρ budget [] [] (parseTraceRaw raw delay) a orc).stream.length ∧
    (simAdvanced ρ budget [] [] (parseTraceRaw raw delay) a orc).stream.length + 1 ≤ 4 * (normalLines raw).length := by
  rw [parseTraceRaw_eq]
  obtain ⟨h1, h2, h3, _⟩ := C14_progress ρ budget (normalLines raw) delay a orc hne hnet hs hr hB hfrac hcont hit hlen hbud
  exact ⟨h1, h2, h3⟩

/-- **C14, composed and total: without machines the simulator reproduces the input trace.**
    `C14_identity` without the hypothesis on the stop reason: for every non-empty parsed trace
    whose `s` times and `r` times are in time order and strictly within `Duration::MAX` (two
    network delays to spare), every network delay, every argument record without an explicit
    packets-per-second limit, with limit fractions in [0, 1], `continue_after_all_normal` off and
    caps that are zero or at least four times the number of packets (any filters), and every
    oracle, the returned trace satisfies `C14.holds`. -/
theorem C14_identity_total {σ : Type} (ρ : Oracle σ) (budget : Nat) (trace : List TraceLine) (delay : Nat) (a : Args) (orc : σ)
    (hne : trace ≠ []) (hnet : a.network = ⟨delay, none⟩) (hs : Asc (sTimes trace)) (hr : Asc (rTimes trace))
    (hB : ∀ l ∈ trace, ((l.1 : Nat) : Int) + 2 * (delay : Int) < durMax)
    (hfrac : Validate.fracOK a.fpClient = true ∧ Validate.fracOK a.fbClient = true ∧
      Validate.fracOK a.fpServer = true ∧ Validate.fracOK a.fbServer = true)
    (hcont : a.continueAfterAllNormal = false)
    (hit : a.maxSimIterations = 0 ∨ 4 * trace.length ≤ a.maxSimIterations)
    (hlen : a.maxTraceLength = 0 ∨ 4 * trace.length ≤ a.maxTraceLength)
    (hbud : 4 * trace.length ≤ budget + 1) :
    C14.holds trace delay a.onlyClientEvents
      ((simAdvanced ρ budget [] [] (parseTrace trace delay) a orc).trace.map
        (SimEvent.shift ((parseTrace trace delay).firstTime.getD 0))) = true :=
  C14_identity ρ budget trace delay a orc hnet hs hr (fun l hl => by have := hB l hl; omega)
    (C14_progress ρ budget trace delay a orc hne hnet hs hr hB hfrac hcont hit hlen hbud).1

/-- the same for raw input traces with all direction tokens -/
theorem C14_identity_raw_total {σ : Type} (ρ : Oracle σ) (budget : Nat) (raw : List RawLine) (delay : Nat) (a : Args) (orc : σ)
    (hne : normalLines raw ≠ []) (hnet : a.network = ⟨delay, none⟩)
    (hs : Asc (sTimes (normalLines raw))) (hr : Asc (rTimes (normalLines raw)))
    (hB : ∀ l ∈ normalLines raw, ((l.1 : Nat) : Int) + 2 * (delay : Int) < durMax)
    (hfrac : Validate.fracOK a.fpClient = true ∧ Validate.fracOK a.fbClient = true ∧
      Validate.fracOK a.fpServer = true ∧ Validate.fracOK a.fbServer = true)
    (hcont : a.continueAfterAllNormal = false)
    (hit : a.maxSimIterations = 0 ∨ 4 * (normalLines raw).length ≤ a.maxSimIterations)
    (hlen : a.maxTraceLength = 0 ∨ 4 * (normalLines raw).length ≤ a.maxTraceLength)
    (hbud : 4 * (normalLines raw).length ≤ budget + 1) :
    C14.holds (normalLines raw) delay a.onlyClientEvents
      ((simAdvanced ρ budget [] [] (parseTraceRaw raw delay) a orc).trace.map
        (SimEvent.shift ((parseTraceRaw raw delay).firstTime.getD 0))) = true :=
  C14_identity_raw ρ budget raw delay a orc hnet hs hr (fun l hl => by have := hB l hl; omega)
    (C14_progress_raw ρ budget raw delay a orc hne hnet hs hr hB hfrac hcont hit hlen hbud).1

theorem fracOK_zero : Validate.fracOK (0 : F64) = true := by decide +kernel

/-- the same for `sim` (network fixed to the delay, no packets-per-second limit, no iteration cap,
    fractions 0, both sides kept): only the trace-length cap and the model's fuel remain -/
theorem C14_identity_sim_total {σ : Type} (ρ : Oracle σ) (budget : Nat) (raw : List RawLine) (delay maxLen : Nat) (on : Bool) (orc : σ)
    (hne : normalLines raw ≠ [])
    (hs : Asc (sTimes (normalLines raw))) (hr : Asc (rTimes (normalLines raw)))
    (hB : ∀ l ∈ normalLines raw, ((l.1 : Nat) : Int) + 2 * (delay : Int) < durMax)
    (hlen : maxLen = 0 ∨ 4 * (normalLines raw).length ≤ maxLen)
    (hbud : 4 * (normalLines raw).length ≤ budget + 1) :
    (sim ρ budget [] [] (parseTraceRaw raw delay) delay maxLen on orc).stop = .noNormal ∧
    C14.holds (normalLines raw) delay false
      ((sim ρ budget [] [] (parseTraceRaw raw delay) delay maxLen on orc).trace.map
        (SimEvent.shift ((parseTraceRaw raw delay).firstTime.getD 0))) = true := by
  have hp := C14_progress_raw ρ budget raw delay
    { network := ⟨delay, none⟩, maxTraceLength := maxLen, maxSimIterations := 0,
      continueAfterAllNormal := false, onlyClientEvents := false, onlyNetworkActivity := on,
      fpClient := 0, fbClient := 0, fpServer := 0, fbServer := 0 } orc hne rfl hs hr hB
    ⟨fracOK_zero, fracOK_zero, fracOK_zero, fracOK_zero⟩ rfl (Or.inl rfl) hlen hbud
  exact ⟨hp.1, C14_identity_sim ρ budget raw delay maxLen on orc hs hr (fun l hl => by have := hB l hl; omega) hp.1⟩

/-! ### non-vacuity and sharpness (concrete runs, evaluated by the kernel) -/

/-- an oracle for concrete runs (never consulted: there are no machines) -/
def zeroOracle : Oracle Unit := ⟨fun _ => (0, ()), fun _ _ => (0, ())⟩

/-- a three-packet trace: client sends at 0 and 7 ns, receives at 5 ns; delay 3 ns -/
def demoRaw : List RawLine := [⟨0, .s⟩, ⟨2, .sp⟩, ⟨5, .r⟩, ⟨7, .sn⟩]

/-- non-vacuity of `C14_identity_sim_total` / `C14_progress_raw`: the demo trace meets every
    hypothesis (with the tight fuel `4·3 − 1` and the tight cap `4·3`), and its run indeed stops
    because all normal packets were processed, after `4·3 − 1 = 11` iterations -/
example :
    normalLines demoRaw ≠ [] ∧ Asc (sTimes (normalLines demoRaw)) ∧ Asc (rTimes (normalLines demoRaw)) ∧
    (∀ l ∈ normalLines demoRaw, ((l.1 : Nat) : Int) + 2 * ((3 : Nat) : Int) < durMax) ∧
    ((12 : Nat) = 0 ∨ 4 * (normalLines demoRaw).length ≤ 12) ∧ 4 * (normalLines demoRaw).length ≤ 11 + 1 ∧
    (sim zeroOracle 11 [] [] (parseTraceRaw demoRaw 3) 3 12 false ()).stop = .noNormal ∧
    (sim zeroOracle 11 [] [] (parseTraceRaw demoRaw 3) 3 12 false ()).stream.length = 11 := by
  unfold Asc
  decide +kernel

/-- the caps are tight: one less and the run stops on the cap / the fuel instead -/
example :
    (sim zeroOracle 11 [] [] (parseTraceRaw demoRaw 3) 3 11 false ()).stop = .maxTrace ∧
    (sim zeroOracle 10 [] [] (parseTraceRaw demoRaw 3) 3 12 false ()).stop = .loopFuel := by
  decide +kernel

/-- **"strictly within `Duration::MAX`" cannot be weakened to "within"**: with delay 0, a packet
    exactly `Duration::MAX` after the first one meets every hypothesis of `C14_identity` except
    the one on the stop reason, and is never served — `pick_next` reads the offset
    `Duration::MAX` as "nothing to do" — so the run ends with an empty-queue stop after the four
    events of the first packet. -/
theorem C14_strict_bound_needed :
    (∀ l ∈ [((0 : Nat), true), (durMax, true)], ((l.1 : Nat) : Int) + 2 * ((0 : Nat) : Int) ≤ durMax) ∧
    (sim zeroOracle 8 [] [] (parseTrace [(0, true), (durMax, true)] 0) 0 0 false ()).stop = .queueEmpty ∧
    (sim zeroOracle 8 [] [] (parseTrace [(0, true), (durMax, true)] 0) 0 0 false ()).stream.length = 4 := by
  decide +kernel

/-- **S2, second hop** (exact when the bottleneck adds nothing): a normal TunnelSent at the clock
    queues one normal TunnelRecv for the other side exactly one configured delay later. -/
theorem C14_S2_tunnelSent (next : SimEvent) (sq sq' : SimQueue) (net net' : Bottleneck) (now : Int)
    (hpad : next.containsPadding = false) (hnow : next.time = now)
    (hcount : ((if next.client then net.clientWindow else net.serverWindow).add now).1 ≤ net.ppsLimit)
    (h : netTunnelSent next sq net now = .ok (sq', net')) :
    sq' = sq.pushSim ⟨.tunnelRecv, next.time + net.network.delay, !next.client, false, false, false⟩ ∧
    net'.aggQueue = net.aggQueue := by
  unfold netTunnelSent at h
  rw [bind_ok_iff] at h
  obtain ⟨⟨r, n1⟩, hs, h⟩ := h
  obtain ⟨hr, hq, _, _⟩ := C14_S1_no_bottleneck_partial net n1 now next.client r hcount hs
  subst hr
  rw [bind_ok_iff] at h
  obtain ⟨n2, hn2, h⟩ := h
  simp only [ppsAgg, pure, Except.pure] at hn2
  cases hn2
  simp only [pure, Except.pure] at h
  cases h
  constructor
  · unfold recvFor
    simp only [hpad, Bool.not_false, if_true]
    have : max (next.time + (net.network.delay : Int)) now = next.time + net.network.delay := by
      apply Int.max_eq_left; omega
    rw [this]
  · exact hq

/-- **S2, third hop.** -/
theorem C14_S2_tunnelRecv (next : SimEvent) (sq sq' : SimQueue) (byp : Bool) (net net' : Bottleneck) (now : Int)
    (na : Bool) (hev : next.event = .tunnelRecv) (hpad : next.containsPadding = false)
    (h : simNetworkStack next sq byp net now = .ok (na, sq', net')) :
    sq' = sq.pushSim ⟨.normalRecv, next.time, next.client, false, false, false⟩ ∧ net' = net ∧ na = true := by
  unfold simNetworkStack at h
  simp only [hev, hpad] at h
  cases h
  exact ⟨rfl, rfl, rfl⟩

/-- **No machines, no actions, no draws**: a framework without machines returns no action and
    consumes no randomness for any batch of events at any clock value, and stays that way. -/
theorem C14_S2_no_machines_no_actions {σ : Type} (ρ : Oracle σ) (es : List TEvent) (t : Int) (s : Fw σ)
    (h : Quiet s) :
    Quiet (triggerEvents ρ es t s) ∧ (triggerEvents ρ es t s).rng = s.rng ∧ (triggerEvents ρ es t s).actionsOut = [] :=
  triggerEvents_quiet ρ es t s h

/-- the framework the simulator creates for an empty machine list is such a framework -/
theorem C14_S2_init_quiet {σ : Type} (ρ : Oracle σ) (fp fb : F64) (t0 : Int) (orc : σ) :
    Quiet (Fw.init ρ [] fp fb t0 orc) ∧ (Fw.init ρ [] fp fb t0 orc).rng = orc :=
  init_quiet ρ fp fb t0 orc

/-- hence `trigger_update` on a side without machines leaves queue, network state, oracle, slots,
    timers and blocking exactly as they were -/
theorem C14_S2_trigger_update_inert {σ : Type} (ρ : Oracle σ) (st st' : St σ) (next : SimEvent) (acts : List TAction)
    (hq : Quiet (st.side next.client).fw) (h : triggerUpdate ρ st next = .ok (acts, st')) :
    acts = [] ∧ st'.sq = st.sq ∧ st'.orc = st.orc ∧ st'.net = st.net ∧
    (st'.side next.client).schedAction = (st.side next.client).schedAction ∧
    (st'.side next.client).schedTimer = (st.side next.client).schedTimer ∧
    (st'.side next.client).blockingUntil = (st.side next.client).blockingUntil ∧
    Quiet (st'.side next.client).fw :=
  triggerUpdate_quiet ρ hq h

/-- non-vacuity of the window hypothesis: one packet into an empty one-second window with the
    trace-derived limit 10 stays within the limit -/
example : ((⟨1000000000, []⟩ : WindowCount).add 5).1 ≤ 10 := by decide

/-! ### the monitor accepts the model's own observation -/

/-- **The C14 monitor accepts the model's own observation.**  For every case and every run
    (`sim` or `sim_advanced`, every filter combination, EVERY setting of the two caps): if the
    raw input trace has at least one normal line, its `s` times and `r` times are in time order
    and strictly within `Duration::MAX` (two network delays to spare), the limit fractions of the
    run are in [0, 1], `continue_after_all_normal` is off (for a run through `sim` both hold by
    construction) and the model's loop budget is at least `4·|trace| − 1`, then `C14.monitor`,
    evaluated on the model's observation of the run, reports no failure.  With machines on either
    side, or an explicit packets-per-second limit, the monitor does not apply and returns `none`
    at once; otherwise the model run never panics (also under caps that cut it short: a cap only
    removes a suffix of the run), a binding cap makes the monitor skip the run, and a run whose
    caps do not bind ends because all normal packets were processed (`C14_progress`) and satisfies
    `C14.holds` (`C14_identity`). -/
theorem C14_monitor_accepts_model {σ : Type} (ρ : Oracle σ) (budget : Nat) (c : CaseIn) (r : RunIn) (orc : σ)
    (hne : normalLines c.trace ≠ [])
    (hs : Asc (sTimes (normalLines c.trace))) (hr : Asc (rTimes (normalLines c.trace)))
    (hB : ∀ l ∈ normalLines c.trace, ((l.1 : Nat) : Int) + 2 * (c.delay : Int) < durMax)
    (hfrac : Validate.fracOK (r.effArgs c.delay).fpClient = true ∧ Validate.fracOK (r.effArgs c.delay).fbClient = true ∧
      Validate.fracOK (r.effArgs c.delay).fpServer = true ∧ Validate.fracOK (r.effArgs c.delay).fbServer = true)
    (hcont : (r.effArgs c.delay).continueAfterAllNormal = false)
    (hbud : 4 * (normalLines c.trace).length ≤ budget + 1) :
    C14.monitor c (modelObs ρ budget c r orc) = none := by
  unfold C14.monitor
  cases hm : (c.mc.isEmpty && c.ms.isEmpty) with
  | false => simp
  | true =>
    simp only [Bool.not_true, Bool.false_eq_true, if_false]
    rw [modelObs_run]
    cases hp : (r.adv && r.pps.isSome) with
    | true => simp
    | false =>
      simp only [Bool.false_eq_true, if_false]
      simp only [Bool.and_eq_true, List.isEmpty_iff] at hm
      obtain ⟨hmc, hms⟩ := hm
      have hnet : (r.effArgs c.delay).network = ⟨c.delay, none⟩ := by
        unfold RunIn.effArgs
        cases hadv : r.adv with
        | false => rfl
        | true =>
          simp only [hadv, Bool.true_and] at hp
          have : r.pps = none := by
            cases hpp : r.pps with
            | none => rfl
            | some x => rw [hpp] at hp; simp at hp
          simp [this]
      have hout : modelOut ρ budget c r orc =
          simAdvanced ρ budget [] [] (parseTraceRaw c.trace c.delay) (r.effArgs c.delay) orc := by
        unfold modelOut; rw [hmc, hms]
      generalize r.effArgs c.delay = a at hfrac hcont hnet hout
      -- progress for arguments without a length cap and with a sufficient iteration cap
      have key : ∀ a' : Args, a'.network = ⟨c.delay, none⟩ →
          (Validate.fracOK a'.fpClient = true ∧ Validate.fracOK a'.fbClient = true ∧
            Validate.fracOK a'.fpServer = true ∧ Validate.fracOK a'.fbServer = true) →
          a'.continueAfterAllNormal = false →
          (a'.maxSimIterations = 0 ∨ 4 * (normalLines c.trace).length ≤ a'.maxSimIterations) →
          a'.maxTraceLength = 0 →
          (simAdvanced ρ budget [] [] (parseTraceRaw c.trace c.delay) a' orc).stop = .noNormal :=
        fun a' h1 h2 h3 h4 h5 =>
          (C14_progress_raw ρ budget c.trace c.delay a' orc hne h1 hs hr hB h2 h3 h4 (Or.inl h5) hbud).1
      have hnp : (modelOut ρ budget c r orc).stop.isPanic = false := by
        rw [hout]
        cases hst : (simAdvanced ρ budget [] [] (parseTraceRaw c.trace c.delay) a orc).stop with
        | fault f =>
          exfalso
          have h1 := simAdvanced_cap_fault ρ budget [] [] _ a orc f hst
          by_cases hit : a.maxSimIterations = 0 ∨ 4 * (normalLines c.trace).length ≤ a.maxSimIterations
          · rw [key a.uncapped hnet hfrac hcont hit rfl] at h1
            cases h1
          · have h2 := simAdvanced_iters_fault ρ budget [] [] _ a.uncapped orc (4 * (normalLines c.trace).length)
              (by show 0 < a.maxSimIterations; omega) (by show a.maxSimIterations ≤ _; omega) f h1
            rw [key (a.uncapped.withIters (4 * (normalLines c.trace).length)) hnet hfrac hcont (Or.inr (Nat.le_refl _)) rfl] at h2
            cases h2
        | loopFuel =>
          exfalso
          by_cases hm0 : a.maxSimIterations = 0
          · have h1 := simAdvanced_nonbinding ρ budget [] [] _ a orc (by rw [hst]; intro hc; cases hc)
            rw [h1, key a.uncapped hnet hfrac hcont (Or.inl hm0) rfl] at hst
            cases hst
          · exact simAdvanced_no_loopFuel ρ budget [] [] _ a orc (by omega) hst
        | queueEmpty | maxTrace | maxIter | noNormal => rfl
      rw [modelObs_res, res_ok hnp]
      simp only []
      cases hcb : capsDoNotBind a (normalLines c.trace).length
          ((modelOut ρ budget c r orc).trace.map (SimEvent.shift (obsT0 c))).length with
      | false => simp
      | true =>
        simp only [Bool.not_true, Bool.false_eq_true, if_false]
        unfold capsDoNotBind at hcb
        rw [List.length_map, hout] at hcb
        simp only [Bool.and_eq_true, Bool.or_eq_true, beq_iff_eq, decide_eq_true_eq] at hcb
        have hnmt : (simAdvanced ρ budget [] [] (parseTraceRaw c.trace c.delay) a orc).stop ≠ .maxTrace := by
          intro hmt
          have := simAdvanced_maxTrace ρ budget [] [] _ a orc hmt
          rcases hcb.1 with h | h <;> omega
        have hstop : (simAdvanced ρ budget [] [] (parseTraceRaw c.trace c.delay) a orc).stop = .noNormal := by
          rw [simAdvanced_nonbinding ρ budget [] [] _ a orc hnmt]
          exact key a.uncapped hnet hfrac hcont
            (by rcases hcb.2 with h | h; exact Or.inl h; exact Or.inr (by show _ ≤ a.maxSimIterations; omega)) rfl
        have hh := C14_identity_raw ρ budget c.trace c.delay a orc hnet hs hr
          (fun l hl => by have := hB l hl; omega) hstop
        rw [hout]
        unfold obsT0
        rw [hh]
        simp

/-- non-vacuity of `C14_monitor_accepts_model`: the four-line demo trace (one padding line)
    without machines, 10 ms delay, `sim_advanced` with an iteration cap of 40 and only client
    events kept, budget 11: every hypothesis holds, and the monitor evaluates to `none` -/
example :
    normalLines demoCase0.trace ≠ [] ∧ Asc (sTimes (normalLines demoCase0.trace)) ∧
    Asc (rTimes (normalLines demoCase0.trace)) ∧
    (∀ l ∈ normalLines demoCase0.trace, ((l.1 : Nat) : Int) + 2 * (demoCase0.delay : Int) < durMax) ∧
    ((demoRun "f10" 0 40 false true false).effArgs demoCase0.delay).continueAfterAllNormal = false ∧
    4 * (normalLines demoCase0.trace).length ≤ 11 + 1 := by
  unfold Asc
  decide +kernel

example : C14.monitor demoCase0 (modelObs zeroOracle 11 demoCase0 (demoRun "f10" 0 40 false true false) ()) = none := by
  simp only [modelObs_eq_S]
  decide +kernel

/-- not covered by the theorem (`hcont`): a run that continues after the last normal packet goes
    on to serve the queued NormalRecv events and ends with an empty queue; on the demo case the
    monitor accepts that observation as well (11 + 1 iterations) -/
example : (modelOut zeroOracle 100 demoCase0 (demoRun "u" 0 0 true false false) ()).stop = .queueEmpty ∧
    (modelOut zeroOracle 100 demoCase0 (demoRun "u" 0 0 true false false) ()).stream.length = 12 ∧
    C14.monitor demoCase0 (modelObs zeroOracle 100 demoCase0 (demoRun "u" 0 0 true false false) ()) = none := by
  simp only [modelObs_eq_S]
  decide +kernel

/-- with the padding machine on the client side the monitor does not apply -/
example : C14.monitor demoCase (modelObs zeroOracle 100 demoCase (demoRun "u" 0 40 true false false) ()) = none := by
  simp only [modelObs_eq_S]
  decide +kernel

/-- **Each hypothesis excludes an observation of the model that the monitor rejects** (all without
    machines, through `sim` or `sim_advanced` without caps):
    * a packet exactly `Duration::MAX` after the first one (`hB`, cf. `C14_strict_bound_needed`):
      it is never served, "output is not the input trace";
    * a trace without a normal line (`hne`): `sq.get_first_time().unwrap()` panics;
    * a limit fraction of 2.0 (`hfrac`): `Framework::new(..).unwrap()` panics;
    * a model budget below `4·|trace| − 1` without an iteration cap (`hbud`): the observation is
      the model's own "loopfuel" class — an artefact of the model, the driver's budget is far above;
    * a trace that is not in time order (`hs`): `parse_trace` derives a packets-per-second limit
      of 20 from a trace with 22 packets in the first second, the bottleneck delays packets, and
      the output is not the input trace. -/
theorem C14_monitor_hypotheses_needed :
    (C14.monitor farCase (modelObs zeroOracle 8 farCase (demoSim 0 false) ())).isSome = true ∧
    (C14.monitor { demoCase0 with trace := [⟨5, .sp⟩] }
      (modelObs zeroOracle 8 { demoCase0 with trace := [⟨5, .sp⟩] } (demoSim 0 false) ())).isSome = true ∧
    (C14.monitor demoCase0 (modelObs zeroOracle 100 demoCase0
      { demoRun "u" 0 40 false false false with
        args := { demoArgs 0 40 false false false with fpClient := 0x4000000000000000 } } ())).isSome = true ∧
    (C14.monitor demoCase0 (modelObs zeroOracle 5 demoCase0 (demoRun "u" 0 0 false false false) ())).isSome = true ∧
    (C14.monitor zigzagCase (modelObs zeroOracle 1000 zigzagCase (demoSim 0 false) ())).isSome = true := by
  simp only [modelObs_eq_S]
  refine ⟨?_, ?_, ?_, ?_, ?_⟩ <;> decide +kernel

end Mb.C14
