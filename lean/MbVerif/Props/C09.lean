/-
  C09 — signals reach every other machine exactly once and never the lone signaller.

  What is proved here (decision logic stated outright, on the model):
  * `C09_pending_spec`: the pending-signal slot after any sequence of signalling transitions is
    `allExcept x` exactly when all of them came from the same machine `x` (however many times),
    and `all` as soon as two distinct machines signalled (this is the logic fixed by 1b19fdc).
  * `C09_round_lone` / `C09_round_all`: the delivery round unfolds to: reset the slot; deliver
    Signal to every machine except the excluded one, in index order; if that raised a new signal,
    reset the slot again and deliver Signal to the excluded machine. So no machine is visited
    twice (`C09_targets_nodup`) and every machine other than a lone signaller is visited
    (`C09_targets_complete`).
  * `C09_at_most_one`: counted on the model's ghost copy of the hook log, no machine receives
    more than one Signal in any call, for every machine set, oracle and batch; processing the
    reported events themselves never delivers a Signal (`C09_events_deliver_none`).
  The implementation is tied to this by the correspondence of the full internal log (tag L) and by
  the monitor `C09.monitor` on the implementation's traces.
-/
import MbVerif.Proofs.SigCount

namespace Mb.C09
open Mb

variable {σ : Type} (ρ : Oracle σ)

theorem C09_pending_spec (x : Nat) (ids : List Nat) :
    ids.foldl sigStep (some (.allExcept x)) =
      if ids.all (· == x) then some (.allExcept x) else some .all := sr_pending_spec x ids

theorem C09_first (x : Nat) (ids : List Nat) :
    (x :: ids).foldl sigStep none = if ids.all (· == x) then some (.allExcept x) else some .all :=
  sr_first x ids

theorem C09_signalFrom (mi : Nat) (s : Fw σ) : (signalFrom mi s).signalPending = sigStep s.signalPending mi :=
  signalFrom_pending mi s

theorem C09_targets_nodup (n : Nat) (excluded : Option Nat) : (firstRound n excluded).Nodup :=
  sr_targets_nodup n excluded

theorem C09_targets_complete (n : Nat) (excluded : Option Nat) (mi : Nat) (h : mi < n) (hne : excluded ≠ some mi) :
    mi ∈ firstRound n excluded := sr_targets_complete n excluded mi h hne

theorem C09_excluded_not_visited (n x : Nat) : x ∉ firstRound n (some x) := sr_excluded_not_visited n x

theorem C09_round_none (s : Fw σ) (h : s.signalPending = none) : signalRound ρ s = s := sr_round_none ρ s h

theorem C09_round_all (s : Fw σ) (h : s.signalPending = some .all) :
    signalRound ρ s =
      let s2 := (firstRound s.rt.length none).foldl (fun s mi => (transition ρ FUEL mi .signal s).1)
        ({ s with signalPending := none } : Fw σ)
      match s2.signalPending with
      | none => s2
      | some _ => { s2 with signalPending := none } := sr_round_all ρ s h

theorem C09_round_lone (s : Fw σ) (x : Nat) (h : s.signalPending = some (.allExcept x)) :
    signalRound ρ s =
      let s2 := (firstRound s.rt.length (some x)).foldl (fun s mi => (transition ρ FUEL mi .signal s).1)
        ({ s with signalPending := none } : Fw σ)
      match s2.signalPending with
      | none => s2
      | some _ => (transition ρ FUEL x .signal ({ s2 with signalPending := none } : Fw σ)).1 :=
  sr_round_lone ρ s x h

/-- No machine receives more than one Signal per call (on the model's copy of the hook log). -/
theorem C09_at_most_one (mi0 : Nat) (es : List TEvent) (t : Int) (s : Fw σ) :
    sigOf mi0 (triggerEvents ρ es t s) ≤ sigOf mi0 s + 1 := sig_triggerEvents ρ mi0 es t s

/-- Processing a reported event never delivers a Signal: Signals are only delivered by the round at
    the end of the call. -/
theorem C09_events_deliver_none (mi0 : Nat) (e : TEvent) (s : Fw σ) :
    sigOf mi0 (processEvent ρ e s) ≤ sigOf mi0 s := sig_processEvent ρ mi0 e s

/-- Non-vacuity: machine 2 signalling three times keeps excluding machine 2; machines 2 and 0 give `all`. -/
example : [2, 2, 2].foldl sigStep none = some (.allExcept 2) := by decide
example : [2, 0, 2].foldl sigStep none = some .all := by decide
example : firstRound 4 (some 2) = [0, 1, 3] := by decide

end Mb.C09
