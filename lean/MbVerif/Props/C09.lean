/-
  C09 — signals reach every other machine exactly once and never the lone signaller.

  What is proved here (decision logic stated outright, on the model):
  * `C09_pending_spec`: the pending-signal slot after any sequence of signalling transitions is
    `allExcept x` exactly when all of them came from the same machine `x` (however many times),
    and `all` as soon as two distinct machines signalled (this is the logic fixed by 1b19fdc).
  * `C09_round_lone` / `C09_round_all`: the delivery round unfolds to: reset the slot; deliver
    Signal to every machine except the excluded one, in index order; if that raised a new signal,
    reset the slot again and deliver Signal to the excluded machine. So no machine is visited
    twice (`C09_targets_nodup`) and every machine other than a lone signaller is visited
    (`C09_targets_complete`).
  * `C09_at_most_one`: counted on the model's ghost copy of the hook log, no machine receives
    more than one Signal in any call, for every machine set, oracle and batch; processing the
    reported events themselves never delivers a Signal (`C09_events_deliver_none`).
  * Exactness (lower bound, `Proofs/SigDeliver.lean`): `C09_transition_logs_own_entry` (every
    invocation of `transition` for an existing machine records its own entry),
    `C09_signal_delivery_exact` (one Signal delivery adds exactly one to the count of the target and
    nothing to any other machine), `C09_round_delivers` (the delivery round: nothing pending, nobody
    receives a Signal; `all` pending, every machine exactly one; `allExcept x` pending, every
    machine but `x` exactly one, and `x` exactly one iff the first round left a signal pending,
    i.e. iff a machine answered a delivered Signal by signalling), `C09_call_delivers` (the same for
    a whole call, with the slot as left by the reported events, which themselves deliver nothing:
    `C09_events_deliver_exactly_none`), and `C09_call_delivers_reachable` for the states reached
    from `Framework::new` with validated machines by any history of calls.
  * The slot is a function of the log (`Proofs/SigSlot.lean`): `C09_slot_tracks_log` (the slot after
    the reported events is the fold of `sigStep` over `signalsIn l`, the machines of the
    `sampled _ _ STATE_SIGNAL` entries of the call's log segment `l` in chronological order),
    `C09_answered_iff_logged` (the first round leaves a signal pending iff its segment records such an
    entry), `C09_lone_or_many` (empty / `allExcept x` / `all` iff nobody / only `x` / two distinct
    machines signalled), and the property in log terms only: `C09_call_delivers_log`.
  * Machines that have not ended (`Proofs/SigLive.lean`): `liveSigOf` counts only deliveries to a
    machine not in END, which is the monitor's `C09.deliveries` (`C09_live_eq_deliveries`).
    `C09_round_delivers_live` / `C09_call_delivers_live`: a machine that has not ended when the
    delivery round starts receives its Signal while not ended, an ended machine receives none;
    `C09_live_at_end`: not ended at the end of the call implies not ended when the round started;
    `C09_call_deliveries`: exactly the numbers `C09.checkCall` demands of a machine that is live
    at the end of the call.
  * The monitor tied to the model (`Proofs/MonitorAcceptB.lean`): `C09_call_accepted` - for every
    machine set, oracle, batch and state (whatever signal the previous call left pending),
    `C09.checkCall`, given the slot at the start of the call, the call's chronological log segment and
    "not ended after the call", reports nothing. The proof reads the segment in three parts
    (reported events; first delivery round; second delivery round) and shows whose entries each part
    holds: the reported events never sample a target on the Signal event, so every transition to the
    signal pseudo-state there counts as a signaller; the first round with a lone signaller `x` holds
    entries of machines other than `x` only, the second round entries of `x` only; so "the first
    round left a signal pending" shows in the log as a signaller or responder other than `x`, which
    is exactly what the monitor's `many` / `answered` test. `C09_monitor_accepts_model`: hence
    `C09.monitor` returns `none` on the trace the model itself produces (`LL.modelTrace`) for EVERY
    machine set, configuration, oracle and history, the pending signal handed from call to call being
    the snapshot's (including the deferred second-round signal of a lone signaller). No hypothesis
    is needed (no validity or no-fault assumption; a faulting call ends the monitor's walk).
  The implementation is tied to this by the correspondence of the full internal log (tag L) and by
  the monitor `C09.monitor` on the implementation's traces.
-/
import MbVerif.Proofs.SigCount
import MbVerif.Proofs.MonitorAcceptB
import MbVerif.Proofs.SigDeliver
import MbVerif.Proofs.SigSlot
import MbVerif.Proofs.SigLive
import MbVerif.Props.C01
import MbVerif.Proofs.C04

namespace Mb.C09
open Mb

variable {σ : Type} (ρ : Oracle σ)

theorem C09_pending_spec (x : Nat) (ids : List Nat) :
    ids.foldl sigStep (some (.allExcept x)) =
      if ids.all (· == x) then some (.allExcept x) else some .all := sr_pending_spec x ids

theorem C09_first (x : Nat) (ids : List Nat) :
    (x :: ids).foldl sigStep none = if ids.all (· == x) then some (.allExcept x) else some .all :=
  sr_first x ids

theorem C09_signalFrom (mi : Nat) (s : Fw σ) : (signalFrom mi s).signalPending = sigStep s.signalPending mi :=
  signalFrom_pending mi s

theorem C09_targets_nodup (n : Nat) (excluded : Option Nat) : (firstRound n excluded).Nodup :=
  sr_targets_nodup n excluded

theorem C09_targets_complete (n : Nat) (excluded : Option Nat) (mi : Nat) (h : mi < n) (hne : excluded ≠ some mi) :
    mi ∈ firstRound n excluded := sr_targets_complete n excluded mi h hne

theorem C09_excluded_not_visited (n x : Nat) : x ∉ firstRound n (some x) := sr_excluded_not_visited n x

theorem C09_round_none (s : Fw σ) (h : s.signalPending = none) : signalRound ρ s = s := sr_round_none ρ s h

theorem C09_round_all (s : Fw σ) (h : s.signalPending = some .all) :
    signalRound ρ s =
      let s2 := (firstRound s.rt.length none).foldl (fun s mi => (transition ρ FUEL mi .signal s).1)
        ({ s with signalPending := none } : Fw σ)
      match s2.signalPending with
      | none => s2
      | some _ => { s2 with signalPending := none } := sr_round_all ρ s h

theorem C09_round_lone (s : Fw σ) (x : Nat) (h : s.signalPending = some (.allExcept x)) :
    signalRound ρ s =
      let s2 := (firstRound s.rt.length (some x)).foldl (fun s mi => (transition ρ FUEL mi .signal s).1)
        ({ s with signalPending := none } : Fw σ)
      match s2.signalPending with
      | none => s2
      | some _ => (transition ρ FUEL x .signal ({ s2 with signalPending := none } : Fw σ)).1 :=
  sr_round_lone ρ s x h

/-- No machine receives more than one Signal per call (on the model's copy of the hook log). -/
theorem C09_at_most_one (mi0 : Nat) (es : List TEvent) (t : Int) (s : Fw σ) :
    sigOf mi0 (triggerEvents ρ es t s) ≤ sigOf mi0 s + 1 := sig_triggerEvents ρ mi0 es t s

/-- Processing a reported event never delivers a Signal: Signals are only delivered by the round at
    the end of the call. -/
theorem C09_events_deliver_none (mi0 : Nat) (e : TEvent) (s : Fw σ) :
    sigOf mi0 (processEvent ρ e s) ≤ sigOf mi0 s := sig_processEvent ρ mi0 e s

/-! ### exactness: who receives a Signal -/

/-- Every invocation of `transition` (with fuel left) for a machine that exists extends the log by a
    segment containing the invocation's own entry. -/
theorem C09_transition_logs_own_entry (n j : Nat) (ev : Event) (s : Fw σ) (r : Runtime) (m : Machine)
    (hr : s.rt[j]? = some r) (hm : s.machines[j]? = some m) :
    ∃ l, (transition ρ (n + 1) j ev s).1.log = l ++ s.log ∧ LogEntry.trans j ev.toNat r.currentState ∈ l :=
  transition_logs_own_entry ρ n j ev s r m hr hm

/-- Delivering Signal to machine `i` adds exactly one Signal delivery to the count of `i` and none
    to the count of any other (existing) machine `j`, whatever `i` does in response. -/
theorem C09_signal_delivery_exact (i j : Nat) (s : Fw σ) (hlen : s.rt.length = s.machines.length)
    (hj : j < s.rt.length) :
    sigOf j (transition ρ FUEL i .signal s).1 = sigOf j s + (if i = j then 1 else 0) :=
  sig_transition_signal_eq ρ j i s ⟨hj, hlen ▸ hj⟩

/-- The delivery round, for an existing machine `j`: nothing pending, no Signal; `all` pending (two or
    more distinct signallers), exactly one Signal; `allExcept x` pending (lone signaller `x`), exactly
    one Signal for `j ≠ x`, and for `x` itself exactly one if the first round left a signal pending
    (a machine answered a delivered Signal by signalling) and none otherwise. -/
theorem C09_round_delivers (s : Fw σ) (j : Nat) (hlen : s.rt.length = s.machines.length) (hj : j < s.rt.length) :
    (s.signalPending = none → sigOf j (signalRound ρ s) = sigOf j s) ∧
    (s.signalPending = some .all → sigOf j (signalRound ρ s) = sigOf j s + 1) ∧
    (∀ x, s.signalPending = some (.allExcept x) →
      (j ≠ x → sigOf j (signalRound ρ s) = sigOf j s + 1) ∧
      (j = x → sigOf j (signalRound ρ s) =
        sigOf j s + (if (afterFirst ρ s (some x)).signalPending.isSome then 1 else 0))) :=
  round_delivers ρ s j ⟨hj, hlen ▸ hj⟩

/-- The reported events of a call deliver exactly no Signal. -/
theorem C09_events_deliver_exactly_none (es : List TEvent) (t : Int) (s : Fw σ) (j : Nat) :
    sigOf j (eventsDone ρ es t s) = sigOf j s := sig_eventsDone ρ es t s j

/-- A whole call, for an existing machine `j`, with the pending slot as the reported events of the
    call leave it (`eventsDone ρ es t s` is the state after the events, before the delivery round). -/
theorem C09_call_delivers (es : List TEvent) (t : Int) (s : Fw σ) (j : Nat)
    (hlen : s.rt.length = s.machines.length) (hj : j < s.rt.length) :
    ((eventsDone ρ es t s).signalPending = none → sigOf j (triggerEvents ρ es t s) = sigOf j s) ∧
    ((eventsDone ρ es t s).signalPending = some .all → sigOf j (triggerEvents ρ es t s) = sigOf j s + 1) ∧
    (∀ x, (eventsDone ρ es t s).signalPending = some (.allExcept x) →
      (j ≠ x → sigOf j (triggerEvents ρ es t s) = sigOf j s + 1) ∧
      (j = x → sigOf j (triggerEvents ρ es t s) =
        sigOf j s + (if (afterFirst ρ (eventsDone ρ es t s) (some x)).signalPending.isSome then 1 else 0))) :=
  call_delivers ρ es t s j ⟨hj, hlen ▸ hj⟩

/-- The same for every call of every history of an instance created from validated machines. -/
theorem C09_call_delivers_reachable (ms : List Machine) (hms : C01.MachinesValid ms) (fp fb : F64) (t0 : Int) (rng : σ)
    (h : List Call) (es : List TEvent) (t : Int) (j : Nat) (hj : j < ms.length) :
    let s := runCalls ρ (Fw.init ρ ms fp fb t0 rng) h
    ((eventsDone ρ es t s).signalPending = none → sigOf j (triggerEvents ρ es t s) = sigOf j s) ∧
    ((eventsDone ρ es t s).signalPending = some .all → sigOf j (triggerEvents ρ es t s) = sigOf j s + 1) ∧
    (∀ x, (eventsDone ρ es t s).signalPending = some (.allExcept x) →
      (j ≠ x → sigOf j (triggerEvents ρ es t s) = sigOf j s + 1) ∧
      (j = x → sigOf j (triggerEvents ρ es t s) =
        sigOf j s + (if (afterFirst ρ (eventsDone ρ es t s) (some x)).signalPending.isSome then 1 else 0))) := by
  intro s
  have hV : Valid s := C01.C01_state_valid ρ ms hms fp fb t0 rng h
  have hm : s.machines = ms := by
    have h1 := run_machines (runCalls_run ρ (Fw.init ρ ms fp fb t0 rng) h)
    have h2 := run_machines (init_run ρ ms fp fb t0 rng)
    exact h1.trans h2
  exact C09_call_delivers ρ es t s j hV.lenRt (by rw [hV.lenRt, hm]; exact hj)

/-! ### the property in terms of the log only -/

/-- The pending slot after the reported events of a call is the slot at the start of the call stepped
    by the machines that transitioned to the signal pseudo-state, as recorded in the call's log. -/
theorem C09_slot_tracks_log (es : List TEvent) (t : Int) (s : Fw σ) :
    ∃ l, (eventsDone ρ es t s).log = l ++ s.log ∧
      (eventsDone ρ es t s).signalPending = (signalsIn l).foldl sigStep s.signalPending :=
  slot_tracks_log ρ es t s

/-- The first delivery round leaves a signal pending iff its log segment records a transition to the
    signal pseudo-state, i.e. iff some machine answered a delivered Signal by signalling. -/
theorem C09_answered_iff_logged (s : Fw σ) (excluded : Option Nat) :
    ∃ l, (afterFirst ρ s excluded).log = l ++ s.log ∧
      ((afterFirst ρ s excluded).signalPending.isSome = true ↔ signalsIn l ≠ []) :=
  afterFirst_answered ρ s excluded

theorem C09_lone_or_many (ids : List Nat) :
    (ids.foldl sigStep none = none ↔ ids = []) ∧
    (∀ x, ids.foldl sigStep none = some (.allExcept x) ↔ ids ≠ [] ∧ ∀ i ∈ ids, i = x) ∧
    (ids.foldl sigStep none = some .all ↔ ∃ a ∈ ids, ∃ b ∈ ids, a ≠ b) := lone_or_many ids

/-- **C09 on the log.** Let `ids0` be the signallers carried over from the previous call (the slot at
    the start is `ids0.foldl sigStep none`: `[]` for an empty slot, `[x]` for `allExcept x`), `l1` the
    log segment of the reported events, and `ids := ids0 ++ signalsIn l1` all machines that
    transitioned to the signal pseudo-state, with repetitions. For every existing machine `j`:
    nobody signalled: `j` receives no Signal; two distinct machines signalled: exactly one;
    only `x` signalled (however often): every `j ≠ x` exactly one, and `x` exactly one if the log
    segment `l2` of the first delivery round records a signalling transition, none otherwise. -/
theorem C09_call_delivers_log (es : List TEvent) (t : Int) (s : Fw σ) (j : Nat)
    (hlen : s.rt.length = s.machines.length) (hj : j < s.rt.length)
    (ids0 : List Nat) (h0 : s.signalPending = ids0.foldl sigStep none) :
    ∃ l1, (eventsDone ρ es t s).log = l1 ++ s.log ∧
      (ids0 ++ signalsIn l1 = [] → sigOf j (triggerEvents ρ es t s) = sigOf j s) ∧
      ((∃ a ∈ ids0 ++ signalsIn l1, ∃ b ∈ ids0 ++ signalsIn l1, a ≠ b) →
        sigOf j (triggerEvents ρ es t s) = sigOf j s + 1) ∧
      (∀ x, ids0 ++ signalsIn l1 ≠ [] → (∀ i ∈ ids0 ++ signalsIn l1, i = x) →
        (j ≠ x → sigOf j (triggerEvents ρ es t s) = sigOf j s + 1) ∧
        (j = x → ∃ l2, (afterFirst ρ (eventsDone ρ es t s) (some x)).log = l2 ++ (eventsDone ρ es t s).log ∧
          sigOf j (triggerEvents ρ es t s) = sigOf j s + (if signalsIn l2 = [] then 0 else 1))) := by
  obtain ⟨l1, e1, p1⟩ := slot_tracks_log ρ es t s
  rw [h0, sigStep_fold_from] at p1
  obtain ⟨c1, c2, c3⟩ := lone_or_many (ids0 ++ signalsIn l1)
  obtain ⟨d1, d2, d3⟩ := C09_call_delivers ρ es t s j hlen hj
  refine ⟨l1, e1, fun h => d1 (p1.trans (c1.mpr h)), fun h => d2 (p1.trans (c3.mpr h)), fun x hne hall => ?_⟩
  obtain ⟨f1, f2⟩ := d3 x (p1.trans ((c2 x).mpr ⟨hne, hall⟩))
  refine ⟨f1, fun hjx => ?_⟩
  obtain ⟨l2, e2, a2⟩ := afterFirst_answered ρ (eventsDone ρ es t s) (some x)
  refine ⟨l2, e2, ?_⟩
  rw [f2 hjx]
  by_cases hl : signalsIn l2 = []
  · have : ¬ (afterFirst ρ (eventsDone ρ es t s) (some x)).signalPending.isSome = true := fun h => (a2.mp h) hl
    simp [hl, this]
  · have : (afterFirst ρ (eventsDone ρ es t s) (some x)).signalPending.isSome = true := a2.mpr hl
    simp [hl, this]

/-! ### machines that have not ended -/

/-- the live count of a log segment is the monitor's count of deliveries -/
theorem C09_live_eq_deliveries (j : Nat) (l : List LogEntry) : wsum (μLive j) l = deliveries l j :=
  wsum_live_eq_deliveries j l

/-- The delivery round, counting only Signals delivered to a machine that has not ended: a machine
    that has not ended when the round starts receives its Signal while not ended. -/
theorem C09_round_delivers_live (s : Fw σ) (j : Nat) (hlen : s.rt.length = s.machines.length) (hj : j < s.rt.length) :
    (s.signalPending = none → liveSigOf j (signalRound ρ s) = liveSigOf j s) ∧
    (s.signalPending = some .all →
      liveSigOf j (signalRound ρ s) = liveSigOf j s + (if notEnded s j = true then 1 else 0)) ∧
    (∀ x, s.signalPending = some (.allExcept x) →
      (j ≠ x → liveSigOf j (signalRound ρ s) = liveSigOf j s + (if notEnded s j = true then 1 else 0)) ∧
      (j = x → liveSigOf j (signalRound ρ s) =
        liveSigOf j s +
          (if (afterFirst ρ s (some x)).signalPending.isSome = true ∧ notEnded s j = true then 1 else 0))) :=
  round_delivers_live ρ s j ⟨hj, hlen ▸ hj⟩

theorem C09_call_delivers_live (es : List TEvent) (t : Int) (s : Fw σ) (j : Nat)
    (hlen : s.rt.length = s.machines.length) (hj : j < s.rt.length) :
    ((eventsDone ρ es t s).signalPending = none → liveSigOf j (triggerEvents ρ es t s) = liveSigOf j s) ∧
    ((eventsDone ρ es t s).signalPending = some .all →
      liveSigOf j (triggerEvents ρ es t s) =
        liveSigOf j s + (if notEnded (eventsDone ρ es t s) j = true then 1 else 0)) ∧
    (∀ x, (eventsDone ρ es t s).signalPending = some (.allExcept x) →
      (j ≠ x → liveSigOf j (triggerEvents ρ es t s) =
        liveSigOf j s + (if notEnded (eventsDone ρ es t s) j = true then 1 else 0)) ∧
      (j = x → liveSigOf j (triggerEvents ρ es t s) =
        liveSigOf j s +
          (if (afterFirst ρ (eventsDone ρ es t s) (some x)).signalPending.isSome = true ∧
              notEnded (eventsDone ρ es t s) j = true then 1 else 0))) :=
  call_delivers_live ρ es t s j ⟨hj, hlen ▸ hj⟩

/-- a machine that has not ended when the call returns had not ended when the delivery round began -/
theorem C09_live_at_end (es : List TEvent) (t : Int) (s : Fw σ) (j : Nat) (hj : j < s.rt.length)
    (h : notEnded (triggerEvents ρ es t s) j = true) : notEnded (eventsDone ρ es t s) j = true :=
  live_at_end ρ es t s j hj h

/-- What the monitor `C09.checkCall` demands of a machine `j` that is live at the end of the call, on
    the call's log segment `l` (with the monitor's own `deliveries`). -/
theorem C09_call_deliveries (es : List TEvent) (t : Int) (s : Fw σ) (j : Nat)
    (hlen : s.rt.length = s.machines.length) (hj : j < s.rt.length)
    (hlive : notEnded (triggerEvents ρ es t s) j = true) :
    ∃ l, (triggerEvents ρ es t s).log = l ++ s.log ∧
      ((eventsDone ρ es t s).signalPending = none → deliveries l j = 0) ∧
      ((eventsDone ρ es t s).signalPending = some .all → deliveries l j = 1) ∧
      (∀ x, (eventsDone ρ es t s).signalPending = some (.allExcept x) →
        (j ≠ x → deliveries l j = 1) ∧
        (j = x → deliveries l j =
          if (afterFirst ρ (eventsDone ρ es t s) (some x)).signalPending.isSome = true then 1 else 0)) :=
  call_deliveries ρ es t s j ⟨hj, hlen ▸ hj⟩ hlive

/-- Non-vacuity: machine 2 signalling three times keeps excluding machine 2; machines 2 and 0 give `all`. -/
example : [2, 2, 2].foldl sigStep none = some (.allExcept 2) := by decide
example : [2, 0, 2].foldl sigStep none = some .all := by decide
example : firstRound 4 (some 2) = [0, 1, 3] := by decide

/-- Non-vacuity: the signalling machines of a log segment (newest first) in chronological order; a
    transition to another state is not a signal. -/
example : signalsIn [.sampled 2 0 STATE_SIGNAL, .trans 2 0 1, .sampled 1 3 0, .sampled 0 1 STATE_SIGNAL] = [0, 2] := by
  decide
example : deliveries [.trans 1 Gen.EV_Signal 0, .trans 2 Gen.EV_Signal STATE_END, .trans 1 0 0] 1 = 1 := by decide
example : deliveries [.trans 1 Gen.EV_Signal 0, .trans 2 Gen.EV_Signal STATE_END, .trans 1 0 0] 2 = 0 := by decide

/-! ### the monitor tied to the model -/

/-- **`C09.checkCall` accepts every call of the model.** For every machine set, oracle, batch, time
    and state with one runtime per machine - whatever signal the previous call left pending in
    `s.signalPending` -: the monitor's per-call check, given the number of machines, the slot at the
    start of the call, the chronological log segment of the call and "not ended after the call",
    reports nothing. That is, on the log: no machine receives two Signals; if two distinct machines
    count as signallers (signalled on an event other than Signal in this call, or carried over),
    every live machine receives exactly one; if nobody does, nobody receives one; if only `x` does,
    every other live machine receives exactly one and `x` receives one iff a machine other than `x`
    answered a delivered Signal by signalling, none otherwise. -/
theorem C09_call_accepted (es : List TEvent) (t : Int) (s : Fw σ) (hlen : s.rt.length = s.machines.length)
    (l : List LogEntry) (hl : (triggerEvents ρ es t s).log = l ++ s.log) :
    checkCall s.rt.length s.signalPending l.reverse (fun j => notEnded (triggerEvents ρ es t s) j) = none :=
  MB.checkCall_of_facts _ _ _ _ (MB.call_facts ρ es t s hlen l hl)

/-- the three parts of a call's log, for the record: the reported events sample no target on the
    Signal event (so the monitor counts every signalling transition there as a signaller, never as
    a responder) -/
theorem C09_events_sample_no_signal_event (es : List TEvent) (t : Int) (s : Fw σ) (l1 : List LogEntry)
    (hl : (eventsDone ρ es t s).log = l1 ++ s.log) (m nx : Nat) : LogEntry.sampled m Gen.EV_Signal nx ∉ l1 :=
  MB.events_noSignalEv ρ es t s l1 hl m nx

/-- with a lone signaller `x`, the first delivery round logs deliveries and sampled targets of
    machines other than `x` only (`l2`), the second round of `x` only (`l3`), each on the Signal
    event or on a CounterZero raised by it -/
theorem C09_round_parts (s : Fw σ) (x : Nat) (h : s.signalPending = some (.allExcept x)) :
    ∃ l2 l3, (afterFirst ρ s (some x)).log = l2 ++ s.log ∧ (signalRound ρ s).log = l3 ++ (l2 ++ s.log) ∧
      (∀ e ∈ l2, ∃ j, j ≠ x ∧ MB.Own j Gen.EV_Signal e) ∧ (∀ e ∈ l3, MB.Own x Gen.EV_Signal e) :=
  MB.round_lone_log ρ s x h

/-- **`C09.monitor` accepts the model's own trace of every history**: for every machine set,
    configuration, oracle and history of calls, the monitor applied to the trace of the model
    (`LL.modelTrace`: the records the driver builds - events, outcome, returned actions, snapshot and
    the call's log) reports no violation; the pending signal handed from one call to the next is the
    one in the model's snapshot. No hypothesis; the monitor stops at a call that faults. -/
theorem C09_monitor_accepts_model (ms : List Machine) (fp fb : F64) (t0 : Int) (rng : σ) (h : List Call) :
    monitor (LL.modelTrace ρ ms fp fb t0 rng h) = none :=
  MB.monitor09_model ρ ms fp fb t0 rng h

section MonitorDemo

/-- signals on NormalSent (event 3) and answers a Signal (event 12) by signalling -/
private def sSt0 : State :=
  { action := none, counterA := none, counterB := none,
    transitions := ((List.replicate 13 none).set 3 (some [{ target := STATE_SIGNAL, prob := 1065353216 }])).set 12
      (some [{ target := STATE_SIGNAL, prob := 1065353216 }]) }
/-- answers a Signal by signalling -/
private def sSt1 : State :=
  { action := none, counterA := none, counterB := none,
    transitions := (List.replicate 13 none).set 12 (some [{ target := STATE_SIGNAL, prob := 1065353216 }]) }
/-- signals on its own PaddingSent (event 4) -/
private def sSt2 : State :=
  { action := none, counterA := none, counterB := none,
    transitions := (List.replicate 13 none).set 4 (some [{ target := STATE_SIGNAL, prob := 1065353216 }]) }
private def sM0 : Machine :=
  { allowedPaddingPackets := 0, maxPaddingFrac := 0, allowedBlockedMicrosec := 0, maxBlockingFrac := 0, states := [sSt0] }
private def sM1 : Machine :=
  { allowedPaddingPackets := 0, maxPaddingFrac := 0, allowedBlockedMicrosec := 0, maxBlockingFrac := 0, states := [sSt1] }
private def sM2 : Machine :=
  { allowedPaddingPackets := 0, maxPaddingFrac := 0, allowedBlockedMicrosec := 0, maxBlockingFrac := 0, states := [sSt2] }
private def sρ : Oracle Unit := { u := fun _ => (0, ()), d := fun _ _ => (0, ()) }
private def sTrace : FwTrace :=
  LL.modelTrace sρ [sM0, sM1, sM2] 0 0 0 ()
    [([.normalSent], 10), ([], 20), ([.normalSent, .paddingSent 2], 30), ([.tunnelSent], 40)]

/-- Non-vacuity of `C09_monitor_accepts_model`: no call faults (the monitor walks all four). Call 1:
    machine 0 is the lone signaller, machines 1 and 2 receive Signal (event 12), machine 1 answers,
    so machine 0 receives its Signal in the second round - and answers too, which leaves
    `allExcept 0` pending for the next call. Call 2 reports no event at all: the carried-over signal
    alone causes the same round. Call 3: machines 0 and 2 both signal, everybody receives exactly one
    Signal and nothing stays pending. Call 4: no signal, no delivery. -/
example : sTrace.calls.map (·.res) = [.ok, .ok, .ok, .ok] ∧
    sTrace.calls.map (·.log) =
      [[.trans 0 3 0, .draw 0, .sampled 0 3 STATE_SIGNAL, .trans 1 3 0, .trans 2 3 0,
        .trans 1 12 0, .draw 0, .sampled 1 12 STATE_SIGNAL, .trans 2 12 0,
        .trans 0 12 0, .draw 0, .sampled 0 12 STATE_SIGNAL],
       [.trans 1 12 0, .draw 0, .sampled 1 12 STATE_SIGNAL, .trans 2 12 0,
        .trans 0 12 0, .draw 0, .sampled 0 12 STATE_SIGNAL],
       [.trans 0 3 0, .draw 0, .sampled 0 3 STATE_SIGNAL, .trans 1 3 0, .trans 2 3 0,
        .trans 2 4 0, .draw 0, .sampled 2 4 STATE_SIGNAL, .limit 2 0 true,
        .trans 0 12 0, .draw 0, .sampled 0 12 STATE_SIGNAL, .trans 1 12 0, .draw 0, .sampled 1 12 STATE_SIGNAL,
        .trans 2 12 0],
       [.trans 0 5 0, .trans 1 5 0, .trans 2 5 0]] ∧
    sTrace.calls.map (·.snap.signalPending) = [some (.allExcept 0), some (.allExcept 0), none, none] ∧
    monitor sTrace = none := by decide +kernel

/-- Non-vacuity of `checkCall` (three live machines): call 1 without the second-round delivery to
    the answered lone signaller is rejected; the log of call 2 is rejected when the carried-over
    signal is forgotten and accepted with it; a second Signal to the same machine is rejected. -/
example :
    (checkCall 3 none
      [.trans 0 3 0, .draw 0, .sampled 0 3 STATE_SIGNAL, .trans 1 3 0, .trans 2 3 0,
       .trans 1 12 0, .draw 0, .sampled 1 12 STATE_SIGNAL, .trans 2 12 0] (fun _ => true)).isSome = true ∧
    (checkCall 3 none
      [.trans 1 12 0, .draw 0, .sampled 1 12 STATE_SIGNAL, .trans 2 12 0,
       .trans 0 12 0, .draw 0, .sampled 0 12 STATE_SIGNAL] (fun _ => true)).isSome = true ∧
    checkCall 3 (some (.allExcept 0))
      [.trans 1 12 0, .draw 0, .sampled 1 12 STATE_SIGNAL, .trans 2 12 0,
       .trans 0 12 0, .draw 0, .sampled 0 12 STATE_SIGNAL] (fun _ => true) = none ∧
    (checkCall 3 (some .all) [.trans 0 12 0, .trans 1 12 0, .trans 1 12 0, .trans 2 12 0] (fun _ => true)).isSome = true := by
  decide +kernel

end MonitorDemo

end Mb.C09
