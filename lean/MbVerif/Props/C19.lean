/-
  C19 — seeded simulations are reproducible, total, and filters are pure projections.

  Theorems about the simulator model `Mb.Sim.simAdvanced` (hand-written from lib.rs / network.rs
  / queue*.rs / delay.rs, tied to the code by the exact-trace correspondence of every run):

  * `C19_filters_are_projections`: with the length cap not binding (`max_trace_length = 0`) the
    trace returned with any filter setting is exactly the unfiltered trace filtered with the
    observation-level predicate `keepObs` — for every machine set, trace, network, fraction,
    stop setting and random oracle.
  * `C19_cap_is_prefix`: with a binding cap the result is the prefix of the uncapped result.
  * `C19_time_never_backwards`: the event `pick_next` returns is never before the clock.
  * `C19_faults_classified`, `C19_no_assertion_fires`: whatever the inputs, a run never ends in
    one of the five `BUG:` assertions, in "time moves backwards", in exhausted `pick_next` fuel
    or in divergence, and for packets-per-second limits >= 1 not in a division by zero either;
    the only possible faults are environmental (checked duration arithmetic, unwraps, a framework
    panic, an out-of-range machine id, an empty queue, invalid machines).
  * `C19_divzero_only_for_zero`: regression of F5 — the bottleneck constructor fails exactly for
    the limit 0.
  * `C19_no_bug_no_internal`, `C19_no_bug_no_action`, `C19_no_divergence`: the per-branch facts
    behind it.
  * `C19_function_of_inputs`: the run is a function of (machines, queue, args, oracle) and, when
    an iteration cap is set, does not depend on the model's own iteration budget.
  * `C19_pickNext_fuel`: `pick_next`'s recursion always terminates within `pickMeasure + 1` calls.
  * `C19_iterations_bounded`, `C19_length_bounded`: the configured bounds are respected.
  * `C19_trace_sorted`: recorded times never go back (the clock is monotone).
  * `C19_total` (+ `_queue`, `_raw`, `_returns`): **totality with machines**.  For machine lists
    accepted by validation, fractions in [0,1], a non-empty trace with times up to `T`, network
    delay `d`, a packets-per-second limit that is absent or at least 1, a cap of `N >= 1`
    iterations (`max_sim_iterations = N`, or `max_trace_length = N` with both output filters
    off) and the arithmetic guard `(N + 2) * span N T d <= Duration::MAX`
    (`span` = an explicit bound on the width of simulated time: `T + d + 4 d + 2 N aggD + N stepZ`,
    quadratic in `N` with the 24 h caps on sampled timeouts and durations as coefficients), the
    run ends in none of the model's fault classes — for EVERY oracle.  Behind it
    (`Proofs/SimNoFault*.lean`): a queued TunnelSent is at most `k * 48 h` old after `k`
    iterations, hence every aggregate delay and the clock stay within `span`; the clock values
    handed to the two frameworks lie in a window of that width, so the potential argument of
    C01 excludes their only fault; C04 keeps every returned machine id inside the slot vectors.
  * `C19_monitor_accepts_model` (+ `C19_bounds_model`, `C19_det_model`, `C19_proj_model`,
    `C19_monitor_panics_exact`, `C19_monitor_silent`, `C19_monitor_accepts_model_total`): **the
    monitor accepts the model's own observations** — on every list of runs whose observations are
    the model's, where runs with the same base (seed included) share the oracle, `C19.monitor`
    reports exactly its "panic" entries (no "bounds", "det" or "proj" failure); an observation
    is a panic exactly when the model run ends in a fault (or, without an iteration cap, in the
    model's own loop budget); under the guard of `C19_total` the monitor returns the empty list.
    `C19_monitor_det_needs_shared_oracle` and `C19_monitor_sim_flag_needed` show the two
    hypotheses on the run list are needed.
-/
import MbVerif.Proofs.SimRecord
import MbVerif.Proofs.SimCap
import MbVerif.Proofs.SimFuel
import MbVerif.Proofs.SimBugFree
import MbVerif.Proofs.SimTotal
import MbVerif.Proofs.SimNoFault
import MbVerif.Proofs.SimRaw
import MbVerif.Proofs.SimMonitorAccept
import MbVerif.Spec.C19

namespace Mb.C19
open Mb Mb.Sim Mb.SimSpec

variable {σ : Type} (ρ : Oracle σ)

/-- **Filters are projections.**  Without a length cap, for all inputs the filtered run returns
    exactly the sub-sequence of the unfiltered run selected by the filter predicate on events. -/
theorem C19_filters_are_projections (budget : Nat) (mc ms : List Machine) (sq : SimQueue) (a : Args) (orc : σ)
    (hcap : a.maxTraceLength = 0) :
    (simAdvanced ρ budget mc ms sq a orc).trace =
      (simAdvanced ρ budget mc ms sq a.unfiltered orc).trace.filter
        (keepObs a.onlyNetworkActivity a.onlyClientEvents) := by
  unfold simAdvanced
  rw [initState_unfiltered]
  cases hi : initState ρ mc ms sq a orc with
  | error f => simp
  | ok st =>
    simp only []
    have hfu : loopFuel a.unfiltered budget = loopFuel a budget := rfl
    rw [hfu]
    have hl := loop_filter_indep ρ a a.unfiltered (sameButFilters_unfiltered a) hcap (loopFuel a budget) st 0 0 0
    rw [← hl]
    have hgood := loop_stream_sorted ρ a (loopFuel a budget) st 0 0
    rw [finish_trace a _ hgood.2, finish_trace a.unfiltered _ hgood.2]
    cases (loop ρ a (loopFuel a budget) st 0 0).stop.isFault with
    | true => simp
    | false =>
      simp only [Bool.false_eq_true, if_false]
      have h1 : a.unfiltered.keep = keep false false := rfl
      rw [h1, filter_keep_none]
      exact filter_stream_eq a.onlyNetworkActivity a.onlyClientEvents _ (fun r hr => (hgood.1 r hr).2)

/-- The monitor's projection function (Spec/C19) applied to the model's unfiltered run is the
    model's filtered run: the statement the C19 monitor checks on the implementation's traces. -/
theorem C19_project_model (budget : Nat) (mc ms : List Machine) (sq : SimQueue) (a : Args) (orc : σ)
    (hcap : a.maxTraceLength = 0) :
    (simAdvanced ρ budget mc ms sq a orc).trace =
      project a.onlyNetworkActivity a.onlyClientEvents 0 (simAdvanced ρ budget mc ms sq a.unfiltered orc).trace := by
  rw [C19_filters_are_projections ρ budget mc ms sq a orc hcap]
  simp [project, takeCap]

/-- **A binding length cap yields a prefix.**  With `max_trace_length = c > 0`, if the uncapped
    run with the same inputs does not fault, the capped run returns exactly the first `c` events
    of the uncapped run's trace (same filter settings). -/
theorem C19_cap_is_prefix (budget : Nat) (mc ms : List Machine) (sq : SimQueue) (a : Args) (orc : σ)
    (hc : a.maxTraceLength > 0) (hok : ∀ f, (simAdvanced ρ budget mc ms sq a.uncapped orc).stop ≠ .fault f) :
    (simAdvanced ρ budget mc ms sq a orc).trace =
      (simAdvanced ρ budget mc ms sq a.uncapped orc).trace.take a.maxTraceLength := by
  unfold simAdvanced at hok ⊢
  have hinit : initState ρ mc ms sq a.uncapped orc = initState ρ mc ms sq a orc := rfl
  rw [hinit] at hok ⊢
  cases hi : initState ρ mc ms sq a orc with
  | error f => simp [hi] at hok
  | ok st =>
    simp only [hi] at hok
    simp only []
    have hfu : loopFuel a.uncapped budget = loopFuel a budget := rfl
    rw [hfu] at hok ⊢
    have hrel := loop_cap_prefix ρ a hc (loopFuel a budget) st 0 0 0 hc
    have hg := loop_stream_sorted ρ a (loopFuel a budget) st 0 0
    have hg0 := loop_stream_sorted ρ a.uncapped (loopFuel a budget) st 0 0
    have hnf0 : (loop ρ a.uncapped (loopFuel a budget) st 0 0).stop.isFault = false := by
      cases hs : (loop ρ a.uncapped (loopFuel a budget) st 0 0).stop with
      | fault f => exact absurd (by rw [finish_stop, hs]) (hok f)
      | queueEmpty | maxTrace | maxIter | noNormal | loopFuel => rfl
    have hnf : (loop ρ a (loopFuel a budget) st 0 0).stop.isFault = false := by
      cases hs : (loop ρ a (loopFuel a budget) st 0 0).stop with
      | fault f => rw [hrel.2 f hs] at hnf0; simp [Stop.isFault] at hnf0
      | queueEmpty | maxTrace | maxIter | noNormal | loopFuel => rfl
    rw [finish_trace a _ hg.2, finish_trace a.uncapped _ hg0.2, hnf, hnf0]
    simp only [Bool.false_eq_true, if_false]
    have hk : a.uncapped.keep = a.keep := rfl
    rw [hk, hrel.1, Nat.sub_zero, List.map_take]

/-- **Simulated time never moves backwards**: whatever `pick_next` returns is at or after the
    clock, so the "BUG: next event moves time backwards" test of the main loop cannot fire. -/
theorem C19_time_never_backwards (fuel : Nat) (st st' : St σ) (e : SimEvent)
    (h : pickNext fuel st = some (.ok (some e, st'))) : st.now ≤ e.time :=
  pickNext_time_ge fuel st st' e h

/-- **"BUG: no internal action found" cannot fire.** -/
theorem C19_no_bug_no_internal (st : St σ) (i : Nat) (h : pickDecide st = .ok (.timer i)) :
    doInternalTimer st (st.now + i) ≠ .error .noInternal :=
  doInternalTimer_found h

/-- **"BUG: no action found" cannot fire.** -/
theorem C19_no_bug_no_action (st : St σ) (s : Nat) (h : pickDecide st = .ok (.action s)) :
    doScheduledAction st (st.now + s) ≠ .error .noAction :=
  doScheduledAction_found h

/-- **`pick_next` cannot recurse forever on the aggregate-delay branch**: that branch is only
    chosen when a delay is pending, and popping it shrinks the termination measure. -/
theorem C19_no_divergence (st : St σ) (h : pickDecide st = .ok .agg) : pickAgg st ≠ .error .diverge :=
  pickAgg_no_diverge h

/-- **Every fault is environmental, or the excluded limit 0.**  For every machine set, queue,
    argument record and oracle: if the run ends in a fault at all, the fault is an environmental
    one (checked `Duration` arithmetic, an `unwrap`, a panic inside the framework, a machine id
    out of range, an empty queue, invalid machines / fractions) — never one of the five `BUG:`
    assertions, never "next event moves time backwards", never exhausted `pick_next` fuel, never
    divergence — or it is the division by zero of `NetworkBottleneck::new`, and then the
    packets-per-second limit is 0. -/
theorem C19_faults_classified (budget : Nat) (mc ms : List Machine) (sq : SimQueue) (a : Args) (orc : σ)
    (f : SimFault) (h : (simAdvanced ρ budget mc ms sq a orc).stop = .fault f) :
    f.isBug = false ∨ (f = .divZero ∧ effPps a.network sq.maxPps = 0) := by
  unfold simAdvanced at h
  have hinit := initState_total ρ (mc := mc) (ms := ms) (sq := sq) (a := a) (orc := orc)
  cases hi : initState ρ mc ms sq a orc with
  | error f0 =>
    simp only [hi] at h
    cases h
    exact hinit.1 _ hi
  | ok st =>
    simp only [hi, finish_stop] at h
    exact Or.inl (loop_total ρ a (loopFuel a budget) st 0 0 (hinit.2 st hi) f h)

/-- **No internal consistency assertion ever fires, no division by zero** for packets-per-second
    limits >= 1 (the property's range; a limit beyond `u32::MAX` saturates): whatever the
    inputs, a fault is never a `BUG:` assertion, backwards time, exhausted fuel, divergence or
    the division by zero of `NetworkBottleneck::new`. -/
theorem C19_no_assertion_fires (budget : Nat) (mc ms : List Machine) (sq : SimQueue) (a : Args) (orc : σ)
    (hpps : 1 ≤ effPps a.network sq.maxPps)
    (f : SimFault) (h : (simAdvanced ρ budget mc ms sq a orc).stop = .fault f) : f.isBug = false := by
  rcases C19_faults_classified ρ budget mc ms sq a orc f h with h1 | ⟨_, h2⟩
  · exact h1
  · omega

/-- **Regression of F5**: `NetworkBottleneck::new` divides by zero only for a limit of 0; every
    limit >= 1 — including the multiples of 2^32 that used to be truncated to 0 — is accepted. -/
theorem C19_divzero_only_for_zero (net : Network) (window : Nat) (q : Option Nat) :
    (∃ b, Bottleneck.new net window q = .ok b) ↔ 1 ≤ effPps net q := by
  unfold Bottleneck.new effPps
  simp only []
  have h32 : (2 : Nat) ^ 32 - 1 = 4294967295 := by decide
  constructor
  · rintro ⟨b, hb⟩
    split at hb
    · cases hb
    · rename_i hz; omega
  · intro h
    have hz : ¬ min (net.pps.getD (q.getD usizeMax)) (2 ^ 32 - 1) = 0 := by omega
    simp only [hz, if_false]
    exact ⟨_, rfl⟩

/-- the former failing point: a limit of exactly 2^32 is accepted and saturates to `u32::MAX` -/
example : (match Bottleneck.new ⟨0, some (2 ^ 32)⟩ 1000000000 none with
    | .ok b => b.ppsAddedDelay
    | .error _ => 12345) = 1000000000 / 4294967295 := by decide

/-- **Function of the inputs.**  With an iteration cap the result does not depend on the model's
    own loop budget: the run is determined by machines, queue, arguments and the oracle alone. -/
theorem C19_function_of_inputs (b₁ b₂ : Nat) (mc ms : List Machine) (sq : SimQueue) (a : Args) (orc : σ)
    (hm : a.maxSimIterations > 0) :
    (simAdvanced ρ b₁ mc ms sq a orc).trace = (simAdvanced ρ b₂ mc ms sq a orc).trace := by
  unfold simAdvanced
  have : loopFuel a b₁ = loopFuel a b₂ := by simp [loopFuel, hm]
  rw [this]

/-- **Reproducible**: two runs with the same machines, queue and arguments whose random sources
    answer every request identically return the same result (trace, stream and stop reason):
    nothing but (machines, queue, arguments, oracle) enters a run. -/
theorem C19_reproducible (ρ' : Oracle σ) (hu : ∀ s, ρ.u s = ρ'.u s) (hdd : ∀ d s, ρ.d d s = ρ'.d d s)
    (budget : Nat) (mc ms : List Machine) (sq : SimQueue) (a : Args) (orc : σ) :
    (simAdvanced ρ budget mc ms sq a orc).trace = (simAdvanced ρ' budget mc ms sq a orc).trace ∧
    (simAdvanced ρ budget mc ms sq a orc).stream = (simAdvanced ρ' budget mc ms sq a orc).stream ∧
    (simAdvanced ρ budget mc ms sq a orc).stop = (simAdvanced ρ' budget mc ms sq a orc).stop := by
  have : ρ = ρ' := by
    cases ρ with
    | mk u d =>
      cases ρ' with
      | mk u' d' =>
        have h1 : u = u' := funext hu
        have h2 : d = d' := funext fun x => funext fun s => hdd x s
        rw [h1, h2]
  subst this
  exact ⟨rfl, rfl, rfl⟩

/-- **`pick_next` terminates**: the fuel the main loop passes (`pickMeasure st + 1`: pending
    aggregate delays + internal timers + scheduled actions + 1) is never exhausted. -/
theorem C19_pickNext_fuel (st : St σ) : (pickNext (pickMeasure st + 1) st).isSome = true :=
  pickNext_fuel_ok _ st (Nat.lt_succ_self _)

/-- any larger fuel works as well -/
theorem C19_pickNext_fuel_mono (st : St σ) (fuel : Nat) (h : pickMeasure st < fuel) :
    (pickNext fuel st).isSome = true :=
  pickNext_fuel_ok fuel st h

/-- **Iteration bound**: with `max_sim_iterations = m > 0` the main loop performs at most `m`
    iterations and the model's loop fuel is never the reason to stop. -/
theorem C19_iterations_bounded (budget : Nat) (mc ms : List Machine) (sq : SimQueue) (a : Args) (orc : σ)
    (hm : a.maxSimIterations > 0) :
    (simAdvanced ρ budget mc ms sq a orc).stream.length ≤ a.maxSimIterations ∧
    (simAdvanced ρ budget mc ms sq a orc).stop ≠ .loopFuel := by
  unfold simAdvanced
  cases hi : initState ρ mc ms sq a orc with
  | error f => simp
  | ok st =>
    simp only []
    have hf : loopFuel a budget = a.maxSimIterations := by simp [loopFuel, hm]
    have := loop_iters ρ a hm (loopFuel a budget) st 0 0 hm (by rw [hf]; omega)
    rw [finish_stream, finish_stop]
    exact ⟨by omega, this.2⟩

/-- **Length bound**: with `max_trace_length = c > 0` at most `c` events are returned. -/
theorem C19_length_bounded (budget : Nat) (mc ms : List Machine) (sq : SimQueue) (a : Args) (orc : σ)
    (hc : a.maxTraceLength > 0) :
    (simAdvanced ρ budget mc ms sq a orc).trace.length ≤ a.maxTraceLength := by
  unfold simAdvanced
  cases hi : initState ρ mc ms sq a orc with
  | error f => simp
  | ok st =>
    simp only []
    have := loop_cap ρ a hc (loopFuel a budget) st 0 0 hc
    have hgood := loop_stream_sorted ρ a (loopFuel a budget) st 0 0
    rw [finish_trace a _ hgood.2]
    split
    · simp
    · simp only [List.length_map]; omega

/-- **Time never goes back**: the returned trace is ordered by time, and it is the kept part of
    the iteration stream in iteration order (the final sort does nothing). -/
theorem C19_trace_sorted (budget : Nat) (mc ms : List Machine) (sq : SimQueue) (a : Args) (orc : σ) :
    (simAdvanced ρ budget mc ms sq a orc).trace.Pairwise (fun x y => x.time ≤ y.time) := by
  unfold simAdvanced
  cases hi : initState ρ mc ms sq a orc with
  | error f => simp
  | ok st =>
    simp only []
    have hgood := loop_stream_sorted ρ a (loopFuel a budget) st 0 0
    rw [finish_trace a _ hgood.2]
    split
    · simp
    · rw [List.pairwise_map]
      exact List.Pairwise.filter _ hgood.2

/-! ### Totality with machines -/

/-- **The simulation returns without a fault** (general queue).  Machines accepted by validation
    (and of the shape of the Rust type: one transition slot per event), fractions in `[0, 1]`, a
    non-empty, well-formed queue of trace packets with times in `[-d, T]`, network delay `d`, an
    effective packets-per-second limit of at least 1, a cap of `N ≥ 1` iterations (`CappedAt`:
    `max_sim_iterations = N`, or `max_trace_length = N` with both output filters off), and
    `(N + 2) · span N T d ≤ Duration::MAX`: whatever the oracle, the run ends in none of the
    fault classes of the model — no overflow of checked `Duration` arithmetic, no `unwrap` on
    `None`, no fault inside either framework, no machine id out of range, no `BUG:` assertion. -/
theorem C19_total_queue (budget : Nat) (mc ms : List Machine) (sq : SimQueue) (N d T : Nat) (a : Args) (orc : σ)
    (hmc : MachinesOK mc) (hms : MachinesOK ms)
    (hfrac : Validate.fracOK a.fpClient = true ∧ Validate.fracOK a.fbClient = true ∧
      Validate.fracOK a.fpServer = true ∧ Validate.fracOK a.fbServer = true)
    (hq : QueueOK sq (-(d : Int)) (T : Int))
    (hd : a.network.delay = d) (hpps : 1 ≤ effPps a.network sq.maxPps)
    (hcap : CappedAt a N) (hN : 0 < N) (hg : (N + 2) * TB.span N T d ≤ durMax) :
    ∀ f, (simAdvanced ρ budget mc ms sq a orc).stop ≠ .fault f :=
  simAdvanced_no_fault ρ budget hmc hms hq hfrac hd hpps hcap hN hg orc

/-- **The simulation returns without a fault** for the queue `parse_trace` builds from a
    non-empty trace with times up to `T` (ns), with a packets-per-second limit that is absent
    (then the trace-derived one is used) or at least 1. -/
theorem C19_total (budget : Nat) (mc ms : List Machine) (trace : List TraceLine) (N d T : Nat) (a : Args) (orc : σ)
    (hmc : MachinesOK mc) (hms : MachinesOK ms)
    (hfrac : Validate.fracOK a.fpClient = true ∧ Validate.fracOK a.fbClient = true ∧
      Validate.fracOK a.fpServer = true ∧ Validate.fracOK a.fbServer = true)
    (hne : trace ≠ []) (hT : ∀ l ∈ trace, l.1 ≤ T)
    (hd : a.network.delay = d) (hpps : ∀ p, a.network.pps = some p → 1 ≤ p)
    (hcap : CappedAt a N) (hN : 0 < N) (hg : (N + 2) * TB.span N T d ≤ durMax) :
    ∀ f, (simAdvanced ρ budget mc ms (parseTrace trace d) a orc).stop ≠ .fault f :=
  simAdvanced_no_fault ρ budget hmc hms (parseTrace_queueOK d hne hT) hfrac hd
    (parseTrace_effPps d hne a.network hpps) hcap hN hg orc

/-- the same for raw input traces with all six direction tokens (padding lines are ignored by
    the parser, so at least one normal packet is needed) -/
theorem C19_total_raw (budget : Nat) (mc ms : List Machine) (raw : List RawLine) (N d T : Nat) (a : Args) (orc : σ)
    (hmc : MachinesOK mc) (hms : MachinesOK ms)
    (hfrac : Validate.fracOK a.fpClient = true ∧ Validate.fracOK a.fbClient = true ∧
      Validate.fracOK a.fpServer = true ∧ Validate.fracOK a.fbServer = true)
    (hne : normalLines raw ≠ []) (hT : ∀ l ∈ normalLines raw, l.1 ≤ T)
    (hd : a.network.delay = d) (hpps : ∀ p, a.network.pps = some p → 1 ≤ p)
    (hcap : CappedAt a N) (hN : 0 < N) (hg : (N + 2) * TB.span N T d ≤ durMax) :
    ∀ f, (simAdvanced ρ budget mc ms (parseTraceRaw raw d) a orc).stop ≠ .fault f := by
  rw [parseTraceRaw_eq]
  exact C19_total ρ budget mc ms (normalLines raw) N d T a orc hmc hms hfrac hne hT hd hpps hcap hN hg

/-- **Returns normally and within the bounds**: under the hypotheses of `C19_total` the run stops
    because the queue is empty, a configured bound is reached or all normal packets are
    processed, after at most `N` iterations. -/
theorem C19_total_returns (budget : Nat) (mc ms : List Machine) (trace : List TraceLine) (N d T : Nat) (a : Args) (orc : σ)
    (hmc : MachinesOK mc) (hms : MachinesOK ms)
    (hfrac : Validate.fracOK a.fpClient = true ∧ Validate.fracOK a.fbClient = true ∧
      Validate.fracOK a.fpServer = true ∧ Validate.fracOK a.fbServer = true)
    (hne : trace ≠ []) (hT : ∀ l ∈ trace, l.1 ≤ T)
    (hd : a.network.delay = d) (hpps : ∀ p, a.network.pps = some p → 1 ≤ p)
    (hcap : a.maxSimIterations = N) (hN : 0 < N) (hg : (N + 2) * TB.span N T d ≤ durMax) :
    ((simAdvanced ρ budget mc ms (parseTrace trace d) a orc).stop = .queueEmpty ∨
     (simAdvanced ρ budget mc ms (parseTrace trace d) a orc).stop = .maxTrace ∨
     (simAdvanced ρ budget mc ms (parseTrace trace d) a orc).stop = .maxIter ∨
     (simAdvanced ρ budget mc ms (parseTrace trace d) a orc).stop = .noNormal) ∧
    (simAdvanced ρ budget mc ms (parseTrace trace d) a orc).stream.length ≤ N := by
  have hnf := C19_total ρ budget mc ms trace N d T a orc hmc hms hfrac hne hT hd hpps (Or.inl hcap) hN hg
  have hb := C19_iterations_bounded ρ budget mc ms (parseTrace trace d) a orc (by omega)
  refine ⟨?_, by omega⟩
  cases hs : (simAdvanced ρ budget mc ms (parseTrace trace d) a orc).stop with
  | queueEmpty => exact Or.inl rfl
  | maxTrace => exact Or.inr (Or.inl rfl)
  | maxIter => exact Or.inr (Or.inr (Or.inl rfl))
  | noNormal => exact Or.inr (Or.inr (Or.inr rfl))
  | fault f => exact absurd hs (hnf f)
  | loopFuel => exact absurd hs hb.2

/-- the span of simulated time the guard is stated with, written out: trace span and delays,
    `2 N` aggregate delays of at most `N · 48 h + N · window` each, and `N` steps of at most
    `24 h + 24 h + d + N · window + 48 h` -/
theorem C19_span_eq (N T d : Nat) :
    TB.span N T d = T + d + TB.aggK * d + N * (2 * (N * TB.W + TB.WB * N)) + N * (TB.TO + TB.TD + d + TB.WB * N + TB.W) := by
  unfold TB.span TB.aggD TB.stepZ
  rw [Nat.two_mul]

/-- the constants of the guard, in nanoseconds: 24 h caps, the 48 h blocking horizon, the 1 s
    bottleneck window, the factor 4 of the aggregate-delay schedule -/
example : TB.TO = 86400000000000 ∧ TB.TD = 86400000000000 ∧ TB.BD = 86400000000000 ∧ TB.W = 172800000000000 ∧
    TB.WB = 1000000000 ∧ TB.aggK = 4 := by decide

/-- Non-vacuity of the guard: 50 iterations over a 1 s trace with 100 ms delay need 4.6e19 ns
    of the 1.8e28 available; 10 000 iterations over an hour-long trace still fit (3.5e26); for
    a 1 s trace the guard holds up to N = 37 650. -/
example : (50 + 2) * TB.span 50 1000000000 100000000 ≤ durMax := by decide
example : (10000 + 2) * TB.span 10000 3600000000000 100000000 ≤ durMax := by decide
example : (37650 + 2) * TB.span 37650 1000000000 100000000 ≤ durMax := by decide
/-- ... and the guard does bind: a cap of 100 000 iterations exceeds it -/
example : ¬ ((100000 + 2) * TB.span 100000 1000000000 100000000 ≤ durMax) := by decide

/-! Non-vacuity of `C19_total`: a two-state machine (state 0 pads after 1 ms, state 1 blocks for
    2 ms after 1 ms), on both sides, a three-packet trace, 10 ms delay, `N = 50`. Every
    hypothesis holds, so the run does not fault for any oracle. -/

/-- 1000.0, 2000.0 as f64 and 1.0 as f32 -/
def exDist (bits : F64) : Dist := { dist := .uniform bits bits, start := 0, max := 0 }

def exMachine : Machine :=
  { allowedPaddingPackets := 1000, maxPaddingFrac := 0, allowedBlockedMicrosec := 0, maxBlockingFrac := 0,
    states := [
      { action := some (.sendPadding false false (exDist 0x408F400000000000) none), counterA := none, counterB := none,
        transitions := [none, none, none, some [{ target := 1, prob := 0x3f800000 }], some [{ target := 1, prob := 0x3f800000 }],
                        none, none, none, none, none, none, none, none] },
      { action := some (.blockOutgoing false false (exDist 0x408F400000000000) (exDist 0x409F400000000000) none),
        counterA := none, counterB := none,
        transitions := [none, none, none, some [{ target := 0, prob := 0x3f800000 }], none, none,
                        some [{ target := 0, prob := 0x3f800000 }], none, none, none, none, none, none] }] }

def exTrace : List TraceLine := [(0, true), (1000000, false), (2000000, true)]

def exTotalArgs : Args :=
  { network := ⟨10000000, none⟩, maxTraceLength := 0, maxSimIterations := 50, continueAfterAllNormal := true,
    onlyClientEvents := false, onlyNetworkActivity := false, fpClient := 0, fbClient := 0, fpServer := 0, fbServer := 0 }

theorem C19_total_example_machine : MachinesOK [exMachine] := by
  intro m hm
  simp only [List.mem_singleton] at hm
  subst hm
  constructor
  · decide +kernel
  · intro st hst
    simp only [exMachine, List.mem_cons, List.mem_singleton, List.not_mem_nil, or_false] at hst
    rcases hst with rfl | rfl <;> rfl

example (orc : σ) (f : SimFault) :
    (simAdvanced ρ 0 [exMachine] [exMachine] (parseTrace exTrace 10000000) exTotalArgs orc).stop ≠ .fault f :=
  C19_total ρ 0 [exMachine] [exMachine] exTrace 50 10000000 2000000 exTotalArgs orc
    C19_total_example_machine C19_total_example_machine
    ⟨by decide +kernel, by decide +kernel, by decide +kernel, by decide +kernel⟩
    (by decide) (by decide) rfl (by intro p hp; cases hp) (Or.inl rfl) (by decide) (by decide) f

/-- the same run under the all-zero oracle, evaluated by the kernel: it runs into the iteration
    cap after 50 iterations, having executed 9 paddings and 11 blocking actions (10 of them
    expired), delivered 2 padding packets, queued 10 aggregate delays and accumulated 3 ms of
    aggregate delay on the client side -/
def exTotalRun : SimOut Unit :=
  simAdvanced exOracle 0 [exMachine] [exMachine] (parseTrace exTrace 10000000) exTotalArgs ()

example : exTotalRun.stop = .maxIter ∧ exTotalRun.stream.length = 50 ∧
    (exTotalRun.stream.filter (fun r => match r.ev.event with | .paddingSent _ => true | _ => false)).length = 9 ∧
    (exTotalRun.stream.filter (fun r => match r.ev.event with | .blockingBegin _ => true | _ => false)).length = 11 ∧
    (exTotalRun.stream.filter (fun r => r.ev.event == .blockingEnd)).length = 10 ∧
    (exTotalRun.stream.filter (fun r => r.ev.event == .paddingRecv)).length = 2 ∧
    (match exTotalRun.final with | some st => st.net.ghost.aggPushed | none => 0) = 10 ∧
    (match exTotalRun.final with | some st => st.net.clientAgg | none => 0) = 3000000 := by decide +kernel

/-- **The guard is needed in some form**: the same machines and trace with a network delay of
    5·10^27 ns (1.6·10^11 years — far outside anything realistic, and outside the guard) make
    the model stop with the checked-arithmetic fault at the first blocking expiry: the multiple
    `4 · delay` that `push_aggregate_delay` computes does not fit a `Duration`. -/
theorem C19_total_guard_needed :
    (simAdvanced exOracle 0 [exMachine] [exMachine] (parseTrace exTrace 5000000000000000000000000000)
      { exTotalArgs with network := ⟨5000000000000000000000000000, none⟩ } ()).stop = .fault .durOverflow := by
  decide +kernel

/-! Non-vacuity: a concrete two-packet run without machines (state built directly, so that the
    kernel can evaluate it): 7 iterations, 3 of them client events; the stream is the same for
    both filter settings. -/
example : (match exState with
    | some st => ((loop exOracle exArgs 100 st 0 0).stream.length,
                  ((loop exOracle exArgs 100 st 0 0).stream.filter exArgs.keep).length,
                  (loop exOracle exArgs.unfiltered 100 st 0 0).stream.length)
    | none => (0, 0, 0)) = (7, 3, 7) := by decide

/-! ### the monitor accepts the model's own observations -/

/-- **Bounds part**: a trace the model returns respects the configured bounds, in the
    monitor's vocabulary. -/
theorem C19_bounds_model (budget : Nat) (c : CaseIn) (r : RunIn) (orc : σ) (tr : List SimEvent)
    (h : (modelObs ρ budget c r orc).res = .ok tr) : boundsOK (r.effArgs c.delay) tr = true := by
  rw [modelObs_res] at h
  obtain ⟨_, htr⟩ := res_ok_inv h
  subst htr
  unfold boundsOK
  rw [List.length_map]
  simp only [Bool.and_eq_true, Bool.or_eq_true, beq_iff_eq, decide_eq_true_eq]
  constructor
  · by_cases h0 : (r.effArgs c.delay).maxTraceLength = 0
    · exact Or.inl h0
    · exact Or.inr (C19_length_bounded ρ budget c.mc c.ms _ _ orc (by omega))
  · by_cases h0 : (r.effArgs c.delay).maxSimIterations = 0
    · exact Or.inl h0
    · have h1 := (C19_iterations_bounded ρ budget c.mc c.ms (parseTraceRaw c.trace c.delay) (r.effArgs c.delay) orc
        (by omega)).1
      have h2 := simAdvanced_trace_le_stream ρ budget c.mc c.ms (parseTraceRaw c.trace c.delay) (r.effArgs c.delay) orc
      exact Or.inr (Nat.le_trans h2 h1)

/-- **Determinism part**: two runs with the same arguments in the monitor's sense (`sameArgs`:
    API, packets-per-second limit, seed, caps, stop setting, fractions, filters) and the same
    oracle have the same observation. -/
theorem C19_det_model (budget : Nat) (c : CaseIn) (r r' : RunIn) (orc : σ) (h : sameArgs r r' = true) :
    (modelObs ρ budget c r orc).res = (modelObs ρ budget c r' orc).res := by
  rw [modelObs_res, modelObs_res]
  unfold modelOut
  rw [effArgs_eq_of_sameArgs c.delay h]

/-- **Projection part**: for an uncapped unfiltered reference run `u` and a run `f` with the same
    base (API, limit, seed, iteration cap, stop setting, fractions) and the same oracle, if both
    return a trace then `f`'s trace is the monitor's projection (`C19.project`: filter, then cut
    at the cap) of `u`'s trace. -/
theorem C19_proj_model (budget : Nat) (c : CaseIn) (u f : RunIn) (orc : σ)
    (href : isReference u = true) (hsb : sameBase u f = true) (hwf : f.WF) (ut ft : List SimEvent)
    (hu : (modelObs ρ budget c u orc).res = .ok ut) (hf : (modelObs ρ budget c f orc).res = .ok ft) :
    ft = project f.args.onlyNetworkActivity f.args.onlyClientEvents f.args.maxTraceLength ut := by
  rw [modelObs_res] at hu hf
  obtain ⟨hup, hut⟩ := res_ok_inv hu
  obtain ⟨_, hft⟩ := res_ok_inv hf
  subst hut hft
  obtain ⟨hau, hmtl, hoc, hon⟩ := effArgs_reference c.delay href hsb hwf
  rw [← hmtl, ← hoc, ← hon, project_shift]
  congr 1
  unfold modelOut at hup ⊢
  rw [hau] at hup ⊢
  generalize f.effArgs c.delay = a at hup ⊢
  have hnf := isPanic_false_no_fault hup
  by_cases hc : a.maxTraceLength = 0
  · rw [uncapped_eq_self a hc]
    have := C19_project_model ρ budget c.mc c.ms (parseTraceRaw c.trace c.delay) a orc hc
    rw [← hc] at this
    exact this
  · have hpos : a.maxTraceLength > 0 := by omega
    have hnf' : ∀ f, (simAdvanced ρ budget c.mc c.ms (parseTraceRaw c.trace c.delay) a.uncapped orc).stop ≠ .fault f := by
      rw [simAdvanced_stop_unfiltered ρ budget c.mc c.ms _ a.uncapped orc rfl]
      exact hnf
    rw [C19_cap_is_prefix ρ budget c.mc c.ms _ a orc hpos hnf',
      C19_filters_are_projections ρ budget c.mc c.ms _ a.uncapped orc rfl]
    unfold project takeCap
    simp only [hpos, if_true]
    rfl

/-- **The C19 monitor accepts the model's own observations.**  For every case (machine lists on
    both sides, raw trace, delay), every loop budget and every LIST of runs, each with its
    oracle, such that runs with the same base — in particular the same seed — share the oracle
    (the seed determines the random streams; in the driver each run carries its own hook log) and
    runs through `sim` are recorded without the `only_client_events` flag that `sim` does not
    have: the monitor `C19.monitor`, evaluated on the model's observations of these runs, reports
    exactly its "panic" entries — no "bounds", no "det" (same seed and arguments but differ) and
    no "proj" (not the projection of the unfiltered run) failure. -/
theorem C19_monitor_accepts_model (budget : Nat) (c : CaseIn) (runs : List (RunIn × σ))
    (hwf : ∀ p ∈ runs, p.1.WF)
    (horc : ∀ p ∈ runs, ∀ q ∈ runs, sameBase p.1 q.1 = true → p.2 = q.2) :
    C19.monitor c (runs.map fun p => modelObs ρ budget c p.1 p.2) =
      panicMsgs c (runs.map fun p => modelObs ρ budget c p.1 p.2) := by
  apply monitor_eq_panics_of
  · intro r hr tr hres
    obtain ⟨p, _, rfl⟩ := List.mem_map.1 hr
    exact C19_bounds_model ρ budget c p.1 p.2 tr hres
  · intro r hr r' hr' hsa
    obtain ⟨p, hp, rfl⟩ := List.mem_map.1 hr
    obtain ⟨q, hq, rfl⟩ := List.mem_map.1 hr'
    rw [modelObs_run, modelObs_run] at hsa
    rw [horc p hp q hq (sameBase_of_sameArgs hsa)]
    exact C19_det_model ρ budget c p.1 q.1 q.2 hsa
  · intro u hu f hf href hfr hsb ut ft hures hfres
    obtain ⟨p, hp, rfl⟩ := List.mem_map.1 hu
    obtain ⟨q, hq, rfl⟩ := List.mem_map.1 hf
    rw [modelObs_run] at href hsb
    rw [modelObs_run] at hsb ⊢
    rw [horc p hp q hq hsb] at hures
    exact C19_proj_model ρ budget c p.1 q.1 q.2 href hsb (hwf q hq) ut ft hures hfres

/-- **The "panic" entries are exactly the runs whose model run ends in a fault** (or, without an
    iteration cap, in the model's own loop budget): the observation of a run is a panic iff the
    model run stops on a fault or on the budget, and a fault is reported with its class. -/
theorem C19_monitor_panics_exact (budget : Nat) (c : CaseIn) (r : RunIn) (orc : σ) :
    ((∃ cls, (modelObs ρ budget c r orc).res = .panic cls) ↔ (modelOut ρ budget c r orc).stop.isPanic = true) ∧
    (∀ f, (modelOut ρ budget c r orc).stop = .fault f → (modelObs ρ budget c r orc).res = .panic f.cls) ∧
    ((r.effArgs c.delay).maxSimIterations > 0 → (modelOut ρ budget c r orc).stop ≠ .loopFuel) := by
  refine ⟨⟨?_, fun h => ?_⟩, ?_, ?_⟩
  · rintro ⟨cls, h⟩
    cases hp : (modelOut ρ budget c r orc).stop.isPanic with
    | true => rfl
    | false => rw [modelObs_res, res_ok hp] at h; cases h
  · rw [modelObs_res]; exact res_panic h
  · intro f hf
    rw [modelObs_res]
    unfold SimOut.res
    rw [hf]
  · intro hm
    exact (C19_iterations_bounded ρ budget c.mc c.ms _ _ orc hm).2

/-- no model run panics ⇒ the monitor is silent -/
theorem C19_monitor_silent (budget : Nat) (c : CaseIn) (runs : List (RunIn × σ))
    (hwf : ∀ p ∈ runs, p.1.WF)
    (horc : ∀ p ∈ runs, ∀ q ∈ runs, sameBase p.1 q.1 = true → p.2 = q.2)
    (hnp : ∀ p ∈ runs, (modelOut ρ budget c p.1 p.2).stop.isPanic = false) :
    C19.monitor c (runs.map fun p => modelObs ρ budget c p.1 p.2) = [] := by
  rw [C19_monitor_accepts_model ρ budget c runs hwf horc]
  unfold panicMsgs
  rw [List.filterMap_eq_nil_iff]
  intro r hr
  obtain ⟨p, hp, rfl⟩ := List.mem_map.1 hr
  rw [modelObs_res, res_ok (hnp p hp)]

/-- **Silent under the guard of `C19_total`**: validated machines on both sides, a trace with at
    least one normal packet and times up to `T`, and runs that all have `max_sim_iterations = N ≥ 1`,
    fractions in [0, 1], a packets-per-second limit that is absent or at least 1, with
    `(N + 2) · span N T delay ≤ Duration::MAX`: no model run panics, so the monitor returns the
    empty list on the model's observations — for every oracle assignment that gives runs with
    the same base the same oracle. -/
theorem C19_monitor_accepts_model_total (budget : Nat) (c : CaseIn) (runs : List (RunIn × σ)) (N T : Nat)
    (hwf : ∀ p ∈ runs, p.1.WF)
    (horc : ∀ p ∈ runs, ∀ q ∈ runs, sameBase p.1 q.1 = true → p.2 = q.2)
    (hmc : MachinesOK c.mc) (hms : MachinesOK c.ms)
    (hne : normalLines c.trace ≠ []) (hT : ∀ l ∈ normalLines c.trace, l.1 ≤ T)
    (hN : 0 < N) (hg : (N + 2) * TB.span N T c.delay ≤ durMax)
    (hruns : ∀ p ∈ runs, (p.1.effArgs c.delay).maxSimIterations = N ∧
      (Validate.fracOK (p.1.effArgs c.delay).fpClient = true ∧ Validate.fracOK (p.1.effArgs c.delay).fbClient = true ∧
       Validate.fracOK (p.1.effArgs c.delay).fpServer = true ∧ Validate.fracOK (p.1.effArgs c.delay).fbServer = true) ∧
      ∀ x, (p.1.effArgs c.delay).network.pps = some x → 1 ≤ x) :
    C19.monitor c (runs.map fun p => modelObs ρ budget c p.1 p.2) = [] := by
  apply C19_monitor_silent ρ budget c runs hwf horc
  intro p hp
  obtain ⟨hcap, hfrac, hpps⟩ := hruns p hp
  have hnf := C19_total_raw ρ budget c.mc c.ms c.trace N c.delay T (p.1.effArgs c.delay) p.2 hmc hms hfrac hne hT
    (effArgs_delay p.1 c.delay) hpps (Or.inl hcap) hN hg
  have hnl := (C19_iterations_bounded ρ budget c.mc c.ms (parseTraceRaw c.trace c.delay) (p.1.effArgs c.delay) p.2
    (by omega)).2
  unfold modelOut
  cases hs : (simAdvanced ρ budget c.mc c.ms (parseTraceRaw c.trace c.delay) (p.1.effArgs c.delay) p.2).stop with
  | fault f => exact absurd hs (hnf f)
  | loopFuel => exact absurd hs hnl
  | queueEmpty | maxTrace | maxIter | noNormal => rfl

/-! Non-vacuity and sharpness of `C19_monitor_accepts_model` (kernel evaluation through
    `modelObs_eq_S`, the observation restated over the iteration stream). -/

/-- the padding machine on the client, eight runs as the harness makes them (main, repetition,
    reference, three filter settings, a capped filtered run, `sim`), all with the same oracle:
    the hypotheses hold and the monitor evaluates to the empty list -/
example : (∀ p ∈ demoRuns, p.1.WF) ∧
    C19.monitor demoCase (demoRuns.map fun p => modelObs exOracle 100 demoCase p.1 p.2) = [] := by
  refine ⟨by decide, ?_⟩
  simp only [modelObs_eq_S]
  decide +kernel

/-- **Runs with the same seed must share the oracle**: the same run twice, once with an oracle
    that answers 1000 µs and once with one that answers 2000 µs for the sampled padding timeout —
    the two observations differ and the monitor reports its "same seed and arguments but differ"
    failure.  (The implementation derives its random streams from the seed; the hypothesis of the
    theorem is that idealisation.) -/
theorem C19_monitor_det_needs_shared_oracle :
    (C19.monitor wideCase ([(demoRun "u" 0 40 true false false, 0x408F400000000000),
        (demoRun "v" 0 40 true false false, 0x409F400000000000)].map
      fun p => modelObs natOracle 100 wideCase p.1 p.2)).length = 1 := by
  simp only [modelObs_eq_S]
  decide +kernel

/-- **`sim` has no `only_client_events` parameter**: a run through `sim` that is *recorded* with
    that flag set (the model, like `sim`, keeps both sides) is compared by the monitor with the
    client-only projection of the reference run, and fails.  The driver never builds such a run;
    `RunIn.WF` states that. -/
theorem C19_monitor_sim_flag_needed :
    (C19.monitor demoCase0
      ([({ demoSim 0 false with seed := some 1 }, ()),
        ({ demoSim 0 false with seed := some 1, args := demoArgs 0 0 false true false }, ())].map
      fun p => modelObs exOracle 100 demoCase0 p.1 p.2)).length = 1 := by
  simp only [modelObs_eq_S]
  decide +kernel

end Mb.C19
