/-
  C19 — seeded simulations are reproducible, total, and filters are pure projections.

  Theorems about the simulator model `Mb.Sim.simAdvanced` (hand-written from lib.rs / network.rs
  / queue*.rs / delay.rs, tied to the code by the exact-trace correspondence of every run):

  * `C19_filters_are_projections`: with the length cap not binding (`max_trace_length = 0`) the
    trace returned with any filter setting is exactly the unfiltered trace filtered with the
    observation-level predicate `keepObs` — for every machine set, trace, network, fraction,
    stop setting and random oracle.
  * `C19_function_of_inputs`: the run is a function of (machines, queue, args, oracle) and, when
    an iteration cap is set, does not depend on the model's own iteration budget.
  * `C19_pickNext_fuel`: `pick_next`'s recursion always terminates within `pickMeasure + 1` calls.
  * `C19_iterations_bounded`, `C19_length_bounded`: the configured bounds are respected.
  * `C19_trace_sorted`: recorded times never go back (the clock is monotone).
-/
import MbVerif.Proofs.SimRecord
import MbVerif.Proofs.SimFuel
import MbVerif.Spec.C19

namespace Mb.C19
open Mb Mb.Sim Mb.SimSpec

variable {σ : Type} (ρ : Oracle σ)

/-- **Filters are projections.**  Without a length cap, for all inputs the filtered run returns
    exactly the sub-sequence of the unfiltered run selected by the filter predicate on events. -/
theorem C19_filters_are_projections (budget : Nat) (mc ms : List Machine) (sq : SimQueue) (a : Args) (orc : σ)
    (hcap : a.maxTraceLength = 0) :
    (simAdvanced ρ budget mc ms sq a orc).trace =
      (simAdvanced ρ budget mc ms sq a.unfiltered orc).trace.filter
        (keepObs a.onlyNetworkActivity a.onlyClientEvents) := by
  unfold simAdvanced
  rw [initState_unfiltered]
  cases hi : initState ρ mc ms sq a orc with
  | error f => simp
  | ok st =>
    simp only []
    have hfu : loopFuel a.unfiltered budget = loopFuel a budget := rfl
    rw [hfu]
    have hl := loop_filter_indep ρ a a.unfiltered (sameButFilters_unfiltered a) hcap (loopFuel a budget) st 0 0 0
    rw [← hl]
    have hgood := loop_stream_sorted ρ a (loopFuel a budget) st 0 0
    cases hs : (loop ρ a (loopFuel a budget) st 0 0).stop with
    | fault f => simp
    | queueEmpty | maxTrace | maxIter | noNormal | loopFuel =>
      simp only []
      rw [record_eq_filter a _ hgood.2, record_eq_filter a.unfiltered _ hgood.2]
      have h1 : a.unfiltered.keep = keep false false := rfl
      rw [h1, filter_keep_none]
      exact filter_stream_eq a.onlyNetworkActivity a.onlyClientEvents _ (fun r hr => (hgood.1 r hr).2)

/-- The monitor's projection function (Spec/C19) applied to the model's unfiltered run is the
    model's filtered run: the statement the C19 monitor checks on the implementation's traces. -/
theorem C19_project_model (budget : Nat) (mc ms : List Machine) (sq : SimQueue) (a : Args) (orc : σ)
    (hcap : a.maxTraceLength = 0) :
    (simAdvanced ρ budget mc ms sq a orc).trace =
      project a.onlyNetworkActivity a.onlyClientEvents 0 (simAdvanced ρ budget mc ms sq a.unfiltered orc).trace := by
  rw [C19_filters_are_projections ρ budget mc ms sq a orc hcap]
  simp [project, takeCap]

/-- **Function of the inputs.**  With an iteration cap the result does not depend on the model's
    own loop budget: the run is determined by machines, queue, arguments and the oracle alone. -/
theorem C19_function_of_inputs (b₁ b₂ : Nat) (mc ms : List Machine) (sq : SimQueue) (a : Args) (orc : σ)
    (hm : a.maxSimIterations > 0) :
    (simAdvanced ρ b₁ mc ms sq a orc).trace = (simAdvanced ρ b₂ mc ms sq a orc).trace := by
  unfold simAdvanced
  have : loopFuel a b₁ = loopFuel a b₂ := by simp [loopFuel, hm]
  rw [this]

/-- **`pick_next` terminates**: the fuel the main loop passes (`pickMeasure st + 1`: pending
    aggregate delays + internal timers + scheduled actions + 1) is never exhausted. -/
theorem C19_pickNext_fuel (st : St σ) : (pickNext (pickMeasure st + 1) st).isSome = true :=
  pickNext_fuel_ok _ st (Nat.lt_succ_self _)

/-- any larger fuel works as well -/
theorem C19_pickNext_fuel_mono (st : St σ) (fuel : Nat) (h : pickMeasure st < fuel) :
    (pickNext fuel st).isSome = true :=
  pickNext_fuel_ok fuel st h

/-- **Iteration bound**: with `max_sim_iterations = m > 0` the main loop performs at most `m`
    iterations and the model's loop fuel is never the reason to stop. -/
theorem C19_iterations_bounded (budget : Nat) (mc ms : List Machine) (sq : SimQueue) (a : Args) (orc : σ)
    (hm : a.maxSimIterations > 0) :
    (simAdvanced ρ budget mc ms sq a orc).stream.length ≤ a.maxSimIterations ∧
    (simAdvanced ρ budget mc ms sq a orc).stop ≠ .loopFuel := by
  unfold simAdvanced
  cases hi : initState ρ mc ms sq a orc with
  | error f => simp
  | ok st =>
    simp only []
    have hf : loopFuel a budget = a.maxSimIterations := by simp [loopFuel, hm]
    have := loop_iters ρ a hm (loopFuel a budget) st 0 0 hm (by rw [hf]; omega)
    cases hs : (loop ρ a (loopFuel a budget) st 0 0).stop with
    | fault f => simp; omega
    | queueEmpty | maxTrace | maxIter | noNormal => simp [hs] at this ⊢; omega
    | loopFuel => exact absurd hs this.2

/-- **Length bound**: with `max_trace_length = c > 0` at most `c` events are returned. -/
theorem C19_length_bounded (budget : Nat) (mc ms : List Machine) (sq : SimQueue) (a : Args) (orc : σ)
    (hc : a.maxTraceLength > 0) :
    (simAdvanced ρ budget mc ms sq a orc).trace.length ≤ a.maxTraceLength := by
  unfold simAdvanced
  cases hi : initState ρ mc ms sq a orc with
  | error f => simp
  | ok st =>
    simp only []
    have := loop_cap ρ a hc (loopFuel a budget) st 0 0 hc
    have hgood := loop_stream_sorted ρ a (loopFuel a budget) st 0 0
    cases hs : (loop ρ a (loopFuel a budget) st 0 0).stop with
    | fault f => simp
    | queueEmpty | maxTrace | maxIter | noNormal | loopFuel =>
      simp only []
      rw [record_eq_filter a _ hgood.2]
      simp only [List.length_map]
      omega

/-- **Time never goes back**: the returned trace is ordered by time, and it is the kept part of
    the iteration stream in iteration order (the final sort does nothing). -/
theorem C19_trace_sorted (budget : Nat) (mc ms : List Machine) (sq : SimQueue) (a : Args) (orc : σ) :
    (simAdvanced ρ budget mc ms sq a orc).trace.Pairwise (fun x y => x.time ≤ y.time) := by
  unfold simAdvanced
  cases hi : initState ρ mc ms sq a orc with
  | error f => simp
  | ok st =>
    simp only []
    have hgood := loop_stream_sorted ρ a (loopFuel a budget) st 0 0
    cases hs : (loop ρ a (loopFuel a budget) st 0 0).stop with
    | fault f => simp
    | queueEmpty | maxTrace | maxIter | noNormal | loopFuel =>
      simp only []
      rw [record_eq_filter a _ hgood.2, List.pairwise_map]
      exact List.Pairwise.filter _ hgood.2

/-! Non-vacuity: a concrete two-packet run without machines (state built directly, so that the
    kernel can evaluate it): 7 iterations, 3 of them client events; the stream is the same for
    both filter settings. -/
example : (match exState with
    | some st => ((loop exOracle exArgs 100 st 0 0).stream.length,
                  ((loop exOracle exArgs 100 st 0 0).stream.filter exArgs.keep).length,
                  (loop exOracle exArgs.unfiltered 100 st 0 0).stream.length)
    | none => (0, 0, 0)) = (7, 3, 7) := by decide
end Mb.C19
