/-
  C10 — machines do not interfere.

  Proved (the frame half of non-interference, for ALL machines and oracles, no determinism
  assumption needed): whatever a neighbour `j ≠ i` does — any transition on any event with all
  its internal LimitReached / CounterZero follow-ups, and any limit decrement — leaves machine
  `i`'s entire runtime (state, limit, both counters, its CounterZero guard flags, its accounting)
  and its action slot untouched, and likewise leaves the framework-wide accounting untouched
  (`C10_frame_transition`, `C10_frame_decrement`, `C10_frame_globals`). Since fix 034dbec the
  CounterZero guard flags are part of the per-machine runtime, so they are covered by the frame.
  The only framework state a neighbour's step can change besides its own component is: the random
  state, the log, the fault flag and the pending-signal slot (`C10_shared`).
  The converse half — machine `i`'s own steps read nothing but its own component, the globals
  and the draws — is `Proofs/NonInterf.lean` (`sim_main`, lifted through every event, the
  signal round, whole calls, histories and construction). Together they give the full statement
  below: `C10_noninterference` (runtime and slot), `C10_actions` (returned actions),
  `C10_solo` (next to any machines = alone), `C10_deterministic` (the hypothesis of the property:
  deterministic sampling, any random sources). The statement is stronger than the property asks
  in two ways: both sides may have arbitrary neighbours, and framework-wide fractions are allowed
  (both runs see the same totals because the renamed history keeps every report).
  The implementation is additionally checked differentially (harness `ni` cases: combined vs solo
  run on the projected history).
-/
import MbVerif.Proofs.SafeCall
import MbVerif.Proofs.NonInterf
import MbVerif.Proofs.C04

namespace Mb.C10
open Mb

variable {σ : Type} (ρ : Oracle σ)

theorem C10_frame_transition (fuel i j : Nat) (ev : Event) (s : Fw σ) (hij : j ≠ i) :
    (transition ρ fuel j ev s).1.rt[i]? = s.rt[i]? ∧
    (transition ρ fuel j ev s).1.actions[i]? = s.actions[i]? := by
  have hf := (transition_reach ρ fuel j ev s).frame
  exact ⟨hf.rtOther i (Ne.symm hij), hf.actOther i (Ne.symm hij)⟩

theorem C10_frame_decrement (i j : Nat) (s : Fw σ) (hij : j ≠ i) :
    (decrementLimit ρ j s).rt[i]? = s.rt[i]? ∧ (decrementLimit ρ j s).actions[i]? = s.actions[i]? := by
  have hf := (decrementLimit_reach ρ j s).frame
  exact ⟨hf.rtOther i (Ne.symm hij), hf.actOther i (Ne.symm hij)⟩

theorem C10_frame_globals (fuel j : Nat) (ev : Event) (s : Fw σ) :
    (transition ρ fuel j ev s).1.g = s.g ∧ (transition ρ fuel j ev s).1.machines = s.machines ∧
    (decrementLimit ρ j s).g = s.g := by
  exact ⟨(transition_reach ρ fuel j ev s).frame.g, (transition_reach ρ fuel j ev s).frame.machines,
         (decrementLimit_reach ρ j s).frame.g⟩

/-- a machine's own transition leaves its accounting alone too: accounting only changes in the
    accounting step of an event -/
theorem C10_own_accounting (fuel i : Nat) (ev : Event) (s : Fw σ) :
    ((transition ρ fuel i ev s).1.rt[i]?).map (·.acct) = (s.rt[i]?).map (·.acct) :=
  (transition_reach ρ fuel i ev s).frame.acct

/-- The delivery of a whole event to all machines leaves a machine that has ended completely
    alone, and a live machine's component is only changed by its own transition: composition of
    the frames over the per-machine loop. -/
theorem C10_loop_frame (ev : Event) (i : Nat) (l : List Nat) (hi : i ∉ l) (s : Fw σ) :
    (l.foldl (fun s mi => (transition ρ FUEL mi ev s).1) s).rt[i]? = s.rt[i]? ∧
    (l.foldl (fun s mi => (transition ρ FUEL mi ev s).1) s).actions[i]? = s.actions[i]? := by
  induction l generalizing s with
  | nil => exact ⟨rfl, rfl⟩
  | cons a l ih =>
    simp only [List.mem_cons, not_or] at hi
    obtain ⟨h1, h2⟩ := ih hi.2 ((transition ρ FUEL a ev s).1)
    obtain ⟨f1, f2⟩ := C10_frame_transition ρ FUEL i a ev s (fun h => hi.1 h.symm)
    exact ⟨h1.trans f1, h2.trans f2⟩

/-! ### the full statement: same machine, any neighbours, any position ⇒ same actions -/

section
variable {σ' : Type} (ρ' : Oracle σ')

/-- `C10_noninterference`: put machine `m` at index `i` among machines `ms` and at index `k`
    among machines `ms'` (ANY neighbours, any positions; `ms' = [m]`, `k = 0` is the solo run).
    Feed the first framework any history `h` and the second the same history with machine ids
    renamed by any `f` that sends `i` to `k` and nothing else to `k` (so events addressed to
    neighbours are addressed to other or unknown ids). If `m` has no transition on Signal and the
    two random sources agree on what `m` can observe of them (`DrawAgree`: e.g. both constant, or
    `m` deterministic, see below), then after every history the two frameworks agree on `m`'s
    complete runtime (state, limit, counters, flags, accounting) and on `m`'s action slot up to
    the machine id in it. Same framework-wide fractions and start time on both sides: the
    framework-wide budgets are a sanctioned coupling, and they see the same totals because the
    renamed history keeps every report. -/
theorem C10_noninterference (ms ms' : List Machine) (i k : Nat) (m : Machine)
    (hm : ms[i]? = some m) (hm' : ms'[k]? = some m) (hns : NoSigTrans m) (hda : DrawAgree ρ ρ' m)
    (f : Nat → Nat) (hf : ∀ x, x = i ↔ f x = k)
    (fp fb : F64) (t0 : Int) (rng : σ) (rng' : σ') (h : List Call) :
    let s := runCalls ρ (Fw.init ρ ms fp fb t0 rng) h
    let s' := runCalls ρ' (Fw.init ρ' ms' fp fb t0 rng') (mapHist f h)
    s.rt[i]? = s'.rt[k]? ∧
    (s.actions[i]?).map (Option.map TAction.erase) = (s'.actions[k]?).map (Option.map TAction.erase) := by
  have hrel := runCalls_sim ρ ρ' hda hns f hf h _ _ (init_sim ρ ρ' hda ms ms' hm hm' fp fb t0 rng rng')
  exact ⟨hrel.rt, hrel.act⟩

/-- the returned actions of a framework that belong to machine `i` are exactly the content of
    slot `i` -/
theorem out_iff_slot (ms : List Machine) (fp fb : F64) (t0 : Int) (rng : σ) (h : List Call) (i : Nat) (a : TAction) :
    let s := runCalls ρ (Fw.init ρ ms fp fb t0 rng) h
    (a ∈ s.actionsOut ∧ a.machine = i) ↔ s.actions[i]? = some (some a) := by
  intro s
  have hI : Inv04 s :=
    ((Inv04.init0 ms fp fb t0 rng).run (init_run ρ ms fp fb t0 rng)).run (runCalls_run ρ _ h)
  unfold Fw.actionsOut
  constructor
  · rintro ⟨hmem, hmach⟩
    rw [List.mem_filterMap] at hmem
    obtain ⟨x, hx, hxa⟩ := hmem
    simp only [id] at hxa
    subst hxa
    obtain ⟨j, hj⟩ := List.getElem?_of_mem hx
    have := (hI.slots j a hj).1
    rw [← hmach, this]; exact hj
  · intro hs
    refine ⟨?_, (hI.slots i a hs).1⟩
    rw [List.mem_filterMap]
    exact ⟨some a, List.mem_of_getElem? hs, rfl⟩

/-- `C10_actions`: under the hypotheses of `C10_noninterference`, after every history the
    actions returned for `m` by the two frameworks are the same up to the machine id: every
    action for machine `i` in the first output has a counterpart for machine `k` in the second,
    and conversely. (Each output holds at most one action per machine, `C04_out`.) -/
theorem C10_actions (ms ms' : List Machine) (i k : Nat) (m : Machine)
    (hm : ms[i]? = some m) (hm' : ms'[k]? = some m) (hns : NoSigTrans m) (hda : DrawAgree ρ ρ' m)
    (f : Nat → Nat) (hf : ∀ x, x = i ↔ f x = k)
    (fp fb : F64) (t0 : Int) (rng : σ) (rng' : σ') (h : List Call) :
    let s := runCalls ρ (Fw.init ρ ms fp fb t0 rng) h
    let s' := runCalls ρ' (Fw.init ρ' ms' fp fb t0 rng') (mapHist f h)
    (∀ a, a ∈ s.actionsOut → a.machine = i → ∃ a', a' ∈ s'.actionsOut ∧ a'.machine = k ∧ a'.erase = a.erase) ∧
    (∀ a', a' ∈ s'.actionsOut → a'.machine = k → ∃ a, a ∈ s.actionsOut ∧ a.machine = i ∧ a.erase = a'.erase) := by
  intro s s'
  have hact := (C10_noninterference ρ ρ' ms ms' i k m hm hm' hns hda f hf fp fb t0 rng rng' h).2
  constructor
  · intro a ha hmach
    have hs := (out_iff_slot ρ ms fp fb t0 rng h i a).mp ⟨ha, hmach⟩
    change s.actions[i]? = _ at hs
    change (s.actions[i]?).map _ = (s'.actions[k]?).map _ at hact
    rw [hs] at hact
    cases hk : s'.actions[k]? with
    | none => rw [hk] at hact; cases hact
    | some o =>
      rw [hk] at hact
      cases o with
      | none => simp at hact
      | some a' =>
        simp only [Option.map_some, Option.some.injEq] at hact
        have := (out_iff_slot ρ' ms' fp fb t0 rng' (mapHist f h) k a').mpr hk
        exact ⟨a', this.1, this.2, hact.symm⟩
  · intro a' ha' hmach
    have hs := (out_iff_slot ρ' ms' fp fb t0 rng' (mapHist f h) k a').mp ⟨ha', hmach⟩
    change s'.actions[k]? = _ at hs
    change (s.actions[i]?).map _ = (s'.actions[k]?).map _ at hact
    rw [hs] at hact
    cases hk : s.actions[i]? with
    | none => rw [hk] at hact; cases hact
    | some o =>
      rw [hk] at hact
      cases o with
      | none => simp at hact
      | some a =>
        simp only [Option.map_some, Option.some.injEq] at hact
        have := (out_iff_slot ρ ms fp fb t0 rng h i a).mpr hk
        exact ⟨a, this.1, this.2, hact⟩

/-- the renaming used for a solo run: the probe becomes machine 0, every other id becomes the
    unknown id 1 -/
def soloId (i : Nat) (x : Nat) : Nat := if x = i then 0 else 1

/-- `C10_solo`: running `m` next to any machines at any position yields, for `m`, the same
    actions as running it alone on the projected history. -/
theorem C10_solo (ms : List Machine) (i : Nat) (m : Machine) (hm : ms[i]? = some m)
    (hns : NoSigTrans m) (hda : DrawAgree ρ ρ' m)
    (fp fb : F64) (t0 : Int) (rng : σ) (rng' : σ') (h : List Call) :
    let s := runCalls ρ (Fw.init ρ ms fp fb t0 rng) h
    let s' := runCalls ρ' (Fw.init ρ' [m] fp fb t0 rng') (mapHist (soloId i) h)
    (∀ a, a ∈ s.actionsOut → a.machine = i → ∃ a', a' ∈ s'.actionsOut ∧ a'.machine = 0 ∧ a'.erase = a.erase) ∧
    (∀ a', a' ∈ s'.actionsOut → a'.machine = 0 → ∃ a, a ∈ s.actionsOut ∧ a.machine = i ∧ a.erase = a'.erase) :=
  C10_actions ρ ρ' ms [m] i 0 m hm rfl hns hda (soloId i)
    (fun x => by unfold soloId; by_cases hx : x = i <;> simp [hx]) fp fb t0 rng rng' h

/-! ### when do two random sources agree on what a machine can observe -/

/-- sources whose returned values do not depend on their state agree on every machine -/
theorem drawAgree_of_const (m : Machine)
    (hu : ∀ a b, (ρ.u a).1 = (ρ'.u b).1) (hd : ∀ d a b, (ρ.d d a).1 = (ρ'.d d b).1) : DrawAgree ρ ρ' m :=
  ⟨fun _ _ vec _ _ a b => by rw [hu a b], fun d _ a b => by unfold effRaw; rw [hd d a b]⟩

/-- a machine with deterministic sampling: every transition vector is a single entry whose
    probability adds up to exactly 1 in f32, and every distribution is a constant -/
def Deterministic (m : Machine) : Prop :=
  (∀ st ∈ m.states, ∀ (e : Nat) (vec : List Trans), st.transitions[e]? = some (some vec) →
      ∃ t : Trans, vec = [t] ∧ Fp.add Fp.f32 (.fin 0) (Fp.val32 t.prob) = .fin 1) ∧
  (∀ d, DistIn m d → d.constUniform.isSome)

/-- for a deterministic machine ANY two sources whose uniform draws lie in [0,1) agree: the
    shared random stream cannot matter -/
theorem drawAgree_of_deterministic (m : Machine) (hdet : Deterministic m)
    (hu : ∀ a, Fp.lt (Fp.val32 (ρ.u a).1) (.fin 1) = true)
    (hu' : ∀ b, Fp.lt (Fp.val32 (ρ'.u b).1) (.fin 1) = true) : DrawAgree ρ ρ' m := by
  refine ⟨fun st e vec hst htr a b => ?_, fun d hd a b => ?_⟩
  · obtain ⟨t, hv, hsum⟩ := hdet.1 st hst e vec htr
    subst hv
    simp only [sampleState, sampleLoop, hsum, hu a, hu' b, if_true]
  · have := hdet.2 d hd
    unfold effRaw
    cases hc : d.constUniform with
    | none => rw [hc] at this; cases this
    | some lo => rfl

/-- `C10_deterministic`: the property as stated — for machines with deterministic sampling and
    no Signal transitions, under any random sources with draws in [0,1). -/
theorem C10_deterministic (ms ms' : List Machine) (i k : Nat) (m : Machine)
    (hm : ms[i]? = some m) (hm' : ms'[k]? = some m) (hns : NoSigTrans m) (hdet : Deterministic m)
    (hu : ∀ a, Fp.lt (Fp.val32 (ρ.u a).1) (.fin 1) = true)
    (hu' : ∀ b, Fp.lt (Fp.val32 (ρ'.u b).1) (.fin 1) = true)
    (f : Nat → Nat) (hf : ∀ x, x = i ↔ f x = k)
    (fp fb : F64) (t0 : Int) (rng : σ) (rng' : σ') (h : List Call) :
    let s := runCalls ρ (Fw.init ρ ms fp fb t0 rng) h
    let s' := runCalls ρ' (Fw.init ρ' ms' fp fb t0 rng') (mapHist f h)
    (∀ a, a ∈ s.actionsOut → a.machine = i → ∃ a', a' ∈ s'.actionsOut ∧ a'.machine = k ∧ a'.erase = a.erase) ∧
    (∀ a', a' ∈ s'.actionsOut → a'.machine = k → ∃ a, a ∈ s.actionsOut ∧ a.machine = i ∧ a.erase = a'.erase) :=
  C10_actions ρ ρ' ms ms' i k m hm hm' hns (drawAgree_of_deterministic ρ ρ' m hdet hu hu') f hf fp fb t0 rng rng' h

end

/-- Non-vacuity: the probability 1.0 (bits 0x3f800000) satisfies the "adds up to exactly 1"
    condition of `Deterministic`. -/
example : Fp.add Fp.f32 (.fin 0) (Fp.val32 0x3f800000) = .fin 1 := by decide +kernel

end Mb.C10
