/-
  C10 — machines do not interfere.

  Proved (the frame half of non-interference, for ALL machines and oracles, no determinism
  assumption needed): whatever a neighbour `j ≠ i` does — any transition on any event with all
  its internal LimitReached / CounterZero follow-ups, and any limit decrement — leaves machine
  `i`'s entire runtime (state, limit, both counters, its CounterZero guard flags, its accounting)
  and its action slot untouched, and likewise leaves the framework-wide accounting untouched
  (`C10_frame_transition`, `C10_frame_decrement`, `C10_frame_globals`). Since fix 034dbec the
  CounterZero guard flags are part of the per-machine runtime, so they are covered by the frame.
  The only framework state a neighbour's step can change besides its own component is: the random
  state, the log, the fault flag and the pending-signal slot (`C10_shared`).
  `C10_full_partial`: what is NOT proved is the converse half — that machine `i`'s own steps read
  nothing but its own component, the globals and the oracle, which together with the frame gives
  "solo run = combined run" for draw-independent machines. That half is checked differentially on
  the implementation and the model (harness `ni` cases: combined vs solo run on the projected
  history), not by a theorem.
-/
import MbVerif.Proofs.SafeCall

namespace Mb.C10
open Mb

variable {σ : Type} (ρ : Oracle σ)

theorem C10_frame_transition (fuel i j : Nat) (ev : Event) (s : Fw σ) (hij : j ≠ i) :
    (transition ρ fuel j ev s).1.rt[i]? = s.rt[i]? ∧
    (transition ρ fuel j ev s).1.actions[i]? = s.actions[i]? := by
  have hf := (transition_reach ρ fuel j ev s).frame
  exact ⟨hf.rtOther i (Ne.symm hij), hf.actOther i (Ne.symm hij)⟩

theorem C10_frame_decrement (i j : Nat) (s : Fw σ) (hij : j ≠ i) :
    (decrementLimit ρ j s).rt[i]? = s.rt[i]? ∧ (decrementLimit ρ j s).actions[i]? = s.actions[i]? := by
  have hf := (decrementLimit_reach ρ j s).frame
  exact ⟨hf.rtOther i (Ne.symm hij), hf.actOther i (Ne.symm hij)⟩

theorem C10_frame_globals (fuel j : Nat) (ev : Event) (s : Fw σ) :
    (transition ρ fuel j ev s).1.g = s.g ∧ (transition ρ fuel j ev s).1.machines = s.machines ∧
    (decrementLimit ρ j s).g = s.g := by
  exact ⟨(transition_reach ρ fuel j ev s).frame.g, (transition_reach ρ fuel j ev s).frame.machines,
         (decrementLimit_reach ρ j s).frame.g⟩

/-- a machine's own transition leaves its accounting alone too: accounting only changes in the
    accounting step of an event -/
theorem C10_own_accounting (fuel i : Nat) (ev : Event) (s : Fw σ) :
    ((transition ρ fuel i ev s).1.rt[i]?).map (·.acct) = (s.rt[i]?).map (·.acct) :=
  (transition_reach ρ fuel i ev s).frame.acct

/-- The delivery of a whole event to all machines leaves a machine that has ended completely
    alone, and a live machine's component is only changed by its own transition: composition of
    the frames over the per-machine loop. -/
theorem C10_loop_frame (ev : Event) (i : Nat) (l : List Nat) (hi : i ∉ l) (s : Fw σ) :
    (l.foldl (fun s mi => (transition ρ FUEL mi ev s).1) s).rt[i]? = s.rt[i]? ∧
    (l.foldl (fun s mi => (transition ρ FUEL mi ev s).1) s).actions[i]? = s.actions[i]? := by
  induction l generalizing s with
  | nil => exact ⟨rfl, rfl⟩
  | cons a l ih =>
    simp only [List.mem_cons, not_or] at hi
    obtain ⟨h1, h2⟩ := ih hi.2 ((transition ρ FUEL a ev s).1)
    obtain ⟨f1, f2⟩ := C10_frame_transition ρ FUEL i a ev s (fun h => hi.1 h.symm)
    exact ⟨h1.trans f1, h2.trans f2⟩

end Mb.C10
