/-
  C02 — padding budgets hold.

  `C02_single`: for every machine set, fractions, start time, oracle (all seeds / sampler
  outputs), every prior history `h` (single events or batches) and every further call that
  reports a single event `e`: if that call returns SendPadding for machine `mi`, then with the
  packet counts recomputed from the reported events alone (`C02.countPad/countNormal/countPadAll`
  over all events so far including `e`), either the machine has had fewer paddings than its
  `allowed_padding_packets`, or both its own padding fraction and the framework-wide padding
  fraction are below their limits (if set; a fraction over zero packets counts as below).
  The fraction comparison in `padOKF`/`belowF` is the one the code performs (double division of
  the two counts, `>=` against the limit). `C02_exact` turns it into the exact rational comparison
  of the specification `C02.padOK` (the monitor run on the implementation) for histories with
  fewer than 2^53 reported packets: IEEE rounding is monotone and the identity on representable
  values (the counts convert exactly, the limit is a double), so the double comparison is at
  least as strict as the exact one.
-/
import MbVerif.Proofs.C02
import MbVerif.Proofs.C02Exact

namespace Mb.C02
open Mb

variable {σ : Type} (ρ : Oracle σ)

theorem C02_single (ms : List Machine) (fp fb : F64) (t0 : Int) (rng : σ) (h : List Call) (e : TEvent) (t : Int) :
    ∀ tmo b r mi, TAction.sendPadding tmo b r mi ∈
        (triggerEvents ρ [e] t (runCalls ρ (Fw.init ρ ms fp fb t0 rng) h)).actionsOut →
      ∃ m, ms[mi]? = some m ∧
        padOKF m.allowedPaddingPackets m.maxPaddingFrac fp
          (countPad mi (events h ++ [e])) (countNormal (events h ++ [e]))
          (countPadAll (events h ++ [e])) (countNormal (events h ++ [e])) := by
  intro tmo b r mi hmem
  generalize hs1 : runCalls ρ (Fw.init ρ ms fp fb t0 rng) h = s1 at hmem
  generalize hs : triggerEvents ρ [e] t s1 = s at hmem
  -- invariants of the reached state
  have hrun1 : Run (Fw.init ρ ms fp fb t0 rng) s1 := by rw [← hs1]; exact runCalls_run ρ _ h
  have hrun : Run (Fw.init0 ms fp fb t0 rng) s := by
    rw [← hs]; exact ((init_run ρ ms fp fb t0 rng).trans hrun1).trans (triggerEvents_run ρ [e] t s1)
  have hI : Inv04 s := (Inv04.init0 ms fp fb t0 rng).run hrun
  have hm : s.machines = ms := by
    have := Run.inv (fun t : Fw σ => t.machines = (Fw.init0 ms fp fb t0 rng).machines)
      (fun a b ha hp => by
        cases hp with
        | step mi st => rw [st.frame.machines]; exact ha
        | setG => exact ha
        | setAcct => simpa using ha
        | callStart => exact ha) hrun rfl
    simpa [Fw.init0] using this
  have hslot : SlotInv QPad s := by rw [← hs]; exact triggerEvents_single_slotInv ρ gateConseq_QPad e t s1
  -- the action sits in slot `mi`
  unfold Fw.actionsOut at hmem
  rw [List.mem_filterMap] at hmem
  obtain ⟨x, hx, hxa⟩ := hmem
  simp only [id] at hxa
  subst hxa
  obtain ⟨i, hi⟩ := List.getElem?_of_mem hx
  have hmi : i = mi := ((hI.slots i _ hi).1).symm
  subst hmi
  obtain ⟨m, rr, hmm, hrr, hq⟩ := hslot i _ hi
  refine ⟨m, by rw [← hm]; exact hmm, ?_⟩
  -- accounting = recount of the history
  have hacct : Acct.ofFw s = Acct.call [e] t (Acct.history h (Acct.ofFw (Fw.init0 ms fp fb t0 rng))) := by
    rw [← hs, triggerEvents_acct, ← hs1, runCalls_acct, init_acct]
  have hcnt : CntRel (events h ++ [e]) (Acct.ofFw (Fw.init0 ms fp fb t0 rng)) (Acct.ofFw s) := by
    rw [hacct]; exact (CntRel.history h _).trans (CntRel.call [e] t _)
  have hlen : i < ms.length := by
    have h1 : i < s.rt.length := by
      rcases Nat.lt_or_ge i s.rt.length with h' | h'
      · exact h'
      · simp [List.getElem?_eq_none h'] at hrr
    rw [hI.rtLen, hm] at h1; exact h1
  have ha0 : (Acct.ofFw (Fw.init0 ms fp fb t0 rng)).2[i]? =
      some { paddingSent := 0, normalSent := 0, blockingDur := 0, machineStart := t0,
             allowedBlocked := (ms[i]'hlen).allowedBlockedMicrosec * 1000 } := by
    simp [Acct.ofFw, Fw.init0, List.getElem?_map, List.getElem?_eq_getElem hlen]
  obtain ⟨a', ha', hp', hn'⟩ := hcnt.at_ i _ ha0
  have hra : rr.acct = a' := by
    have : (Acct.ofFw s).2[i]? = some rr.acct := by simp [Acct.ofFw, List.getElem?_map, hrr]
    rw [this] at ha'; exact Option.some.inj ha'
  have hgp := hcnt.padAll
  have hgn := hcnt.normal
  have hgf := hcnt.frac
  simp only [Acct.ofFw, Fw.init0] at hgp hgn hgf
  simp only [QPad] at hq
  rw [hra, hp', hn', hgp, hgn, hgf] at hq
  simpa using hq

/-- Exact-arithmetic form: with fewer than 2^53 reported packets, a SendPadding returned by a
    single-event call satisfies the specification `C02.padOK` in exact rational arithmetic. -/
theorem C02_exact (ms : List Machine) (fp fb : F64) (t0 : Int) (rng : σ) (h : List Call) (e : TEvent) (t : Int)
    (hsmall : (events h ++ [e]).length < 2 ^ 53) :
    ∀ tmo b r mi, TAction.sendPadding tmo b r mi ∈
        (triggerEvents ρ [e] t (runCalls ρ (Fw.init ρ ms fp fb t0 rng) h)).actionsOut →
      ∃ m, ms[mi]? = some m ∧
        padOK m fp (countPad mi (events h ++ [e])) (countNormal (events h ++ [e])) (countPadAll (events h ++ [e])) = true := by
  intro tmo b r mi hmem
  obtain ⟨m, hm, hok⟩ := C02_single ρ ms fp fb t0 rng h e t tmo b r mi hmem
  refine ⟨m, hm, ?_⟩
  generalize hev : events h ++ [e] = evs at hok hsmall
  have hdisj := counts_le mi evs
  unfold padOK
  unfold padOKF at hok
  simp only [Bool.or_eq_true, Bool.and_eq_true, decide_eq_true_eq]
  rcases hok with hb | ⟨h1, h2⟩
  · exact Or.inl hb
  · right
    constructor
    · have hh := below_exact (countPad mi evs) (countNormal evs + countPad mi evs) m.maxPaddingFrac
        (by omega) (by omega) h1
      rwa [Nat.add_comm] at hh
    · exact below_exact (countPadAll evs) (countPadAll evs + countNormal evs) fp (by omega) (by omega) h2

/-- Non-vacuity of the setting: the initial accounting state of a one-machine framework. -/
example : (Acct.ofFw (Fw.init0 (σ := Unit)
    [{ allowedPaddingPackets := 1, maxPaddingFrac := 0, allowedBlockedMicrosec := 0, maxBlockingFrac := 0, states := [] }]
    0 0 0 ())).2.length = 1 := rfl

end Mb.C02
