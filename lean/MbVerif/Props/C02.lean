/-
  C02 — padding budgets hold.

  `C02_single`: for every machine set, fractions, start time, oracle (all seeds / sampler
  outputs), every prior history `h` (single events or batches) and every further call that
  reports a single event `e`: if that call returns SendPadding for machine `mi`, then with the
  packet counts recomputed from the reported events alone (`C02.countPad/countNormal/countPadAll`
  over all events so far including `e`), either the machine has had fewer paddings than its
  `allowed_padding_packets`, or both its own padding fraction and the framework-wide padding
  fraction are below their limits (if set; a fraction over zero packets counts as below).
  The fraction comparison in `padOKF`/`belowF` is the one the code performs (double division of
  the two counts, `>=` against the limit). `C02_exact` turns it into the exact rational comparison
  of the specification `C02.padOK` (the monitor run on the implementation) for histories with
  fewer than 2^53 reported packets: IEEE rounding is monotone and the identity on representable
  values (the counts convert exactly, the limit is a double), so the double comparison is at
  least as strict as the exact one.

  `C02_monitor_accepts_model`: the executable monitor `C02.monitor` (Spec/C02.lean, the one the
  driver runs on the implementation's traces) returns `none` on the model's OWN trace
  `LL.modelTrace` (the records the driver would build from the model) for every machine set,
  configuration, oracle and history — single events and batches, faulting calls included (the
  monitor stops at the first call that did not return ok) — with fewer than 2^53 reported packets.
  So the monitor cannot raise a false alarm on an implementation that agrees with the model, and
  the model satisfies the property in the monitor's own vocabulary (exact rational fractions).
  The bound is genuinely needed: `C02_monitor_rejects_beyond_2p53` is a model trace with 2^53+2
  reported packets that the monitor rejects (above 2^53 the u64 -> f64 conversion of the counts
  rounds, and the code's quotient can fall below a limit that the exact fraction has reached).
-/
import MbVerif.Proofs.C02
import MbVerif.Proofs.C02Exact
import MbVerif.Proofs.MonitorAcceptC

namespace Mb.C02
open Mb

variable {σ : Type} (ρ : Oracle σ)

theorem C02_single (ms : List Machine) (fp fb : F64) (t0 : Int) (rng : σ) (h : List Call) (e : TEvent) (t : Int) :
    ∀ tmo b r mi, TAction.sendPadding tmo b r mi ∈
        (triggerEvents ρ [e] t (runCalls ρ (Fw.init ρ ms fp fb t0 rng) h)).actionsOut →
      ∃ m, ms[mi]? = some m ∧
        padOKF m.allowedPaddingPackets m.maxPaddingFrac fp
          (countPad mi (events h ++ [e])) (countNormal (events h ++ [e]))
          (countPadAll (events h ++ [e])) (countNormal (events h ++ [e])) := by
  intro tmo b r mi hmem
  generalize hs1 : runCalls ρ (Fw.init ρ ms fp fb t0 rng) h = s1 at hmem
  generalize hs : triggerEvents ρ [e] t s1 = s at hmem
  -- invariants of the reached state
  have hrun1 : Run (Fw.init ρ ms fp fb t0 rng) s1 := by rw [← hs1]; exact runCalls_run ρ _ h
  have hrun : Run (Fw.init0 ms fp fb t0 rng) s := by
    rw [← hs]; exact ((init_run ρ ms fp fb t0 rng).trans hrun1).trans (triggerEvents_run ρ [e] t s1)
  have hI : Inv04 s := (Inv04.init0 ms fp fb t0 rng).run hrun
  have hm : s.machines = ms := by
    have := Run.inv (fun t : Fw σ => t.machines = (Fw.init0 ms fp fb t0 rng).machines)
      (fun a b ha hp => by
        cases hp with
        | step mi st => rw [st.frame.machines]; exact ha
        | setG => exact ha
        | setAcct => simpa using ha
        | callStart => exact ha) hrun rfl
    simpa [Fw.init0] using this
  have hslot : SlotInv QPad s := by rw [← hs]; exact triggerEvents_single_slotInv ρ gateConseq_QPad e t s1
  -- the action sits in slot `mi`
  unfold Fw.actionsOut at hmem
  rw [List.mem_filterMap] at hmem
  obtain ⟨x, hx, hxa⟩ := hmem
  simp only [id] at hxa
  subst hxa
  obtain ⟨i, hi⟩ := List.getElem?_of_mem hx
  have hmi : i = mi := ((hI.slots i _ hi).1).symm
  subst hmi
  obtain ⟨m, rr, hmm, hrr, hq⟩ := hslot i _ hi
  refine ⟨m, by rw [← hm]; exact hmm, ?_⟩
  -- accounting = recount of the history
  have hacct : Acct.ofFw s = Acct.call [e] t (Acct.history h (Acct.ofFw (Fw.init0 ms fp fb t0 rng))) := by
    rw [← hs, triggerEvents_acct, ← hs1, runCalls_acct, init_acct]
  have hcnt : CntRel (events h ++ [e]) (Acct.ofFw (Fw.init0 ms fp fb t0 rng)) (Acct.ofFw s) := by
    rw [hacct]; exact (CntRel.history h _).trans (CntRel.call [e] t _)
  have hlen : i < ms.length := by
    have h1 : i < s.rt.length := by
      rcases Nat.lt_or_ge i s.rt.length with h' | h'
      · exact h'
      · simp [List.getElem?_eq_none h'] at hrr
    rw [hI.rtLen, hm] at h1; exact h1
  have ha0 : (Acct.ofFw (Fw.init0 ms fp fb t0 rng)).2[i]? =
      some { paddingSent := 0, normalSent := 0, blockingDur := 0, machineStart := t0,
             allowedBlocked := (ms[i]'hlen).allowedBlockedMicrosec * 1000 } := by
    simp [Acct.ofFw, Fw.init0, List.getElem?_map, List.getElem?_eq_getElem hlen]
  obtain ⟨a', ha', hp', hn'⟩ := hcnt.at_ i _ ha0
  have hra : rr.acct = a' := by
    have : (Acct.ofFw s).2[i]? = some rr.acct := by simp [Acct.ofFw, List.getElem?_map, hrr]
    rw [this] at ha'; exact Option.some.inj ha'
  have hgp := hcnt.padAll
  have hgn := hcnt.normal
  have hgf := hcnt.frac
  simp only [Acct.ofFw, Fw.init0] at hgp hgn hgf
  simp only [QPad] at hq
  rw [hra, hp', hn', hgp, hgn, hgf] at hq
  simpa using hq

/-- Exact-arithmetic form: with fewer than 2^53 reported packets, a SendPadding returned by a
    single-event call satisfies the specification `C02.padOK` in exact rational arithmetic. -/
theorem C02_exact (ms : List Machine) (fp fb : F64) (t0 : Int) (rng : σ) (h : List Call) (e : TEvent) (t : Int)
    (hsmall : (events h ++ [e]).length < 2 ^ 53) :
    ∀ tmo b r mi, TAction.sendPadding tmo b r mi ∈
        (triggerEvents ρ [e] t (runCalls ρ (Fw.init ρ ms fp fb t0 rng) h)).actionsOut →
      ∃ m, ms[mi]? = some m ∧
        padOK m fp (countPad mi (events h ++ [e])) (countNormal (events h ++ [e])) (countPadAll (events h ++ [e])) = true := by
  intro tmo b r mi hmem
  obtain ⟨m, hm, hok⟩ := C02_single ρ ms fp fb t0 rng h e t tmo b r mi hmem
  refine ⟨m, hm, ?_⟩
  generalize hev : events h ++ [e] = evs at hok hsmall
  have hdisj := counts_le mi evs
  unfold padOK
  unfold padOKF at hok
  simp only [Bool.or_eq_true, Bool.and_eq_true, decide_eq_true_eq]
  rcases hok with hb | ⟨h1, h2⟩
  · exact Or.inl hb
  · right
    constructor
    · have hh := below_exact (countPad mi evs) (countNormal evs + countPad mi evs) m.maxPaddingFrac
        (by omega) (by omega) h1
      rwa [Nat.add_comm] at hh
    · exact below_exact (countPadAll evs) (countPadAll evs + countNormal evs) fp (by omega) (by omega) h2

/-- Non-vacuity of the setting: the initial accounting state of a one-machine framework. -/
example : (Acct.ofFw (Fw.init0 (σ := Unit)
    [{ allowedPaddingPackets := 1, maxPaddingFrac := 0, allowedBlockedMicrosec := 0, maxBlockingFrac := 0, states := [] }]
    0 0 0 ())).2.length = 1 := rfl

/-! ### the monitor on the model's own trace -/

/-- **`C02.monitor` accepts the model's own trace**: for every machine set, fractions, start time,
    oracle and history of calls (single events and batches, arbitrary clocks, faulting calls) the
    monitor applied to the trace of the model (`LL.modelTrace`: per call the events, outcome,
    returned actions, snapshot and log, as the driver records them) reports no violation.

    Hypothesis `hsmall` (fewer than 2^53 reported packets, `NormalSent` or `PaddingSent` with any id,
    in the whole history): the monitor compares exact rational fractions, the model (like the code)
    divides the two counts as doubles; the two agree as long as the counts convert exactly
    (`below_exact`). Beyond that the double test can pass where the exact one fails: see
    `C02_monitor_rejects_beyond_2p53` below. No other hypothesis: machines need not be validated,
    and the recount of the monitor covers batches and unknown ids exactly as the accounting does. -/
theorem C02_monitor_accepts_model (ms : List Machine) (fp fb : F64) (t0 : Int) (rng : σ) (h : List Call)
    (hsmall : countPadAll (events h) + countNormal (events h) < 2 ^ 53) :
    monitor (LL.modelTrace ρ ms fp fb t0 rng h) = none :=
  C02acc.monitor_model ρ ms fp fb t0 rng h hsmall

section MonitorDemo

private def dZero : Dist := { dist := .uniform 0 0, start := 0, max := 0 }
/-- the double 0.5 -/
private def half : F64 := 4602678819172646912
/-- the largest double below 1, 1 - 2^-53 -/
private def belowOne : F64 := 4607182418800017407
/-- one state: SendPadding; NormalSent (event 3) and PaddingSent (event 4) lead back to it -/
private def pSt : State :=
  { action := some (.sendPadding false false dZero none), counterA := none, counterB := none,
    transitions := ((List.replicate 13 none).set 3 (some [{ target := 0, prob := 1065353216 }])).set 4
      (some [{ target := 0, prob := 1065353216 }]) }
/-- budget of one padding packet, padding fraction 0.5 -/
private def pM : Machine :=
  { allowedPaddingPackets := 1, maxPaddingFrac := half, allowedBlockedMicrosec := 0, maxBlockingFrac := 0,
    states := [pSt] }
private def dρ : Oracle Unit := { u := fun _ => (0, ()), d := fun _ _ => (0, ()) }
/-- framework-wide fraction 0.5 as well -/
private def pTrace : FwTrace :=
  LL.modelTrace dρ [pM] half 0 0 () [([.normalSent], 10), ([.paddingSent 0], 20), ([.normalSent, .normalSent], 30),
    ([.normalSent], 40), ([.paddingSent 0], 50), ([.paddingSent 5], 60), ([.normalSent], 70)]

/-- Non-vacuity of `C02_monitor_accepts_model`: no call faults, so the monitor walks all seven.
    Call 1 pads within the budget; call 2 (the machine's own PaddingSent: 1 of 2 packets, fraction
    exactly 0.5) is denied; call 3 is a batch (recounted, not tested); calls 4, 5 and 7 pad with the
    budget used up, i.e. on the fraction branch (1/5, 2/5, 2/6 and framework-wide 3/7); call 6 is a
    PaddingSent for an id no machine has (counted framework-wide only). The monitor accepts; it
    rejects the same trace when call 2 is made to return a SendPadding, does not test that action
    in the batch call 3, and stops at a call that did not return ok. -/
example : pTrace.calls.map (·.res) = [.ok, .ok, .ok, .ok, .ok, .ok, .ok] ∧
    pTrace.calls.map (·.actions) =
      [[.sendPadding 0 false false 0], [], [.sendPadding 0 false false 0], [.sendPadding 0 false false 0],
       [.sendPadding 0 false false 0], [], [.sendPadding 0 false false 0]] ∧
    monitor pTrace = none ∧
    (padOK pM half 1 4 1 = true ∧ decide (1 < pM.allowedPaddingPackets) = false) ∧
    (monitor { pTrace with calls := pTrace.calls.mapIdx (fun i c =>
        if i = 1 then { c with actions := [.sendPadding 0 false false 0] } else c) }).isSome = true ∧
    monitor { pTrace with calls := pTrace.calls.mapIdx (fun i c =>
        if i = 2 then { c with actions := [.sendPadding 0 false false 0, .sendPadding 0 false false 0] } else c) } = none ∧
    monitor { pTrace with calls := pTrace.calls.mapIdx (fun i c =>
        if i = 0 then { c with res := .panic "x" }
        else if i = 1 then { c with actions := [.sendPadding 0 false false 0] } else c) } = none := by
  decide +kernel

/-- no budget, no machine fraction; the framework-wide fraction is 1 - 2^-53 -/
private def wM : Machine :=
  { allowedPaddingPackets := 0, maxPaddingFrac := 0, allowedBlockedMicrosec := 0, maxBlockingFrac := 0,
    states := [pSt] }

/-- The comparison itself at 2^53+1 paddings of 2^53+2 packets and the limit 1 - 2^-53: the
    numerator rounds to 2^53, the double quotient is 1 - 2^-52 < limit, the exact fraction
    1 - 1/(2^53+2) has reached the limit. -/
example : belowF (2 ^ 53 + 1) (2 ^ 53 + 2) belowOne = true ∧ below (2 ^ 53 + 1) (2 ^ 53 + 2) belowOne = false := by
  decide +kernel

/-- **The bound 2^53 in `C02_monitor_accepts_model` cannot be dropped**: one machine without budget,
    framework-wide padding fraction 1 - 2^-53; a batch of 2^53+1 PaddingSent reports for the unused id
    7 (the state after it is computed symbolically, `C02acc.triggerEvents_pad_unknown`), then one
    NormalSent: the model returns SendPadding (kernel-evaluated from the explicit state), and the
    monitor rejects the call: the exact fraction (2^53+1)/(2^53+2) has reached the limit. The model
    mirrors the code's `padding_sent as f64 / total as f64`, so this is also how the code behaves
    after 2^53 packets; the u64 counters cannot get there in any real run. -/
theorem C02_monitor_rejects_beyond_2p53 :
    monitor (LL.modelTrace dρ [wM] belowOne 0 0 ()
      [(List.replicate (2 ^ 53 + 1) (.paddingSent 7), 10), ([.normalSent], 20)]) ≠ none := by
  refine C02acc.reject_big dρ [wM] belowOne 0 0 () (2 ^ 53 + 1) 7 10 20 .normalSent 0 false false 0 wM
    (by decide) (by decide) (by decide +kernel) (by decide +kernel) (by decide +kernel) (by decide +kernel)
    rfl (by decide) (by decide +kernel)

end MonitorDemo

end Mb.C02
