/-
  C17 — action timers.  Theorems about the model's action-timer slots against the contract
  function `C17.slotSpec` written from the property text:

  * `C17_slot_update`: storing a returned action is exactly `slotSpec` on the slot of the action's
    machine (newer action overwrites, Cancel Action/All clears, Cancel Internal / UpdateTimer
    leave it) and no other slot changes;
  * `C17_fires_at_due_once`: executing a scheduled action picks a slot whose due time is the
    target, emits its event (PaddingSent / BlockingBegin for the slot's machine, with the
    action's flags) stamped with exactly that due time, and empties the slot — so it fires once;
  * `C17_pending_never_in_past`, `C17_next_event_before_pending`: trace-level liveness as an
    inductive invariant of the main loop — simulated time never moves past a pending action
    timer or internal timer;
  * `C17_executed_when_strictly_earliest`: the accurate description of selection-time execution
    (S1): an action is executed exactly when it is strictly the earliest candidate, with its
    event stamped with the due time;
  * `C17_served_before_due`, `C17_stored_not_in_past`: the liveness core — the next served offset
    is at most the offset of every pending action, and stored due times start at or after the
    clock;
  * `C17_due_not_skipped`: the offset `pick_next` computes for scheduled actions is the smallest
    pending due time at or after the clock; no candidate it serves first is later than it.
-/
import MbVerif.Proofs.SimFuture
import MbVerif.Spec.C17

namespace Mb.C17
open Mb Mb.Sim

/-- the model's slot seen as the property's pending action timer -/
def pend : Option SchedAction → Option Pending
  | some a => some ⟨a.action, a.time⟩
  | none => none

variable {σ : Type}

/-- **Slot update is the contract.** -/
theorem C17_slot_update (sd sd' : Side σ) (sq sq' : SimQueue) (now : Int) (cl : Bool) (a : TAction)
    (h : applyAction sd sq now cl a = .ok (sd', sq')) :
    sd'.schedAction.map pend =
      (sd.schedAction.map pend).set a.machine (slotSpec (pend (sd.schedAction[a.machine]?.join)) now a) :=
  applyAction_slot h (by intro x; cases x <;> rfl)

/-- **Fires at the due time, once.** -/
theorem C17_fires_at_due_once (st st' : St σ) (target : Int) (e : SimEvent)
    (h : doScheduledAction st target = .ok (e, st')) :
    e.time = target ∧ ∃ i a, (st.side e.client).schedAction[i]? = some (some a) ∧ a.time = target ∧
      (st'.side e.client).schedAction = (st.side e.client).schedAction.set i none ∧
      ((∃ to b r m, a.action = .sendPadding to b r m ∧ e.event = .paddingSent m ∧ e.bypass = b ∧ e.replace = r) ∨
       (∃ to d b r m, a.action = .blockOutgoing to d b r m ∧ e.event = .blockingBegin m)) :=
  doScheduledAction_event h

/-- **A due action is not skipped**: the scheduled-action offset is a lower bound for every
    pending slot at or after the clock. -/
theorem C17_due_not_skipped (c s : List (Option SchedAction)) (now : Int) (a : SchedAction)
    (hm : some a ∈ c ∨ some a ∈ s) (hn : now ≤ a.time) :
    peekScheduledAction c s now ≤ dsince a.time now :=
  peekScheduledAction_le_mem c s now a hm hn

/-- **Served before it is due**: whatever `pick_next` decides to serve next (blocking expiry,
    queued event, internal timer or scheduled action), its offset from the clock is at most the
    offset of every pending action timer that is not in the past; so simulated time cannot move
    past a pending action before it is executed. -/
theorem C17_served_before_due (st : St σ) (p : Pick) (o : Nat) (h : pickDecide st = .ok p) (ho : p.offset = some o)
    (a : SchedAction) (hm : some a ∈ st.client.schedAction ∨ some a ∈ st.server.schedAction) (hn : st.now ≤ a.time) :
    o ≤ dsince a.time st.now :=
  served_before_action h ho a hm hn

/-- a stored action is never in the past when it is stored: its due time is the clock plus the
    timeout -/
theorem C17_stored_not_in_past (cur : Option Pending) (t : Int) (a : TAction) (p : Pending)
    (h : slotSpec cur t a = some p) (hc : ∀ q, cur = some q → t ≤ q.due) : t ≤ p.due := by
  cases a with
  | cancel m tm => cases tm <;> simp [slotSpec] at h; exact hc p h
  | sendPadding to b r m => simp [slotSpec] at h; rw [← h]; simp; omega
  | blockOutgoing to d b r m => simp [slotSpec] at h; rw [← h]; simp; omega
  | updateTimer d r m => simp [slotSpec] at h; exact hc p h

/-- **Simulated time never moves past a pending action timer or internal timer** (trace level, as
    an inductive invariant of the main loop): the state `sim_advanced` starts from has no pending
    timer, and if all pending timers are at or after the clock they still are after any iteration
    of the main loop (for an event within `Duration::MAX` of the clock, which `std::time::Instant`
    guarantees).  Hence an action that has not been superseded is never left behind by the clock:
    it stays pending at or after `now` until `pick_next` executes it. -/
theorem C17_pending_never_in_past (ρ : Oracle σ) :
    (∀ mc ms sq a orc st, initState ρ mc ms sq a orc = .ok st → FutureOK st) ∧
    (∀ (st st' : St σ) (r : StepRec), st.sq.WF → FutureOK st → step ρ st = .ok (some (r, st')) →
      r.ev.time - st.now < durMax → FutureOK st' ∧ st'.sq.WF) :=
  ⟨fun _ _ _ _ _ _ h => initState_future ρ h,
   fun _ _ _ hw hf h hreal => ⟨step_future ρ hw hf h hreal, (step_conserve ρ hw h).1⟩⟩

/-- **When exactly an action is executed (the accurate statement behind S1).**  `pick_next`
    executes a scheduled action — clears its slot, applies a BlockOutgoing to the blocking state,
    and queues its PaddingSent / BlockingBegin stamped with the slot's *due* time — precisely when
    the earliest pending action is strictly earlier than every other candidate it sees: the
    earliest internal timer, the blocking expiry, the pending aggregate delay and the queue
    offset.  This happens at *selection* time, i.e. possibly while the clock is still before the
    due time (it is the code's behaviour; the contract's "on expiry" is S1's deviation). -/
theorem C17_executed_when_strictly_earliest (st : St σ) (s : Nat) (h : pickDecide st = .ok (.action s)) :
    s = peekScheduledAction st.client.schedAction st.server.schedAction st.now ∧
    s < peekScheduledInternalTimer st.client.schedTimer st.server.schedTimer st.now ∧
    s < (peekBlockedExp st.client.blockingUntil st.server.blockingUntil st.now).1 ∧
    s < st.net.peekAggregateDelay st.now ∧
    ∃ e q qid c, peekQueue st e = .ok (q, qid, c) ∧ s < q :=
  pickDecide_action_strict h

/-- **The event returned next is not later than any timer that is still pending**, so the
    clock (which becomes the event's time) cannot pass one. -/
theorem C17_next_event_before_pending (fuel : Nat) (st st' : St σ) (e : SimEvent) (hw : st.sq.WF) (hf : FutureOK st)
    (h : pickNext fuel st = some (.ok (some e, st'))) (hreal : e.time - st.now < durMax) :
    (∀ a, (some a ∈ st'.client.schedAction ∨ some a ∈ st'.server.schedAction) → e.time ≤ a.time) ∧
    (∀ t, (some t ∈ st'.client.schedTimer ∨ some t ∈ st'.server.schedTimer) → e.time ≤ t) :=
  (pickNext_before_pending fuel st st' e hw hf h hreal).2

/-- non-vacuity: a one-slot side on which a padding action is stored -/
example : slotSpec none 5 (.sendPadding 3 true false 0) = some ⟨.sendPadding 3 true false 0, 3005⟩ := by decide

end Mb.C17
