/-
  C18 — internal timers: the model's `timerUpdate` (the UpdateTimer arm of `trigger_update`)
  against the contract function `C18.timerSpec` written from the property text.  Since the fix
  of F10 in /repo (no timer running always sets the timer) the two agree unconditionally
  (`C18_timerUpdate_spec`); `C18_timerUpdate_zero_sets` is the regression lemma.
-/
import MbVerif.Proofs.SimFuture
import MbVerif.Spec.C18

namespace Mb.C18
open Mb Mb.Sim

/-- The simulator's timer update *is* the contract: the stored expiry and the "TimerBegin now"
    decision agree with `timerSpec` for every current timer value, clock, duration (including 0)
    and replace flag. -/
theorem C18_timerUpdate_spec (cur : Option Int) (now : Int) (durNs : Nat) (replace : Bool) :
    timerUpdate cur now durNs replace = timerSpec cur now durNs replace := by
  unfold timerUpdate timerSpec
  cases cur with
  | some exp =>
    by_cases hr : replace = true
    · simp [hr]
    · have hr' : replace = false := by cases replace <;> simp_all
      by_cases hlt : exp < now + (durNs : Int)
      · simp [hr', hlt]
      · simp [hr', hlt]
  | none => simp

/-- Regression of F10: with no timer running, a zero-duration UpdateTimer without replace sets
    the timer (expiring at once) and reports TimerBegin, as the contract demands. -/
theorem C18_timerUpdate_zero_sets (now : Int) :
    timerUpdate none now 0 false = (some now, true) ∧ timerSpec none now 0 false = (some now, true) := by
  constructor
  · simp [timerUpdate]
  · simp [timerSpec]

/-- TimerBegin is pushed by `applyAction` only from the UpdateTimer arm, stamped with the current
    time, for the machine of the action and on the side of the caller. -/
theorem C18_timerBegin_only_from_update {σ : Type} (sd sd' : Side σ) (sq sq' : SimQueue) (now : Int)
    (cl : Bool) (a : TAction) (h : applyAction sd sq now cl a = .ok (sd', sq')) :
    sq' = sq ∨ ∃ d r m, a = .updateTimer d r m ∧ (timerUpdate (sd.schedTimer[m]?.join) now (d * 1000) r).2 = true
      ∧ sq' = sq.pushSim ⟨.timerBegin m, now, cl, false, false, false⟩ := by
  cases a with
  | cancel m t =>
    left
    simp only [applyAction] at h
    split at h
    · cases h
    · split at h
      · cases h
      · cases t <;> simp at h <;> exact h.2.symm
  | sendPadding to b r m =>
    left
    simp only [applyAction] at h
    split at h
    · cases h
    · simp at h; exact h.2.symm
  | blockOutgoing to d b r m =>
    left
    simp only [applyAction] at h
    split at h
    · cases h
    · simp at h; exact h.2.symm
  | updateTimer d r m =>
    simp only [applyAction] at h
    cases hc : sd.schedTimer[m]? with
    | none => simp [hc] at h
    | some cur =>
      simp only [hc] at h
      by_cases hb : (timerUpdate cur now (d * 1000) r).2 = true
      · right
        refine ⟨d, r, m, rfl, ?_, ?_⟩
        · simpa [hc] using hb
        · simp [hb] at h
          exact h.2.symm
      · left
        simp [hb] at h
        exact h.2.symm

/-- **TimerEnd exactly at the stored expiry, once**: firing an internal timer picks a slot whose
    stored expiry is the target, emits TimerEnd for that machine and side stamped with exactly
    that expiry, and empties the slot. -/
theorem C18_timerEnd_at_expiry_once {σ : Type} (st st' : St σ) (target : Int) (e : SimEvent)
    (h : doInternalTimer st target = .ok (e, st')) :
    e.time = target ∧ ∃ m, e.event = .timerEnd m ∧ (st.side e.client).schedTimer[m]? = some (some target) ∧
      (st'.side e.client).schedTimer = (st.side e.client).schedTimer.set m none := by
  unfold doInternalTimer at h
  split at h
  · rename_i id a hf
    cases h
    obtain ⟨k, hk, hl⟩ := findSlot_spec _ _ _ _ _ hf
    have hp := findSlot_sat _ _ _ _ _ hf
    rw [Nat.zero_add] at hk
    subst hk
    have ha : a = target := by simpa using hp
    subst ha
    exact ⟨rfl, id, rfl, by simpa [St.side] using hl, by simp [St.side]⟩
  · split at h
    · rename_i id a hf
      cases h
      obtain ⟨k, hk, hl⟩ := findSlot_spec _ _ _ _ _ hf
      have hp := findSlot_sat _ _ _ _ _ hf
      rw [Nat.zero_add] at hk
      subst hk
      have ha : a = target := by simpa using hp
      subst ha
      exact ⟨rfl, id, rfl, by simpa [St.side] using hl, by simp [St.side]⟩
    · cases h

/-- **The timer that is due is the one that ends**: when `pick_next` decides for the internal
    timer branch with offset `i`, a timer with expiry `now + i` exists and is found. -/
theorem C18_due_timer_found {σ : Type} (st : St σ) (i : Nat) (h : pickDecide st = .ok (.timer i)) :
    doInternalTimer st (st.now + i) ≠ .error .noInternal :=
  doInternalTimer_found h

/-- **Served before it expires**: the offset `pick_next` serves next is at most the offset of
    every running internal timer that is not in the past, so no expiry is skipped. -/
theorem C18_served_before_expiry {σ : Type} (st : St σ) (p : Pick) (o : Nat) (h : pickDecide st = .ok p)
    (ho : p.offset = some o) (t : Int) (hm : some t ∈ st.client.schedTimer ∨ some t ∈ st.server.schedTimer)
    (hn : st.now ≤ t) : o ≤ dsince t st.now :=
  served_before_timer h ho t hm hn

/-- **Simulated time never moves past a running internal timer** (trace level): the invariant
    `FutureOK` (all pending action timers and internal timers at or after the clock) holds
    initially and is kept by every iteration of the main loop. -/
theorem C18_running_timer_never_in_past {σ : Type} (ρ : Oracle σ) (st st' : St σ) (r : StepRec) (hw : st.sq.WF)
    (hf : FutureOK st) (h : step ρ st = .ok (some (r, st'))) (hreal : r.ev.time - st.now < durMax) :
    ∀ t, (some t ∈ st'.client.schedTimer ∨ some t ∈ st'.server.schedTimer) → st'.now ≤ t := by
  have := step_future ρ hw hf h hreal
  intro t ht
  rcases ht with ht | ht
  · exact this.timC t ht
  · exact this.timS t ht

/-- **Cancel clears**: after `Cancel Internal` / `Cancel All` the machine's timer slot is empty, so
    no TimerEnd can be produced for it until a new UpdateTimer. -/
theorem C18_cancel_clears {σ : Type} (sd sd' : Side σ) (sq sq' : SimQueue) (now : Int) (cl : Bool) (m : Nat) (t : Timer)
    (ht : t = .internal ∨ t = .all) (h : applyAction sd sq now cl (.cancel m t) = .ok (sd', sq')) :
    sd'.schedTimer = sd.schedTimer.set m none := by
  simp only [applyAction] at h
  split at h
  · cases h
  · split at h
    · cases h
    · rcases ht with ht | ht <;> subst ht <;> simp at h <;> rw [← h.1]

/-- non-vacuity of `C18_timerUpdate_spec`: a running timer extended by a longer duration -/
example : timerUpdate (some 5) 3 10 false = (some 13, true) := by decide

end Mb.C18
