/-
  C16 — blocking is honoured.  Theorems about the model's blocking machinery against the
  contract function `C16.blockSpec` written from the property text:

  * `C16_blockUpdate_expiry`: the new blocking expiry computed by `do_scheduled_action` is the
    contract's (replace ⇒ `t+dur`, otherwise the longer of the two), away from the
    zero-duration corner;
  * `C16_blockUpdate_flag_partial`: the bypassable flag agrees with "every action that started or
    updated the blocking allowed bypass" as long as the blocking was bypassable so far (or is new);
  * `C16_flag_deviation_iff`: F7 characterised exactly — the code's flag differs from the
    property's iff a bypass action updates a blocking that did not allow bypass;
  * `C16_flag_deviates` (F7) and `C16_zero_duration_deviates` (F11): the two corners where the
    code is *not* the contract, as theorems about the model (the monitor reports them on the
    implementation);
  * `C16_no_leak`: the fail-closed argument — whenever the queue branch of `pick_next` pops a
    TunnelSent of a side whose blocking is active, the packet carries the bypass flag and that
    side's blocking is bypassable (given the routing invariant `SimQueue.WF`, which
    `C16_queues_wellformed` shows to hold initially and after every iteration);
  * `C16_blockingBegin_at_due`: BlockingBegin is stamped with the action's due time;
  * `C16_blockingEnd_at_expiry`: the blocking-expiry branch of `pick_next` is the only place the
    expiry is cleared by time; it emits one BlockingEnd for that side stamped with the expiry.
-/
import MbVerif.Proofs.SimNoLeak
import MbVerif.Spec.C16

namespace Mb.C16
open Mb Mb.Sim

/-- the model's (expiry, bypassable) pair seen as the property's blocking state -/
def codeState (cur : Option Blk) : Option Int × Bool := (cur.map (·.expiry), (cur.map (·.allBypass)).getD false)

/-- **Expiry rule.** -/
theorem C16_blockUpdate_expiry (cur : Option Blk) (t : Int) (durNs : Nat) (bypass replace : Bool)
    (h : cur.isSome ∨ 0 < durNs ∨ replace = true) :
    (blockUpdate (codeState cur).1 (codeState cur).2 t durNs bypass replace).1 =
      (blockSpec cur t durNs bypass replace).map (·.expiry) := by
  cases cur with
  | none =>
    cases replace with
    | true => simp [blockUpdate, blockSpec, codeState]
    | false =>
      have hd : 0 < durNs := by
        rcases h with h | h | h
        · simp at h
        · exact h
        · simp at h
      have : t + (durNs : Int) > t := by omega
      simp [blockUpdate, blockSpec, codeState, this]
  | some b =>
    cases replace with
    | true => simp [blockUpdate, blockSpec, codeState]
    | false =>
      by_cases hg : t + (durNs : Int) > b.expiry
      · simp [blockUpdate, blockSpec, codeState, hg]
      · simp [blockUpdate, blockSpec, codeState, hg]

/-- **Bypass flag, reachable part.**  As long as the blocking is new or every earlier action
    allowed bypass, the code's flag is the property's "all allowed bypass". -/
theorem C16_blockUpdate_flag_partial (cur : Option Blk) (t : Int) (durNs : Nat) (bypass replace : Bool)
    (h : cur.isSome ∨ 0 < durNs ∨ replace = true) (hall : ∀ b, cur = some b → b.allBypass = true) :
    some (blockUpdate (codeState cur).1 (codeState cur).2 t durNs bypass replace).2 =
      (blockSpec cur t durNs bypass replace).map (·.allBypass) := by
  cases cur with
  | none =>
    cases replace with
    | true => simp [blockUpdate, blockSpec, codeState]
    | false =>
      have hd : 0 < durNs := by
        rcases h with h | h | h
        · simp at h
        · exact h
        · simp at h
      have : t + (durNs : Int) > t := by omega
      simp [blockUpdate, blockSpec, codeState, this]
  | some b =>
    have hb := hall b rfl
    cases replace with
    | true => simp [blockUpdate, blockSpec, codeState, hb]
    | false =>
      by_cases hg : t + (durNs : Int) > b.expiry
      · simp [blockUpdate, blockSpec, codeState, hg, hb]
      · simp [blockUpdate, blockSpec, codeState, hg, hb]

/-- **F7 characterised exactly.**  Starting from a state in which the code's flag agrees with the
    property's "all allowed bypass", one due BlockOutgoing makes them disagree *iff* it is a bypass
    action that updates (replaces or extends) a blocking that did not allow bypass: the code's
    rule sets the flag to the bypass of the latest updating action (as the API contract words it),
    the property's keeps it false. -/
theorem C16_flag_deviation_iff (cur : Option Blk) (t : Int) (durNs : Nat) (bypass replace : Bool)
    (h : cur.isSome ∨ 0 < durNs ∨ replace = true) :
    (some (blockUpdate (codeState cur).1 (codeState cur).2 t durNs bypass replace).2 ≠
        (blockSpec cur t durNs bypass replace).map (·.allBypass)) ↔
    ∃ b, cur = some b ∧ b.allBypass = false ∧ bypass = true ∧ (replace = true ∨ t + (durNs : Int) > b.expiry) := by
  cases cur with
  | none =>
    have := C16_blockUpdate_flag_partial none t durNs bypass replace h (by intro b hb; cases hb)
    constructor
    · intro hne; exact absurd this hne
    · rintro ⟨b, hb, _⟩; cases hb
  | some b =>
    cases hab : b.allBypass with
    | true =>
      have := C16_blockUpdate_flag_partial (some b) t durNs bypass replace h (by intro b' hb'; cases hb'; exact hab)
      constructor
      · intro hne; exact absurd this hne
      · rintro ⟨b', hb', hf, _⟩; cases hb'; rw [hab] at hf; cases hf
    | false =>
      cases replace with
      | true =>
        cases bypass <;> simp [blockUpdate, blockSpec, codeState, hab]
      | false =>
        by_cases hg : t + (durNs : Int) > b.expiry
        · cases bypass <;> simp [blockUpdate, blockSpec, codeState, hab, hg]
        · cases bypass <;> simp [blockUpdate, blockSpec, codeState, hab, hg]

/-- **F7 as a theorem about the model**: a non-bypassable blocking extended by a bypass action
    becomes bypassable in the code, but not under the property. -/
theorem C16_flag_deviates :
    (blockUpdate (some 10) false 0 20 true false).2 = true ∧
    (blockSpec (some ⟨10, false, 0⟩) 0 20 true false).map (·.allBypass) = some false := by
  constructor <;> decide

/-- **F11 as a theorem about the model**: with no blocking active, a zero-duration BlockOutgoing
    without replace starts no blocking in the code (yet BlockingBegin is reported), whereas the
    property has a blocking that expires at once and must be ended. -/
theorem C16_zero_duration_deviates (t : Int) (bypass : Bool) :
    (blockUpdate none false t 0 bypass false).1 = none ∧
    (blockSpec none t 0 bypass false).map (·.expiry) = some t := by
  constructor
  · simp [blockUpdate]
  · simp [blockSpec]

variable {σ : Type}

/-- **BlockingBegin at issue + timeout**: executing a due action emits its event stamped with
    the slot's due time, on the slot's side, and empties exactly that slot. -/
theorem C16_blockingBegin_at_due (st st' : St σ) (target : Int) (e : SimEvent)
    (h : doScheduledAction st target = .ok (e, st')) :
    e.time = target ∧ ∃ i a, (st.side e.client).schedAction[i]? = some (some a) ∧ a.time = target ∧
      (st'.side e.client).schedAction = (st.side e.client).schedAction.set i none :=
  doScheduledAction_spec h

/-- **BlockingEnd exactly at the expiry**: when `pick_next` takes the blocking-expiry branch for
    side `c`, that side is blocked until some `u`; the branch clears the expiry and returns one
    BlockingEnd for that side, stamped with `u` (for `now ≤ u`, as always holds: see C19). -/
theorem C16_blockingEnd_at_expiry (st st' : St σ) (b : Nat) (c : Bool) (e : SimEvent)
    (hd : pickDecide st = .ok (.blockExp b c)) (hp : pickBlockExp st b c = .ok (e, st'))
    (hsome : (st.side c).blockingUntil.isSome) :
    e.event = .blockingEnd ∧ e.client = c ∧ (st'.side c).blockingUntil = none ∧
    ∃ u, (st.side c).blockingUntil = some u ∧ (st.now ≤ u → u - st.now ≤ durMax → e.time = u) :=
  pickBlockExp_spec hd hp hsome

/-- **No leak** (fail closed): a TunnelSent popped on a side with active blocking has the bypass
    flag, and the side's blocking is bypassable. -/
theorem C16_no_leak (st st' : St σ) (q : Nat) (qid : Queue) (c : Bool) (e : SimEvent) (u : Int)
    (hw : st.sq.WF) (hd : pickDecide st = .ok (.queue q qid c)) (hp : pickQueue st q qid c = .ok (e, st'))
    (hts : e.event = .tunnelSent) (hblk : (st.side e.client).blockingUntil = some u) :
    e.bypass = true ∧ (st.side e.client).blockingBypassable = true :=
  pickQueue_no_leak hw hd hp (by simp [isTS, hts]) hblk

/-- the routing invariant the no-leak lemma needs holds for every parsed trace and is kept by
    every iteration of the main loop -/
theorem C16_queues_wellformed (ρ : Oracle σ) :
    (∀ trace delay, (parseTrace trace delay).WF) ∧
    (∀ (st st' : St σ) (r : StepRec), st.sq.WF → step ρ st = .ok (some (r, st')) → st'.sq.WF) :=
  ⟨fun trace delay => (parseTrace_spec trace delay).1, fun _ _ _ hw h => (step_conserve ρ hw h).1⟩

/-- non-vacuity of the conditional theorems: a running non-replace extension -/
example : blockUpdate (some 10) true 0 20 true false = (some 20, true) := by decide

end Mb.C16
