/-
  C15 — conservation and causality.  Theorems about the model:

  * `C15_trace_sorted`, `C15_final_sort_identity`: recorded times are the monotone clock, so the
    returned trace is ordered and the final stable sort changes nothing;
  * `C15_one_recv_per_send`: the only place a TunnelRecv is queued is the TunnelSent arm of the
    network stack, which queues exactly one, on the other side, of the same kind (normal /
    padding), at least one configured network delay after the send;
  * `C15_normal_sent_to_tunnel`: a base NormalSent queues exactly one normal TunnelSent for the
    same side at the same time;
  * `C15_padding_never_creates_normal`: the PaddingSent arm queues a *padding* TunnelSent, or
    nothing (padding replaced by an already queued normal packet), or pops one queued packet and
    re-queues that same packet re-flagged: normal packets are never created or duplicated there.
  * `C15_conservation`: for a parsed trace, on each side the number of normal TunnelSent events
    the main loop processes never exceeds that side's share of the input, and equals it when the
    run ends because all normal packets were processed (proved through a counting invariant over
    the bit-faithful heap model: `push` adds exactly the pushed element, `pop` removes exactly
    the returned one);
  * `C15_causality`, `C15_causality_trace`: causality at trace level in Hall form — for every
    instant `T`, receipts of a kind on a side up to `T` are at most the sends of that kind on the
    other side up to `T − delay` (equivalent, for the time-ordered trace, to an injection into
    distinct earlier sends at least one delay before);
  * `C15_conservation_trace`: the same statement on the returned unfiltered trace, in the
    vocabulary of the monitor (`normalSentCount`, `share`).
  * `C15_monitor_accepts_model_partial`, `C15_monitor_accepts_model`: **the monitor accepts the
    model's own observation** (`modelObs`: what the driver compares the implementation with) —
    for every case, run, oracle and budget, under the guard that a run ending because `pick_next`
    returned `None` left no normal packet queued; the guard follows from the input bounds of
    `C19_total` (second theorem, no hypothesis about the run) and is needed:
    `C15_monitor_rejects_unreachable_packet` is a model observation the monitor rejects (a packet
    `Duration::MAX` after the clock, outside the u64-nanosecond range of trace files).
-/
import MbVerif.Proofs.SimMatch
import MbVerif.Proofs.SimRaw
import MbVerif.Proofs.SimMonitorAccept
import MbVerif.Spec.C15

namespace Mb.C15
open Mb Mb.Sim Mb.SimSpec

variable {σ : Type} (ρ : Oracle σ)

/-- **Ordered by time.** -/
theorem C15_trace_sorted (budget : Nat) (mc ms : List Machine) (sq : SimQueue) (a : Args) (orc : σ) :
    (simAdvanced ρ budget mc ms sq a orc).trace.Pairwise (fun x y => x.time ≤ y.time) := by
  unfold simAdvanced
  cases hi : initState ρ mc ms sq a orc with
  | error f => simp
  | ok st =>
    simp only []
    have hgood := loop_stream_sorted ρ a (loopFuel a budget) st 0 0
    rw [finish_trace a _ hgood.2]
    split
    · simp
    · rw [List.pairwise_map]
      exact List.Pairwise.filter _ hgood.2

/-- **The final sort is the identity**: the returned trace is the kept part of the iteration
    stream, in iteration order. -/
theorem C15_final_sort_identity (budget : Nat) (mc ms : List Machine) (sq : SimQueue) (a : Args) (orc : σ)
    (hok : ∀ f, (simAdvanced ρ budget mc ms sq a orc).stop ≠ .fault f) :
    (simAdvanced ρ budget mc ms sq a orc).trace =
      ((simAdvanced ρ budget mc ms sq a orc).stream.filter a.keep).map (·.ev) := by
  unfold simAdvanced at hok ⊢
  cases hi : initState ρ mc ms sq a orc with
  | error f => simp [hi] at hok
  | ok st =>
    simp only [hi] at hok
    simp only []
    have hgood := loop_stream_sorted ρ a (loopFuel a budget) st 0 0
    have hnf : (loop ρ a (loopFuel a budget) st 0 0).stop.isFault = false := by
      cases hs : (loop ρ a (loopFuel a budget) st 0 0).stop with
      | fault f => exact absurd (by rw [finish_stop, hs]) (hok f)
      | queueEmpty | maxTrace | maxIter | noNormal | loopFuel => rfl
    rw [finish_trace a _ hgood.2, finish_stream, hnf]
    simp

/-- **One TunnelRecv per TunnelSent, one network delay later, same kind.** -/
theorem C15_one_recv_per_send (next : SimEvent) (sq sq' : SimQueue) (byp : Bool) (net net' : Bottleneck) (now : Int)
    (na : Bool) (hev : next.event = .tunnelSent)
    (h : simNetworkStack next sq byp net now = .ok (na, sq', net')) :
    ∃ t : Int, sq' = sq.pushSim ⟨.tunnelRecv, t, !next.client, next.containsPadding, false, false⟩ ∧
      next.time + net.network.delay ≤ t := by
  unfold simNetworkStack at h
  simp only [hev] at h
  rw [map_ok_iff] at h
  obtain ⟨⟨sq1, net1⟩, h1, h2⟩ := h
  cases h2
  exact netTunnelSent_spec h1

/-- **A base packet becomes exactly one normal TunnelSent.** -/
theorem C15_normal_sent_to_tunnel (next : SimEvent) (sq sq' : SimQueue) (byp : Bool) (net net' : Bottleneck) (now : Int)
    (na : Bool) (hev : next.event = .normalSent)
    (h : simNetworkStack next sq byp net now = .ok (na, sq', net')) :
    sq' = sq.pushSim ⟨.tunnelSent, next.time, next.client, false, false, false⟩ ∧ net' = net := by
  unfold simNetworkStack at h
  simp only [hev] at h
  cases h
  exact ⟨rfl, rfl⟩

/-- **Padding never creates a normal packet.** -/
theorem C15_padding_never_creates_normal (next : SimEvent) (sq sq' : SimQueue) (byp : Bool) (net net' : Bottleneck)
    (now : Int) (na : Bool) (m : Nat) (hev : next.event = .paddingSent m)
    (h : simNetworkStack next sq byp net now = .ok (na, sq', net')) :
    sq' = sq.pushSim ⟨.tunnelSent, next.time, next.client, true, next.bypass, next.replace⟩ ∨ sq' = sq ∨
    ∃ qid entry sq1, sq.popBlocking qid byp next.client (net.agg next.client) = .ok (some (entry, sq1)) ∧
      sq' = sq1.pushSim { entry with bypass := true, replace := false } := by
  unfold simNetworkStack at h
  simp only [hev] at h
  rw [map_ok_iff] at h
  obtain ⟨⟨sq1, net1⟩, h1, h2⟩ := h
  cases h2
  exact netPaddingSent_spec h1

/-- **Conservation of normal packets**, for every machine set, trace, delay, argument record and
    oracle: per side, processed normal TunnelSent events ≤ the side's share of the input trace,
    with equality when the run stops because all normal packets were processed. -/
theorem C15_conservation (budget : Nat) (mc ms : List Machine) (trace : List TraceLine) (delay : Nat) (a : Args) (orc : σ) :
    (∀ c, (simAdvanced ρ budget mc ms (parseTrace trace delay) a orc).stream.countP (sentNormal c) ≤ shareOf trace c) ∧
    ((simAdvanced ρ budget mc ms (parseTrace trace delay) a orc).stop = .noNormal →
      ∀ c, (simAdvanced ρ budget mc ms (parseTrace trace delay) a orc).stream.countP (sentNormal c) = shareOf trace c) := by
  unfold simAdvanced
  have hpt := parseTrace_spec trace delay
  cases hi : initState ρ mc ms (parseTrace trace delay) a orc with
  | error f => simp
  | ok st =>
    simp only []
    have hsq := initState_sq ρ hi
    have hw : st.sq.WF := by rw [hsq]; exact hpt.1
    have hc := loop_conserve ρ a (loopFuel a budget) st 0 0 hw
    rw [finish_stream, finish_stop]
    constructor
    · intro c
      have := hc.1 c
      rw [hsq, hpt.2 c] at this
      exact this
    · intro hstop c
      obtain ⟨stf, hf, hnn⟩ := loop_noNormal ρ a (loopFuel a budget) st 0 0 hstop
      have h2 := hc.2 stf hf
      have h3 := h2.2 c
      rw [noNormal_pending_zero stf.sq h2.1 hnn c, hsq, hpt.2 c] at h3
      omega

/-- the same on the returned trace of an unfiltered run that did not fault, in the monitor's
    vocabulary -/
theorem C15_conservation_trace (budget : Nat) (mc ms : List Machine) (trace : List TraceLine) (delay : Nat) (a : Args)
    (orc : σ) (hoc : a.onlyClientEvents = false) (hon : a.onlyNetworkActivity = false)
    (hok : ∀ f, (simAdvanced ρ budget mc ms (parseTrace trace delay) a orc).stop ≠ .fault f) (c : Bool) :
    normalSentCount (simAdvanced ρ budget mc ms (parseTrace trace delay) a orc).trace c ≤ share trace c ∧
    ((simAdvanced ρ budget mc ms (parseTrace trace delay) a orc).stop = .noNormal →
      normalSentCount (simAdvanced ρ budget mc ms (parseTrace trace delay) a orc).trace c = share trace c) := by
  have hcons := C15_conservation ρ budget mc ms trace delay a orc
  have hid := C15_final_sort_identity ρ budget mc ms (parseTrace trace delay) a orc hok
  have hkeep : ∀ l : List StepRec, l.filter a.keep = l := by
    intro l
    apply List.filter_eq_self.2
    intro r _
    simp [Args.keep, keep, hoc, hon]
  have hcount : ∀ l : List StepRec, normalSentCount (l.map (·.ev)) c = l.countP (sentNormal c) := by
    intro l
    induction l with
    | nil => rfl
    | cons r rs ih =>
      simp only [normalSentCount, List.map_cons, List.filter_cons, List.countP_cons] at ih ⊢
      by_cases h : sentNormal c r = true
      · have h' : (r.ev.client == c && r.ev.event == TEvent.tunnelSent && !r.ev.containsPadding) = true := by
          simpa [sentNormal, isTS] using h
        simp [h, h', ih]
      · have h1 : sentNormal c r = false := by simpa using h
        have h' : (r.ev.client == c && r.ev.event == TEvent.tunnelSent && !r.ev.containsPadding) = false := by
          simpa [sentNormal, isTS] using h1
        simp [h1, h', ih]
  have hshare : share trace c = shareOf trace c := by
    simp [share, shareOf, List.countP_eq_length_filter]
  rw [hid, hkeep, hcount, hshare]
  exact ⟨hcons.1 c, fun h => hcons.2 h c⟩

/-- **Causality at trace level (Hall form).**  For every parsed trace, machine set, argument
    record and oracle, for each side `c`, each kind (normal / padding) and *every instant `T`*:
    the number of TunnelRecv events of that kind processed on side `c` with time ≤ `T` is at most
    the number of TunnelSent events of the same kind processed on the other side with
    time + delay ≤ `T`.  For the time-ordered stream this is equivalent to an injection from the
    receipts to distinct earlier sends of the same kind on the other side, each at least one
    network delay before (match the k-th receipt with the k-th send). -/
theorem C15_causality (budget : Nat) (mc ms : List Machine) (trace : List TraceLine) (delay : Nat) (a : Args) (orc : σ)
    (hd : a.network.delay = delay) (c pd : Bool) (T : Int) :
    (simAdvanced ρ budget mc ms (parseTrace trace delay) a orc).stream.countP (fun r => recvP c pd T r.ev) ≤
    (simAdvanced ρ budget mc ms (parseTrace trace delay) a orc).stream.countP (fun r => sendP c pd T delay r.ev) := by
  unfold simAdvanced
  cases hi : initState ρ mc ms (parseTrace trace delay) a orc with
  | error f => simp
  | ok st =>
    simp only []
    rw [finish_stream]
    have h := loop_causal ρ a c pd T (loopFuel a budget) st 0 0
    rw [initState_sq ρ hi, parseTrace_no_recv _ (recvP_pred c pd T), initState_network ρ hi, hd, Nat.zero_add] at h
    exact h

/-- the same on the returned trace of an unfiltered run that did not fault -/
theorem C15_causality_trace (budget : Nat) (mc ms : List Machine) (trace : List TraceLine) (delay : Nat) (a : Args)
    (orc : σ) (hd : a.network.delay = delay) (hoc : a.onlyClientEvents = false) (hon : a.onlyNetworkActivity = false)
    (hok : ∀ f, (simAdvanced ρ budget mc ms (parseTrace trace delay) a orc).stop ≠ .fault f) (c pd : Bool) (T : Int) :
    (simAdvanced ρ budget mc ms (parseTrace trace delay) a orc).trace.countP (recvP c pd T) ≤
    (simAdvanced ρ budget mc ms (parseTrace trace delay) a orc).trace.countP (sendP c pd T delay) := by
  have hid := C15_final_sort_identity ρ budget mc ms (parseTrace trace delay) a orc hok
  have hkeep : ∀ l : List StepRec, l.filter a.keep = l := by
    intro l
    apply List.filter_eq_self.2
    intro r _
    simp [Args.keep, keep, hoc, hon]
  rw [hid, hkeep, List.countP_map, List.countP_map]
  exact C15_causality ρ budget mc ms trace delay a orc hd c pd T

/-- **The monitor's causality predicate holds of the model**: on the returned trace of an
    unfiltered run that did not fault, every TunnelRecv can be matched (k-th receipt with k-th
    send, per side and kind) with a distinct TunnelSent of the same kind on the other side at
    least one network delay earlier — `C15.causality`, exactly what the monitor evaluates on the
    implementation's traces. -/
theorem C15_causality_matching (budget : Nat) (mc ms : List Machine) (trace : List TraceLine) (delay : Nat) (a : Args)
    (orc : σ) (hd : a.network.delay = delay) (hoc : a.onlyClientEvents = false) (hon : a.onlyNetworkActivity = false)
    (hok : ∀ f, (simAdvanced ρ budget mc ms (parseTrace trace delay) a orc).stop ≠ .fault f) :
    causality delay (simAdvanced ρ budget mc ms (parseTrace trace delay) a orc).trace = true :=
  causality_of_hall delay _ (fun c pd T => C15_causality_trace ρ budget mc ms trace delay a orc hd hoc hon hok c pd T)

/-! ### raw input traces (all six direction tokens `s sn r rn sp rp` of `parse_trace`)

A side's *share* of a raw trace is the number of its normal lines (`s`/`sn` for the client,
`r`/`rn` for the server): `share (normalLines raw) c`.  Padding lines `sp` / `rp` are ignored by
the parser, so they neither create packets nor count. -/

/-- **Padding lines of the input create nothing**: the queue parsed from a raw trace is the queue
    parsed from its normal lines (same events, same trace-derived packets-per-second limit). -/
theorem C15_padding_lines_ignored (raw : List RawLine) (delay : Nat) :
    parseTraceRaw raw delay = parseTrace (normalLines raw) delay :=
  parseTraceRaw_eq raw delay

/-- conservation for raw traces -/
theorem C15_conservation_raw (budget : Nat) (mc ms : List Machine) (raw : List RawLine) (delay : Nat) (a : Args) (orc : σ) :
    (∀ c, (simAdvanced ρ budget mc ms (parseTraceRaw raw delay) a orc).stream.countP (sentNormal c)
        ≤ shareOf (normalLines raw) c) ∧
    ((simAdvanced ρ budget mc ms (parseTraceRaw raw delay) a orc).stop = .noNormal →
      ∀ c, (simAdvanced ρ budget mc ms (parseTraceRaw raw delay) a orc).stream.countP (sentNormal c)
        = shareOf (normalLines raw) c) := by
  rw [parseTraceRaw_eq]
  exact C15_conservation ρ budget mc ms (normalLines raw) delay a orc

/-- conservation for raw traces, on the returned unfiltered trace, in the monitor's vocabulary -/
theorem C15_conservation_trace_raw (budget : Nat) (mc ms : List Machine) (raw : List RawLine) (delay : Nat) (a : Args)
    (orc : σ) (hoc : a.onlyClientEvents = false) (hon : a.onlyNetworkActivity = false)
    (hok : ∀ f, (simAdvanced ρ budget mc ms (parseTraceRaw raw delay) a orc).stop ≠ .fault f) (c : Bool) :
    normalSentCount (simAdvanced ρ budget mc ms (parseTraceRaw raw delay) a orc).trace c ≤ share (normalLines raw) c ∧
    ((simAdvanced ρ budget mc ms (parseTraceRaw raw delay) a orc).stop = .noNormal →
      normalSentCount (simAdvanced ρ budget mc ms (parseTraceRaw raw delay) a orc).trace c = share (normalLines raw) c) := by
  rw [parseTraceRaw_eq] at hok ⊢
  exact C15_conservation_trace ρ budget mc ms (normalLines raw) delay a orc hoc hon hok c

/-- causality (the monitor's matching predicate) for raw traces -/
theorem C15_causality_matching_raw (budget : Nat) (mc ms : List Machine) (raw : List RawLine) (delay : Nat) (a : Args)
    (orc : σ) (hd : a.network.delay = delay) (hoc : a.onlyClientEvents = false) (hon : a.onlyNetworkActivity = false)
    (hok : ∀ f, (simAdvanced ρ budget mc ms (parseTraceRaw raw delay) a orc).stop ≠ .fault f) :
    causality delay (simAdvanced ρ budget mc ms (parseTraceRaw raw delay) a orc).trace = true := by
  rw [parseTraceRaw_eq] at hok ⊢
  exact C15_causality_matching ρ budget mc ms (normalLines raw) delay a orc hd hoc hon hok

/-- non-vacuity of `C15_final_sort_identity`'s hypothesis and of the ordering theorem: the
    concrete two-packet run ends without a fault after 7 iterations -/
example : (match exState with
    | some st => decide ((loop exOracle exArgs.unfiltered 100 st 0 0).stop = .noNormal)
    | none => false) = true := by decide

/-! ### the monitor accepts the model's own observation -/

/-- the guard of `C15_monitor_accepts_model_partial`: a run that ended because `pick_next`
    returned `None` left no normal packet waiting in the queues of its last state (`pending` =
    the side's base NormalSent events plus its queued normal TunnelSent events) -/
def DrainedIfEmpty (o : SimOut σ) : Prop :=
  o.stop = .queueEmpty → ∀ stf, o.final = some stf → ∀ cl, stf.sq.pending cl = 0

/-- **The C15 monitor accepts the model's own observation (partial).**  For every case (machine
    lists on both sides, raw input trace with all direction tokens, network delay), every run
    (`sim` or `sim_advanced`, any arguments, filters, caps, fractions, packets-per-second limit),
    every oracle and every loop budget: if the model run that ended because `pick_next` returned
    `None` left no normal packet waiting (`DrainedIfEmpty`; `C15_monitor_rejects_unreachable_packet`
    shows the guard is needed, `C15_monitor_accepts_model` discharges it from bounds on the inputs),
    the monitor `C15.monitor`, evaluated on the model's observation of the run, reports no failure.
    A faulting run is observed as a panic, which this monitor ignores; filtered runs are only
    checked for their order. -/
theorem C15_monitor_accepts_model_partial (budget : Nat) (c : CaseIn) (r : RunIn) (orc : σ)
    (hdr : DrainedIfEmpty (modelOut ρ budget c r orc)) :
    C15.monitor c (modelObs ρ budget c r orc) = none := by
  cases hp : (modelOut ρ budget c r orc).stop.isPanic with
  | true =>
    obtain ⟨cls, hc⟩ := res_panic (t0 := obsT0 c) hp
    unfold C15.monitor
    rw [modelObs_res, hc]
  | false =>
    have hres := res_ok (t0 := obsT0 c) hp
    have hok := isPanic_false_no_fault hp
    apply monitor_none_of (tr := (modelOut ρ budget c r orc).trace.map (SimEvent.shift (obsT0 c)))
    · rw [modelObs_res, hres]
    · exact sortedByTime_shift _ _ (C15_trace_sorted ρ budget c.mc c.ms _ _ orc)
    · intro hoc hon
      rw [modelObs_run] at hoc hon ⊢
      constructor
      · apply causality_shift
        intro cl pd T
        have := C15_causality_trace ρ budget c.mc c.ms (normalLines c.trace) c.delay (r.effArgs c.delay) orc
          (effArgs_delay r c.delay) hoc hon (by rw [← parseTraceRaw_eq]; exact hok) cl pd T
        rw [← parseTraceRaw_eq] at this
        exact this
      · -- conservation with the monitor's "complete" flag
        have htr : (modelOut ρ budget c r orc).trace = (modelOut ρ budget c r orc).stream.map (·.ev) := by
          have := simAdvanced_trace_stream ρ budget c.mc c.ms (parseTraceRaw c.trace c.delay) (r.effArgs c.delay) orc hok
          rw [filter_keep_unfiltered _ hoc hon] at this
          exact this
        have hlen : ((modelOut ρ budget c r orc).trace.map (SimEvent.shift (obsT0 c))).length =
            (modelOut ρ budget c r orc).stream.length := by
          rw [List.length_map, htr, List.length_map]
        have hcnt : ∀ cl, normalSentCount ((modelOut ρ budget c r orc).trace.map (SimEvent.shift (obsT0 c))) cl =
            (modelOut ρ budget c r orc).stream.countP (sentNormal cl) := by
          intro cl
          rw [normalSentCount_shift, htr, normalSentCount_map_ev]
        have hcons := simAdvanced_conserve_final ρ budget c.mc c.ms (normalLines c.trace) c.delay (r.effArgs c.delay) orc
        rw [← parseTraceRaw_eq] at hcons
        have hle : ∀ cl, (modelOut ρ budget c r orc).stream.countP (sentNormal cl) ≤ share (normalLines c.trace) cl := by
          intro cl; rw [share_eq_shareOf]; exact hcons.1 cl
        unfold conservation
        rw [hlen]
        simp only [hcnt]
        cases hcomp : (((r.effArgs c.delay).maxTraceLength == 0 ||
            decide ((modelOut ρ budget c r orc).stream.length < (r.effArgs c.delay).maxTraceLength)) &&
            ((r.effArgs c.delay).maxSimIterations == 0 ||
              decide ((modelOut ρ budget c r orc).stream.length < (r.effArgs c.delay).maxSimIterations))) with
        | false =>
          simp only [Bool.false_eq_true, if_false, List.all_cons, List.all_nil, Bool.and_true, Bool.and_eq_true,
            decide_eq_true_eq]
          exact ⟨hle true, hle false⟩
        | true =>
          simp only [Bool.and_eq_true, Bool.or_eq_true, beq_iff_eq, decide_eq_true_eq] at hcomp
          have heq : ∀ cl, (modelOut ρ budget c r orc).stream.countP (sentNormal cl) = share (normalLines c.trace) cl := by
            cases hs : (modelOut ρ budget c r orc).stop with
            | fault f => exact absurd hs (hok f)
            | loopFuel => rw [hs] at hp; simp [Stop.isPanic] at hp
            | maxTrace =>
              have := simAdvanced_maxTrace ρ budget c.mc c.ms _ _ orc hs
              change 0 < _ ∧ _ ≤ (modelOut ρ budget c r orc).trace.length at this
              rw [htr, List.length_map] at this
              exfalso; rcases hcomp.1 with h | h <;> omega
            | maxIter =>
              have := simAdvanced_maxIter ρ budget c.mc c.ms _ _ orc hs
              change 0 < _ ∧ _ ≤ (modelOut ρ budget c r orc).stream.length at this
              exfalso; rcases hcomp.2 with h | h <;> omega
            | noNormal =>
              intro cl
              rw [share_eq_shareOf]
              exact (C15_conservation_raw ρ budget c.mc c.ms c.trace c.delay (r.effArgs c.delay) orc).2 hs cl
            | queueEmpty =>
              intro cl
              obtain ⟨stf, hf, _⟩ := simAdvanced_queueEmpty_final ρ budget c.mc c.ms _ _ orc hs
              rw [share_eq_shareOf]
              exact hcons.2 stf hf (hdr hs stf hf) cl
          simp only [if_true, List.all_cons, List.all_nil, Bool.and_true, Bool.and_eq_true, beq_iff_eq]
          exact ⟨heq true, heq false⟩

/-- **The C15 monitor accepts the model's own observation**, from bounds on the inputs only
    (those of `C19_total`): machine lists on both sides accepted by validation, limit fractions
    in [0, 1], normal-packet times up to `T`, a packets-per-second limit that is absent or at
    least 1, a cap of `N ≥ 1` iterations (`max_sim_iterations = N`, or `max_trace_length = N`
    with both filters off) and `(N + 2) · span N T delay ≤ Duration::MAX`.  Then, for every
    oracle and loop budget, the model run does not fault, every queued event stays less than
    `Duration::MAX` ahead of the clock, so `pick_next` returns `None` only when the queues are
    empty (`simAdvanced_drained`), the guard of the partial theorem holds, and `C15.monitor`
    reports no failure on the model's observation — with or without continuing after the last
    normal packet, with any filters. -/
theorem C15_monitor_accepts_model (budget : Nat) (c : CaseIn) (r : RunIn) (orc : σ) (N T : Nat)
    (hmc : MachinesOK c.mc) (hms : MachinesOK c.ms)
    (hfrac : Validate.fracOK (r.effArgs c.delay).fpClient = true ∧ Validate.fracOK (r.effArgs c.delay).fbClient = true ∧
      Validate.fracOK (r.effArgs c.delay).fpServer = true ∧ Validate.fracOK (r.effArgs c.delay).fbServer = true)
    (hT : ∀ l ∈ normalLines c.trace, l.1 ≤ T)
    (hpps : ∀ p, (r.effArgs c.delay).network.pps = some p → 1 ≤ p)
    (hcap : CappedAt (r.effArgs c.delay) N) (hN : 0 < N) (hg : (N + 2) * TB.span N T c.delay ≤ durMax) :
    C15.monitor c (modelObs ρ budget c r orc) = none := by
  by_cases hne : normalLines c.trace = []
  · obtain ⟨cls, hc⟩ := res_panic (t0 := obsT0 c) (no_normal_line_panics ρ budget c r orc hne)
    unfold C15.monitor
    rw [modelObs_res, hc]
  · apply C15_monitor_accepts_model_partial
    intro hs stf hf cl
    unfold modelOut at hs hf
    rw [parseTraceRaw_eq] at hs hf
    exact simAdvanced_drained ρ budget hmc hms (parseTrace_queueOK c.delay hne hT) hfrac (effArgs_delay r c.delay)
      (parseTrace_effPps c.delay hne _ hpps) hcap hN hg orc hs stf hf cl

/-- **The guard is needed.**  Two client packets, the second exactly `Duration::MAX`
    (1.8·10^28 ns; not expressible in a trace file, whose times are u64 nanoseconds) after the
    first, no machines, delay 0, through `sim` without caps: `pick_next` reads the offset
    `Duration::MAX` as "nothing to do" (`C14_strict_bound_needed`), the model run ends with an
    empty-queue stop after the four events of the first packet, and the monitor — which takes a
    run that no cap cut short as complete — reports "normal packets not conserved (c=1/2)" on the
    model's own observation. -/
theorem C15_monitor_rejects_unreachable_packet :
    (modelOut exOracle 8 farCase (demoSim 0 false) ()).stop = .queueEmpty ∧
    (C15.monitor farCase (modelObs exOracle 8 farCase (demoSim 0 false) ())).isSome = true := by
  refine ⟨by decide +kernel, ?_⟩
  rw [modelObs_of_stream _ _ _ _ _ (by decide +kernel)]
  decide +kernel

/-- non-vacuity of `C15_monitor_accepts_model_partial`: the padding machine on the client side,
    a raw trace with a padding line, all events recorded, continuing after the last normal
    packet: the run ends with an empty queue after 20 iterations (two paddings sent and
    delivered), the guard holds, and the monitor evaluates to `none` -/
example :
    (modelOut exOracle 100 demoCase (demoRun "u" 0 40 true false false) ()).stop = .queueEmpty ∧
    (modelOut exOracle 100 demoCase (demoRun "u" 0 40 true false false) ()).stream.length = 20 ∧
    ((modelOut exOracle 100 demoCase (demoRun "u" 0 40 true false false) ()).stream.filter
      (fun r => match r.ev.event with | .paddingSent _ => true | _ => false)).length = 2 ∧
    (match (modelOut exOracle 100 demoCase (demoRun "u" 0 40 true false false) ()).final with
      | some stf => stf.sq.isEmpty
      | none => false) = true := by decide +kernel

example : C15.monitor demoCase (modelObs exOracle 100 demoCase (demoRun "u" 0 40 true false false) ()) = none := by
  rw [modelObs_of_stream _ _ _ _ _ (by decide +kernel)]
  decide +kernel

/-- non-vacuity of `C15_monitor_accepts_model`: the padding machine passes validation, and the
    demo case (padding machine on the client, four-line raw trace, 10 ms delay) with a cap of 40
    iterations over times up to 3 ms meets every hypothesis — so the monitor accepts the model's
    observation of that run for EVERY oracle and budget -/
theorem demoPad_ok : MachinesOK [demoPad] := by
  intro m hm
  simp only [List.mem_singleton] at hm
  subst hm
  constructor
  · decide +kernel
  · intro st hst
    simp only [demoPad, List.mem_singleton] at hst
    subst hst
    rfl

example (budget : Nat) (orc : σ) :
    C15.monitor demoCase (modelObs ρ budget demoCase (demoRun "u" 0 40 true false false) orc) = none :=
  C15_monitor_accepts_model ρ budget demoCase _ orc 40 3000000 demoPad_ok (by intro m hm; cases hm)
    ⟨by decide +kernel, by decide +kernel, by decide +kernel, by decide +kernel⟩ (by decide)
    (by intro p hp; cases hp) (Or.inl rfl) (by decide) (by decide)

end Mb.C15
