/-
  C06 — transitions follow the declared probabilities over the whole RNG output space.

  The draw of `State::sample_state` takes exactly the `N = 2^23` values `k/N` (`C06_draw01`:
  `k = w >> 9` of the `next_u32` word).  For every vector accepted by validation (`C12.VecWF`):

  * `C06_mono`            : the f32 running sums `c₀ = 0, cᵢ = fl32(cᵢ₋₁ + pᵢ)` never decrease;
  * `C06_pick_some_iff`   : outcome `k` selects target `t` iff `cᵢ₋₁ ≤ k/N < cᵢ` for a transition
                            `i` with target `t`; `C06_pick_none_iff`: no transition iff `c_n ≤ k/N`;
  * `C06_count_target`    : the number of outcomes selecting transition `i` is
                            `⌈cᵢ·N⌉ − ⌈cᵢ₋₁·N⌉`; `C06_count_none`: `N − ⌈c_n·N⌉` outcomes select
                            nothing.  All `2^23` outcomes are covered by the counting lemma
                            `count_band`, not by enumeration;
  * `C06_share_close`     : that share is within `2^-23 + 2^-24` of the declared `pᵢ`;
  * `C06_prob_one`        : a first transition with probability 1.0 is taken on every outcome;
  * `C06_no_vector`       : an event without a vector leaves the machine where it is and draws
                            nothing.

  Framework level (`Proofs/MonitorAcceptA.lean`; `C06.fwMonitor` reads the hooked log: one fresh draw
  per transition lookup and the target the declared probabilities assign to it):
  * `C06_log_fresh_draws` : for EVERY machine set, configuration, oracle and history (faulting or
                            not), every log of the model's own trace (`LL.modelTrace`, as the driver
                            records it) passes `checkDraws`: each lookup whose state declares a list
                            for the event — top level, CounterZero inside `update_counter`,
                            LimitReached inside a limit decrement, Signal — is directly followed by a
                            draw of its own, and by the sampling entry exactly when `sampleState` of
                            that list and that draw selects a target; no other draw or sampling exists;
  * `C06_monitor_accepts_model` : hence `C06.fwMonitor` returns `none` on the model's trace, under
                            the one hypothesis that the oracle's uniform draws are among the `2^23`
                            values `k/2^23` (`C06_drawInRange_iff`: the monitor's range predicate is
                            exactly `∃ k < N, draw k`; what `C06_draw01` shows for rand's conversion; the model
                            quantifies over arbitrary oracles, and `C06_monitor_rejects_bad_draw` is a
                            kernel-checked trace with the draw 1.0 that the monitor rejects).
-/
import MbVerif.Proofs.SampleState
import MbVerif.Proofs.Validate
import MbVerif.Proofs.MonitorAcceptA

namespace Mb.C06
open Mb Mb.Fp

theorem C06_draw_nonneg (k : Nat) : le (.fin 0) (draw k) = true := by
  simp only [draw, le_fin_fin, decide_eq_true_eq]
  exact div_nonneg (Nat.cast_nonneg k) N_pos.le

/-- the running sums of a validated vector never decrease -/
theorem C06_mono {n : Nat} {ts : List Trans} (hv : C12.VecWF n ts) : Mono (.fin 0) ts :=
  mono_of_probs good_zero hv.probs

/-- the hypothesis `C12.VecWF` of the theorems below is what validation establishes: for the
    NaN-rejecting comparisons outright … -/
theorem C06_vecWF_of_validated_fixed {n : Nat} {ts : List Trans}
    (h : Validate.transVecWith Validate.checksFixed n ts = true) : C12.VecWF n ts :=
  Validate.transVecWith_sound Validate.checksFixed_sound (fun _ _ => trivial) h

/-- … which is what today's code uses (fix 65165a2): every vector accepted by `State::validate`
    satisfies the hypothesis of the theorems below -/
theorem C06_vecWF_of_validated {n : Nat} {ts : List Trans} (h : Validate.transVec n ts = true) : C12.VecWF n ts := by
  rw [Validate.transVec_eq_with] at h; exact C06_vecWF_of_validated_fixed h

/-- which outcomes select which target -/
theorem C06_pick_some_iff {n : Nat} {ts : List Trans} (hv : C12.VecWF n ts) (k t : Nat) :
    pick ts k = some t ↔
      ∃ b ∈ bands (.fin 0) ts, b.target = t ∧ le b.lo (draw k) = true ∧ lt (draw k) b.hi = true :=
  sampleLoop_some_iff (C06_mono hv) (C06_draw_nonneg k) t

/-- which outcomes select nothing -/
theorem C06_pick_none_iff {n : Nat} {ts : List Trans} (hv : C12.VecWF n ts) (k : Nat) :
    pick ts k = none ↔ le (total (.fin 0) ts) (draw k) = true :=
  sampleLoop_none_iff (C06_mono hv) (C06_draw_nonneg k)

/-- the model of `sample_state` on f32 bits is `pick` on the outcome index -/
theorem C06_sampleState_eq_pick (ts : List Trans) (r : F32) (k : Nat) (h : val32 r = draw k) :
    sampleState ts r = pick ts k := by
  simp [sampleState, pick, h]

/-- **share of each transition**: exactly `⌈cᵢ·N⌉ − ⌈cᵢ₋₁·N⌉` of the `N` outcomes -/
theorem C06_count_target {n : Nat} {ts : List Trans} (hv : C12.VecWF n ts) (b : Band)
    (hb : b ∈ bands (.fin 0) ts) :
    count (fun k => decide (pick ts k = some b.target)) = b.size := by
  have hg := good_bands good_zero hv.probs b hb
  unfold Band.size
  rw [← count_good_band hg.1 hg.2]
  apply count_congr
  intro k _
  have hiff := C06_pick_some_iff hv k b.target
  by_cases hin : (le b.lo (draw k) && lt (draw k) b.hi) = true
  · rw [hin]
    simp only [Bool.and_eq_true] at hin
    simpa using hiff.mpr ⟨b, hb, rfl, hin.1, hin.2⟩
  · have : ¬ pick ts k = some b.target := by
      intro hp
      obtain ⟨b', hb', ht, h1, h2⟩ := hiff.mp hp
      -- distinct targets: b' = b
      have hnd : ((bands (.fin 0) ts).map (·.target)).Nodup := by rw [bands_targets]; exact hv.distinct
      have : b' = b := List.inj_on_of_nodup_map hnd hb' hb ht
      subst this
      exact hin (by simp [h1, h2])
    simp only [this, decide_false]
    simpa using hin

/-- **no transition** on exactly `N − ⌈c_n·N⌉` outcomes -/
theorem C06_count_none {n : Nat} {ts : List Trans} (hv : C12.VecWF n ts) :
    count (fun k => decide (pick ts k = none)) = N - ceilN (total (.fin 0) ts) := by
  have hg := good_total good_zero hv.probs (c := .fin 0) (ts := ts)
  have h := count_good_band hg (show Good (.inf false) from rfl)
  have hN : ceilN (.inf false) = N := rfl
  rw [hN] at h
  rw [← h]
  apply count_congr
  intro k _
  have hiff := C06_pick_none_iff hv k
  have hlt : lt (draw k) (.inf false) = true := by simp [draw, lt]
  rw [hlt, Bool.and_true]
  by_cases hc : le (total (.fin 0) ts) (draw k) = true
  · rw [hc]; simpa using hiff.mpr hc
  · have : ¬ pick ts k = none := fun hp => hc (hiff.mp hp)
    simp only [this, decide_false]
    simpa using hc

/-- the closed form evaluated by the check is what the theorems above state -/
theorem C06_closedForm {n : Nat} {ts : List Trans} (hv : C12.VecWF n ts) :
    (∀ tc ∈ (closedForm ts).1, count (fun k => decide (pick ts k = some tc.1)) = tc.2) ∧
    count (fun k => decide (pick ts k = none)) = (closedForm ts).2 := by
  refine ⟨?_, C06_count_none hv⟩
  intro tc htc
  simp only [closedForm, List.mem_map] at htc
  obtain ⟨b, hb, rfl⟩ := htc
  exact C06_count_target hv b hb

/-- the per-event sum of a validated vector is a real number in (0,1], so the residual share
    `N − ⌈c_n·N⌉` is a genuine count -/
theorem C06_total_real {n : Nat} {ts : List Trans} (hv : C12.VecWF n ts) :
    ∃ q : ℚ, total (.fin 0) ts = .fin q ∧ 0 ≤ q ∧ q ≤ 1 := by
  have hg := good_total good_zero hv.probs (c := .fin 0) (ts := ts)
  have hs := hv.sum
  rw [← total_eq_f32sum] at hs
  generalize total (.fin 0) ts = v at hg hs
  rcases v with _ | _ | q
  · exact hs.elim
  · exact hs.elim
  · exact ⟨q, rfl, hg.1, hs⟩

/-- **up to the resolution of the draw**: the share of outcomes taking transition `i` differs from
    the declared `pᵢ` by less than `2^-23` (one outcome) plus `2^-24` (one f32 rounding of the
    running sum) -/
theorem C06_share_close {n : Nat} {ts : List Trans} (hv : C12.VecWF n ts) (b : Band)
    (hb : b ∈ bands (.fin 0) ts) :
    ∃ pq : ℚ, b.p = .fin pq ∧ |(b.size : ℚ) / (N : ℚ) - pq| < 1 / 2 ^ 23 + 1 / 2 ^ 24 := by
  have hg := good_bands good_zero hv.probs b hb
  obtain ⟨t, ht, hpt, _⟩ := bands_p_mem _ _ b hb
  have hp : C12.Prob b.p := by rw [hpt]; exact hv.probs t ht
  obtain ⟨q, hq, _, hq1⟩ := C06_total_real hv
  have hle := mono_band_le_total (C06_mono hv) b hb
  rw [hq] at hle
  have hhi := hg.2
  generalize hbh : b.hi = h at hle hhi
  rcases h with _ | s | c
  · exact hhi.elim
  · simp only [Good] at hhi; subst hhi; simp [le] at hle
  · have hc1 : c ≤ 1 := le_trans (by simpa using hle) hq1
    unfold Band.size
    exact band_share_close hg.1 hp (bands_hi_eq _ _ b hb) hbh hc1

/-- a first transition declared with probability 1.0 is taken on every outcome of the draw -/
theorem C06_prob_one (t0 : Trans) (rest : List Trans) (h : val32 t0.prob = .fin 1) (k : Nat) (hk : k < N) :
    pick (t0 :: rest) k = some t0.target := by
  have hlt : (k : ℚ) / (N : ℚ) < 1 := by rw [div_lt_one N_pos]; exact_mod_cast hk
  simp only [pick, sampleLoop, h, add, zero_add, round_one, draw, lt_fin_fin, hlt, decide_true, ↓reduceIte]

/-- in particular for the single-transition vectors `[Trans(t, 1.0)]` used by hand-written machines -/
theorem C06_prob_one_single (t : Nat) (p : F32) (h : val32 p = .fin 1) (k : Nat) (hk : k < N) :
    pick [⟨t, p⟩] k = some t :=
  C06_prob_one ⟨t, p⟩ [] h k hk

/-- an event for which the state declares no vector: no draw, no state change, `Unchanged` -/
theorem C06_no_vector {σ : Type} (ρ : Oracle σ) (fuel mi : Nat) (ev : Event) (s : Fw σ)
    (r : Runtime) (m : Machine) (st : State)
    (h1 : s.rt[mi]? = some r) (h2 : s.machines[mi]? = some m) (h3 : r.currentState ≠ STATE_END)
    (h4 : m.states[r.currentState]? = some st) (h5 : st.transitions[ev.toNat]? = some none) :
    transition ρ (fuel + 1) mi ev s = (s.push (.trans mi ev.toNat r.currentState), false) := by
  simp [transition, h1, h2, h3, h4, h5]

/-- non-vacuity: `[Trans(1, 0.5), Trans(END, 0.25)]` is a validated vector; its closed form is
    half of the outcomes for state 1, a quarter for END and a quarter for no transition -/
example : C12.VecWF 2 [⟨1, 0x3f000000⟩, ⟨STATE_END, 0x3e800000⟩] ∧
    closedForm [⟨1, 0x3f000000⟩, ⟨STATE_END, 0x3e800000⟩] =
      ([(1, 4194304), (STATE_END, 2097152)], 2097152) := by
  refine ⟨by rw [← C12.vecWfB_iff]; decide +kernel, by decide +kernel⟩

/-! ### the draw itself: `gen_range(0.0..1.0)` on f32 takes exactly the values `k/2^23` -/

/-- one `next_u32` word `w` yields the draw `k/2^23` with `k = w >> 9`, without retry -/
theorem C06_draw01 (w : UInt32) :
    C13.draw01 w = some (draw (w.toNat / 2 ^ 9)) ∧ w.toNat / 2 ^ 9 < N := by
  have hk : w.toNat / 2 ^ 9 < 2 ^ 23 := by
    have := w.toNat_lt
    omega
  refine ⟨?_, hk⟩
  have h0 : val32 0 = .fin 0 := by decide +kernel
  have h1 : val32 0x3f800000 = .fin 1 := by decide +kernel
  set v : ℚ := ((w.toNat / 2 ^ 9 : Nat) : ℚ) / ((2 ^ 23 : Nat) : ℚ) with hv
  have hrep : Rep 24 (-149) v := rep_unit _ hk
  have hv0 : 0 ≤ v := by positivity
  have hv1 : v < 1 := by
    rw [hv, div_lt_one (by positivity)]; exact_mod_cast hk
  have hround : f32.round v = .fin v :=
    Fmt.round_eq_self_of_rep f32 hrep
      (by have : pow2 0 < pow2 f32.emax := pow2_lt_pow2 (by decide)
          rw [pow2_zero] at this; linarith)
      (by have := pow2_pos f32.emax; linarith)
  have hsub : sub f32 (.fin 1) (.fin 0) = .fin 1 := by
    simp only [sub, neg, add, neg_zero, add_zero]; exact round_one
  unfold C13.draw01 C13.uniformF32
  simp only [h0, h1, hsub, C13.unit32]
  have hm : mul f32 (.fin v) (.fin 1) = .fin v := by simp only [mul, mul_one]; exact hround
  have ha : add f32 (.fin v) (.fin 0) = .fin v := by simp only [add, add_zero]; exact hround
  rw [hm, ha]
  simp only [lt_fin_fin, hv1, decide_true, ↓reduceIte]
  rfl

/-! ### Framework level: the monitor on the model's own trace -/

section FwMonitor

variable {σ : Type} (ρ : Oracle σ)

/-- **One fresh draw per lookup, in the monitor's own terms**, for every machine set (validated or
    not), configuration, oracle (arbitrary draws, NaN included) and history, faulting or not: the log
    of the construction and the log of every call of the model's trace pass `checkDraws`. -/
theorem C06_log_fresh_draws (ms : List Machine) (fp fb : F64) (t0 : Int) (rng : σ) (h : List Call) :
    checkDraws ms (LL.modelTrace ρ ms fp fb t0 rng h).log0 = none ∧
    ∀ r ∈ (LL.modelTrace ρ ms fp fb t0 rng h).calls, checkDraws ms r.log = none :=
  MA.c06_checkDraws_trace ρ ms fp fb t0 rng h

/-- the monitor's range predicate says exactly that the draw is one of the `N = 2^23` outcomes
    `draw k = k/N`, `k < N`, over which the counting theorems above range -/
theorem C06_drawInRange_iff (bits : F32) :
    drawInRange bits = true ↔ ∃ k, k < N ∧ val32 bits = draw k := by
  unfold drawInRange draw
  have hN : (0 : ℚ) < (N : ℚ) := N_pos
  constructor
  · intro h
    cases hv : val32 bits with
    | nan => rw [hv] at h; simp at h
    | inf s => rw [hv] at h; simp at h
    | fin q =>
      rw [hv] at h
      simp only [Bool.and_eq_true, decide_eq_true_eq] at h
      obtain ⟨⟨h0, h1⟩, hd⟩ := h
      have hz : ((q * (N : ℚ)).num : ℚ) = q * (N : ℚ) := by
        have := Rat.num_div_den (q * (N : ℚ))
        rw [hd] at this
        simpa using this
      have hnn : 0 ≤ (q * (N : ℚ)).num := Rat.num_nonneg.mpr (mul_nonneg h0 hN.le)
      have hk : (((q * (N : ℚ)).num.toNat : ℕ) : ℚ) = q * (N : ℚ) := by
        rw [← hz]
        have : (((q * (N : ℚ)).num.toNat : ℕ) : ℤ) = (q * (N : ℚ)).num := Int.toNat_of_nonneg hnn
        exact_mod_cast congrArg (fun z : ℤ => (z : ℚ)) this
      refine ⟨(q * (N : ℚ)).num.toNat, ?_, ?_⟩
      · have : (((q * (N : ℚ)).num.toNat : ℕ) : ℚ) < (N : ℚ) := by
          rw [hk]; calc q * (N : ℚ) < 1 * (N : ℚ) := mul_lt_mul_of_pos_right h1 hN
            _ = (N : ℚ) := one_mul _
        exact_mod_cast this
      · rw [hk, mul_div_assoc, div_self hN.ne', mul_one]
  · rintro ⟨k, hk, hv⟩
    rw [hv]
    have hkq : ((k : ℚ)) < (N : ℚ) := by exact_mod_cast hk
    simp only [Bool.and_eq_true, decide_eq_true_eq]
    refine ⟨⟨div_nonneg (Nat.cast_nonneg k) hN.le, (div_lt_one hN).mpr hkq⟩, ?_⟩
    rw [div_mul_cancel₀ _ hN.ne']
    simp

/-- **The monitor accepts the model.** Hypothesis `hu`: every uniform draw of the oracle is one of
    the `2^23` values `k/2^23`, `0 ≤ k < 2^23` (`C06_drawInRange_iff`) — the monitor's range rule
    checks exactly that of every logged draw, the model's oracle is arbitrary, so the hypothesis is
    needed (`C06_monitor_rejects_bad_draw`); for the implementation it is `C06_draw01`. Nothing else
    is assumed: any machines, configuration, history. -/
theorem C06_monitor_accepts_model (hu : ∀ g, drawInRange (ρ.u g).1 = true) (ms : List Machine) (fp fb : F64)
    (t0 : Int) (rng : σ) (h : List Call) : fwMonitor (LL.modelTrace ρ ms fp fb t0 rng h) = none :=
  MA.c06_monitor_model ρ hu ms fp fb t0 rng h

/-- transition slots: 13 events, the listed ones with a vector -/
private def slots (l : List (Nat × List Trans)) : List (Option (List Trans)) :=
  l.foldl (fun acc p => acc.set p.1 (some p.2)) (List.replicate 13 none)
/-- state 0: NormalSent leads to state 1 or stays, 1/2 each -/
private def dSt0 : State :=
  { action := none, counterA := none, counterB := none,
    transitions := slots [(3, [{ target := 1, prob := 1056964608 }, { target := 0, prob := 1056964608 }])] }
/-- state 1: counter A += 1; NormalSent leads to state 2 with probability 1 -/
private def dSt1 : State :=
  { action := none, counterA := some { operation := .increment, dist := none, copy := false }, counterB := none,
    transitions := slots [(3, [{ target := 2, prob := 1065353216 }])] }
/-- state 2: counter A -= 1 (so CounterZero fires on entry); CounterZero leads to state 0 with
    probability 1/2 -/
private def dSt2 : State :=
  { action := none, counterA := some { operation := .decrement, dist := none, copy := false }, counterB := none,
    transitions := slots [(9, [{ target := 0, prob := 1056964608 }])] }
private def dM : Machine :=
  { allowedPaddingPackets := 0, maxPaddingFrac := 0, allowedBlockedMicrosec := 0, maxBlockingFrac := 0,
    states := [dSt0, dSt1, dSt2] }
/-- draws 0, 0.75, 0, 0, 0.75, 0, … -/
private def dρ : Oracle Nat :=
  { u := fun g => (if g % 3 = 1 then 1061158912 else 0, g + 1), d := fun _ g => (0, g) }
private def dTrace (g : Nat) : FwTrace :=
  LL.modelTrace dρ [dM] 0 0 0 g [([.normalSent], 10), ([.normalSent, .paddingRecv], 20)]

/-- the demo oracle satisfies the hypothesis of `C06_monitor_accepts_model` -/
example : ∀ g, drawInRange (dρ.u g).1 = true := by
  intro g
  show drawInRange (if g % 3 = 1 then 1061158912 else 0) = true
  split <;> decide +kernel

/-- Non-vacuity of `C06_monitor_accepts_model`: no call faults; in the second call the transition
    into state 2 zeroes counter A and the CounterZero lookup (event 9) inside `update_counter` makes a
    draw of its own — 0, selecting target 0, from random state 0; 0.75, selecting nothing, from random
    state 2 — and PaddingRecv (event 1) is looked up without a list; the monitor accepts both traces. -/
example : (dTrace 0).calls.map (·.res) = [.ok, .ok] ∧
    (dTrace 0).calls.map (·.log) =
      [[.trans 0 3 0, .draw 0, .sampled 0 3 1, .limit 0 18446744073709551615 false, .counter 0 0 1 0 0],
       [.trans 0 3 1, .draw 1061158912, .sampled 0 3 2, .limit 0 18446744073709551615 false, .counter 0 1 0 0 0,
        .trans 0 9 2, .draw 0, .sampled 0 9 0, .limit 0 18446744073709551615 false, .counter 0 0 0 0 0,
        .trans 0 1 0]] ∧
    ((dTrace 2).calls.map (·.log))[1]? =
      some [.trans 0 3 1, .draw 0, .sampled 0 3 2, .limit 0 18446744073709551615 false, .counter 0 1 0 0 0,
        .trans 0 9 2, .draw 1061158912, .trans 0 1 2] ∧
    fwMonitor (dTrace 0) = none ∧ fwMonitor (dTrace 2) = none := by decide +kernel

/-- Non-vacuity of the rules of `checkDraws`: the CounterZero lookup re-using the outer draw (the
    shape of the seeded change C06-g), a target other than the one the draw selects, a target taken
    although the draw selects none, no transition although the draw selects one, a draw for a lookup
    without a list and a stray draw are all rejected. -/
example :
    (checkDraws [dM] [.trans 0 3 1, .draw 0, .sampled 0 3 2, .limit 0 18446744073709551615 false, .counter 0 1 0 0 0,
        .trans 0 9 2, .sampled 0 9 0]).isSome = true ∧
    (checkDraws [dM] [.trans 0 3 0, .draw 0, .sampled 0 3 0]).isSome = true ∧
    (checkDraws [dM] [.trans 0 9 2, .draw 1061158912, .sampled 0 9 0]).isSome = true ∧
    (checkDraws [dM] [.trans 0 3 0, .draw 0, .counter 0 0 0 0 0]).isSome = true ∧
    (checkDraws [dM] [.trans 0 1 0, .draw 0]).isSome = true ∧
    (checkDraws [dM] [.draw 0]).isSome = true := by decide +kernel

/-- The hypothesis of `C06_monitor_accepts_model` cannot be dropped: with an oracle that returns the
    draw 1.0 (not of the form `k/2^23` with `k < 2^23`) the model's trace passes the rule on draws and
    samplings but is rejected by the monitor's range rule. -/
theorem C06_monitor_rejects_bad_draw :
    (fwMonitor (LL.modelTrace ({ u := fun g => (1065353216, g), d := fun _ g => (0, g) } : Oracle Unit)
      [dM] 0 0 0 () [([.normalSent], 10)])).isSome = true ∧
    drawInRange 1065353216 = false := by decide +kernel

end FwMonitor

end Mb.C06
