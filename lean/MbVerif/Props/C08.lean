/-
  C08 — counters saturate and raise CounterZero exactly on reaching zero from non-zero.

  Proved on the model (decision logic stated outright):
  * `C08_saturate`: each update stays a u64; increment saturates at the maximum, decrement at 0,
    set stores the operand.
  * `C08_operand`, `C08_apply`, `C08_sampled_u64`: the operand is the sampled value (1 without a
    distribution, else the saturating cast of the sample) or — for copy — the OTHER counter's
    value from before the transition (both updates of one transition read the same pre-update
    pair, see `C08_delivery`).
  * `C08_zero_A/B`: an update reports "zeroed" exactly when the counter went from non-zero to
    zero and this machine's guard flag for that counter was still unset; it then sets that flag
    (flags are per machine since fix 034dbec and are cleared at the start of every call).
  * `C08_delivery`: `update_counter` delivers CounterZero to the same machine, immediately, iff
    one of the two updates reported "zeroed", and then allows scheduling only if that delivery
    left the slot empty (an action scheduled by the CounterZero transition takes precedence).
  * `C08_at_most_twice_per_call`: over a whole call (any batch, any machines, any oracle) a machine
    is delivered CounterZero at most twice — once per counter — counted on the ghost log
    (potential argument: deliveries so far + guard flags still unset never grows after the start
    of the call; `Proofs/CzCount.lean`, on the potential form of the counting lemma).
  * `C08_log_adjacent`: ORDER on the log, whole call (any machines, oracle, state with u64
    counters, batch): the ghost log segment of a call, read chronologically, is accepted by the
    monitor's two rules `C08.checkLog` (started with empty flags) and `C08.strayCZ`, and does not
    start with a CounterZero delivery. In plain terms (`C08_log_exact`, `C08_log_cz_preceded`):
    every counter entry logs u64 values and is IMMEDIATELY followed by the CounterZero delivery to
    the same machine exactly when counter A or counter B of that machine goes from non-zero to
    zero there for the first time in the call; every CounterZero delivery is IMMEDIATELY preceded
    by a counter entry of the same machine. Since the entered state's action is scheduled only
    after `update_counter` returns (`C08_delivery`), the delivery comes before that scheduling.
    `C08_counters_u64`: the u64 bound on the counters is an invariant of a call
    (`C08_counters_u64_run`: of every history from `Fw.init`, where all counters are 0).
    (`Proofs/CounterLog.lean`; needs no validity or no-fault hypothesis: the fuel potential
    2 x unset flags + 2 <= 8 guarantees that the delivery is really made.)
  * `C08_call_values`: VALUES on the log, whole call (any machines, oracle, batch): the monitor's
    third rule `C08.checkValues`, started with the states of the snapshot before the call and no
    raw samples, accepts the chronological log segment of the call: every logged update equals the
    specified saturating operation on the specified operand - 1, the saturating cast of the clamped
    raw sample logged right before the entry (A's sample first), or the other counter's value from
    before the update - in the state tracked from the `sampled` entries.
  * `C08_monitor_accepts_model`: the monitor tied to the model. `C08.monitor` returns `none` on the
    trace the model itself produces (`LL.modelTrace`: per call the events, outcome, actions,
    snapshot and the call's log, as the driver records them) for EVERY machine set, configuration,
    oracle and history: all four rules (values, adjacency, no CounterZero first, no stray
    CounterZero) hold for every call, the snapshot handed from call to call is the model's, and a
    faulting call ends the walk. So the check cannot raise a false alarm on an implementation that
    agrees with the model, and the model has the property in the monitor's own vocabulary. No
    hypothesis is needed (no validity, no-fault or packet-count assumption).
    (`Proofs/MonitorAcceptB.lean`)
  The implementation is tied to this by the correspondence on counter values (tag RC), the
  internal log (tag L, with the hook's counter entries) and the monitor `C08.monitor`.
-/
import MbVerif.Proofs.SafeCall
import MbVerif.Proofs.CzCount
import MbVerif.Proofs.CounterLog
import MbVerif.Proofs.MonitorAcceptB

namespace Mb.C08
open Mb

variable {σ : Type} (ρ : Oracle σ)

theorem C08_saturate (op : Operation) (cur change : Nat) (hc : cur ≤ Fp.u64Max) (hv : change ≤ Fp.u64Max) :
    applyOp op cur change ≤ Fp.u64Max ∧
    (op = .increment → applyOp op cur change = min (cur + change) Fp.u64Max) ∧
    (op = .decrement → applyOp op cur change = cur - change) ∧
    (op = .set → applyOp op cur change = change) := by
  cases op <;> simp [applyOp] <;> (try split) <;> omega

/-- every sampled operand is a u64 -/
theorem C08_sampled_u64 (c : Counter) (s : Fw σ) : (sampleValue ρ c s).1 ≤ Fp.u64Max := by
  unfold sampleValue
  cases c.dist with
  | none => simp [Fp.u64Max]
  | some d => simp only []; exact toU64_lt _

/-- the operand is the OTHER counter's pre-transition value for `copy` (no draw is made),
    otherwise the sampled value -/
theorem C08_operand (c : Counter) (other : Nat) (s : Fw σ) :
    (c.copy = true → counterOperand ρ c other s = (other, s)) ∧
    (c.copy = false → counterOperand ρ c other s = sampleValue ρ c s) := by
  unfold counterOperand
  constructor <;> intro h <;> simp [h]

/-- counter A of a transition applies its operation to the operand built from counter B's
    pre-transition value, and counter B from counter A's pre-transition value -/
theorem C08_apply (mi : Nat) (c : Counter) (oldA oldB : Nat) (s : Fw σ) :
    applyCounterA ρ mi (some c) oldA oldB s =
      storeCounterA mi oldA (applyOp c.operation oldA (counterOperand ρ c oldB s).1) (counterOperand ρ c oldB s).2 ∧
    applyCounterB ρ mi (some c) oldA oldB s =
      storeCounterB mi oldB (applyOp c.operation oldB (counterOperand ρ c oldA s).1) (counterOperand ρ c oldA s).2 :=
  ⟨rfl, rfl⟩

/-- storing reports "zeroed" exactly when the counter went from non-zero to zero and this
    machine's flag for A was still unset -/
theorem C08_zero_A (mi oldA newA : Nat) (s : Fw σ) :
    (storeCounterA mi oldA newA s).2 = (decide (oldA ≠ 0) && decide (newA = 0) && !zeroedAOf s mi) := by
  unfold storeCounterA
  simp only
  have hz : zeroedAOf (s.modRt mi (fun r => { r with counterA := newA })) mi = zeroedAOf s mi := by
    rw [zeroedAOf_modRt, zeroedAOf_eq]
  rw [hz]
  cases h : (decide (oldA ≠ 0) && decide (newA = 0) && !zeroedAOf s mi) <;> simp [h]

theorem C08_zero_B (mi oldB newB : Nat) (s : Fw σ) :
    (storeCounterB mi oldB newB s).2 = (decide (oldB ≠ 0) && decide (newB = 0) && !zeroedBOf s mi) := by
  unfold storeCounterB
  simp only
  have hz : zeroedBOf (s.modRt mi (fun r => { r with counterB := newB })) mi = zeroedBOf s mi := by
    rw [zeroedBOf_modRt, zeroedBOf_eq]
  rw [hz]
  cases h : (decide (oldB ≠ 0) && decide (newB = 0) && !zeroedBOf s mi) <;> simp [h]

/-- after storing, the counter holds the new value and, if "zeroed" was reported, the flag is set -/
theorem C08_store_A (mi oldA newA : Nat) (s : Fw σ) (hmi : mi < s.rt.length) :
    counterAOf (storeCounterA mi oldA newA s).1 mi = newA ∧
    ((storeCounterA mi oldA newA s).2 = true → zeroedAOf (storeCounterA mi oldA newA s).1 mi = true) := by
  unfold storeCounterA
  simp only
  have hr' : ∃ r, s.rt[mi]? = some r := ⟨s.rt[mi], List.getElem?_eq_getElem hmi⟩
  obtain ⟨r, hr⟩ := hr'
  split
  · constructor
    · unfold counterAOf; rw [Fw.modRt_rt_self, Fw.modRt_rt_self, hr]; rfl
    · intro _; rw [zeroedAOf_modRt, Fw.modRt_rt_self, hr]; rfl
  · constructor
    · unfold counterAOf; rw [Fw.modRt_rt_self, hr]; rfl
    · intro h; cases h

/-- a state without a counter specification never reports "zeroed" and changes nothing -/
theorem C08_no_counter (mi : Nat) (oldA oldB : Nat) (s : Fw σ) :
    applyCounterA ρ mi none oldA oldB s = (s, false) ∧ applyCounterB ρ mi none oldA oldB s = (s, false) :=
  ⟨rfl, rfl⟩

/-- `update_counter`: both updates read the same pre-transition pair; CounterZero is delivered to
    the same machine, at once, iff one update reported "zeroed"; scheduling is then allowed only
    if that delivery left the slot empty -/
theorem C08_delivery (fuel mi : Nat) (s : Fw σ) (r : Runtime) (m : Machine) (st : State)
    (hr : s.rt[mi]? = some r) (hm : s.machines[mi]? = some m) (hst : m.states[r.currentState]? = some st) :
    updateCounter ρ (fuel + 1) mi s =
      let ra := applyCounterA ρ mi st.counterA r.counterA r.counterB s
      let rb := applyCounterB ρ mi st.counterB r.counterA r.counterB ra.1
      let s2 := rb.1.push (.counter mi r.counterA (counterAOf rb.1 mi) r.counterB (counterBOf rb.1 mi))
      if ra.2 || rb.2 then
        let res := transition ρ fuel mi .counterZero s2
        match res.1.actions[mi]? with
        | none => (res.1.withFault .oob, true, res.2)
        | some a => (res.1, a.isNone, res.2)
      else (s2, true, false) := by
  rw [updateCounter, hr, hm]
  simp only [hst]
  split <;> rfl

/-- the guard flags are cleared at the start of every call -/
theorem C08_flags_reset (s : Fw σ) (t : Int) (mi : Nat) :
    zeroedAOf (s.callStart t) mi = false ∧ zeroedBOf (s.callStart t) mi = false := by
  unfold zeroedAOf zeroedBOf
  simp only [Fw.callStart, List.getElem?_map]
  cases s.rt[mi]? <;> simp

/-- per call, a machine receives at most two CounterZero events (one per counter): the number of
    `trans mi CounterZero _` entries the call adds to the ghost log is at most 2 -/
theorem C08_at_most_twice_per_call (mi : Nat) (es : List TEvent) (t : Int) (s : Fw σ) :
    czOf mi (triggerEvents ρ es t s) ≤ czOf mi s + 2 :=
  cz_triggerEvents ρ mi es t s

/-- the u64 bound on all counters is preserved by a call -/
theorem C08_counters_u64 (es : List TEvent) (t : Int) (s : Fw σ)
    (hb : ∀ r ∈ s.rt, r.counterA ≤ Fp.u64Max ∧ r.counterB ≤ Fp.u64Max) :
    ∀ r ∈ (triggerEvents ρ es t s).rt, r.counterA ≤ Fp.u64Max ∧ r.counterB ≤ Fp.u64Max := by
  obtain ⟨_, _, _, _, hi⟩ := CL.call_good ρ es t s hb
  intro r hr
  obtain ⟨i, hi', hget⟩ := List.getElem_of_mem hr
  exact hi.bnd i r (by rw [List.getElem?_eq_getElem hi', hget])

/-- a freshly constructed framework has all counters 0 -/
theorem C08_counters_init (ms : List Machine) (fp fb : F64) (t0 : Int) (rng : σ) :
    ∀ r ∈ (Fw.init ρ ms fp fb t0 rng).rt, r.counterA = 0 ∧ r.counterB = 0 := by
  have step : ∀ (s : Fw σ) (mi : Nat), (∀ r ∈ s.rt, r.counterA = 0 ∧ r.counterB = 0) →
      ∀ r ∈ (initLimit ρ s mi).rt, r.counterA = 0 ∧ r.counterB = 0 := by
    intro s mi hs
    unfold initLimit
    split
    · simpa using hs
    · split
      · simpa using hs
      · split
        · exact hs
        · next a _ =>
          have hrt := (sampleLimit_spec ρ mi a s).1.rt
          intro r hr
          obtain ⟨i, hi, hget⟩ := List.getElem_of_mem hr
          have hr' : ((sampleLimit ρ a s).2.modRt mi
              (fun r => { r with stateLimit := (sampleLimit ρ a s).1 })).rt[i]? = some r := by
            rw [List.getElem?_eq_getElem hi, hget]
          by_cases him : i = mi
          · subst him
            rw [Fw.modRt_rt_self, hrt] at hr'
            cases h0 : s.rt[i]? with
            | none => rw [h0] at hr'; cases hr'
            | some r0 =>
              rw [h0] at hr'
              simp only [Option.map_some, Option.some.injEq] at hr'
              rw [← hr']
              exact hs r0 (List.mem_of_getElem? h0)
          · rw [Fw.modRt_rt_other _ mi i _ him, hrt] at hr'
            exact hs r (List.mem_of_getElem? hr')
  unfold Fw.init
  generalize List.range ms.length = idx
  have h0 : ∀ r ∈ (Fw.init0 ms fp fb t0 rng).rt, r.counterA = 0 ∧ r.counterB = 0 := by
    intro r hr
    simp only [Fw.init0, List.mem_map] at hr
    obtain ⟨_, _, rfl⟩ := hr
    exact ⟨rfl, rfl⟩
  generalize Fw.init0 ms fp fb t0 rng = s0 at h0
  induction idx generalizing s0 with
  | nil => exact h0
  | cons i idx ih => exact ih _ (step s0 i h0)

/-- hence the u64 bound holds in every state reachable from `Framework::new` by any history: the
    hypothesis of `C08_log_adjacent` is met by every call of every run -/
theorem C08_counters_u64_run (ms : List Machine) (fp fb : F64) (t0 : Int) (rng : σ) (h : List Call) :
    ∀ r ∈ (runCalls ρ (Fw.init ρ ms fp fb t0 rng) h).rt, r.counterA ≤ Fp.u64Max ∧ r.counterB ≤ Fp.u64Max := by
  have h0 : ∀ r ∈ (Fw.init ρ ms fp fb t0 rng).rt, r.counterA ≤ Fp.u64Max ∧ r.counterB ≤ Fp.u64Max := by
    intro r hr
    obtain ⟨ha, hb⟩ := C08_counters_init ρ ms fp fb t0 rng r hr
    rw [ha, hb]; exact ⟨Nat.zero_le _, Nat.zero_le _⟩
  unfold runCalls
  generalize Fw.init ρ ms fp fb t0 rng = s0 at h0
  induction h generalizing s0 with
  | nil => exact h0
  | cons c cs ih => exact ih _ (C08_counters_u64 ρ c.1 c.2 s0 h0)

/-- **Order on the log, whole call.** For every machine set, oracle, batch, time and state whose
    counters are u64: the segment `l` the call adds to the ghost log (newest first), read
    chronologically, passes the monitor's adjacency rule `checkLog` started with empty flags (every
    `counter mi ao an bo bn` entry holds u64 values and is immediately followed by
    `trans mi CounterZero _` iff `ao ≠ 0 ∧ an = 0` with A's flag of `mi` unset or `bo ≠ 0 ∧ bn = 0`
    with B's flag unset), passes `strayCZ` (every CounterZero delivery is immediately preceded by a
    counter entry of the same machine), and does not start with a CounterZero delivery. -/
theorem C08_log_adjacent (es : List TEvent) (t : Int) (s : Fw σ)
    (hb : ∀ r ∈ s.rt, r.counterA ≤ Fp.u64Max ∧ r.counterB ≤ Fp.u64Max)
    (l : List LogEntry) (hl : (triggerEvents ρ es t s).log = l ++ s.log) :
    checkLog { a := [], b := [] } l.reverse = none ∧ strayCZ l.reverse = none ∧
    (∀ mi st rest, l.reverse ≠ .trans mi Gen.EV_CounterZero st :: rest) := by
  obtain ⟨c, f', hc, hg, _⟩ := CL.call_good ρ es t s hb
  have hlc : l = c.reverse := List.append_cancel_right (hl.symm.trans hc)
  subst hlc
  rw [List.reverse_reverse]
  refine ⟨?_, ?_, fun mi st rest h => ?_⟩
  · have := hg.chk [] rfl
    rw [List.append_nil] at this
    rw [this]; rfl
  · have := hg.stray [] rfl
    rw [List.append_nil] at this
    rw [this]; rfl
  · have := hg.head
    rw [h] at this
    simp [CL.headCZ] at this

/-- rule 1 in plain terms: in the chronological log segment of a call, a counter entry holds u64
    values and is immediately followed by the CounterZero delivery to the same machine exactly when
    counter A or counter B of that machine goes from non-zero to zero at this entry and did not do
    so at an earlier entry of the same call (at most once per counter per machine per call) -/
theorem C08_log_exact (es : List TEvent) (t : Int) (s : Fw σ)
    (hb : ∀ r ∈ s.rt, r.counterA ≤ Fp.u64Max ∧ r.counterB ≤ Fp.u64Max)
    (l : List LogEntry) (hl : (triggerEvents ρ es t s).log = l ++ s.log)
    (pre rest : List LogEntry) (mi ao an bo bn : Nat)
    (hsplit : l.reverse = pre ++ .counter mi ao an bo bn :: rest) :
    an ≤ Fp.u64Max ∧ bn ≤ Fp.u64Max ∧
    ((∃ st rest', rest = .trans mi Event.counterZero.toNat st :: rest') ↔
      (ao ≠ 0 ∧ an = 0 ∧ ¬ CL.ZeroedA mi pre) ∨ (bo ≠ 0 ∧ bn = 0 ∧ ¬ CL.ZeroedB mi pre)) := by
  have h := (C08_log_adjacent ρ es t s hb l hl).1
  rw [hsplit] at h
  exact CL.checkLog_exact pre rest mi ao an bo bn h

/-- rule 2 in plain terms: in the chronological log segment of a call, every CounterZero delivery
    is immediately preceded by a counter entry of the same machine (in particular it is never the
    first entry of the call) -/
theorem C08_log_cz_preceded (es : List TEvent) (t : Int) (s : Fw σ)
    (hb : ∀ r ∈ s.rt, r.counterA ≤ Fp.u64Max ∧ r.counterB ≤ Fp.u64Max)
    (l : List LogEntry) (hl : (triggerEvents ρ es t s).log = l ++ s.log)
    (pre rest : List LogEntry) (mi st : Nat)
    (hsplit : l.reverse = pre ++ .trans mi Event.counterZero.toNat st :: rest) :
    ∃ pre' ao an bo bn, pre = pre' ++ [.counter mi ao an bo bn] := by
  obtain ⟨_, h2, h3⟩ := C08_log_adjacent ρ es t s hb l hl
  cases pre with
  | nil => exact absurd hsplit (h3 mi st rest)
  | cons a p =>
    rw [hsplit] at h2
    exact CL.strayCZ_preceded a p rest mi st h2

/-- Non-vacuity: saturation at both ends. -/
example : applyOp .increment (Fp.u64Max - 1) 5 = Fp.u64Max ∧ applyOp .decrement 3 5 = 0 := by decide

/-- Non-vacuity of the two log rules: a zeroing update without a delivery, a delivery after a
    non-zeroing update and a delivery not preceded by a counter update are all rejected; a second
    zeroing of the same counter in the call must NOT be followed by a delivery. -/
example : (checkLog { a := [], b := [] } [.counter 0 1 0 0 0]).isSome = true ∧
    (checkLog { a := [], b := [] } [.counter 0 1 1 0 0, .trans 0 Gen.EV_CounterZero 3]).isSome = true ∧
    checkLog { a := [], b := [] } [.counter 0 1 0 0 0, .trans 0 Gen.EV_CounterZero 3, .counter 0 1 0 0 0] = none ∧
    (strayCZ [.draw 0, .trans 0 Gen.EV_CounterZero 3]).isSome = true := by decide

/-! ### the monitor tied to the model -/

/-- **Values on the log, whole call.** For every machine set, oracle, batch and time: the monitor's
    value rule `checkValues`, started with the states of the snapshot before the call (`LL.stOf
    s.snap`: the `state` field per machine) and no raw samples, accepts the chronological log segment
    of the call. In plain terms: every `counter mi ao an bo bn` entry has `an = ao (op_A) v_A` and
    `bn = bo (op_B) v_B` with the operations and operand kinds the machine description gives for the
    state machine `mi` is in at that point (tracked from the `sampled` entries), where an operand is
    `bo` resp. `ao` for `copy`, 1 without a distribution, and otherwise the saturating u64 cast of the
    clamped raw sample logged directly before the entry (A's sample before B's). -/
theorem C08_call_values (ms : List Machine) (es : List TEvent) (t : Int) (s : Fw σ) (hm : s.machines = ms)
    (l : List LogEntry) (hl : (triggerEvents ρ es t s).log = l ++ s.log) :
    checkValues ms (LL.stOf s.snap) [] l.reverse = none := by
  obtain ⟨_, c, hc, hv⟩ := MB.call_values ρ (ms := ms) es t s hm
  have : l = c.reverse := List.append_cancel_right (hl.symm.trans hc)
  rw [this, List.reverse_reverse, MB.stOf_snap]
  exact hv

/-- **`C08.monitor` accepts the model's own trace of every history**: for every machine set,
    configuration, oracle and history of calls, the monitor applied to the trace of the model
    (`LL.modelTrace`: the records the driver builds - events, outcome, returned actions, snapshot and
    the call's log, the ghost log being emptied before each call) reports no violation. No
    hypothesis: the four rules hold for every call of every run (`C08_call_values`,
    `C08_log_adjacent` with `C08_counters_u64_run`), and the monitor stops at a call that faults. -/
theorem C08_monitor_accepts_model (ms : List Machine) (fp fb : F64) (t0 : Int) (rng : σ) (h : List Call) :
    monitor (LL.modelTrace ρ ms fp fb t0 rng h) = none :=
  MB.monitor08_model ρ ms fp fb t0 rng h

section MonitorDemo

/-- the constant 2.0 -/
private def dTwo : Dist := { dist := .uniform 4611686018427387904 4611686018427387904, start := 0, max := 0 }
/-- state 0: no counters; NormalSent leads to state 1 -/
private def cSt0 : State :=
  { action := none, counterA := none, counterB := none,
    transitions := (List.replicate 13 none).set 3 (some [{ target := 1, prob := 1065353216 }]) }
/-- state 1: A := sample (2), B += 1; NormalSent leads to state 2 -/
private def cSt1 : State :=
  { action := none,
    counterA := some { operation := .set, dist := some dTwo, copy := false },
    counterB := some { operation := .increment, dist := none, copy := false },
    transitions := (List.replicate 13 none).set 3 (some [{ target := 2, prob := 1065353216 }]) }
/-- state 2: A -= sample (2), B := old A; CounterZero leads to state 3, NormalSent back to state 1 -/
private def cSt2 : State :=
  { action := none,
    counterA := some { operation := .decrement, dist := some dTwo, copy := false },
    counterB := some { operation := .set, dist := none, copy := true },
    transitions := ((List.replicate 13 none).set 9 (some [{ target := 3, prob := 1065353216 }])).set 3
      (some [{ target := 1, prob := 1065353216 }]) }
/-- state 3: B -= sample (2); CounterZero leads to state 0 -/
private def cSt3 : State :=
  { action := none, counterA := none,
    counterB := some { operation := .decrement, dist := some dTwo, copy := false },
    transitions := (List.replicate 13 none).set 9 (some [{ target := 0, prob := 1065353216 }]) }
private def cM : Machine :=
  { allowedPaddingPackets := 0, maxPaddingFrac := 0, allowedBlockedMicrosec := 0, maxBlockingFrac := 0,
    states := [cSt0, cSt1, cSt2, cSt3] }
private def cρ : Oracle Unit := { u := fun _ => (0, ()), d := fun _ _ => (0, ()) }
private def cTrace : FwTrace :=
  LL.modelTrace cρ [cM] 0 0 0 () [([.normalSent, .normalSent], 10), ([.normalSent, .normalSent, .normalSent, .normalSent], 20)]

/-- Non-vacuity of `C08_monitor_accepts_model`: no call faults (the monitor walks both). The first
    call's log holds a sampled operand (`set` to 2 after the raw sample 2.0), a unit increment, a
    decrement by a sample that takes A from 2 to 0 with B copied from A's OLD value 2, directly
    followed by the CounterZero delivery (event 9), whose transition zeroes B (2 - 2) and is followed
    by the second delivery. In the second call the same happens, and its last NormalSent takes A
    from 2 to 0 AGAIN (entries 29..34): no CounterZero follows, A's flag is already set in that call. -/
example : cTrace.calls.map (·.res) = [.ok, .ok] ∧
    cTrace.calls.map (·.log.length) = [23, 35] ∧
    (cTrace.calls.map (·.log)).head? = some
      [.trans 0 3 0, .draw 0, .sampled 0 3 1, .limit 0 18446744073709551615 false,
        .distRaw 4611686018427387904, .counter 0 0 2 0 1,
       .trans 0 3 1, .draw 0, .sampled 0 3 2, .limit 0 18446744073709551615 false,
        .distRaw 4611686018427387904, .counter 0 2 0 1 2,
       .trans 0 9 2, .draw 0, .sampled 0 9 3, .limit 0 18446744073709551615 false,
        .distRaw 4611686018427387904, .counter 0 0 0 2 0,
       .trans 0 9 3, .draw 0, .sampled 0 9 0, .limit 0 18446744073709551615 false, .counter 0 0 0 0 0] ∧
    (cTrace.calls.map (·.log.drop 29)) =
      [[], [.trans 0 3 1, .draw 0, .sampled 0 3 2, .limit 0 18446744073709551615 false,
        .distRaw 4611686018427387904, .counter 0 2 0 1 2]] ∧
    monitor cTrace = none := by decide +kernel

/-- Non-vacuity of the value rule (machine in state 0): the model's first update is accepted; a wrong
    result of `set`, a missing unit increment of B and a `copy` that reads the NEW value of the other
    counter are all rejected. -/
example :
    checkValues [cM] (fun _ => 0) [] [.sampled 0 3 1, .distRaw 4611686018427387904, .counter 0 0 2 0 1] = none ∧
    (checkValues [cM] (fun _ => 0) [] [.sampled 0 3 1, .distRaw 4611686018427387904, .counter 0 0 3 0 1]).isSome = true ∧
    (checkValues [cM] (fun _ => 0) [] [.sampled 0 3 1, .distRaw 4611686018427387904, .counter 0 0 2 0 0]).isSome = true ∧
    checkValues [cM] (fun _ => 1) [] [.sampled 0 3 2, .distRaw 4611686018427387904, .counter 0 2 0 1 2] = none ∧
    (checkValues [cM] (fun _ => 1) [] [.sampled 0 3 2, .distRaw 4611686018427387904, .counter 0 2 0 1 0]).isSome = true := by
  decide +kernel

end MonitorDemo

end Mb.C08
