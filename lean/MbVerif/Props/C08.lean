/-
  C08 — counters saturate and raise CounterZero exactly on reaching zero from non-zero.

  Proved on the model (decision logic stated outright):
  * `C08_saturate`: each update stays a u64; increment saturates at the maximum, decrement at 0,
    set stores the operand.
  * `C08_operand`, `C08_apply`, `C08_sampled_u64`: the operand is the sampled value (1 without a
    distribution, else the saturating cast of the sample) or — for copy — the OTHER counter's
    value from before the transition (both updates of one transition read the same pre-update
    pair, see `C08_delivery`).
  * `C08_zero_A/B`: an update reports "zeroed" exactly when the counter went from non-zero to
    zero and this machine's guard flag for that counter was still unset; it then sets that flag
    (flags are per machine since fix 034dbec and are cleared at the start of every call).
  * `C08_delivery`: `update_counter` delivers CounterZero to the same machine, immediately, iff
    one of the two updates reported "zeroed", and then allows scheduling only if that delivery
    left the slot empty (an action scheduled by the CounterZero transition takes precedence).
  * `C08_at_most_twice_per_call`: over a whole call (any batch, any machines, any oracle) a machine
    is delivered CounterZero at most twice — once per counter — counted on the ghost log
    (potential argument: deliveries so far + guard flags still unset never grows after the start
    of the call; `Proofs/CzCount.lean`, on the potential form of the counting lemma).
  The implementation is tied to this by the correspondence on counter values (tag RC), the
  internal log (tag L, with the hook's counter entries) and the monitor `C08.monitor`.
-/
import MbVerif.Proofs.SafeCall
import MbVerif.Proofs.CzCount

namespace Mb.C08
open Mb

variable {σ : Type} (ρ : Oracle σ)

theorem C08_saturate (op : Operation) (cur change : Nat) (hc : cur ≤ Fp.u64Max) (hv : change ≤ Fp.u64Max) :
    applyOp op cur change ≤ Fp.u64Max ∧
    (op = .increment → applyOp op cur change = min (cur + change) Fp.u64Max) ∧
    (op = .decrement → applyOp op cur change = cur - change) ∧
    (op = .set → applyOp op cur change = change) := by
  cases op <;> simp [applyOp] <;> (try split) <;> omega

/-- every sampled operand is a u64 -/
theorem C08_sampled_u64 (c : Counter) (s : Fw σ) : (sampleValue ρ c s).1 ≤ Fp.u64Max := by
  unfold sampleValue
  cases c.dist with
  | none => simp [Fp.u64Max]
  | some d => simp only []; exact toU64_lt _

/-- the operand is the OTHER counter's pre-transition value for `copy` (no draw is made),
    otherwise the sampled value -/
theorem C08_operand (c : Counter) (other : Nat) (s : Fw σ) :
    (c.copy = true → counterOperand ρ c other s = (other, s)) ∧
    (c.copy = false → counterOperand ρ c other s = sampleValue ρ c s) := by
  unfold counterOperand
  constructor <;> intro h <;> simp [h]

/-- counter A of a transition applies its operation to the operand built from counter B's
    pre-transition value, and counter B from counter A's pre-transition value -/
theorem C08_apply (mi : Nat) (c : Counter) (oldA oldB : Nat) (s : Fw σ) :
    applyCounterA ρ mi (some c) oldA oldB s =
      storeCounterA mi oldA (applyOp c.operation oldA (counterOperand ρ c oldB s).1) (counterOperand ρ c oldB s).2 ∧
    applyCounterB ρ mi (some c) oldA oldB s =
      storeCounterB mi oldB (applyOp c.operation oldB (counterOperand ρ c oldA s).1) (counterOperand ρ c oldA s).2 :=
  ⟨rfl, rfl⟩

/-- storing reports "zeroed" exactly when the counter went from non-zero to zero and this
    machine's flag for A was still unset -/
theorem C08_zero_A (mi oldA newA : Nat) (s : Fw σ) :
    (storeCounterA mi oldA newA s).2 = (decide (oldA ≠ 0) && decide (newA = 0) && !zeroedAOf s mi) := by
  unfold storeCounterA
  simp only
  have hz : zeroedAOf (s.modRt mi (fun r => { r with counterA := newA })) mi = zeroedAOf s mi := by
    rw [zeroedAOf_modRt, zeroedAOf_eq]
  rw [hz]
  cases h : (decide (oldA ≠ 0) && decide (newA = 0) && !zeroedAOf s mi) <;> simp [h]

theorem C08_zero_B (mi oldB newB : Nat) (s : Fw σ) :
    (storeCounterB mi oldB newB s).2 = (decide (oldB ≠ 0) && decide (newB = 0) && !zeroedBOf s mi) := by
  unfold storeCounterB
  simp only
  have hz : zeroedBOf (s.modRt mi (fun r => { r with counterB := newB })) mi = zeroedBOf s mi := by
    rw [zeroedBOf_modRt, zeroedBOf_eq]
  rw [hz]
  cases h : (decide (oldB ≠ 0) && decide (newB = 0) && !zeroedBOf s mi) <;> simp [h]

/-- after storing, the counter holds the new value and, if "zeroed" was reported, the flag is set -/
theorem C08_store_A (mi oldA newA : Nat) (s : Fw σ) (hmi : mi < s.rt.length) :
    counterAOf (storeCounterA mi oldA newA s).1 mi = newA ∧
    ((storeCounterA mi oldA newA s).2 = true → zeroedAOf (storeCounterA mi oldA newA s).1 mi = true) := by
  unfold storeCounterA
  simp only
  have hr' : ∃ r, s.rt[mi]? = some r := ⟨s.rt[mi], List.getElem?_eq_getElem hmi⟩
  obtain ⟨r, hr⟩ := hr'
  split
  · constructor
    · unfold counterAOf; rw [Fw.modRt_rt_self, Fw.modRt_rt_self, hr]; rfl
    · intro _; rw [zeroedAOf_modRt, Fw.modRt_rt_self, hr]; rfl
  · constructor
    · unfold counterAOf; rw [Fw.modRt_rt_self, hr]; rfl
    · intro h; cases h

/-- a state without a counter specification never reports "zeroed" and changes nothing -/
theorem C08_no_counter (mi : Nat) (oldA oldB : Nat) (s : Fw σ) :
    applyCounterA ρ mi none oldA oldB s = (s, false) ∧ applyCounterB ρ mi none oldA oldB s = (s, false) :=
  ⟨rfl, rfl⟩

/-- `update_counter`: both updates read the same pre-transition pair; CounterZero is delivered to
    the same machine, at once, iff one update reported "zeroed"; scheduling is then allowed only
    if that delivery left the slot empty -/
theorem C08_delivery (fuel mi : Nat) (s : Fw σ) (r : Runtime) (m : Machine) (st : State)
    (hr : s.rt[mi]? = some r) (hm : s.machines[mi]? = some m) (hst : m.states[r.currentState]? = some st) :
    updateCounter ρ (fuel + 1) mi s =
      let ra := applyCounterA ρ mi st.counterA r.counterA r.counterB s
      let rb := applyCounterB ρ mi st.counterB r.counterA r.counterB ra.1
      let s2 := rb.1.push (.counter mi r.counterA (counterAOf rb.1 mi) r.counterB (counterBOf rb.1 mi))
      if ra.2 || rb.2 then
        let res := transition ρ fuel mi .counterZero s2
        match res.1.actions[mi]? with
        | none => (res.1.withFault .oob, true, res.2)
        | some a => (res.1, a.isNone, res.2)
      else (s2, true, false) := by
  rw [updateCounter, hr, hm]
  simp only [hst]
  split <;> rfl

/-- the guard flags are cleared at the start of every call -/
theorem C08_flags_reset (s : Fw σ) (t : Int) (mi : Nat) :
    zeroedAOf (s.callStart t) mi = false ∧ zeroedBOf (s.callStart t) mi = false := by
  unfold zeroedAOf zeroedBOf
  simp only [Fw.callStart, List.getElem?_map]
  cases s.rt[mi]? <;> simp

/-- per call, a machine receives at most two CounterZero events (one per counter): the number of
    `trans mi CounterZero _` entries the call adds to the ghost log is at most 2 -/
theorem C08_at_most_twice_per_call (mi : Nat) (es : List TEvent) (t : Int) (s : Fw σ) :
    czOf mi (triggerEvents ρ es t s) ≤ czOf mi s + 2 :=
  cz_triggerEvents ρ mi es t s

/-- Non-vacuity: saturation at both ends. -/
example : applyOp .increment (Fp.u64Max - 1) 5 = Fp.u64Max ∧ applyOp .decrement 3 5 = 0 := by decide

end Mb.C08
