/-
  C01 — the framework is total.

  `C01_no_crash`: for every set of machines that pass validation (and have the shape the Rust
  types enforce: one transition slot per event), every pair of fractions, every start time,
  EVERY oracle (all seeds, every value a sampler can return), and every history of calls with
  arbitrary batches, arbitrary (also unknown / huge) machine ids and arbitrary (standing still,
  backwards) time values, no index is ever out of range and the recursion fuel of the model is
  never exhausted: the only fault the model can ever raise is `durOverflow`, the checked
  `Duration` addition of the blocking accounting. `C01_fuel`: the transition recursion needs at
  most 2 x (unset counter-zero flags) + 2 <= 6 units of the 8 provided, whatever the machine.
  `C01_total`: that fault is excluded too — so the call returns normally — whenever the start time
  and all call times lie in a window of width `B` ns (standing still, running backwards and
  jumping inside the window allowed) and `(calls + 1) * B` fits a `Duration` (2^64 s): e.g. a
  million calls within a century. Proof: the potential `blocked time + ongoing blocking` grows by
  at most `B` per call and is constant within a call (`Proofs/DurBound.lean`).
  `C01_dur_overflow_reachable` shows that the remaining fault is real (the guard of C01_total is
  not slack by more than the factor between 4 and `calls + 1`): a two-call history with a clock jump of 2^65 seconds reaches it; the same history
  panics the implementation ("overflow when adding durations") and is recorded as a known finding.
  `C01_work`: the number of transition invocations of one call (counted on the ghost copy of the
  hook log, whose agreement with the implementation's log is part of the correspondence) is at
  most 3 x (events + 1) x (machines + 1), for every machine set (validated or not), every oracle
  and every batch; the monitor's bound `C01.workBound` (factor 6) follows (`C01_work_monitor`).
  THE MONITOR ON THE MODEL'S OWN TRACE (`Proofs/MonitorAcceptA.lean`; `LL.modelTrace` is the trace the
  driver would record from the model: per call the events, outcome, actions, snapshot and the call's
  log). `C01_monitor_model_iff`: for EVERY machine set, configuration, oracle and history,
  `C01.monitor` returns `none` exactly when neither the construction nor any call of the trace
  reports a fault — so the work-bound rule never fires on the model (every call record meets
  `workBound`, `C01_monitor_work`), and at the first faulting call the monitor reports (which is what
  it is for: the model's fault is the implementation's panic). `C01_monitor_accepts_model`: under the
  hypotheses of `C01_total` (validated machines, clock values in a window with room for the number
  of calls) the monitor returns `none`. Both hypotheses are needed, with kernel-checked witnesses:
  `C01_monitor_rejects_overflow` (no machines, the history of `C01_dur_overflow_reachable`: the
  monitor reports the model's duration overflow — the known finding F6) and
  `C01_monitor_rejects_unvalidated` (a machine without states, which `Framework::new` refuses: the
  model run "after validation succeeded" indexes out of range and the monitor reports it).
-/
import MbVerif.Proofs.ValidateOK
import MbVerif.Proofs.WorkBound
import MbVerif.Proofs.DurBound
import MbVerif.Proofs.MonitorAcceptA

namespace Mb.C01
open Mb

variable {σ : Type} (ρ : Oracle σ)

/-- the hypotheses on the machines: accepted by validation, and of the shape of the Rust type
    (`[Option<Vec<Trans>>; EVENT_NUM]`) -/
def MachinesValid (ms : List Machine) : Prop :=
  ∀ m ∈ ms, Validate.machine m = true ∧ ∀ st ∈ m.states, st.transitions.length = EVENT_NUM

theorem C01_no_crash (ms : List Machine) (hms : MachinesValid ms) (fp fb : F64) (t0 : Int) (rng : σ)
    (h : List Call) :
    (runCalls ρ (Fw.init ρ ms fp fb t0 rng) h).fault = none ∨
    (runCalls ρ (Fw.init ρ ms fp fb t0 rng) h).fault = some .durOverflow := by
  have hok : ∀ m ∈ ms, MachineOK m := fun m hm => machineOK_of_validate m (hms m hm).1 (hms m hm).2
  have hV0 := valid_init0 ms fp fb t0 rng hok
  have hS0 : SigOK (Fw.init0 ms fp fb t0 rng) := by intro x hx; simp [Fw.init0] at hx
  obtain ⟨hV1, hS1, hN1, _⟩ := okS_init ρ ms fp fb t0 rng hV0 hS0
  obtain ⟨_, _, hN2, _⟩ := okS_runCalls ρ _ h hV1 hS1
  have hN := hN1.trans hN2
  rcases hN with hN | ⟨_, hN⟩
  · left; rw [hN]; rfl
  · right; exact hN

/-- the state reached is valid: lengths agree and every machine is in an existing state or END -/
theorem C01_state_valid (ms : List Machine) (hms : MachinesValid ms) (fp fb : F64) (t0 : Int) (rng : σ)
    (h : List Call) : Valid (runCalls ρ (Fw.init ρ ms fp fb t0 rng) h) := by
  have hok : ∀ m ∈ ms, MachineOK m := fun m hm => machineOK_of_validate m (hms m hm).1 (hms m hm).2
  have hV0 := valid_init0 ms fp fb t0 rng hok
  have hS0 : SigOK (Fw.init0 ms fp fb t0 rng) := by intro x hx; simp [Fw.init0] at hx
  obtain ⟨hV1, hS1, _, _⟩ := okS_init ρ ms fp fb t0 rng hV0 hS0
  exact (okS_runCalls ρ _ h hV1 hS1).1

/-- the recursion fuel is sufficient: from a valid state, a transition with fuel
    `2 * unset + 2` (at most 6) raises no fuel fault -/
theorem C01_fuel (mi : Nat) (ev : Event) (s : Fw σ) (hV : Valid s) (hmi : mi < s.rt.length)
    (fuel : Nat) (hf : 2 * unset s mi + 2 ≤ fuel) :
    NoNewBad s (transition ρ fuel mi ev s).1 :=
  ((safe_main ρ fuel).1 mi ev s hV hmi hf).1

/-- Work bound: one call causes at most 3·(machines+1)·(events+1) transition invocations. -/
theorem C01_work (es : List TEvent) (t : Int) (s : Fw σ) :
    stepsOf (triggerEvents ρ es t s) ≤ stepsOf s + 3 * (s.rt.length + 1) * (es.length + 1) :=
  steps_triggerEvents ρ es t s

/-- ... hence within the bound the monitor checks on the implementation. -/
theorem C01_work_monitor (es : List TEvent) (t : Int) (s : Fw σ) :
    stepsOf (triggerEvents ρ es t s) - stepsOf s ≤ workBound es.length s.rt.length := by
  have := steps_triggerEvents ρ es t s
  unfold workBound
  have h : 3 * (s.rt.length + 1) * (es.length + 1) ≤ 6 * (es.length + 1) * (s.rt.length + 1) := by
    have : 3 * (s.rt.length + 1) * (es.length + 1) = 3 * ((es.length + 1) * (s.rt.length + 1)) := by
      rw [Nat.mul_assoc, Nat.mul_comm (s.rt.length + 1)]
    rw [this, Nat.mul_assoc]
    exact Nat.mul_le_mul_right _ (by decide)
  omega

/-- an oracle over the trivial random state (never consulted when there are no machines) -/
def unitOracle : Oracle Unit := { u := fun _ => (0, ()), d := fun _ _ => (0, ()) }

/-- 2^62 seconds in nanoseconds -/
def bigT : Int := 4611686018427387904000000000

/-- **Totality under a clock-span guard**: validated machines, any fractions, any oracle, any
    history whose clock values (start time included) lie in a window `[lo, lo + B]` — not
    necessarily monotone — with `(calls + 1) * B ≤ Duration::MAX`: no fault of any kind. -/
theorem C01_total (ms : List Machine) (hms : MachinesValid ms) (fp fb : F64) (t0 : Int) (rng : σ)
    (h : List Call) (lo : Int) (B : Nat) (ht0 : lo ≤ t0 ∧ t0 ≤ lo + B)
    (ht : ∀ cl ∈ h, lo ≤ cl.2 ∧ cl.2 ≤ lo + B) (hg : (h.length + 1) * B ≤ durMax) :
    (runCalls ρ (Fw.init ρ ms fp fb t0 rng) h).fault = none := by
  rcases C01_no_crash ρ ms hms fp fb t0 rng h with h1 | h1
  · exact h1
  · exact absurd h1 (noDur_run ρ ms fp fb t0 rng h ht0 ht hg)

/-- the same for every intermediate state of the history (every call returned normally) -/
theorem C01_total_prefix (ms : List Machine) (hms : MachinesValid ms) (fp fb : F64) (t0 : Int) (rng : σ)
    (h h' : List Call) (lo : Int) (B : Nat) (ht0 : lo ≤ t0 ∧ t0 ≤ lo + B)
    (ht : ∀ cl ∈ h ++ h', lo ≤ cl.2 ∧ cl.2 ≤ lo + B) (hg : ((h ++ h').length + 1) * B ≤ durMax) :
    (runCalls ρ (Fw.init ρ ms fp fb t0 rng) h).fault = none := by
  refine C01_total ρ ms hms fp fb t0 rng h lo B ht0 (fun cl hcl => ht cl (by simp [hcl])) ?_
  have : (h.length + 1) * B ≤ ((h ++ h').length + 1) * B := Nat.mul_le_mul_right B (by simp)
  omega

/-- Non-vacuity of the guard: a million calls spread over a century (in ns) satisfy it. -/
example : (1000000 + 1) * (100 * 365 * 86400 * 1000000000) ≤ durMax := by decide

/-- The remaining fault is reachable: four blocking periods of 2^62 s each (the clock jumping
    back in between) overflow the `Duration` that accumulates blocked time. No machine is needed. -/
theorem C01_dur_overflow_reachable :
    (runCalls unitOracle (Fw.init unitOracle [] 0 0 0 ())
      [([.blockingBegin 0], 0), ([.blockingEnd], bigT), ([.blockingBegin 0], 0), ([.blockingEnd], bigT),
       ([.blockingBegin 0], 0), ([.blockingEnd], bigT), ([.blockingBegin 0], 0), ([.blockingEnd], bigT)]).fault
      = some .durOverflow := by decide +kernel

/-- ... and three such periods do not overflow. -/
theorem C01_three_periods_fit :
    (runCalls unitOracle (Fw.init unitOracle [] 0 0 0 ())
      [([.blockingBegin 0], 0), ([.blockingEnd], bigT), ([.blockingBegin 0], 0), ([.blockingEnd], bigT),
       ([.blockingBegin 0], 0), ([.blockingEnd], bigT)]).fault = none := by decide +kernel

/-- Non-vacuity: the one-state machine with a probability-1 self loop on NormalSent is valid. -/
example : MachinesValid
    [{ allowedPaddingPackets := 0, maxPaddingFrac := 0, allowedBlockedMicrosec := 0, maxBlockingFrac := 0,
       states := [{ action := none, counterA := none, counterB := none,
                    transitions := [none, none, none, some [{ target := 0, prob := 0x3f800000 }], none, none, none,
                                    none, none, none, none, none, none] }] }] := by
  intro m hm
  simp only [List.mem_singleton] at hm
  subst hm
  constructor
  · decide +kernel
  · intro st hst
    simp only [List.mem_singleton] at hst
    subst hst
    rfl

/-! ### the monitor on the model's own trace -/

/-- every call record of the model's trace meets the monitor's work bound (any machines, any
    oracle, any history, faulting or not) -/
theorem C01_monitor_work (ms : List Machine) (fp fb : F64) (t0 : Int) (rng : σ) (h : List Call) :
    ∀ r ∈ (LL.modelTrace ρ ms fp fb t0 rng h).calls, steps r.log ≤ workBound r.events.length ms.length := by
  have key : ∀ (h : List Call) (s : Fw σ), s.machines = ms → Inv04 s →
      ∀ r ∈ LL.callRecs ρ s h, steps r.log ≤ workBound r.events.length ms.length := by
    intro h
    induction h with
    | nil => intro s _ _ r hr; simp [LL.callRecs] at hr
    | cons c h ih =>
      intro s hm hI r hr
      have hrun := triggerEvents_run ρ c.1 c.2 (LL.resetLog s)
      rw [LL.callRecs, List.mem_cons] at hr
      rcases hr with rfl | hr
      · rw [← hm]; exact MA.work_call ρ s hI c
      · exact ih _ ((LL.machines_run hrun).trans hm) ((LL.inv04_resetLog hI).run hrun) r hr
  exact key h _ (LL.machines_run (init_run ρ ms fp fb t0 rng)) (Inv04.init ρ ms fp fb t0 rng)

/-- **What the monitor does on the model's trace**, for every machine set, configuration, oracle and
    history: it returns `none` exactly when neither `Framework::new` nor any call reports a fault. -/
theorem C01_monitor_model_iff (ms : List Machine) (fp fb : F64) (t0 : Int) (rng : σ) (h : List Call) :
    monitor (LL.modelTrace ρ ms fp fb t0 rng h) = none ↔
      (LL.modelTrace ρ ms fp fb t0 rng h).newRes = .ok ∧
      ∀ r ∈ (LL.modelTrace ρ ms fp fb t0 rng h).calls, r.res = .ok :=
  MA.c01_monitor_iff ρ ms fp fb t0 rng h

/-- **The monitor accepts the model** under the hypotheses of `C01_total`:
    * `hms` — the machines pass validation and have the Rust shape. Needed: `Fw.init` models
      `Framework::new` after validation succeeded, and for a machine without states it indexes out of
      range (`C01_monitor_rejects_unvalidated`); the implementation returns `Err` there instead.
    * `ht0`, `ht`, `hg` — the clock values lie in a window `[lo, lo + B]` with
      `(calls + 1) * B ≤ Duration::MAX`. Needed: outside it the model (and the code, known finding F6)
      overflows a `Duration`, and the monitor reports that (`C01_monitor_rejects_overflow`). -/
theorem C01_monitor_accepts_model (ms : List Machine) (hms : MachinesValid ms) (fp fb : F64) (t0 : Int) (rng : σ)
    (h : List Call) (lo : Int) (B : Nat) (ht0 : lo ≤ t0 ∧ t0 ≤ lo + B)
    (ht : ∀ cl ∈ h, lo ≤ cl.2 ∧ cl.2 ≤ lo + B) (hg : (h.length + 1) * B ≤ durMax) :
    monitor (LL.modelTrace ρ ms fp fb t0 rng h) = none :=
  MA.c01_monitor_model ρ ms (fun m hm => machineOK_of_validate m (hms m hm).1 (hms m hm).2) fp fb t0 rng h lo B ht0 ht hg

/-- the clock guard cannot be dropped: on the history of `C01_dur_overflow_reachable` (no machine
    needed) the eighth call of the model faults and the monitor reports it -/
theorem C01_monitor_rejects_overflow :
    (monitor (LL.modelTrace unitOracle [] 0 0 0 ()
      [([.blockingBegin 0], 0), ([.blockingEnd], bigT), ([.blockingBegin 0], 0), ([.blockingEnd], bigT),
       ([.blockingBegin 0], 0), ([.blockingEnd], bigT), ([.blockingBegin 0], 0), ([.blockingEnd], bigT)])).isSome
      = true := by decide +kernel

/-- validation cannot be dropped: for a machine without states (refused by `Framework::new`) the
    model's construction indexes out of range and the monitor reports a panic of `Framework::new` -/
theorem C01_monitor_rejects_unvalidated :
    (monitor (LL.modelTrace unitOracle
      [{ allowedPaddingPackets := 0, maxPaddingFrac := 0, allowedBlockedMicrosec := 0, maxBlockingFrac := 0,
         states := [] }] 0 0 0 () [])).isSome = true ∧
    Validate.machine { allowedPaddingPackets := 0, maxPaddingFrac := 0, allowedBlockedMicrosec := 0,
                       maxBlockingFrac := 0, states := [] } = false := by decide +kernel

section MonitorDemo

/-- the validated one-state machine of the example above (probability-1 self loop on NormalSent) -/
private def dM : Machine :=
  { allowedPaddingPackets := 0, maxPaddingFrac := 0, allowedBlockedMicrosec := 0, maxBlockingFrac := 0,
    states := [{ action := none, counterA := none, counterB := none,
                 transitions := [none, none, none, some [{ target := 0, prob := 0x3f800000 }], none, none, none,
                                 none, none, none, none, none, none] }] }
private def dTrace : FwTrace :=
  LL.modelTrace unitOracle [dM, dM] 0 0 5 ()
    [([.normalSent, .blockingBegin 1], 10), ([], 7), ([.blockingEnd, .normalSent, .timerEnd 9], 20)]

/-- the same trace with the log of call `k` replaced -/
private def tamper (t : FwTrace) (k : Nat) (log : List LogEntry) : FwTrace :=
  { t with calls := t.calls.modify k (fun c => { c with log := log }) }

/-- Non-vacuity of `C01_monitor_accepts_model`: the hypotheses hold for this trace (window
    `[5, 5 + 15]`, clock running backwards in between), no call faults, the calls log 4, 0 and 4
    transition invocations against bounds of 54, 18 and 72, the monitor accepts — and its work-bound
    rule is live: the same trace with 55 transition entries in the first call's log is rejected. -/
example : (∀ cl ∈ [(([.normalSent, .blockingBegin 1] : List TEvent), (10 : Int)), ([], 7),
        ([.blockingEnd, .normalSent, .timerEnd 9], 20)], (5 : Int) ≤ cl.2 ∧ cl.2 ≤ 5 + (15 : Nat)) ∧
    (3 + 1) * 15 ≤ durMax ∧
    dTrace.newRes = .ok ∧ dTrace.calls.map (·.res) = [.ok, .ok, .ok] ∧
    dTrace.calls.map (fun c => (steps c.log, workBound c.events.length dTrace.machines.length)) =
      [(4, 54), (0, 18), (4, 72)] ∧
    monitor dTrace = none ∧
    (monitor (tamper dTrace 0 (List.replicate 55 (.trans 0 3 0)))).isSome = true := by decide +kernel

end MonitorDemo

end Mb.C01
