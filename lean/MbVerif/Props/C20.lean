/-
  C20 — the C API returns exactly the framework's actions, never writes past `num_machines`,
  and reports bad arguments through error codes.

  Theorems about the model `MbVerif/Ffi.lean` of crates/maybenot-ffi.  The C layout is computed
  from the field lists the translator regenerates from maybenot.h on every run
  (`MbVerif/Generated/Ffi.lean`), the discriminants and field orders of the Rust declarations
  come from src/lib.rs and src/error.rs; no theorem below mentions a concrete offset or
  discriminant, so they are re-checked against whatever the sources say now.

  That the Rust code computes this model (raw bytes of the output buffer decoded with the
  header-derived layout vs. the framework's actions; result codes; canaries) is the
  correspondence / monitor run (`tools/props_ffi.py`).
-/
import MbVerif.Proofs.FfiSession

namespace Mb.C20
open Mb Mb.Ffi

/-! ### 1. header and Rust declarations agree; the layout is well formed -/

/-- TRANSLATOR OBLIGATION.  maybenot.h is the C view of exactly what the Rust declares: the four
    enums have the same constants with the same values (and are 32-bit), `MaybenotEvent`,
    `MaybenotDuration` and every variant body of the `#[repr(C, u32)]` enum `MaybenotAction` have
    the same field names with corresponding types **in the same order**, the tagged union is
    `{ tag; union { bodies in variant order } }`, and the five prototypes match the `extern "C"`
    signatures. -/
theorem C20_layout_consistent : Gen.Ffi.layoutConsistent = true := by decide

/-- In the x86-64 SysV layout computed from the header, every variant's scalar fields and the tag
    are found by name, lie inside `sizeof(MaybenotAction)` and do not overlap; tags are distinct;
    same for `MaybenotEvent`. -/
theorem C20_layout_wellformed : actionLayoutOK = true ∧ eventLayoutOK = true := by
  constructor <;> decide

/-! ### 2. one output slot, field for field -/

/-- Slot round trip: the bytes of any action whose values fit their C fields, read back with the
    header-derived layout, give that action — every named field at its own offset, padding
    ignored. -/
theorem C20_slot_roundtrip (c : CAction) (hfit : c.fits = true) :
    decodeAction (encodeAction c) = some c :=
  decode_encode c hfit

/-- FIELD FOR FIELD.  What the integrator reads (with maybenot.h) from the slot that
    `convert_action` fills for a framework action `a` is the specified view of `a`: same kind,
    machine, `bypass` under `bypass`, `replace` under `replace`, timer, and timeout / duration as
    whole seconds + nanoseconds. -/
theorem C20_action_fields (a : TAction) (h : inRange a) :
    decodeAction (encodeAction (convertAction a)) = some (view a) := by
  rw [decode_encode _ (convertAction_fits a h), convertAction_eq_view]

/-- The seconds / nanoseconds split of a `u64` microsecond value is exact, normalised, and fits
    `uint64_t secs` / `uint32_t nanos`. -/
theorem C20_split (us : Nat) (h : us < 2 ^ 64) :
    (durOfMicros us).secs * 10 ^ 9 + (durOfMicros us).nanos = us * 1000 ∧
    (durOfMicros us).nanos < 10 ^ 9 ∧
    (durOfMicros us).secs < 2 ^ 64 ∧ (durOfMicros us).nanos < 2 ^ 32 := by
  simp only [durOfMicros]
  omega

/-- The flags cannot be exchanged unnoticed: slots that decode to the same action came from
    framework actions with the same `bypass` and the same `replace` (and the same everything
    else). -/
theorem C20_view_injective (a b : TAction) (ha : inRange a) (hb : inRange b)
    (h : encodeAction (convertAction a) = encodeAction (convertAction b)) : a = b := by
  have h1 := C20_action_fields a ha
  have h2 := C20_action_fields b hb
  rw [h, h2] at h1
  have hv : view b = view a := Option.some.inj h1
  cases a <;> cases b <;> simp only [view, CAction.cancel.injEq, CAction.sendPadding.injEq,
    CAction.blockOutgoing.injEq, CAction.updateTimer.injEq, splitNanos, CDuration.mk.injEq, reduceCtorEq] at hv
  all_goals simp only [TAction.cancel.injEq, TAction.sendPadding.injEq, TAction.blockOutgoing.injEq,
    TAction.updateTimer.injEq]
  all_goals (simp only [inRange] at ha hb)
  all_goals (refine ⟨?_, ?_⟩ <;> (try refine ⟨?_, ?_⟩) <;> (try refine ⟨?_, ?_⟩) <;> (try refine ⟨?_, ?_⟩))
  all_goals first
    | omega
    | (clear ha hb; simp_all)

/-! ### 3. count and buffer -/

section
variable {σ : Type} (ρ : Oracle σ)

/-- COUNT.  With a buffer of at least `num_machines` slots (the caller's obligation) and the
    framework's output contract `hC04` (at most one action per machine, property C04), the count
    written is exactly the number of actions the framework returns, hence ≤ `num_machines`. -/
theorem C20_count (s : Fw σ) (now : Int) (evs : List CEvent) (buf : List Bytes) (r : Fw σ × List Bytes × Nat)
    (hbuf : s.machines.length ≤ buf.length)
    (hrun : onEvents ρ s now evs buf = some r)
    (hC04 : r.1.actionsOut.length ≤ s.machines.length) :
    r.2.2 = r.1.actionsOut.length ∧ r.2.2 ≤ s.machines.length := by
  unfold onEvents at hrun
  cases hm : evs.mapM convertEvent with
  | none => simp [hm] at hrun
  | some tes =>
    simp only [hm, Option.some.injEq] at hrun
    subst hrun
    simp only [writeSlots_count, List.length_map] at hC04 ⊢
    omega

/-- The framework run inside the call is `trigger_events` on the converted events. -/
theorem C20_framework_step (s : Fw σ) (now : Int) (evs : List CEvent) (buf : List Bytes) (r : Fw σ × List Bytes × Nat)
    (hrun : onEvents ρ s now evs buf = some r) :
    ∃ tes, evs.mapM convertEvent = some tes ∧ r.1 = triggerEvents ρ tes now s := by
  unfold onEvents at hrun
  cases hm : evs.mapM convertEvent with
  | none => simp [hm] at hrun
  | some tes =>
    simp only [hm, Option.some.injEq] at hrun
    exact ⟨tes, rfl, by rw [← hrun]⟩

/-- EXACTLY THE FRAMEWORK'S ACTIONS.  The first `count` slots, decoded with maybenot.h, are the
    views of the framework's actions, in order. -/
theorem C20_written_actions (s : Fw σ) (now : Int) (evs : List CEvent) (buf : List Bytes) (r : Fw σ × List Bytes × Nat)
    (hbuf : s.machines.length ≤ buf.length)
    (hrun : onEvents ρ s now evs buf = some r)
    (hC04 : r.1.actionsOut.length ≤ s.machines.length)
    (hrange : ∀ a ∈ r.1.actionsOut, inRange a) :
    (r.2.1.take r.2.2).map decodeAction = r.1.actionsOut.map (fun a => some (view a)) := by
  have hc := (C20_count ρ s now evs buf r hbuf hrun hC04).1
  unfold onEvents at hrun
  cases hm : evs.mapM convertEvent with
  | none => simp [hm] at hrun
  | some tes =>
    simp only [hm, Option.some.injEq] at hrun
    subst hrun
    simp only at hc hrange ⊢
    rw [writeSlots_take, hc, List.take_of_length_le (by simp)]
    exact decode_written _ hrange

/-- NOTHING BEYOND `count` IS WRITTEN: the caller's buffer from index `count` on is unchanged, and
    its length is unchanged. -/
theorem C20_suffix_unchanged (s : Fw σ) (now : Int) (evs : List CEvent) (buf : List Bytes) (r : Fw σ × List Bytes × Nat)
    (hrun : onEvents ρ s now evs buf = some r) :
    r.2.1.drop r.2.2 = buf.drop r.2.2 ∧ r.2.1.length = buf.length := by
  unfold onEvents at hrun
  cases hm : evs.mapM convertEvent with
  | none => simp [hm] at hrun
  | some tes =>
    simp only [hm, Option.some.injEq] at hrun
    subst hrun
    exact ⟨writeSlots_drop _ _ _, writeSlots_length _ _ _⟩

/-- NEVER PAST `num_machines`, unconditionally (even if the framework broke its contract and
    returned more actions than machines, and whatever the size of the caller's memory). -/
theorem C20_never_past_num_machines (s : Fw σ) (now : Int) (evs : List CEvent) (buf : List Bytes)
    (r : Fw σ × List Bytes × Nat) (hrun : onEvents ρ s now evs buf = some r) :
    r.2.1.drop s.machines.length = buf.drop s.machines.length ∧ r.2.2 ≤ s.machines.length := by
  unfold onEvents at hrun
  cases hm : evs.mapM convertEvent with
  | none => simp [hm] at hrun
  | some tes =>
    simp only [hm, Option.some.injEq] at hrun
    subst hrun
    refine ⟨writeSlots_drop_n _ _ _, ?_⟩
    simp only [writeSlots_count]; omega

end

/-- `actions.length ≤ n` follows from the shape of the iterator returned by `trigger_events`:
    a `filterMap` over the per-machine action slots. -/
theorem C20_hC04_of_slots {σ : Type} (s : Fw σ) (n : Nat) (h : s.actions.length = n) : s.actionsOut.length ≤ n := by
  rw [← h]; exact List.length_filterMap_le _ _

/-! ### 3b. the contract discharged: a whole API session -/

/-- END TO END, no hypothesis about the framework left.  For an instance created from ANY
    machines and fractions (`Fw.init`, i.e. a successful `maybenot_start`), after ANY history of
    calls, under ANY random source, the next `maybenot_on_events` call on a buffer with room for
    `num_machines` actions: the count is the number of actions the framework returns and is at
    most `num_machines`; the first `count` slots decode (with maybenot.h) to exactly those
    actions, in order, field for field; every other slot of the caller's memory is unchanged.
    The framework's output contract comes from the C04 theorems. -/
theorem C20_session {σ : Type} (ρ : Oracle σ) (ms : List Machine) (fp fb : F64) (t0 : Int) (rng : σ)
    (h : List Call) (now : Int) (evs : List CEvent) (buf : List Bytes) (r : Fw σ × List Bytes × Nat)
    (hms : ms.length < 2 ^ 64) (hbuf : ms.length ≤ buf.length)
    (hrun : onEvents ρ (runCalls ρ (Fw.init ρ ms fp fb t0 rng) h) now evs buf = some r) :
    r.2.2 = r.1.actionsOut.length ∧ r.2.2 ≤ ms.length ∧
    (r.2.1.take r.2.2).map decodeAction = r.1.actionsOut.map (fun a => some (view a)) ∧
    r.2.1.drop r.2.2 = buf.drop r.2.2 ∧ r.2.1.length = buf.length := by
  have hmach := runCalls_machines ρ ms fp fb t0 rng h
  obtain ⟨tes, _, hr1⟩ := C20_framework_step ρ _ now evs buf r hrun
  have hmem := runStates_snoc ρ (Fw.init ρ ms fp fb t0 rng) h (tes, now)
  rw [← hr1] at hmem
  have hcnt := C04.C04_count ρ ms fp fb t0 rng _ r.1 hmem
  have hout := C04.C04_out ρ ms fp fb t0 rng _ r.1 hmem
  have hrange : ∀ a ∈ r.1.actionsOut, inRange a := by
    intro a ha
    simp only [C04.outOK, Bool.and_eq_true, List.all_eq_true] at hout
    exact inRange_of_actionOK ms a hms (hout.2 a ha)
  have hbuf' : (runCalls ρ (Fw.init ρ ms fp fb t0 rng) h).machines.length ≤ buf.length := by rw [hmach]; exact hbuf
  have hC04 : r.1.actionsOut.length ≤ (runCalls ρ (Fw.init ρ ms fp fb t0 rng) h).machines.length := by
    rw [hmach]; exact hcnt
  have h1 := C20_count ρ _ now evs buf r hbuf' hrun hC04
  have h2 := C20_written_actions ρ _ now evs buf r hbuf' hrun hC04 hrange
  have h3 := C20_suffix_unchanged ρ _ now evs buf r hrun
  rw [hmach] at h1
  exact ⟨h1.1, h1.2, h2, h3.1, h3.2⟩

/-! ### 4. events -/

/-- `convert_event` maps each C event type to the same-named framework event and passes the
    machine id on exactly for PaddingSent, BlockingBegin, TimerBegin, TimerEnd. -/
theorem C20_event_same_name (e : CEvent) (t : TEvent) (h : convertEvent e = some t) :
    e.eventType = evType (evName t) ∧ ∀ m, evMachine t = some m → m = e.machine :=
  convertEvent_sound e t h

/-- Every framework event is reachable: the same-named C event converts to it. -/
theorem C20_event_complete (t : TEvent) : convertEvent (eventOf t) = some t :=
  convertEvent_eventOf t

/-- `convert_event` is injective on the declared discriminants: two C events that convert to the
    same framework event have the same type (and the same machine id where the event has one). -/
theorem C20_event_injective (e₁ e₂ : CEvent) (t : TEvent)
    (h₁ : convertEvent e₁ = some t) (h₂ : convertEvent e₂ = some t) :
    e₁.eventType = e₂.eventType ∧ (evMachine t ≠ none → e₁.machine = e₂.machine) := by
  obtain ⟨a₁, b₁⟩ := convertEvent_sound e₁ t h₁
  obtain ⟨a₂, b₂⟩ := convertEvent_sound e₂ t h₂
  refine ⟨by rw [a₁, a₂], ?_⟩
  intro hm
  cases hmt : evMachine t with
  | none => exact absurd hmt hm
  | some m => rw [← b₁ m hmt, ← b₂ m hmt]

/-- An `MaybenotEvent` read back with the header-derived layout. -/
theorem C20_event_roundtrip (e : CEvent) (ht : e.eventType < 2 ^ 32) (hm : e.machine < 2 ^ 64) :
    decodeEvent (encodeEvent e) = some e := by
  have hok : eventLayoutOK = true := by decide
  simp only [eventLayoutOK, Bool.and_eq_true] at hok
  have hlo := hok.1.1.1
  have hlen0 : (List.replicate eventL.size FILLER).length = eventL.size := by simp
  have hok' : leavesOK (List.replicate eventL.size FILLER).length
      (([(evTypeLeaf, e.eventType), (evMachineLeaf, e.machine)] : List (Leaf × Nat)).map (·.1)) = true := by
    rw [hlen0]; exact hlo
  have hrt := readLeaf_writeAll _ _ hok'
  have hlen := writeAll_length _ _ (leavesOK_inBounds hok')
  have s1 : evTypeLeaf.size = 4 := by decide
  have s2 : evMachineLeaf.size = 8 := by decide
  simp only [List.map_cons, List.map_nil, List.cons.injEq, and_true, s1, s2] at hrt
  have e1 : e.eventType % 256 ^ 4 = e.eventType := Nat.mod_eq_of_lt (by omega)
  have e2 : e.machine % 256 ^ 8 = e.machine := Nat.mod_eq_of_lt (by omega)
  simp only [decodeEvent, encodeEvent, hlen, hlen0, ne_eq, not_true_eq_false, if_false, hrt.1, hrt.2, e1, e2]

/-! ### 5. argument checks and result codes -/

/-- The five result codes are pairwise distinct (so a code identifies its cause). -/
theorem C20_codes_distinct :
    [RC_Ok, RC_MachineStringNotUtf8, RC_InvalidMachineString, RC_StartFramework, RC_NullPointer].Nodup := by
  decide

/-- `maybenot_on_events`: NullPointer iff one of the four pointers is null, Ok otherwise; on
    NullPointer the caller's buffer and count cell are untouched and the instance is unchanged. -/
theorem C20_on_events_null {σ : Type} (ρ : Oracle σ) (nulls : Nulls) (s : Fw σ) (now : Int) (evs : List CEvent)
    (buf : List Bytes) :
    (nulls.any = true → apiOnEvents ρ nulls s now evs buf =
        some { fw := s, rc := RC_NullPointer, buf := buf, count := none }) ∧
    (nulls.any = false → onEventsRc nulls = RC_Ok) := by
  rcases onEventsRc_cases nulls with ⟨ha, hrc⟩ | ⟨ha, hrc⟩
  · refine ⟨fun _ => ?_, fun h => (by rw [ha] at h; cases h)⟩
    simp [apiOnEvents, hrc, rc_null_ne_ok]
  · exact ⟨fun h => (by rw [ha] at h; cases h), fun _ => hrc⟩

/-- `maybenot_start`: the result code as a function of the arguments, cause by cause.  Ok exactly
    when `out` is non-null, the string is UTF-8, every line is a valid machine string and both
    fractions pass `Framework::new`. -/
theorem C20_start_codes (outNull : Bool) (arg : MachinesArg) (fp fb : F64) :
    (outNull = true → startRc outNull arg fp fb = RC_NullPointer) ∧
    (outNull = false → arg = .notUtf8 → startRc outNull arg fp fb = RC_MachineStringNotUtf8) ∧
    (outNull = false → arg = .invalid → startRc outNull arg fp fb = RC_InvalidMachineString) ∧
    (∀ ms, outNull = false → arg = .parsed ms → Validate.frameworkNew ms fp fb = false →
        startRc outNull arg fp fb = RC_StartFramework) ∧
    (startRc outNull arg fp fb = RC_Ok ↔
        outNull = false ∧ ∃ ms, arg = .parsed ms ∧ Validate.frameworkNew ms fp fb = true) := by
  have d1 : RC_NullPointer ≠ RC_Ok := by decide
  have d2 : RC_MachineStringNotUtf8 ≠ RC_Ok := by decide
  have d3 : RC_InvalidMachineString ≠ RC_Ok := by decide
  have d4 : RC_StartFramework ≠ RC_Ok := by decide
  refine ⟨?_, ?_, ?_, ?_, ?_⟩
  · intro h; simp [startRc, h]
  · intro h h'; simp [startRc, h, h']
  · intro h h'; simp [startRc, h, h']
  · intro ms h h' hv; simp [startRc, h, h', hv]
  · cases outNull with
    | true => simp [startRc, d1]
    | false =>
      cases arg with
      | notUtf8 => simp [startRc, d2]
      | invalid => simp [startRc, d3]
      | parsed ms =>
        cases hv : Validate.frameworkNew ms fp fb <;> simp [startRc, hv, d4]

/-- A fraction outside [0, 1] or NaN is rejected by the validation model used for
    `StartFramework` (IEEE comparisons: every comparison with NaN is false). -/
theorem C20_bad_fraction_rejected (ms : List Machine) (fp fb : F64)
    (h : Validate.fracOK fp = false ∨ Validate.fracOK fb = false) : Validate.frameworkNew ms fp fb = false := by
  rcases h with h | h <;> simp [Validate.frameworkNew, h]

/-! ### 6. monitor = specification; the model satisfies it -/

/-- The monitor (first failing check) is silent exactly when the specification (every check)
    holds. -/
theorem C20_monitor_iff (cs : List Check) : firstFail cs = none ↔ Holds cs :=
  firstFail_none_iff cs

/-- The model of the C API satisfies the specification the monitor checks on the implementation:
    for a caller with `g` guard slots on either side of `n = num_machines` output slots, all
    pre-filled with `pat`, every check of `EvObs.checks` holds of the model's observable outcome —
    result code, count = number of framework actions ≤ n, decoded actions = views of the framework's
    actions, slots from `count` on and both guards untouched. -/
theorem C20_model_satisfies_spec {σ : Type} (ρ : Oracle σ) (nulls : Nulls) (s : Fw σ) (now : Int) (evs : List CEvent)
    (g : Nat) (pat : Bytes) (out : CallOut σ)
    (hrun : apiOnEvents ρ nulls s now evs (List.replicate (s.machines.length + g) pat) = some out)
    (hC04 : ∀ tes, evs.mapM convertEvent = some tes →
      (triggerEvents ρ tes now s).actionsOut.length ≤ s.machines.length ∧
      ∀ a ∈ (triggerEvents ρ tes now s).actionsOut, inRange a) :
    Holds (EvObs.checks { nulls := nulls, rc := out.rc, count := out.count, nm := s.machines.length, guard := g,
                          patSlot := pat, mem := List.replicate g pat ++ out.buf, ref := out.fw.actionsOut }) :=
  model_satisfies_checks ρ nulls s now evs g pat out hrun hC04

/-! ### 7. non-vacuity -/

/-- the framework action used in the examples: blocking with `bypass = true`, `replace = false`,
    timeout 1.5 s, duration 24 h, machine 3 -/
def exAction : TAction := .blockOutgoing 1500000 86400000000 true false 3

example : inRange exAction := by decide
example : view exAction = .blockOutgoing 3 ⟨1, 500000000⟩ false true ⟨86400, 0⟩ := by decide
example : decodeAction (encodeAction (convertAction exAction)) = some (view exAction) := by decide
/-- a swap of the two flags is visible in the bytes -/
example : decodeAction (encodeAction (convertAction (.blockOutgoing 1500000 86400000000 false true 3))) ≠
    some (view exAction) := by decide
/-- a swap of timeout and duration is visible in the bytes -/
example : decodeAction (encodeAction (convertAction (.blockOutgoing 86400000000 1500000 true false 3))) ≠
    some (view exAction) := by decide
/-- the x86-64 numbers -/
example : actionL.size = 56 ∧ actionL.align = 8 ∧ eventL.size = 16 := by decide
/-- the largest `u64` microsecond value still splits exactly -/
example : (durOfMicros (2 ^ 64 - 1)).secs = 18446744073709 ∧ (durOfMicros (2 ^ 64 - 1)).nanos = 551615000 := by decide
/-- zip semantics: two actions, three machines, a five-slot memory: two slots written, the rest
    untouched -/
example :
    let pat : Bytes := List.replicate 56 0xC5
    let r := writeSlots [convertAction exAction, convertAction (.cancel 1 .all)] 3 (List.replicate 5 pat)
    r.2 = 2 ∧ r.1.drop 2 = List.replicate 3 pat ∧
    (r.1.take 2).map decodeAction = [some (view exAction), some (view (.cancel 1 .all))] := by decide
/-- more actions than machines (contract broken): truncated at `num_machines`, nothing beyond -/
example :
    let pat : Bytes := List.replicate 56 0xC5
    let r := writeSlots [convertAction exAction, convertAction (.cancel 1 .all)] 1 (List.replicate 3 pat)
    r.2 = 1 ∧ r.1.drop 1 = List.replicate 2 pat := by decide
/-- events: an undeclared discriminant converts to nothing; PaddingSent keeps its machine id,
    NormalSent drops it -/
example : convertEvent ⟨10, 0⟩ = none ∧ convertEvent ⟨evType "PaddingSent", 7⟩ = some (.paddingSent 7) ∧
    convertEvent ⟨evType "NormalSent", 7⟩ = some .normalSent := by decide
/-- start codes -/
example : startRc true .notUtf8 0 0 = RC_NullPointer ∧ startRc false .notUtf8 0 0 = RC_MachineStringNotUtf8 ∧
    startRc false .invalid 0 0 = RC_InvalidMachineString := by decide

end Mb.C20
