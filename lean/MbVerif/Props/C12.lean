/-
  C12 — validation is sound.

  `Validate.machineWith c` is the model of `Machine::validate` with the three range tests
  (machine fractions, transition probabilities, per-vector sums) as a parameter `c`;
  `Validate.machine` (= `Validate.machineWith Validate.checks`, `machine_eq_with`) mirrors the code as it is today
  (`Validate.checks` is defined from `fracBad/probBad/sumBad`, the MIRROR POINT in Validate.lean).

  * `C12_sound_of_checks`   : for ANY sound triple of range tests, acceptance implies `WF`.
  * `C12_sound_fixed`       : the NaN-rejecting style `!(x >= lo && x <= hi)` is sound — FULL theorem.
  * `C12_sound_if`          : the full theorem for today's model, from the single hypothesis
                              `ChecksSound Validate.checks`.
  * `C12_checks_unsound_today`, `C12_unsound_today_fraction`, `C12_unsound_today_probability` :
                              that hypothesis is false today, with two concrete accepted machines
                              that are not well-formed (NaN fraction, NaN probability).
  * `C12_sound_today_partial` : what does hold today: acceptance implies `WF` for machines whose
                              fractions and probabilities are not NaN.
  * `C12_today_eq_fixed_off_nan` : off NaN inputs today's judgement and the fixed one coincide.
  * `C12_fixed_rejects_nan` : the fixed tests leave no NaN in any fraction or probability.
  * `C12_frameworkNew_factors`, `C12_fracOK_sound`, `C12_init_no_fault` : `Framework::new`.

  AFTER THE FIX in /repo (comparisons rewritten to reject NaN): set
  `fracBad := fracBadFixed`, `probBad := probBadFixed`, `sumBad := sumBadFixed` in Validate.lean;
  then `ChecksSound Validate.checks` is `checksFixed_sound` (definitionally), so
      theorem C12_sound (m) : Validate.machine m = true → WF m := C12_sound_if checksFixed_sound m
  type-checks, and the three `…_today…` theorems below stop type-checking and are deleted.
-/
import MbVerif.Proofs.ValidateInit

namespace Mb.C12
open Mb Mb.Validate Mb.Fp

/-- acceptance by validation implies well-formedness, for any sound triple of range tests -/
theorem C12_sound_of_checks {c : Checks} (hc : ChecksSound c) (m : Machine) :
    machineWith c m = true → WF m :=
  machineWith_sound hc (inputsSat_true m)

/-- FULL soundness for the NaN-rejecting comparison style -/
theorem C12_sound_fixed (m : Machine) : machineWith checksFixed m = true → WF m :=
  C12_sound_of_checks checksFixed_sound m

/-- FULL soundness of today's model, from the one hypothesis about the comparison style -/
theorem C12_sound_if (hc : ChecksSound Validate.checks) (m : Machine) :
    Validate.machine m = true → WF m := by
  rw [machine_eq_with]; exact C12_sound_of_checks hc m

/-- … which does not hold today: NaN passes `x < 0.0 || x > 1.0` -/
theorem C12_checks_unsound_today : ¬ ChecksSound Validate.checks := checksCur_unsound

/-- a machine with `max_padding_frac = NaN` is accepted and is not well-formed -/
theorem C12_unsound_today_fraction :
    Validate.machine witnessNanFraction = true ∧ ¬ WF witnessNanFraction := by
  refine ⟨by decide +kernel, ?_⟩
  rw [← wfB_iff]
  decide +kernel

/-- a machine with a NaN transition probability is accepted and is not well-formed -/
theorem C12_unsound_today_probability :
    Validate.machine witnessNanProbability = true ∧ ¬ WF witnessNanProbability := by
  refine ⟨by decide +kernel, ?_⟩
  rw [← wfB_iff]
  decide +kernel

/-- hence the full statement is false of the code as it is today -/
theorem C12_sound_today_false : ¬ ∀ m, Validate.machine m = true → WF m :=
  fun h => C12_unsound_today_fraction.2 (h _ C12_unsound_today_fraction.1)

/-- what holds today: soundness for machines without NaN fractions / probabilities -/
theorem C12_sound_today_partial (m : Machine) (hnn : InputsSat (· ≠ .nan) m) :
    Validate.machine m = true → WF m := by
  rw [machine_eq_with]; exact machineWith_sound checksCur_sound_on_non_nan hnn

/-- the fixed tests reject NaN in every position -/
theorem C12_fixed_rejects_nan (m : Machine) (h : machineWith checksFixed m = true) :
    InputsSat (· ≠ .nan) m := by
  have hw := C12_sound_fixed m h
  refine ⟨?_, ?_, ?_⟩
  · intro e; have := hw.paddingFrac; rw [e] at this; exact this
  · intro e; have := hw.blockingFrac; rw [e] at this; exact this
  · intro s hs v hv ts e t ht en
    have := ((hw.states s hs).vectors v hv ts e).probs t ht
    rw [en] at this; exact this

/-- replacing today's comparisons by the NaN-rejecting ones changes the judgement on no machine
    whose fractions and probabilities are not NaN: the repair is behaviour-preserving off NaN -/
theorem C12_today_eq_fixed_off_nan (m : Machine) (hnn : InputsSat (· ≠ .nan) m) :
    Validate.machine m = machineWith checksFixed m := by
  rw [machine_eq_with]; exact machine_cur_eq_fixed hnn

/-- non-vacuity: a machine with two states, a two-target vector and a sampled limit is accepted by
    both styles and is well-formed -/
example : Validate.machine exampleMachine = true ∧ machineWith checksFixed exampleMachine = true ∧
    wfB exampleMachine = true := by
  refine ⟨by decide +kernel, by decide +kernel, by decide +kernel⟩

/-- the monitor run on the implementation's accepted machines decides `WF` -/
theorem C12_monitor_iff (m : Machine) : wfB m = true ↔ WF m := wfB_iff m

/-! ### every construction path goes through the same judgement

`Machine::new` is `validate` on the assembled struct (machine.rs:40-57), so its model *is*
`Validate.machine`.  `Framework::new` is modelled by `Validate.frameworkNew`.
TODO(hook, codec agent): `Machine::from_str` = decode ∘ `Validate.machine`; once
`Codec.fromStr` exists the statement is `Codec.fromStr s = .ok m → Validate.machine m = true`. -/

/-- `Framework::new` accepts iff both framework fractions are in [0,1] and every machine passes
    `Machine::validate` -/
theorem C12_frameworkNew_factors (ms : List Machine) (fp fb : F64) :
    frameworkNew ms fp fb = true ↔
      fracOK fp = true ∧ fracOK fb = true ∧ ∀ m ∈ ms, Validate.machine m = true := by
  simp [frameworkNew, and_assoc]

/-- the framework's own fraction test `(0.0..=1.0).contains(&x)` is NaN-safe -/
theorem C12_fracOK_sound (x : F64) (h : fracOK x = true) : Real01 (val64 x) := by
  unfold fracOK at h
  generalize val64 x = v at h
  rcases v with _ | ⟨_ | _⟩ | q <;> simp [le, zero, one, Real01] at h ⊢
  exact h

section init
variable {σ : Type} (ρ : Oracle σ)

/-- `Framework::new` on accepted arguments does not fault: state 0 of every machine exists, so
    neither `states[0]` nor the runtime update can go out of range -/
theorem C12_init_no_fault (ms : List Machine) (fp fb : F64) (t0 : Int) (rng : σ)
    (h : frameworkNew ms fp fb = true) : (Fw.init ρ ms fp fb t0 rng).fault = none := by
  have hms : ∀ m ∈ ms, 0 < m.states.length := fun m hm =>
    machineWith_has_state (by rw [← machine_eq_with]; exact ((C12_frameworkNew_factors ms fp fb).mp h).2.2 m hm)
  unfold Fw.init
  suffices H : ∀ (l : List Nat) (s : Fw σ), (∀ mi ∈ l, mi < ms.length) → InitInv ms s →
      InitInv ms (l.foldl (initLimit ρ) s) by
    exact (H (List.range ms.length) _ (fun mi hmi => List.mem_range.mp hmi)
      ⟨rfl, by simp [Fw.init0], rfl⟩).noFault
  intro l
  induction l with
  | nil => intro s _ hs; exact hs
  | cons mi l ih =>
    intro s hl hs
    simp only [List.foldl_cons]
    apply ih
    · exact fun x hx => hl x (List.mem_cons_of_mem _ hx)
    · have hmi : mi < ms.length := hl mi List.mem_cons_self
      have hm : s.machines[mi]? = some ms[mi] := by
        rw [hs.machines]; exact List.getElem?_eq_getElem hmi
      unfold initLimit
      rw [hm]
      simp only []
      have hst : 0 < ms[mi].states.length := hms _ (List.getElem_mem hmi)
      rw [List.getElem?_eq_getElem hst]
      simp only []
      split
      · exact hs
      · rename_i a _
        exact modRt_inv (sampleLimit_inv ρ a hs) hmi _

end init

end Mb.C12
