/-
  C12 — validation is sound.

  `Validate.machineWith c` is the model of `Machine::validate` with the three range tests
  (machine fractions, transition probabilities, per-vector sums) as a parameter `c`.
  `checksCur`  = the comparisons `x < 0.0 || x > 1.0`, `p <= 0.0 || p > 1.0`, `sum <= 0.0 || sum > 1.0`;
  `checksFixed` = the NaN-rejecting `!(x >= 0.0 && x <= 1.0)`, `!(p > 0.0 && p <= 1.0)`, …
  `Validate.machine` is the code as it is today: `machine m = machineWith Validate.checks m`
  (`machine_eq_with`), where `Validate.checks` is built from `fracBad/probBad/sumBad`, the
  MIRROR POINT in Validate.lean.

  PART 1 (independent of which style the code uses; never needs editing)
  * `C12_sound_of_checks`      : for ANY sound triple of range tests, acceptance implies `WF`.
  * `C12_sound_fixed`          : FULL soundness of the NaN-rejecting style.
  * `C12_unsound_cur_fraction`, `C12_unsound_cur_probability`, `C12_sound_cur_false` :
                                 the `x < lo || x > hi` style accepts two concrete machines that are
                                 not well-formed (NaN fraction, NaN probability): it is NOT sound.
  * `C12_sound_cur_partial`    : what the `x < lo || x > hi` style does give: `WF` for machines whose
                                 fractions and probabilities are not NaN.
  * `C12_cur_eq_fixed_off_nan` : off NaN the two styles give the same judgement (the repair changes
                                 nothing else).
  * `C12_fixed_rejects_nan`, `C12_monitor_iff`.
  PART 2 (construction paths) `C12_from_str_factors`, `C12_frameworkNew_factors`, `C12_fracOK_sound`,
                                 `C12_init_no_fault`.
  PART 3 (TODAY: the only theorems that depend on which style /repo uses) — see the end of the file
  for the four-line replacement once /repo rejects NaN.
-/
import MbVerif.Proofs.ValidateInit
import MbVerif.Proofs.CodecStr

namespace Mb.C12
open Mb Mb.Validate Mb.Fp

/-! ## Part 1 -/

/-- acceptance by validation implies well-formedness, for any sound triple of range tests -/
theorem C12_sound_of_checks {c : Checks} (hc : ChecksSound c) (m : Machine) :
    machineWith c m = true → WF m :=
  machineWith_sound hc (inputsSat_true m)

/-- FULL soundness for the NaN-rejecting comparison style -/
theorem C12_sound_fixed (m : Machine) : machineWith checksFixed m = true → WF m :=
  C12_sound_of_checks checksFixed_sound m

/-- `x < 0.0 || x > 1.0`: a machine with `max_padding_frac = NaN` is accepted and is not well-formed -/
theorem C12_unsound_cur_fraction :
    machineWith checksCur witnessNanFraction = true ∧ ¬ WF witnessNanFraction := by
  refine ⟨by decide +kernel, ?_⟩
  rw [← wfB_iff]
  decide +kernel

/-- `p <= 0.0 || p > 1.0`: a machine with a NaN transition probability is accepted and is not
    well-formed -/
theorem C12_unsound_cur_probability :
    machineWith checksCur witnessNanProbability = true ∧ ¬ WF witnessNanProbability := by
  refine ⟨by decide +kernel, ?_⟩
  rw [← wfB_iff]
  decide +kernel

/-- hence soundness is false for the `x < lo || x > hi` style -/
theorem C12_sound_cur_false : ¬ ∀ m, machineWith checksCur m = true → WF m :=
  fun h => C12_unsound_cur_fraction.2 (h _ C12_unsound_cur_fraction.1)

/-- the isolated reason: the comparisons themselves let NaN through -/
theorem C12_checks_cur_unsound : ¬ ChecksSound checksCur := checksCur_unsound

/-- what the `x < lo || x > hi` style does give: soundness for machines without NaN fractions and
    probabilities -/
theorem C12_sound_cur_partial (m : Machine) (hnn : InputsSat (· ≠ .nan) m) :
    machineWith checksCur m = true → WF m :=
  machineWith_sound checksCur_sound_on_non_nan hnn

/-- the fixed tests reject NaN in every position -/
theorem C12_fixed_rejects_nan (m : Machine) (h : machineWith checksFixed m = true) :
    InputsSat (· ≠ .nan) m := by
  have hw := C12_sound_fixed m h
  refine ⟨?_, ?_, ?_⟩
  · intro e; have := hw.paddingFrac; rw [e] at this; exact this
  · intro e; have := hw.blockingFrac; rw [e] at this; exact this
  · intro s hs v hv ts e t ht en
    have := ((hw.states s hs).vectors v hv ts e).probs t ht
    rw [en] at this; exact this

/-- replacing the comparisons by the NaN-rejecting ones changes the judgement on no machine whose
    fractions and probabilities are not NaN: the repair is behaviour-preserving off NaN -/
theorem C12_cur_eq_fixed_off_nan (m : Machine) (hnn : InputsSat (· ≠ .nan) m) :
    machineWith checksCur m = machineWith checksFixed m :=
  machine_cur_eq_fixed hnn

/-- non-vacuity: a machine with two states, a two-target vector and a sampled limit is accepted by
    both styles and is well-formed -/
example : machineWith checksCur exampleMachine = true ∧ machineWith checksFixed exampleMachine = true ∧
    wfB exampleMachine = true := by
  refine ⟨by decide +kernel, by decide +kernel, by decide +kernel⟩

/-- the monitor run on the implementation's accepted machines decides `WF` -/
theorem C12_monitor_iff (m : Machine) : wfB m = true ↔ WF m := wfB_iff m

/-! ## Part 2 — every construction path goes through the same judgement

`Machine::new` is `validate` on the assembled struct (machine.rs:40-57), so its model *is*
`Validate.machine`.  `Machine::from_str` is modelled by `MStr.fromStr` (C11), `Framework::new`
by `Validate.frameworkNew`. -/

/-- whatever `Machine::from_str` returns passed `Machine::validate`, for every string and every
    behaviour of the zlib decoder -/
theorem C12_from_str_factors (Z : MStr.Zlib) (s : Codec.Bytes) (m : Machine)
    (h : MStr.fromStr Z s = .ok m) : Validate.machine m = true := by
  obtain ⟨_, _, _, _, _, _, _, _, hv⟩ := MStr.fromStr_ok h
  exact hv

/-- `Framework::new` accepts iff both framework fractions are in [0,1] and every machine passes
    `Machine::validate` -/
theorem C12_frameworkNew_factors (ms : List Machine) (fp fb : F64) :
    frameworkNew ms fp fb = true ↔
      fracOK fp = true ∧ fracOK fb = true ∧ ∀ m ∈ ms, Validate.machine m = true := by
  simp [frameworkNew, and_assoc]

/-- the framework's own fraction test `(0.0..=1.0).contains(&x)` is NaN-safe -/
theorem C12_fracOK_sound (x : F64) (h : fracOK x = true) : Real01 (val64 x) := by
  unfold fracOK at h
  generalize val64 x = v at h
  rcases v with _ | ⟨_ | _⟩ | q <;> simp [le, zero, one, Real01] at h ⊢
  exact h

section init
variable {σ : Type} (ρ : Oracle σ)

/-- `Framework::new` on accepted arguments does not fault: state 0 of every machine exists, so
    neither `states[0]` nor the runtime update can go out of range -/
theorem C12_init_no_fault (ms : List Machine) (fp fb : F64) (t0 : Int) (rng : σ)
    (h : frameworkNew ms fp fb = true) : (Fw.init ρ ms fp fb t0 rng).fault = none := by
  have hms : ∀ m ∈ ms, 0 < m.states.length := fun m hm =>
    machineWith_has_state (by rw [← machine_eq_with]; exact ((C12_frameworkNew_factors ms fp fb).mp h).2.2 m hm)
  unfold Fw.init
  suffices H : ∀ (l : List Nat) (s : Fw σ), (∀ mi ∈ l, mi < ms.length) → InitInv ms s →
      InitInv ms (l.foldl (initLimit ρ) s) by
    exact (H (List.range ms.length) _ (fun mi hmi => List.mem_range.mp hmi)
      ⟨rfl, by simp [Fw.init0], rfl⟩).noFault
  intro l
  induction l with
  | nil => intro s _ hs; exact hs
  | cons mi l ih =>
    intro s hl hs
    simp only [List.foldl_cons]
    apply ih
    · exact fun x hx => hl x (List.mem_cons_of_mem _ hx)
    · have hmi : mi < ms.length := hl mi List.mem_cons_self
      have hm : s.machines[mi]? = some ms[mi] := by
        rw [hs.machines]; exact List.getElem?_eq_getElem hmi
      unfold initLimit
      rw [hm]
      simp only []
      have hst : 0 < ms[mi].states.length := hms _ (List.getElem_mem hmi)
      rw [List.getElem?_eq_getElem hst]
      simp only []
      split
      · exact hs
      · rename_i a _
        exact modRt_inv (sampleLimit_inv ρ a hs) hmi _

end init

/-! ## Part 3 — TODAY

The only theorems that depend on which comparison style /repo uses. Since fix 65165a2 the code
rejects NaN (`!(x >= lo && x <= hi)` style), `Validate.checks = checksFixed`, and the full
soundness theorem holds of the model of today's code. The witnesses of Part 2 remain as the
record of the defect the monitor found in the code before the fix (KNOWN_FINDINGS.json, F1).
-/

/-- the model mirrors the NaN-rejecting comparisons of today's code -/
theorem C12_today_is_fixed : Validate.checks = checksFixed := rfl

/-- FULL: any machine accepted by `Machine::validate` is well-formed -/
theorem C12_sound (m : Machine) : Validate.machine m = true → WF m := by
  rw [machine_eq_with, C12_today_is_fixed]; exact C12_sound_fixed m

/-- in particular today's validation accepts no NaN fraction or probability -/
theorem C12_rejects_nan (m : Machine) (h : Validate.machine m = true) : InputsSat (· ≠ .nan) m := by
  rw [machine_eq_with, C12_today_is_fixed] at h; exact C12_fixed_rejects_nan m h

end Mb.C12
