/-
  Observed traces (from the implementation or from the model) in the shape the
  property monitors consume.
-/
import MbVerif.Framework
import MbVerif.Codec

namespace Mb

/-- per-machine part of a snapshot -/
structure RtSnap where
  state : Nat
  limit : Nat
  ctrA : Nat
  ctrB : Nat
  padding : Nat
  normal : Nat
  blockingNs : Nat
  zeroedA : Bool
  zeroedB : Bool
  deriving Repr, DecidableEq, Inhabited

structure Snap where
  rts : List RtSnap
  now : Int
  normal : Nat
  padding : Nat
  blockingNs : Nat
  blockingStarted : Int
  blockingActive : Bool
  signalPending : Option SignalTarget
  deriving Repr, DecidableEq, Inhabited

/-- outcome of one operation -/
inductive Res where
  | ok
  | err
  | panic (cls : String)
  deriving Repr, DecidableEq, Inhabited

/-- one `trigger_events` call as observed -/
structure CallRec where
  t : Int
  events : List TEvent
  res : Res
  actions : List TAction
  snap : Snap
  log : List LogEntry   -- oldest first
  deriving Repr, Inhabited

/-- a whole framework run as observed -/
structure FwTrace where
  machines : List Machine
  fp : F64
  fb : F64
  t0 : Int
  newRes : Res
  snap0 : Snap
  log0 : List LogEntry
  calls : List CallRec
  deriving Repr, Inhabited

def Fw.snap {σ} (s : Fw σ) : Snap :=
  { rts := s.rt.map fun r =>
      { state := r.currentState, limit := r.stateLimit, ctrA := r.counterA, ctrB := r.counterB,
        padding := r.acct.paddingSent, normal := r.acct.normalSent, blockingNs := r.acct.blockingDur,
        zeroedA := r.zeroedA, zeroedB := r.zeroedB },
    now := s.g.now, normal := s.g.normalSent, padding := s.g.paddingSent, blockingNs := s.g.blockingDur,
    blockingStarted := s.g.blockingStarted, blockingActive := s.g.blockingActive,
    signalPending := s.signalPending }

end Mb
