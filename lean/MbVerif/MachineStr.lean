/-
  The string form of a machine (machine.rs): `Machine::serialize` and `FromStr for Machine`.

  A string is modelled as its UTF-8 bytes (`from_str` only ever looks at bytes: `len()`,
  `is_ascii()`, byte slices after the ASCII check).

  zlib is a *parameter*: `deflate` is what `ZlibEncoder::write_all` + `finish` produce,
  `readOnce` is what `from_str`'s bounded read step yields: since fix f96075f it reads into the
  `MAX_DECOMPRESSED_SIZE`-byte buffer until the stream ends or the buffer is full (before the fix
  it was a single `decoder.read(&mut buf)` call, for which the contract below fails on payloads
  whose compressed form exceeds flate2's 32 KiB input chunk); `none` = a read returned an error.
  The contract the round-trip theorems need is `Zlib.Contract`; it is a hypothesis of those
  theorems, never an axiom, and the harness checks it against the real flate2 path.
-/
import MbVerif.Base64
import MbVerif.Validate
import MbVerif.Codec.WF

namespace Mb
namespace MStr
open Codec (Bytes)

def MAX : Nat := Gen.MAX_DECOMPRESSED_SIZE

structure Zlib where
  deflate : Bytes → Bytes
  readOnce : Bytes → Option Bytes

/-- what the round trip needs from zlib -/
structure Zlib.Contract (Z : Zlib) : Prop where
  /-- the bounded read step returns the whole payload when it fits the `MAX`-byte buffer -/
  read_deflate : ∀ x : Bytes, x.length ≤ MAX → Z.readOnce (Z.deflate x) = some x
  /-- a zlib stream is never empty (it has a header and a checksum) -/
  deflate_ne_nil : ∀ x : Bytes, Z.deflate x ≠ []

/-- the read never yields more than the buffer it is given -/
def Zlib.Bounded (Z : Zlib) : Prop := ∀ y x, Z.readOnce y = some x → x.length ≤ MAX

inductive Err where
  | tooShort | notAscii | version | base64 | zlib | bincode | invalid
  /-- the Rust code would panic (string slice out of range or off a char boundary) -/
  | panic
  deriving Repr, DecidableEq, Inhabited

def digit (n : Nat) : UInt8 := UInt8.ofNat (48 + n % 10)

/-- `format!("{:02}", VERSION)` for the `u8` constant -/
def versionStr : Bytes :=
  if Gen.VERSION < 100 then [digit (Gen.VERSION / 10), digit Gen.VERSION]
  else [digit (Gen.VERSION / 100), digit (Gen.VERSION / 10), digit Gen.VERSION]

def isAscii (s : Bytes) : Bool := s.all (fun c => decide (c.toNat < 128))

/-- `Machine::serialize` (it panics, by `unwrap`, when the bincode size limit is exceeded:
    that is `serializePanics`) -/
def serialize (Z : Zlib) (m : Machine) : Bytes :=
  versionStr ++ B64.enc (Z.deflate (Codec.encMachine m))

def serializePanics (m : Machine) : Bool := decide (MAX < (Codec.encMachine m).length)

/-- is byte offset `i` a `char` boundary of the UTF-8 string `s` (`str::is_char_boundary`) -/
def isBoundary (s : Bytes) (i : Nat) : Bool :=
  i == s.length ||
    match s[i]? with
    | some b => decide (b.toNat < 128) || decide (192 ≤ b.toNat)
    | none => false

/-- `&s[lo..hi]` on a `str`: `none` where Rust panics -/
def strSlice (s : Bytes) (lo hi : Nat) : Option Bytes :=
  if lo ≤ hi ∧ hi ≤ s.length ∧ isBoundary s lo ∧ isBoundary s hi then some ((s.drop lo).take (hi - lo)) else none

/-- the part of `from_str` after the version check, on the text following the version -/
def fromBody (Z : Zlib) (body : Bytes) : Except Err Machine :=
  match B64.dec body with
  | none => .error .base64
  | some compressed =>
    match Z.readOnce compressed with
    | none => .error .zlib
    | some raw =>
      match Codec.decodeMachine raw with
      | none => .error .bincode
      | some m => if Validate.machine m then .ok m else .error .invalid

/-- `<Machine as FromStr>::from_str`, string slices checked -/
def fromStr (Z : Zlib) (s : Bytes) : Except Err Machine :=
  if s.length < 3 then .error .tooShort
  else if !isAscii s then .error .notAscii
  else
    match strSlice s 0 2 with
    | none => .error .panic
    | some version =>
      if version ≠ versionStr then .error .version
      else
        match strSlice s 2 s.length with
        | none => .error .panic
        | some body => fromBody Z body

/-- the same function with the slices written as `take`/`drop` (equal to `fromStr`, see
    `fromStr_eq_pure`: the ASCII test makes every offset a char boundary) -/
def fromStrPure (Z : Zlib) (s : Bytes) : Except Err Machine :=
  if s.length < 3 then .error .tooShort
  else if !isAscii s then .error .notAscii
  else if s.take 2 ≠ versionStr then .error .version
  else fromBody Z (s.drop 2)

end MStr
end Mb
