/-
  Model of `parse_trace`, `sim_advanced` and `sim` (lib.rs) without integration delays.

  The main loop is split in two so that recording is a pure function of the event stream:
  * `loop` produces the *stream* of `StepRec`s (event, network-activity flag, returned actions),
    one per iteration, and applies the three stop conditions; the filters and the length cap
    enter only through `keep` and a counter of kept events;
  * `record` filters the stream with `keep` and stable-sorts by time.
-/
import MbVerif.Sim.State

namespace Mb.Sim
open Mb

/-- `SimulatorArgs` (without the integration fields) -/
structure Args where
  network : Network
  maxTraceLength : Nat
  maxSimIterations : Nat
  continueAfterAllNormal : Bool
  onlyClientEvents : Bool
  onlyNetworkActivity : Bool
  fpClient : F64
  fbClient : F64
  fpServer : F64
  fbServer : F64
  deriving Repr, DecidableEq, Inhabited

/-- the output filter of the main loop -/
def keep (onlyNet onlyClient : Bool) (r : StepRec) : Bool :=
  (!onlyNet || r.net) && (!onlyClient || r.ev.client)

def Args.keep (a : Args) (r : StepRec) : Bool := Sim.keep a.onlyNetworkActivity a.onlyClientEvents r

/-- the same arguments with both output filters switched off -/
def Args.unfiltered (a : Args) : Args := { a with onlyClientEvents := false, onlyNetworkActivity := false }

/-! ### parse_trace -/

/-- one line of the trace: time in ns and direction (`true` = sent by the client) -/
abbrev TraceLine := Nat × Bool

structure ParseAcc where
  sq : SimQueue
  sentW : WindowCount
  recvW : WindowCount
  sentMax : Nat
  recvMax : Nat

/-- `parse_trace(trace, network)` on already split lines -/
def parseTrace (trace : List TraceLine) (delay : Nat) : SimQueue :=
  let init : ParseAcc := ⟨SimQueue.empty, ⟨Gen.SIM_PARSE_WINDOW_NS, []⟩, ⟨Gen.SIM_PARSE_WINDOW_NS, []⟩, 0, 0⟩
  let acc := trace.foldl (fun (acc : ParseAcc) (l : TraceLine) =>
    let ts : Int := l.1
    if l.2 then
      let sq := acc.sq.pushSim ⟨.normalSent, ts, true, false, false, false⟩
      let (m, w) := acc.sentW.add ts
      { acc with sq := sq, sentW := w, sentMax := if m > acc.sentMax then m else acc.sentMax }
    else
      let sq := acc.sq.pushSim ⟨.normalSent, ts - delay, false, false, false, false⟩
      let (m, w) := acc.recvW.add ts
      { acc with sq := sq, recvW := w, recvMax := if m > acc.recvMax then m else acc.recvMax }) init
  { acc.sq with maxPps := some (max acc.sentMax acc.recvMax * Gen.SIM_PARSE_PPS_FACTOR) }

/-- the direction tokens of a trace line that `parse_trace` accepts -/
inductive Dir where
  | s | sn | r | rn | sp | rp
  deriving Repr, DecidableEq, Inhabited

/-- a raw line of an input trace: time (ns) and direction token (the optional size column is
    not read by the parser) -/
structure RawLine where
  time : Nat
  dir : Dir
  deriving Repr, DecidableEq, Inhabited

/-- one step of the line loop of `parse_trace_advanced`: `"s" | "sn"` is a packet sent by the
    client, `"r" | "rn"` one sent by the server a network delay earlier, `"sp" | "rp"` is ignored
    (it neither queues anything nor enters the window counts) -/
def parseLine (delay : Nat) (acc : ParseAcc) (l : RawLine) : ParseAcc :=
  let ts : Int := l.time
  match l.dir with
  | .s | .sn =>
    let sq := acc.sq.pushSim ⟨.normalSent, ts, true, false, false, false⟩
    let (m, w) := acc.sentW.add ts
    { acc with sq := sq, sentW := w, sentMax := if m > acc.sentMax then m else acc.sentMax }
  | .r | .rn =>
    let sq := acc.sq.pushSim ⟨.normalSent, ts - delay, false, false, false, false⟩
    let (m, w) := acc.recvW.add ts
    { acc with sq := sq, recvW := w, recvMax := if m > acc.recvMax then m else acc.recvMax }
  | .sp | .rp => acc

/-- `parse_trace(trace, network)` on raw lines with all six direction tokens -/
def parseTraceRaw (trace : List RawLine) (delay : Nat) : SimQueue :=
  let init : ParseAcc := ⟨SimQueue.empty, ⟨Gen.SIM_PARSE_WINDOW_NS, []⟩, ⟨Gen.SIM_PARSE_WINDOW_NS, []⟩, 0, 0⟩
  let acc := trace.foldl (parseLine delay) init
  { acc.sq with maxPps := some (max acc.sentMax acc.recvMax * Gen.SIM_PARSE_PPS_FACTOR) }

/-- the normal packets of a raw trace: what `parse_trace` actually uses (padding lines dropped) -/
def normalLines : List RawLine → List TraceLine
  | [] => []
  | l :: r =>
    match l.dir with
    | .s | .sn => (l.time, true) :: normalLines r
    | .r | .rn => (l.time, false) :: normalLines r
    | .sp | .rp => normalLines r

/-! ### sim_advanced -/

section
variable {σ : Type} (ρ : Oracle σ)

/-- `SimState::new` given the oracle state; returns the side and the oracle state afterwards -/
def Side.new (machines : List Machine) (t0 : Int) (fp fb : F64) (orc : σ) : Except SimFault (Side σ × σ) :=
  if !Validate.frameworkNew machines fp fb then .error .frameworkNew else
  let fw := Fw.init ρ machines fp fb t0 orc
  match fw.fault with
  | some f => .error (.fw f)
  | none =>
    .ok ({ fw := { fw with log := [] }, schedAction := machines.map (fun _ => none),
           schedTimer := machines.map (fun _ => none), blockingUntil := none, blockingBypassable := false },
         fw.rng)

/-- `sq.get_first_time().unwrap()` -/
def firstTimeE (sq : SimQueue) : Except SimFault Int :=
  match sq.firstTime with
  | some t => .ok t
  | none => .error .emptyQueue

/-- the state at the top of the main loop -/
def initState (mc ms : List Machine) (sq : SimQueue) (args : Args) (orc : σ) : Except SimFault (St σ) := do
  let t0 ← firstTimeE sq
  let (c, orc) ← Side.new ρ mc t0 args.fpClient args.fbClient orc
  let (s, orc) ← Side.new ρ ms t0 args.fpServer args.fbServer orc
  let net ← Bottleneck.new args.network Gen.SIM_BOTTLENECK_WINDOW_NS sq.maxPps
  pure { sq := sq, client := c, server := s, net := net, now := t0, orc := orc }

/-- one iteration of the main loop up to (not including) recording and the stop tests:
    `none` = `pick_next` returned `None` -/
def step (st : St σ) : Except SimFault (Option (StepRec × St σ)) := do
  let (next, st) ← (pickNext (pickMeasure st + 1) st).getD (.error .fuel)
  match next with
  | none => pure none
  | some next =>
    if next.time < st.now then .error .timeBackwards else
    let st := { st with now := if next.time > st.now then next.time else st.now }
    let (na, sq, net) ← simNetworkStack next st.sq (st.side next.client).blockingBypassable st.net st.now
    let st := { st with sq := sq, net := net }
    let (acts, st) ← triggerUpdate ρ st next
    pure (some (⟨next, na, acts⟩, st))

/-- why the main loop ended -/
inductive Stop where
  | queueEmpty | maxTrace | maxIter | noNormal
  | fault (f : SimFault)
  | loopFuel     -- the model's own iteration budget ran out (only possible when `maxSimIterations = 0`)
  deriving Repr, DecidableEq, Inhabited

def Stop.isFault : Stop → Bool
  | .fault _ => true
  | _ => false

/-- result of the main loop: the stream of iterations, the stop reason and the final state -/
structure LoopOut (σ : Type) where
  stream : List StepRec
  stop : Stop
  final : Option (St σ)

/-- the three stop tests at the end of an iteration, in the order of the code: `cnt` is
    `trace.len()` after recording, `iters` the value of `sim_iterations` before its increment -/
def stopCheck (args : Args) (st : St σ) (iters cnt : Nat) : Option Stop :=
  if args.maxTraceLength > 0 && cnt ≥ args.maxTraceLength then some .maxTrace
  else if args.maxSimIterations > 0 && iters + 1 ≥ args.maxSimIterations then some .maxIter
  else if !args.continueAfterAllNormal && st.sq.noNormalPackets then some .noNormal
  else none

/-- `trace.len()` after the conditional push of the iteration's event -/
def bump (args : Args) (r : StepRec) (cnt : Nat) : Nat := if args.keep r then cnt + 1 else cnt

/-- the main `while let` loop; `iters` = `sim_iterations`, `cnt` = `trace.len()` -/
def loop (args : Args) : Nat → St σ → Nat → Nat → LoopOut σ
  | 0, st, _, _ => ⟨[], .loopFuel, some st⟩
  | fuel + 1, st, iters, cnt =>
    match step ρ st with
    | .error f => ⟨[], .fault f, none⟩
    | .ok none => ⟨[], .queueEmpty, some st⟩
    | .ok (some (r, st)) =>
      match stopCheck args st iters (bump args r cnt) with
      | some s => ⟨[r], s, some st⟩
      | none =>
        let o := loop args fuel st (iters + 1) (bump args r cnt)
        { o with stream := r :: o.stream }

end

/-- the returned trace: kept events, stable-sorted by time -/
def record (args : Args) (stream : List StepRec) : List SimEvent :=
  ((stream.filter args.keep).map (·.ev)).mergeSort (fun a b => a.time ≤ b.time)

/-- result of a simulation -/
structure SimOut (σ : Type) where
  trace : List SimEvent
  stream : List StepRec
  stop : Stop
  final : Option (St σ)

section
variable {σ : Type} (ρ : Oracle σ)

/-- main-loop fuel: `max_sim_iterations` when set, otherwise the caller's budget -/
def loopFuel (args : Args) (budget : Nat) : Nat :=
  if args.maxSimIterations > 0 then args.maxSimIterations else budget

/-- after the loop: a fault (panic) returns no trace, as unwinding does; otherwise the recorded
    events are sorted and returned -/
def finish (args : Args) (o : LoopOut σ) : SimOut σ :=
  match o.stop with
  | .fault f => ⟨[], o.stream, .fault f, none⟩
  | _ => ⟨record args o.stream, o.stream, o.stop, o.final⟩

/-- `sim_advanced(machines_client, machines_server, sq, args)` -/
def simAdvanced (budget : Nat) (mc ms : List Machine) (sq : SimQueue) (args : Args) (orc : σ) : SimOut σ :=
  match initState ρ mc ms sq args orc with
  | .error f => ⟨[], [], .fault f, none⟩
  | .ok st => finish args (loop ρ args (loopFuel args budget) st 0 0)

/-- `sim(machines_client, machines_server, sq, delay, max_trace_length, only_network_activity)` -/
def sim (budget : Nat) (mc ms : List Machine) (sq : SimQueue) (delay : Nat) (maxTraceLength : Nat)
    (onlyNetworkActivity : Bool) (orc : σ) : SimOut σ :=
  simAdvanced ρ budget mc ms sq
    { network := ⟨delay, none⟩, maxTraceLength := maxTraceLength, maxSimIterations := 0,
      continueAfterAllNormal := false, onlyClientEvents := false, onlyNetworkActivity := onlyNetworkActivity,
      fpClient := 0, fbClient := 0, fpServer := 0, fbServer := 0 } orc

end
end Mb.Sim
