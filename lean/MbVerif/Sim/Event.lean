/-
  Model of `SimEvent` (lib.rs), its `Ord`, `queue_event.rs` (`EventQueue`) and `queue.rs`
  (`SimQueue`).  No integration delays: the `integration_delay` field is always zero and is
  not carried.  Times are `Int` nanoseconds on the trace's own time axis (the arbitrary
  `starting_time` of `parse_trace` is 0).
-/
import MbVerif.Framework
import MbVerif.Generated.SimConsts
import MbVerif.Sim.Heap

namespace Mb.Sim
open Mb

/-- faults (panics) of the simulator code -/
inductive SimFault where
  | emptyQueue        -- `sq.get_first_time().unwrap()` on an empty queue
  | frameworkNew      -- `Framework::new(..).unwrap()` on invalid machines / fractions
  | divZero           -- `window / pps as u32` with `pps as u32 == 0`
  | timeBackwards     -- "BUG: next event moves time backwards"
  | noInternal        -- "BUG: no internal action found"
  | noAction          -- "BUG: no action found"
  | cancelScheduled   -- "BUG: cancel action in scheduled action"
  | timerScheduled    -- "BUG: update timer action in scheduled action"
  | unwrapNone (site : Nat)
  | durOverflow       -- checked Duration arithmetic
  | slotOob           -- `scheduled_action[machine.into_raw()]` out of bounds
  | fw (f : Fault)    -- panic inside the framework
  | fuel              -- `pick_next` recursion fuel exhausted (never: see C19)
  | diverge           -- `pick_next` would recurse forever (aggregate-delay branch with nothing to pop)
  deriving Repr, DecidableEq, Inhabited

/-- `Instant::duration_since` / `Instant - Instant`: saturating at zero.  `std::time::Instant`
    is bounded (i64 seconds), so a difference can never exceed `Duration::MAX`; on the model's
    unbounded `Int` time axis this is made explicit by clamping at `durMax`. -/
def dsince (a b : Int) : Nat := min (durSince a b) durMax

structure SimEvent where
  event : TEvent
  time : Int
  client : Bool
  containsPadding : Bool
  bypass : Bool
  replace : Bool
  deriving Repr, DecidableEq, Inhabited

/-- `event_to_usize` (lib.rs); the table is regenerated from the source by the translator -/
def eventToUsize : TEvent → Nat
  | .tunnelSent => Gen.SIM_EV_TunnelSent
  | .normalSent => Gen.SIM_EV_NormalSent
  | .paddingSent _ => Gen.SIM_EV_PaddingSent
  | .tunnelRecv => Gen.SIM_EV_TunnelRecv
  | .normalRecv => Gen.SIM_EV_NormalRecv
  | .paddingRecv => Gen.SIM_EV_PaddingRecv
  | .blockingBegin _ => Gen.SIM_EV_BlockingBegin
  | .blockingEnd => Gen.SIM_EV_BlockingEnd
  | .timerBegin _ => Gen.SIM_EV_TimerBegin
  | .timerEnd _ => Gen.SIM_EV_TimerEnd

/-- `(time, kind)` strictly before, the order underlying `SimEvent::cmp` before `.reverse()` -/
def keyLt (t1 : Int) (k1 : Nat) (t2 : Int) (k2 : Nat) : Bool :=
  t1 < t2 || (t1 == t2 && k1 < k2)

def keyLe (t1 : Int) (k1 : Nat) (t2 : Int) (k2 : Nat) : Bool :=
  t1 < t2 || (t1 == t2 && k1 ≤ k2)

namespace SimEvent

def kind (e : SimEvent) : Nat := eventToUsize e.event

/-- Rust `a <= b` for `SimEvent` (the reversed order: later or equal key) -/
def le (a b : SimEvent) : Bool := keyLe b.time b.kind a.time a.kind

/-- Rust `a > b` for `SimEvent`: strictly earlier key -/
def gt (a b : SimEvent) : Bool := keyLt a.time a.kind b.time b.kind

end SimEvent

/-- Rust `a > b` on `Option<&SimEvent>` (`None` is the least element) -/
def optGt : Option SimEvent → Option SimEvent → Bool
  | some a, some b => a.gt b
  | some _, none => true
  | none, _ => false

inductive Queue where
  | blocking | bypassable | internal | base
  deriving Repr, DecidableEq, Inhabited

abbrev EvHeap := Heap SimEvent

def EvHeap.push (h : EvHeap) (e : SimEvent) : EvHeap := Heap.push SimEvent.le h e
def EvHeap.pop (h : EvHeap) : Option (SimEvent × EvHeap) := Heap.pop SimEvent.le h

structure EventQueue where
  base : EvHeap
  blocking : EvHeap
  bypassable : EvHeap
  internal : EvHeap
  deriving Repr, DecidableEq, Inhabited

/-- `before` of queue_event.rs: `a` shifted by the aggregate delay is before or at `b` -/
def before (a b : Option SimEvent) (delaySum : Nat) : Bool :=
  match a, b with
  | some a, some b => keyLe (a.time + delaySum) a.kind b.time b.kind
  | some _, none => true
  | _, _ => false

namespace EventQueue

def empty : EventQueue := ⟨Heap.empty, Heap.empty, Heap.empty, Heap.empty⟩

def len (q : EventQueue) : Nat := q.blocking.len + q.bypassable.len + q.internal.len + q.base.len

def noNormalPackets (q : EventQueue) : Bool :=
  q.base.isEmpty
    && q.blocking.toList.all (fun e => e.event != .tunnelSent && !e.containsPadding)
    && q.bypassable.toList.all (fun e => e.event != .tunnelSent && !e.containsPadding)
    && q.internal.toList.all (fun e => e.event != .tunnelRecv && !e.containsPadding)

def push (q : EventQueue) (e : SimEvent) : EventQueue :=
  match e.event with
  | .tunnelSent => if e.bypass then { q with bypassable := q.bypassable.push e } else { q with blocking := q.blocking.push e }
  | .normalSent => { q with base := q.base.push e }
  | _ => { q with internal := q.internal.push e }

/-- `EventQueue::peek`; `none` in the first component of the result of the non-empty branch is
    the `first.unwrap()` panic (cannot happen, the queue is not empty) -/
def peek (q : EventQueue) (delaySum : Nat) (now : Int) : Except SimFault (Option SimEvent × Queue × Nat) :=
  if q.len = 0 then .ok (none, .blocking, 0) else
  let first := q.bypassable.peek
  let qi := Queue.bypassable
  let n := q.blocking.peek
  let (first, qi) := if optGt n first then (n, Queue.blocking) else (first, qi)
  let n := q.internal.peek
  let (first, qi) := if optGt n first then (n, Queue.internal) else (first, qi)
  let n := q.base.peek
  if before n first delaySum then
    match n with
    | some e => .ok (n, .base, dsince (e.time + delaySum) now)
    | none => .error (.unwrapNone 1)
  else
    match first with
    | some e => .ok (first, qi, dsince e.time now)
    | none => .error (.unwrapNone 2)

/-- `EventQueue::pop`; outer `none` = the queue was empty (`None` result), `base.pop().unwrap()`
    on an empty base heap with a non-zero delay sum is a fault -/
def pop (q : EventQueue) (qi : Queue) (delaySum : Nat) : Except SimFault (Option (SimEvent × EventQueue)) :=
  match qi with
  | .blocking => .ok ((q.blocking.pop).map fun (e, h) => (e, { q with blocking := h }))
  | .bypassable => .ok ((q.bypassable.pop).map fun (e, h) => (e, { q with bypassable := h }))
  | .internal => .ok ((q.internal.pop).map fun (e, h) => (e, { q with internal := h }))
  | .base =>
    match q.base.pop with
    | none => if delaySum = 0 then .ok none else .error (.unwrapNone 3)
    | some (e, h) => .ok (some ({ e with time := e.time + delaySum }, { q with base := h }))

def peekNonBlocking (q : EventQueue) (delaySum : Nat) : Option SimEvent × Queue :=
  let b := q.base.peek
  let i := q.internal.peek
  if before b i delaySum then (b, .base) else (i, .internal)

def firstBaseTime (q : EventQueue) : Option Int := q.base.peek.map (·.time)

/-- free function `peek_blocking` of queue.rs -/
def peekBlockingSide (q : EventQueue) (bypassable : Bool) : Option SimEvent × Queue :=
  if bypassable then (q.blocking.peek, .blocking) else
  let b := q.blocking.peek
  let bb := q.bypassable.peek
  if optGt b bb then (b, .blocking) else (bb, .bypassable)

/-- free function `peek_non_blocking` of queue.rs -/
def peekNonBlockingSide (q : EventQueue) (bypassable : Bool) (delaySum : Nat) : Option SimEvent × Queue :=
  if bypassable then
    let bb := q.bypassable.peek
    let (n, nq) := q.peekNonBlocking delaySum
    if optGt bb n then (bb, .bypassable) else (n, nq)
  else q.peekNonBlocking delaySum

end EventQueue

structure SimQueue where
  client : EventQueue
  server : EventQueue
  maxPps : Option Nat
  deriving Repr, DecidableEq, Inhabited

namespace SimQueue

def empty : SimQueue := ⟨EventQueue.empty, EventQueue.empty, none⟩
def len (s : SimQueue) : Nat := s.client.len + s.server.len
def isEmpty (s : SimQueue) : Bool := s.len == 0
def noNormalPackets (s : SimQueue) : Bool := s.client.noNormalPackets && s.server.noNormalPackets

def side (s : SimQueue) (isClient : Bool) : EventQueue := if isClient then s.client else s.server
def setSide (s : SimQueue) (isClient : Bool) (q : EventQueue) : SimQueue :=
  if isClient then { s with client := q } else { s with server := q }

def pushSim (s : SimQueue) (e : SimEvent) : SimQueue :=
  s.setSide e.client ((s.side e.client).push e)

/-- `SimQueue::peek` -/
def peek (s : SimQueue) (cSum sSum : Nat) (now : Int) : Except SimFault (Option SimEvent × Queue × Nat) :=
  if s.len = 0 then .ok (none, .blocking, 0) else do
  let (c, cq, cd) ← s.client.peek cSum now
  let (sv, sq, sd) ← s.server.peek sSum now
  match c, sv with
  | some _, none => pure (c, cq, cd)
  | none, some _ => pure (sv, sq, sd)
  | none, none => pure (none, .blocking, 0)
  | some ce, some se =>
    -- client_duration.cmp(server_duration).then(kind cmp) is Less or Equal
    if cd < sd || (cd == sd && ce.kind ≤ se.kind) then pure (c, cq, cd) else pure (sv, sq, sd)

def pop (s : SimQueue) (qi : Queue) (isClient : Bool) (delaySum : Nat) : Except SimFault (Option (SimEvent × SimQueue)) := do
  let r ← (s.side isClient).pop qi delaySum
  pure (r.map fun (e, q) => (e, s.setSide isClient q))

def peekBlocking (s : SimQueue) (bypassable isClient : Bool) : Option SimEvent × Queue :=
  (s.side isClient).peekBlockingSide bypassable

/-- `SimQueue::pop_blocking` -/
def popBlocking (s : SimQueue) (qi : Queue) (bypassable isClient : Bool) (delaySum : Nat) :
    Except SimFault (Option (SimEvent × SimQueue)) :=
  if bypassable then s.pop .blocking isClient 0 else s.pop qi isClient delaySum

def peekNonBlocking (s : SimQueue) (bypassable isClient : Bool) (delaySum : Nat) : Option SimEvent × Queue :=
  (s.side isClient).peekNonBlockingSide bypassable delaySum

def firstTime (s : SimQueue) : Option Int :=
  match s.client.firstBaseTime, s.server.firstBaseTime with
  | some c, some sv => some (min c sv)
  | some c, none => some c
  | none, some sv => some sv
  | none, none => none

end SimQueue
end Mb.Sim
