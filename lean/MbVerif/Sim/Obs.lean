/-
  Observed simulator runs (from the implementation or from the model) in the shape the
  property monitors consume.  Times of observed events are nanosecond offsets from the first
  base event of the parsed trace.
-/
import MbVerif.Sim.Main

namespace Mb.Sim
open Mb

/-- inputs shared by all runs of a case -/
structure CaseIn where
  mc : List Machine
  ms : List Machine
  /-- the raw input trace, with all direction tokens -/
  trace : List RawLine
  delay : Nat
  deriving Repr, Inhabited

/-- one call of `sim_advanced` (`adv`) or `sim` -/
structure RunIn where
  name : String
  adv : Bool
  pps : Option Nat
  args : Args
  seed : Option Nat
  deriving Repr, Inhabited

/-- result: `ok trace` or a panic class -/
inductive RunRes where
  | ok (trace : List SimEvent)
  | panic (cls : String)
  deriving Repr, DecidableEq, Inhabited

def RunRes.trace? : RunRes → Option (List SimEvent)
  | .ok t => some t
  | .panic _ => none

structure ObsRun where
  run : RunIn
  res : RunRes
  deriving Repr, Inhabited

/-- panic class of a model fault, as the harness classifies panic messages -/
def SimFault.cls : SimFault → String
  | .emptyQueue => "unwrap"
  | .frameworkNew => "fwnew"
  | .divZero => "divzero"
  | .timeBackwards => "backwards"
  | .noInternal => "nointernal"
  | .noAction => "noaction"
  | .cancelScheduled => "cancelsched"
  | .timerScheduled => "timersched"
  | .unwrapNone _ => "unwrap"
  | .durOverflow => "dur"
  | .slotOob => "oob"
  | .fw .oob => "oob"
  | .fw .durOverflow => "dur"
  | .fw .fuel => "fuel"
  | .fuel => "fuel"
  | .diverge => "diverge"

/-- the effective `Args` of a run (`sim` fixes everything but the length cap and one filter) -/
def RunIn.effArgs (r : RunIn) (delay : Nat) : Args :=
  if r.adv then { r.args with network := ⟨delay, r.pps⟩ }
  else
    { network := ⟨delay, none⟩, maxTraceLength := r.args.maxTraceLength, maxSimIterations := 0,
      continueAfterAllNormal := false, onlyClientEvents := false,
      onlyNetworkActivity := r.args.onlyNetworkActivity,
      fpClient := 0, fbClient := 0, fpServer := 0, fbServer := 0 }

/-- shift a model event to the observation time axis -/
def SimEvent.shift (t0 : Int) (e : SimEvent) : SimEvent := { e with time := e.time - t0 }

section
variable {σ : Type} (ρ : Oracle σ)

/-- run the model for one run of a case -/
def modelRun (budget : Nat) (c : CaseIn) (r : RunIn) (orc : σ) : SimOut σ × Int :=
  let sq := parseTraceRaw c.trace c.delay
  let t0 := sq.firstTime.getD 0
  (simAdvanced ρ budget c.mc c.ms sq (r.effArgs c.delay) orc, t0)

def SimOut.res {σ} (o : SimOut σ) (t0 : Int) : RunRes :=
  match o.stop with
  | .fault f => .panic f.cls
  | .loopFuel => .panic "loopfuel"
  | _ => .ok (o.trace.map (SimEvent.shift t0))

end
end Mb.Sim
