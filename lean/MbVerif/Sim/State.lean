/-
  Model of lib.rs: `SimState`, `pick_next` with `do_internal_timer` / `do_scheduled_action`,
  `trigger_update`, and of queue_peek.rs.  All integration delays are zero.
-/
import MbVerif.Sim.Network
import MbVerif.Validate

namespace Mb.Sim
open Mb

/-- `ScheduledAction` -/
structure SchedAction where
  action : TAction
  time : Int
  deriving Repr, DecidableEq, Inhabited

/-- `SimState` of one side.  The `rng` field of `fw` is not used between calls: the single
    random oracle lives in `St.orc` and is moved in and out around every framework call. -/
structure Side (σ : Type) where
  fw : Fw σ
  schedAction : List (Option SchedAction)
  schedTimer : List (Option Int)
  blockingUntil : Option Int
  blockingBypassable : Bool

/-- what the main loop observed in one iteration: the event, the network-activity flag and the
    actions the framework returned for it -/
structure StepRec where
  ev : SimEvent
  net : Bool
  acts : List TAction
  deriving Repr, DecidableEq, Inhabited

/-- the whole mutable state of `sim_advanced` -/
structure St (σ : Type) where
  sq : SimQueue
  client : Side σ
  server : Side σ
  net : Bottleneck
  now : Int
  orc : σ

namespace St
variable {σ : Type}
def side (s : St σ) (isClient : Bool) : Side σ := if isClient then s.client else s.server
def setSide (s : St σ) (isClient : Bool) (x : Side σ) : St σ :=
  if isClient then { s with client := x } else { s with server := x }
end St

/-! ### queue_peek.rs -/

/-- `peek_scheduled_action` -/
def peekScheduledAction (c s : List (Option SchedAction)) (now : Int) : Nat :=
  let f := fun (earliest : Nat) (a : Option SchedAction) =>
    match a with
    | some a => if a.time ≥ now && dsince a.time now < earliest then dsince a.time now else earliest
    | none => earliest
  s.foldl f (c.foldl f durMax)

/-- `peek_scheduled_internal_timer` -/
def peekScheduledInternalTimer (c s : List (Option Int)) (now : Int) : Nat :=
  let f := fun (earliest : Nat) (t : Option Int) =>
    match t with
    | some t => if t ≥ now && dsince t now < earliest then dsince t now else earliest
    | none => earliest
  s.foldl f (c.foldl f durMax)

/-- `peek_blocked_exp` -/
def peekBlockedExp (c s : Option Int) (now : Int) : Nat × Bool :=
  match c, s with
  | some c, some s => if c < s then (dsince c now, true) else (dsince s now, false)
  | some c, none => (dsince c now, true)
  | none, some s => (dsince s now, false)
  | none, none => (durMax, true)

/-- `peek_queue_earliest_side` -/
def peekQueueEarliestSide (sq : SimQueue) (blockingUntil : Option Int) (bypassable : Bool) (now : Int)
    (delaySum : Nat) (isClient : Bool) : Nat × Queue × Bool :=
  let (pb, bq) := sq.peekBlocking bypassable isClient
  let (pn, nq) := sq.peekNonBlocking bypassable isClient delaySum
  let bu := blockingUntil.getD now
  match pb, pn with
  | none, none => (durMax, .blocking, isClient)
  | none, some n =>
    let nt := if nq = .base then n.time + delaySum else n.time
    (dsince nt now, nq, isClient)
  | some b, none => (dsince (max b.time bu) now, bq, isClient)
  | some b, some n =>
    let nt := if nq = .base then n.time + delaySum else n.time
    let bt := max b.time bu
    let blockingFirst := if bt < nt then true else if nt < bt then false else nq != .base
    if blockingFirst then (dsince bt now, bq, isClient) else (dsince nt now, nq, isClient)

/-- `peek_queue` -/
def peekQueue {σ} (st : St σ) (earliest : Nat) : Except SimFault (Nat × Queue × Bool) :=
  if st.sq.isEmpty then .ok (durMax, .blocking, false) else do
  let (peek, queue, dur) ← st.sq.peek st.net.clientAgg st.net.serverAgg st.now
  match peek with
  | none => .error (.unwrapNone 5)
  | some peek =>
  if dur > earliest then pure (durMax, .blocking, false) else
  if peek.event != .tunnelSent then pure (dur, queue, peek.client) else
  let cb := st.client.blockingUntil.isSome
  let sb := st.server.blockingUntil.isSome
  if !cb && !sb then pure (dur, queue, peek.client) else
  if (peek.client && !cb) || (!peek.client && !sb) then pure (dur, queue, peek.client) else
  if (peek.client && cb && st.client.blockingBypassable && peek.bypass)
      || (!peek.client && sb && st.server.blockingBypassable && peek.bypass) then
    pure (dur, queue, peek.client) else
  let c := peekQueueEarliestSide st.sq st.client.blockingUntil st.client.blockingBypassable st.now st.net.clientAgg true
  let s := peekQueueEarliestSide st.sq st.server.blockingUntil st.server.blockingBypassable st.now st.net.serverAgg false
  if c.1 ≤ s.1 then pure c else pure s

/-! ### do_internal_timer / do_scheduled_action -/

/-- first index whose slot satisfies `p`, as the `for … break` loops do -/
def findSlot {α} (p : α → Bool) : List (Option α) → Nat → Option (Nat × α)
  | [], _ => none
  | some a :: r, i => if p a then some (i, a) else findSlot p r (i + 1)
  | none :: r, i => findSlot p r (i + 1)

/-- `do_internal_timer`: clears the first timer equal to `target` (client first) and returns the
    TimerEnd event -/
def doInternalTimer {σ} (st : St σ) (target : Int) : Except SimFault (SimEvent × St σ) :=
  match findSlot (fun t => t == target) st.client.schedTimer 0 with
  | some (id, _) =>
    .ok (⟨.timerEnd id, target, true, false, false, false⟩,
         { st with client := { st.client with schedTimer := st.client.schedTimer.set id none } })
  | none =>
    match findSlot (fun t => t == target) st.server.schedTimer 0 with
    | some (id, _) =>
      .ok (⟨.timerEnd id, target, false, false, false, false⟩,
           { st with server := { st.server with schedTimer := st.server.schedTimer.set id none } })
    | none => .error .noInternal

/-- the blocking update of `do_scheduled_action` for one side: new (expiry, bypassable) -/
def blockUpdate (until_ : Option Int) (bypassable : Bool) (t : Int) (durNs : Nat) (bypass replace : Bool) :
    Option Int × Bool :=
  let block := t + durNs
  if replace || block > until_.getD t then (some block, bypass) else (until_, bypassable)

/-- the slot `do_scheduled_action` executes: the first one due at `target`, client side first -/
def findAction {σ} (st : St σ) (target : Int) : Option (Bool × Nat × SchedAction) :=
  match findSlot (fun (a : SchedAction) => a.time == target) st.client.schedAction 0 with
  | some (i, a) => some (true, i, a)
  | none =>
    match findSlot (fun (a : SchedAction) => a.time == target) st.server.schedAction 0 with
    | some (i, a) => some (false, i, a)
    | none => none

/-- `do_scheduled_action` -/
def doScheduledAction {σ} (st : St σ) (target : Int) : Except SimFault (SimEvent × St σ) :=
  match findAction st target with
  | none => .error .noAction
  | some (isClient, i, a) =>
    let sd := st.side isClient
    let sd := { sd with schedAction := sd.schedAction.set i none }
    match a.action with
    | .cancel _ _ => .error .cancelScheduled
    | .updateTimer _ _ _ => .error .timerScheduled
    | .sendPadding _ bypass replace machine =>
      .ok (⟨.paddingSent machine, a.time, isClient, true, bypass, replace⟩, st.setSide isClient sd)
    | .blockOutgoing _ duration bypass replace machine =>
      let (u, b) := blockUpdate sd.blockingUntil sd.blockingBypassable a.time (duration * 1000) bypass replace
      let sd := { sd with blockingUntil := u, blockingBypassable := b }
      .ok (⟨.blockingBegin machine, a.time, isClient, false, b, false⟩, st.setSide isClient sd)

/-! ### trigger_update -/

/-- the internal-timer update of `trigger_update`: new slot value and whether TimerBegin is pushed -/
def timerUpdate (cur : Option Int) (now : Int) (durNs : Nat) (replace : Bool) : Option Int × Bool :=
  let later := match cur with
    | none => true                      -- `current.map_or(true, |c| c < now + duration)`
    | some c => decide (c < now + durNs)
  if replace || later then (some (now + durNs), true) else (cur, false)

/-- apply one returned action to the side's slots; may push a TimerBegin -/
def applyAction {σ} (sd : Side σ) (sq : SimQueue) (now : Int) (isClient : Bool) (a : TAction) :
    Except SimFault (Side σ × SimQueue) :=
  match a with
  | .cancel m timer =>
    if m ≥ sd.schedAction.length && (timer == .action || timer == .all) then .error .slotOob else
    if m ≥ sd.schedTimer.length && (timer == .internal || timer == .all) then .error .slotOob else
    match timer with
    | .action => .ok ({ sd with schedAction := sd.schedAction.set m none }, sq)
    | .internal => .ok ({ sd with schedTimer := sd.schedTimer.set m none }, sq)
    | .all => .ok ({ sd with schedAction := sd.schedAction.set m none, schedTimer := sd.schedTimer.set m none }, sq)
  | .sendPadding timeout _ _ m =>
    if m ≥ sd.schedAction.length then .error .slotOob else
    .ok ({ sd with schedAction := sd.schedAction.set m (some ⟨a, now + timeout * 1000⟩) }, sq)
  | .blockOutgoing timeout _ _ _ m =>
    if m ≥ sd.schedAction.length then .error .slotOob else
    .ok ({ sd with schedAction := sd.schedAction.set m (some ⟨a, now + timeout * 1000⟩) }, sq)
  | .updateTimer duration replace m =>
    match sd.schedTimer[m]? with
    | none => .error .slotOob
    | some cur =>
      let (v, begin_) := timerUpdate cur now (duration * 1000) replace
      if begin_ then
        .ok ({ sd with schedTimer := sd.schedTimer.set m v },
             sq.pushSim ⟨.timerBegin m, now, isClient, false, false, false⟩)
      else .ok (sd, sq)

def applyActions {σ} (sd : Side σ) (sq : SimQueue) (now : Int) (isClient : Bool) :
    List TAction → Except SimFault (Side σ × SimQueue)
  | [] => .ok (sd, sq)
  | a :: r => do
    let (sd, sq) ← applyAction sd sq now isClient a
    applyActions sd sq now isClient r

section
variable {σ : Type} (ρ : Oracle σ)

/-- `trigger_update(state, next, current_time, sq, is_client)`; also returns the actions -/
def triggerUpdate (st : St σ) (next : SimEvent) : Except SimFault (List TAction × St σ) :=
  let sd := st.side next.client
  let fw := triggerEvents ρ [next.event] st.now { sd.fw with rng := st.orc, log := [] }
  match fw.fault with
  | some f => .error (.fw f)
  | none => do
    let acts := fw.actionsOut
    let (sd, sq) ← applyActions { sd with fw := fw } st.sq st.now next.client acts
    pure (acts, { (st.setSide next.client sd) with sq := sq, orc := fw.rng })

/-! ### pick_next -/

/-- the number of pending things one `pick_next` recursion step removes: fuel `pickMeasure + 1`
    is never exhausted (theorem in C19) -/
def pickMeasure (st : St σ) : Nat :=
  st.net.aggQueue.len
    + (st.client.schedTimer.filter Option.isSome).length + (st.server.schedTimer.filter Option.isSome).length
    + (st.client.schedAction.filter Option.isSome).length + (st.server.schedAction.filter Option.isSome).length

/-- which branch `pick_next` takes -/
inductive Pick where
  | nothing
  | agg
  | blockExp (b : Nat) (isClient : Bool)
  | queue (q : Nat) (qid : Queue) (isClient : Bool)
  | timer (i : Nat)
  | action (s : Nat)
  deriving Repr, DecidableEq, Inhabited

/-- the five candidate offsets and the priority n, b, q, i, s of `pick_next` -/
def pickDecide (st : St σ) : Except SimFault Pick := do
  let now := st.now
  let s := peekScheduledAction st.client.schedAction st.server.schedAction now
  let i := peekScheduledInternalTimer st.client.schedTimer st.server.schedTimer now
  let (b, bIsClient) := peekBlockedExp st.client.blockingUntil st.server.blockingUntil now
  let n := st.net.peekAggregateDelay now
  let (q, qid, qIsClient) ← peekQueue st (min (min (min s i) b) n)
  if s = durMax && i = durMax && b = durMax && n = durMax && q = durMax then pure .nothing
  else if n ≤ s && n ≤ i && n ≤ b && n ≤ q then pure .agg
  else if b ≤ s && b ≤ i && b ≤ q then pure (.blockExp b bIsClient)
  else if q ≤ s && q ≤ i then pure (.queue q qid qIsClient)
  else if i ≤ s then pure (.timer i)
  else pure (.action s)

/-- branch "aggregate delay": pop it and pick again.  `pop_aggregate_delay` on an empty queue
    changes nothing, so `pick_next` would call itself forever with the same state: that is the
    fault `diverge` (unreachable: the branch needs `n` minimal and not all candidates `MAX`). -/
def pickAgg (st : St σ) : Except SimFault (St σ) :=
  if st.net.aggQueue.len = 0 then .error .diverge else do
  let net ← st.net.popAggregateDelay
  pure { st with net := net }

/-- the aggregate delay, if any, queued when the blocking of a side expires at `expiry` -/
def blockExpNet (sq : SimQueue) (net : Bottleneck) (bIsClient : Bool) (expiry : Int) : Except SimFault Bottleneck :=
  match (sq.peekBlocking false bIsClient).1 with
  | some ev =>
    if ev.time < expiry then
      match aggDelayOnBlockingExpire sq bIsClient expiry ev (net.agg bIsClient) with
      | some bd => net.pushAggregateDelay bd expiry bIsClient
      | none => pure net
    else pure net
  | none => pure net

/-- branch "blocking expiry": clear the expiry, maybe queue an aggregate delay, emit BlockingEnd -/
def pickBlockExp (st : St σ) (b : Nat) (bIsClient : Bool) : Except SimFault (SimEvent × St σ) := do
  let net ← blockExpNet st.sq st.net bIsClient (st.now + b)
  pure (⟨.blockingEnd, st.now + b, bIsClient, false, false, false⟩,
        { (st.setSide bIsClient { (st.side bIsClient) with blockingUntil := none }) with net := net })

/-- branch "queue": pop the peeked event, moved forward in time if blocking delayed it -/
def pickQueue (st : St σ) (q : Nat) (qid : Queue) (qIsClient : Bool) : Except SimFault (SimEvent × St σ) := do
  let r ← st.sq.pop qid qIsClient (st.net.agg qIsClient)
  match r with
  | none => .error (.unwrapNone 6)
  | some (tmp, sq) =>
    let moved := st.now + q > tmp.time
    let tmp := if moved then { tmp with time := st.now + q } else tmp
    let net := if moved then { st.net with ghost := { st.net.ghost with movedByBlocking := st.net.ghost.movedByBlocking + 1 } } else st.net
    pure (tmp, { st with sq := sq, net := net })

/-- branch "internal timer": turn the due timer into a queued TimerEnd and pick again -/
def pickTimer (st : St σ) (i : Nat) : Except SimFault (St σ) := do
  let (ev, st) ← doInternalTimer st (st.now + i)
  pure { st with sq := st.sq.pushSim ev }

/-- branch "scheduled action": execute the due action, queue its event and pick again -/
def pickAction (st : St σ) (s : Nat) : Except SimFault (St σ) := do
  let (ev, st) ← doScheduledAction st (st.now + s)
  pure { st with sq := st.sq.pushSim ev }

/-- `pick_next`, structural on fuel; `none` = the fuel ran out (never with fuel
    `pickMeasure st + 1`, theorem `C19_pickNext_fuel`) -/
def pickNext : Nat → St σ → Option (Except SimFault (Option SimEvent × St σ))
  | 0, _ => none
  | fuel + 1, st =>
    match pickDecide st with
    | .error f => some (.error f)
    | .ok .nothing => some (.ok (none, st))
    | .ok .agg =>
      match pickAgg st with
      | .error f => some (.error f)
      | .ok st => pickNext fuel st
    | .ok (.blockExp b c) =>
      match pickBlockExp st b c with
      | .error f => some (.error f)
      | .ok (e, st) => some (.ok (some e, st))
    | .ok (.queue q qid c) =>
      match pickQueue st q qid c with
      | .error f => some (.error f)
      | .ok (e, st) => some (.ok (some e, st))
    | .ok (.timer i) =>
      match pickTimer st i with
      | .error f => some (.error f)
      | .ok st => pickNext fuel st
    | .ok (.action s) =>
      match pickAction st s with
      | .error f => some (.error f)
      | .ok st => pickNext fuel st

end
end Mb.Sim
