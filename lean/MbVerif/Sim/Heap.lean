/-
  Bit-faithful model of `std::collections::BinaryHeap` (alloc/src/collections/binary_heap/mod.rs)
  as a list in the heap's array layout.

  * `push`  = append, then `sift_up(0, old_len)`
  * `pop`   = remove the last element; if the heap is not empty afterwards swap it with the
              root, `sift_down_to_bottom(0)` (walk the hole down to a leaf always taking the
              greater child, `<=` preferring the right one, then `sift_up` from there)
  * `peek`  = element 0

  The comparison is the Rust `<=` of the element type, passed as `le`.  Ties between equal keys
  are decided by the layout, which is why the layout is modelled and not just a priority queue.
  All loops are structural on a fuel argument that is instantiated with the length of the list
  (positions strictly decrease / increase, so it is never exhausted).
-/
namespace Mb.Sim

structure Heap (α : Type) where
  data : List α
  deriving Repr, DecidableEq, Inhabited

namespace Heap
variable {α : Type}

def empty : Heap α := ⟨[]⟩
def len (h : Heap α) : Nat := h.data.length
def isEmpty (h : Heap α) : Bool := h.data.isEmpty
def peek (h : Heap α) : Option α := h.data.head?
/-- iteration order of `BinaryHeap::iter` is the layout order -/
def toList (h : Heap α) : List α := h.data

/-- `sift_up(start, pos)` with the moving element `x` held outside the list (the `Hole`) -/
def siftUp (le : α → α → Bool) (x : α) : Nat → List α → Nat → Nat → List α
  | 0, d, _, pos => d.set pos x
  | fuel + 1, d, start, pos =>
    if pos > start then
      let parent := (pos - 1) / 2
      match d[parent]? with
      | none => d.set pos x
      | some p => if le x p then d.set pos x else siftUp le x fuel (d.set pos p) start parent
    else d.set pos x

def push (le : α → α → Bool) (h : Heap α) (x : α) : Heap α :=
  let old := h.data.length
  ⟨siftUp le x (old + 1) (h.data ++ [x]) 0 old⟩

/-- the descent of `sift_down_to_bottom`: returns the list and the final hole position -/
def siftDownLoop (le : α → α → Bool) : Nat → List α → Nat → Nat → List α × Nat
  | 0, d, _, hole => (d, hole)
  | fuel + 1, d, endd, hole =>
    let child := 2 * hole + 1
    if child ≤ endd - 2 then
      match d[child]?, d[child + 1]? with
      | some a, some b =>
        let c := if le a b then child + 1 else child
        let v := if le a b then b else a
        siftDownLoop le fuel (d.set hole v) endd c
      | _, _ => (d, hole)
    else if child + 1 = endd then
      match d[child]? with
      | some a => (d.set hole a, child)
      | none => (d, hole)
    else (d, hole)

/-- `sift_down_to_bottom(0)` for the element `x` placed at the root -/
def siftDownToBottom (le : α → α → Bool) (x : α) (d : List α) : List α :=
  let endd := d.length
  let (d, hole) := siftDownLoop le endd d endd 0
  siftUp le x (endd + 1) d 0 hole

def pop (le : α → α → Bool) (h : Heap α) : Option (α × Heap α) :=
  match h.data.getLast? with
  | none => none
  | some last =>
    let rest := h.data.dropLast
    match rest with
    | [] => some (last, ⟨[]⟩)
    | root :: _ => some (root, ⟨siftDownToBottom le last rest⟩)

end Heap
end Mb.Sim
